----------------------------- MODULE Decode_Gen -----------------------------
(* S->C for C08: the specification writes the adversarial bags of cells.       *)
(* seeds.ndjson holds valid encodings of TL-B values (cell tables recorded by  *)
(* the driver, labelled with their type).  For every seed, every cell in turn  *)
(* is replaced by                                                              *)
(*   a pruned branch carrying the hash and depth of the subtree it replaces    *)
(*     (what a lite server's Merkle proof contains), one with a wrong hash,    *)
(*     one with three levels, one too short for its mask;                      *)
(*   a library cell, and one without room for its hash;                        *)
(*   a cell flagged exotic whose type byte is unknown (0xff), or whatever      *)
(*     byte the data happened to start with; a Merkle-proof header in place of *)
(*     the cell;                                                               *)
(*   an ordinary cell of a conforming bag that no longer carries a value of the *)
(*     type: its last / first / every reference removed, its last reference     *)
(*     repeated, its first and last references exchanged, its data cut to       *)
(*     0 / 1 / 16 / 32 / half / all-but-one bits;                               *)
(* the bag is also written with no root and with two roots, and with its root   *)
(* wrapped in a Merkle-proof cell (hash and depth of the root computed by        *)
(* Cells!InfoTable) as a lite server sends proofs - alone and as the second of   *)
(* two roots, the shape of an account-state proof.  The bytes                    *)
(* are produced by the reference writer Boc!Write; every mutant is labelled    *)
(* with its class, the seed and the cell.  The Go side parses each bag with    *)
(* the library's reader - the path data from the network takes - and decodes   *)
(* the root as the type the seed was a value of.                               *)
EXTENDS Boc, Json

Seeds == ndJsonDeserialize("seeds.ndjson")

Rep(n, v) == [i \in 1..n |-> v]
ExoticClasses == {"pruned", "pruned_wronghash", "pruned_mask7", "pruned_short", "library", "library_short",
                  "exotic_ff", "exotic_flag", "merkle_hdr"}
\* the cell stays an ordinary cell of a conforming bag; the value it is part of no longer is one of its type
RefClasses  == {"drop_last_ref", "drop_first_ref", "drop_all_refs", "dup_ref", "swap_refs"}
CutClasses  == {"cut_bits_0", "cut_bits_1", "cut_bits_16", "cut_bits_32", "cut_bits_half", "cut_bits_last"}   \* data truncated to k bits
CellClasses == ExoticClasses \cup RefClasses \cup CutClasses
BagClasses  == {"same", "roots0", "roots2", "roots2same", "mp_root", "mp_pair"}     \* "same": the seed itself, unchanged

TableOf(s) == FromJson(s.cells)

\* drop what is no longer reachable from cell 1 and renumber (references point forward, so one ascending pass finds everything)
Compact(T) ==
  LET n == Len(T)
      R == FoldLeft(LAMBDA acc, i : IF i \in acc THEN acc \cup {T[i].r[j] : j \in 1..Len(T[i].r)} ELSE acc, {1}, [i \in 1..n |-> i])
      new(i) == Cardinality({j \in R : j <= i})
      old == SetToSortSeq(R, <)
  IN [p \in 1..Len(old) |-> [T[old[p]] EXCEPT !.r = [j \in 1..Len(T[old[p]].r) |-> new(T[old[p]].r[j])]]]

Cut(b, n) == IF Len(b) > n THEN SubSeq(b, 1, n) ELSE b
CutAt(c, cls) == CASE cls = "cut_bits_0" -> 0 [] cls = "cut_bits_1" -> 1 [] cls = "cut_bits_16" -> 16 [] cls = "cut_bits_32" -> 32
                   [] cls = "cut_bits_half" -> Len(c.b) \div 2 [] cls = "cut_bits_last" -> Len(c.b) - 1
NewCell(T, k, cls) ==
  LET c == T[k]
      I == InfoTable(T) IN
  CASE cls = "pruned" -> [b |-> BytesToBits(<<1, 1>> \o I[k].h[1] \o U16(I[k].d[1])), x |-> Pruned, r |-> <<>>, m |-> 1]
    [] cls = "pruned_wronghash" -> [b |-> BytesToBits(<<1, 1>> \o Rep(32, 85) \o <<0, 1>>), x |-> Pruned, r |-> <<>>, m |-> 1]
    [] cls = "pruned_mask7" -> [b |-> BytesToBits(<<1, 7>> \o Rep(32, 17) \o Rep(32, 34) \o Rep(32, 51) \o <<0, 1, 0, 2, 0, 3>>), x |-> Pruned, r |-> <<>>, m |-> 7]
    [] cls = "pruned_short" -> [b |-> BytesToBits(<<1, 3>> \o Rep(10, 9)), x |-> Pruned, r |-> <<>>, m |-> 3]
    [] cls = "library" -> [b |-> BytesToBits(<<2>> \o Rep(32, 171)), x |-> Library, r |-> <<>>, m |-> 0]
    [] cls = "library_short" -> [b |-> BytesToBits(<<2>> \o Rep(5, 171)), x |-> Library, r |-> <<>>, m |-> 0]
    [] cls = "exotic_ff" -> [c EXCEPT !.b = Cut(BytesToBits(<<255>>) \o c.b, 1023), !.x = 5]
    [] cls = "exotic_flag" -> [c EXCEPT !.x = 5]
    [] cls = "merkle_hdr" -> [c EXCEPT !.b = BytesToBits(<<3>> \o Rep(32, 204) \o <<0, 1>>), !.x = MerkleProof]
    [] cls = "drop_last_ref"  -> [c EXCEPT !.r = SubSeq(c.r, 1, Len(c.r) - 1)]
    [] cls = "drop_first_ref" -> [c EXCEPT !.r = SubSeq(c.r, 2, Len(c.r))]
    [] cls = "drop_all_refs"  -> [c EXCEPT !.r = <<>>]
    [] cls = "dup_ref"        -> [c EXCEPT !.r = Append(c.r, c.r[Len(c.r)])]
    [] cls = "swap_refs"      -> [c EXCEPT !.r = [j \in 1..Len(c.r) |-> IF j = 1 THEN c.r[Len(c.r)] ELSE IF j = Len(c.r) THEN c.r[1] ELSE c.r[j]]]
    [] cls \in CutClasses     -> [c EXCEPT !.b = SubSeq(c.b, 1, CutAt(c, cls))]

\* masks of the mutated table: pruned branches carry their own, everything above follows from the children
Remask(T) == WithMasks([i \in 1..Len(T) |-> [T[i] EXCEPT !.m = -1]])

\* the table with a Merkle-proof cell on top of its root
Wrapped(T) ==
  LET I == InfoTable(T)
      mp == [b |-> BytesToBits(<<3>> \o I[1].h[1] \o U16(I[1].d[1])), x |-> MerkleProof, r |-> <<2>>, m |-> -1]
      sh == [i \in 1..Len(T) |-> [T[i] EXCEPT !.r = [j \in 1..Len(T[i].r) |-> T[i].r[j] + 1]]]
  IN Remask(<<mp>> \o sh)

Applicable(T, k, cls) ==
  LET c == T[k] IN
  CASE cls = "exotic_flag" -> Len(c.b) >= 8
    [] cls \in {"drop_last_ref", "drop_first_ref"} -> Len(c.r) >= 1
    [] cls = "drop_all_refs" -> Len(c.r) >= 2                  \* (with one reference it is drop_last_ref)
    [] cls = "dup_ref"   -> Len(c.r) \in 1..3
    [] cls = "swap_refs" -> Len(c.r) >= 2 /\ c.r[1] # c.r[Len(c.r)]
    [] cls \in CutClasses -> c.x = Ordinary /\ CutAt(c, cls) >= 0 /\ CutAt(c, cls) < Len(c.b)
                             /\ (cls \in {"cut_bits_half", "cut_bits_last"} => CutAt(c, cls) \notin {0, 1, 16, 32})
    [] OTHER -> TRUE

Choice(i) == [magic |-> "generic", idx |-> (i % 2 = 0), crc |-> (i % 3 = 0), cache |-> FALSE, size |-> 1, ob |-> 2, hashes |-> FALSE]

VARIABLES s, k, cls, out
Mutant ==
  LET T == TableOf(Seeds[s]) IN
  IF cls \in {"mp_root", "mp_pair"}
    THEN Write(Wrapped(T), IF cls = "mp_root" THEN <<1>> ELSE <<1, 1>>, Choice(s))
  ELSE IF cls \in BagClasses
    THEN Write(T, CASE cls = "roots0" -> <<>> [] cls = "roots2" -> <<1, 2>> [] cls = "same" -> <<1>> [] OTHER -> <<1, 1>>, Choice(s))
    ELSE Write(Remask(Compact([T EXCEPT ![k] = NewCell(T, k, cls)])), <<1>>, Choice(s + k))

Init == /\ s \in 1..Len(Seeds)
        /\ k \in 1..Len(Seeds[s].cells)
        /\ cls \in CellClasses \cup BagClasses
        /\ (cls \in BagClasses => k = 1 /\ (cls = "roots2" => Len(Seeds[s].cells) >= 2))
        /\ (cls \in CellClasses => Applicable(TableOf(Seeds[s]), k, cls))
        /\ out = "todo"
Next == /\ out = "todo" /\ out' = "done" /\ UNCHANGED <<s, k, cls>>
        /\ PrintT(<<"VEC", ToJson([type |-> Seeds[s].type, seed |-> Seeds[s].seed, cell |-> k, class |-> cls,
                                   boc |-> BytesToHex(Mutant)])>>)
Spec == Init /\ [][Next]_<<s, k, cls, out>>
=============================================================================
