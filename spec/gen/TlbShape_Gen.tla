---------------------------- MODULE TlbShape_Gen ----------------------------
(* S->C for the TL-B half of C09 (programs x inputs): TLC enumerates TL-B       *)
(* declaration shapes over the constructs tlb/parser supports and abi/schemas   *)
(* use, and values of every generated type with the cell TlbMini requires.      *)
(*   kinds: uintN, intN, bitsN, (## N), Bool, Maybe T, Maybe ^T, Either L R      *)
(*          (incl. the X / ^X form), ^T, ^[ anonymous ], references to a tagged  *)
(*          record, an untagged record, a $-tagged and a #-tagged union,         *)
(*          HashmapE n V with inline, referenced and record values               *)
(* Shape n < |Alphabet| is the single-field shape of kind n+1; larger n are      *)
(* sequences of 2..4 kinds drawn from CRC32(Seed, n).  Schema of a shape:        *)
(* Inner (#a1), NoTag, Alt ($00 $01 $1), Hx (#1234 #5678abcd), Main = the shape  *)
(* under a tag that cycles through #deadbeef, #a1, $101, none, #0c5, and Un =     *)
(* 2..3 constructors ($0 $10 $11) carrying rotations of the shape.               *)
(*                                                                               *)
(* The Either family (shape numbers EBase + e, e < 96) enumerates the placement  *)
(* of ^ around Either: for the type pairs (X, Y) = (Inner, uint16) and           *)
(* (uint8, Alt), every (Either l r) with l, r in {X, ^X, Y, ^Y} (same and        *)
(* different types; reference on the left only, on the right only, on both sides,*)
(* on none), each (0) as the only field, (1) under Maybe, (2) between other       *)
(* fields (bits and a reference before, a reference and a bit after, so a        *)
(* reference that ends up in the wrong place also disturbs the order).  Values   *)
(* of these schemas take the two sides in turn (and `nothing` under Maybe) by    *)
(* vector number instead of by CRC.  Where the two sides differ in ^, a vector   *)
(* also carries `wrong`: the cell of the same value under the declaration with   *)
(* the ^ moved to the other side -- an expectation every judge must refuse       *)
(* (TlbMini!Matches refuses it here; the check feeds it to the driver and to     *)
(* TlbMini_Trace as canaries).                                                   *)
(*                                                                               *)
(* The unnamed-field family (shape numbers ABase + a, a < 32): a field written   *)
(* without `name:` -- every form the grammar allows: ^X (X a record, a builtin), *)
(* ^[ ... ], plain X (a record, a union), (Maybe ^X), (Maybe X), (Either X ^X) -- *)
(* as the only field, first, in the middle and last among named fields (which    *)
(* include references, so a reference that is lost or misplaced also disturbs    *)
(* the order).  The layout is TlbMini's as for a named field: a name changes     *)
(* nothing, an unnamed ^ is a reference to a new cell.  The field carries        *)
(* anon |-> TRUE in the AST (the runner leaves its name out of the .tlb text;    *)
(* the name is only the key of the value record).  `wrong` here is the cell with *)
(* the unnamed field's ^ dropped (inline instead of referenced).                 *)
(*                                                                               *)
(* The VarUInteger family (shape numbers VBase + n - 1, n = 1..33): a field      *)
(* (VarUInteger n) between two named fields, for every n the library's integer   *)
(* templates are instantiated with and one more; values by vector number: 0, the *)
(* largest length n - 1, one byte, a drawn length, top byte 0x01 / top bit set.  *)
(* The runner compiles the schemas against the OUTPUT of the integer templates   *)
(* (GenerateVarUintTypes, GenerateConstantInts, GenerateConstantBigInts,         *)
(* GenerateBitsTypes), not against the checked-in integers.go.  `wrong` here is  *)
(* the cell under (VarUInteger n+1): its length field is one bit wider exactly   *)
(* when n is a power of two.                                                     *)
(*                                                                               *)
(* The (## n) family (shape numbers NBase + i, i < 8): fields (## 8i+1) ..       *)
(* (## 8i+8), each followed by the next and a closing Bool -- every n in 1..64,  *)
(* so every width next to a machine word width and every multiple of 8 is there. *)
(* `wrong` = the cell with each width rounded up to the next of 8/16/32/64.      *)
EXTENDS TlbMini, Json, FiniteSets, TlChoice
CONSTANTS Seed, Ns, PerSchema
VARIABLE k

U(n)  == [t |-> "uint", n |-> n]
I(n)  == [t |-> "int", n |-> n]
Bt(n) == [t |-> "bits", n |-> n]
N(n)  == [t |-> "nat", n |-> n]
Bo    == [t |-> "bool"]
Mb(x) == [t |-> "maybe", of |-> x]
Ei(l, r) == [t |-> "either", l |-> l, r |-> r]
Rf(x) == [t |-> "ref", of |-> x]
Nm(s) == [t |-> "named", name |-> s]
Di(n, v) == [t |-> "dict", n |-> n, val |-> v]
An(fs) == [t |-> "anon", fields |-> fs]
F(nm, ty) == [name |-> nm, ty |-> ty]

Alphabet == <<U(1), U(8), U(13), U(16), U(32), U(48), U(64), U(128), U(256),
              I(7), I(8), I(16), I(32), I(64), I(257), Bt(96), Bt(256), N(1), N(5), N(10), N(32), Bo,
              Mb(U(7)), Mb(Rf(Nm("Inner"))), Mb(Nm("Inner")), Mb(Nm("Alt")),
              Ei(U(8), Rf(U(8))), Ei(Nm("Inner"), Rf(Nm("Inner"))), Ei(Nm("Inner"), Nm("Alt")), Ei(U(8), Rf(U(16))), Ei(Rf(Nm("Inner")), U(8)),
              Rf(Nm("Inner")), Rf(U(32)), Rf(Nm("Alt")), Rf(An(<<F("p", U(8)), F("q", I(8))>>)),
              Nm("Inner"), Nm("NoTag"), Nm("Alt"), Nm("Hx"),
              Di(8, U(9)), Di(16, Rf(Nm("Inner"))), Di(32, Nm("Inner")), Di(256, U(1))>>
NA == Len(Alphabet)

\* ---- the Either family: e = pair * 48 + context * 16 + left * 4 + right
EBase  == 9000000
ECount == 96
EPairs == << <<Nm("Inner"), U(16)>>, <<U(8), Nm("Alt")>> >>
ESides(p) == <<p[1], Rf(p[1]), p[2], Rf(p[2])>>
IsE(n)  == n >= EBase /\ n < EBase + ECount
ECtx(e) == (e % 48) \div 16
EiOf(e) == LET s == ESides(EPairs[(e \div 48) + 1]) IN Ei(s[((e % 16) \div 4) + 1], s[(e % 4) + 1])
EShape(e) == CASE ECtx(e) = 0 -> <<EiOf(e)>>
               [] ECtx(e) = 1 -> <<Mb(EiOf(e))>>
               [] ECtx(e) = 2 -> <<U(13), Rf(U(32)), EiOf(e), Rf(Nm("NoTag")), Bo>>
EField(e) == IF ECtx(e) = 2 THEN "f3" ELSE "f1"          \* where Main keeps the Either

\* ---- the unnamed-field family: a = kind * 4 + position (0 alone, 1 first, 2 middle, 3 last)
ABase  == 9100000
AKinds == <<Rf(Nm("Inner")), Rf(U(32)), Rf(An(<<F("p", U(8)), F("q", I(8))>>)), Nm("Inner"), Nm("Alt"),
            Mb(Rf(Nm("Inner"))), Mb(Nm("Inner")), Ei(Nm("Inner"), Rf(Nm("Inner")))>>
ACount == 4 * Len(AKinds)
IsA(n)   == n >= ABase /\ n < ABase + ACount
AKind(a) == AKinds[(a \div 4) + 1]
AIdx(a)  == IF a % 4 < 2 THEN 1 ELSE 3                    \* where the unnamed field stands in Main
AShape(a) == CASE a % 4 = 0 -> <<AKind(a)>>
               [] a % 4 = 1 -> <<AKind(a), U(13), Rf(U(32))>>
               [] a % 4 = 2 -> <<U(13), Rf(U(32)), AKind(a), Rf(Nm("NoTag")), Bo>>
               [] a % 4 = 3 -> <<U(13), Rf(U(32)), AKind(a)>>
AnonIdx(n) == IF IsA(n) THEN {AIdx(n - ABase)} ELSE {}
\* ---- the VarUInteger family: n = 1..VCount
VBase  == 9200000
VCount == 33
IsV(n) == n >= VBase /\ n < VBase + VCount
Vu(n)  == [t |-> "varuint", n |-> n]
RECURSIVE IsPow2(_)
IsPow2(n) == n = 1 \/ (n > 1 /\ n % 2 = 0 /\ IsPow2(n \div 2))
VShape(m) == <<U(3), Vu(m), Bo>>
\* ---- the (## n) family: schema i holds n = 8i+1 .. 8i+8
NBase  == 9300000
NCount == 8
IsN(n) == n >= NBase /\ n < NBase + NCount
NShape(i) == [j \in 1..8 |-> N(8 * i + j)] \o <<Bo>>
NextWord(n) == IF n <= 8 THEN 8 ELSE IF n <= 16 THEN 16 ELSE IF n <= 32 THEN 32 ELSE 64
IsFam(n)   == IsE(n) \/ IsA(n) \/ IsV(n) \/ IsN(n)

Shape(n) == IF n < NA THEN <<Alphabet[n + 1]>>
            ELSE IF IsE(n) THEN EShape(n - EBase)
            ELSE IF IsA(n) THEN AShape(n - ABase)
            ELSE IF IsV(n) THEN VShape(n - VBase + 1)
            ELSE IF IsN(n) THEN NShape(n - NBase)
            ELSE LET ctx == B4(Seed) \o B4(n) \o <<78>>  len == 2 + Pick(ctx, 3)
                 IN [i \in 1..len |-> Alphabet[Pick(ctx \o <<i>>, NA) + 1]]

\* the same declaration with the ^ of the two sides of every Either exchanged (types stay where they are)
StripRef(ty) == IF ty.t = "ref" THEN ty.of ELSE ty
SwapEi(ty)   == Ei(IF ty.r.t = "ref" THEN Rf(StripRef(ty.l)) ELSE StripRef(ty.l),
                   IF ty.l.t = "ref" THEN Rf(StripRef(ty.r)) ELSE StripRef(ty.r))
SwapTy(ty)   == IF ty.t = "either" THEN SwapEi(ty)
                ELSE IF ty.t = "maybe" /\ ty.of.t = "either" THEN Mb(SwapEi(ty.of)) ELSE ty
SwapShape(sh) == [i \in 1..Len(sh) |-> SwapTy(sh[i])]
\* a field's type with its own ^ dropped: what is declared to sit in a new cell is put inline
Inline(ty) == CASE ty.t = "ref" -> ty.of
                [] ty.t = "maybe"  -> Mb(StripRef(ty.of))
                [] ty.t = "either" -> Ei(StripRef(ty.l), StripRef(ty.r))
                [] OTHER -> ty
OwnRef(ty) == Inline(ty) # ty
\* the declaration every judge must refuse for values of shape n: E family ^ exchanged, A family unnamed ^ dropped
WrongShape(n) == IF IsN(n) THEN [j \in 1..Len(Shape(n)) |-> IF Shape(n)[j].t = "nat" THEN N(NextWord(Shape(n)[j].n)) ELSE Shape(n)[j]]
                 ELSE IF IsV(n) THEN <<U(3), Vu(n - VBase + 2), Bo>>
                 ELSE IF IsA(n) THEN [i \in 1..Len(Shape(n)) |-> IF i \in AnonIdx(n) THEN Inline(Shape(n)[i]) ELSE Shape(n)[i]]
                 ELSE SwapShape(Shape(n))

\* label of a kind = its TL-B text, except that an Either with ^ in an unusual place is labelled by its class (EiClass)
RECURSIVE TyText(_)
TyText(ty) ==
  CASE ty.t \in {"uint", "int", "bits"} -> StrCat(ty.t, ToString(ty.n))
    [] ty.t = "varuint" -> StrCat("(VarUInteger ", StrCat(ToString(ty.n), ")"))
    [] ty.t = "nat"    -> StrCat("(## ", StrCat(ToString(ty.n), ")"))
    [] ty.t = "bool"   -> "Bool"
    [] ty.t = "maybe"  -> StrCat("(Maybe ", StrCat(TyText(ty.of), ")"))
    [] ty.t = "either" -> StrCat("(Either ", StrCat(TyText(ty.l), StrCat(" ", StrCat(TyText(ty.r), ")"))))
    [] ty.t = "ref"    -> StrCat("^", TyText(ty.of))
    [] ty.t = "anon"   -> "[anon]"
    [] ty.t = "named"  -> ty.name
    [] ty.t = "dict"   -> StrCat("(HashmapE ", StrCat(ToString(ty.n), StrCat(" ", StrCat(TyText(ty.val), ")"))))
\* classes of Either by where the ^ stands; the classic forms (no ^, X / ^X) keep their text
EiClass(ty) ==
  LET lr == ty.l.t = "ref"  rr == ty.r.t = "ref"  same == TyText(StripRef(ty.l)) = TyText(StripRef(ty.r)) IN
  IF ~lr /\ ~rr THEN TyText(ty)
  ELSE IF same THEN (IF ~lr THEN TyText(ty) ELSE IF ~rr THEN "Either-same-type-^-on-the-left-only" ELSE "Either-same-type-^-on-both-sides")
  ELSE IF lr /\ rr THEN "Either-different-types-^-on-both-sides"
  ELSE "Either-with-^-on-one-side-of-different-types"
KLabel(ty) ==
  IF ty.t = "either" THEN EiClass(ty)
  ELSE IF ty.t = "nat" /\ IsN(k) THEN (IF ty.n \in {8, 16, 32, 64} THEN "(## machine-word)" ELSE IF ty.n % 8 = 0 THEN "(## 8k)" ELSE "(## n)")
  ELSE IF ty.t = "varuint" THEN (IF IsPow2(ty.n) THEN "(VarUInteger 2^k)" ELSE "(VarUInteger n)")     \* two classes: the len field is ceil(log2 n) bits
  ELSE IF ty.t = "maybe" /\ ty.of.t = "either" /\ EiClass(ty.of) # TyText(ty.of) THEN EiClass(ty.of)     \* the class also when nested under Maybe
  ELSE TyText(ty)
\* unnamed fields: every unnamed ^ is one class, every unnamed Maybe another, the other forms keep their text
ALabel(ty) == IF ty.t = "ref" THEN "unnamed-^-field" ELSE IF ty.t = "maybe" THEN "unnamed-Maybe-field" ELSE StrCat("unnamed ", TyText(ty))
KLabelAt(n, i) == IF i \in AnonIdx(n) THEN ALabel(Shape(n)[i]) ELSE KLabel(Shape(n)[i])

\* fields of shape sh rotated by r; the positions in `anon` (of sh) are unnamed fields
FieldsR(sh, r, anon) == [i \in 1..Len(sh) |->
                          LET src == ((i - 1 + r) % Len(sh)) + 1  nm == StrCat("f", ToString(i)) IN
                          IF src \in anon THEN [name |-> nm, ty |-> sh[src], anon |-> TRUE] ELSE F(nm, sh[src])]
MainTags == <<"#deadbeef", "#a1", "$101", "", "#0c5">>
D(c, tag, res, fs) == [ctor |-> c, tag |-> tag, result |-> res, fields |-> fs]
SchemaForA(n, sh, anon) ==
  LET ku == 2 + (n % 2) IN
  [decls |->
     <<D("inner", "#a1", "Inner", <<F("a", U(8)), F("b", I(32))>>),
       D("notag", "", "NoTag", <<F("a", U(8))>>),
       D("alt_a", "$00", "Alt", <<F("x", U(16))>>),
       D("alt_b", "$01", "Alt", <<F("y", N(5)), F("z", Bt(96))>>),
       D("alt_c", "$1", "Alt", <<>>),
       D("hx_a", "#1234", "Hx", <<F("q", U(3))>>),
       D("hx_b", "#5678abcd", "Hx", <<F("r", I(7))>>),
       D("main", MainTags[(n % Len(MainTags)) + 1], "Main", FieldsR(sh, 0, anon))>>
     \o [i \in 1..ku |-> D(StrCat("un_", SubStr("abc", i, i)), <<"$0", "$10", "$11">>[i], "Un", FieldsR(sh, i - 1, anon))]]
SchemaFor(n, sh) == SchemaForA(n, sh, AnonIdx(n))
SchemaOf(n) == SchemaFor(n, Shape(n))

\* ------------------------------------------------------------------ values
UDec(b) == IF \A i \in 1..Len(b) : b[i] = 0 THEN "0" ELSE BitsToDec(b)
PatBits(ctx, n) == LET x == Pick(ctx \o <<20>>, 6) IN
                   IF x = 0 THEN [i \in 1..n |-> 0] ELSE IF x = 1 THEN [i \in 1..n |-> 1]
                   ELSE IF x = 2 THEN [i \in 1..n |-> IF i = 1 THEN 1 ELSE 0] ELSE RBits(ctx \o <<21>>, n)
BLess(a, b) == \E i \in 1..Len(a) : a[i] < b[i] /\ \A j \in 1..(i - 1) : a[j] = b[j]
RECURSIVE SortBits(_)
SortBits(set) == IF set = {} THEN <<>>
                 ELSE LET m == CHOOSE x \in set : \A y \in set \ {x} : BLess(x, y) IN <<m>> \o SortBits(set \ {m})

\* contexts are B4(Seed) \o B4(schema) \o B4(vector number) \o path.  In the two families the vector number decides
\* which side an Either takes and whether a Maybe holds a value: 1 right, 2 left, 3 nothing / right, 0 left (mod 4)
VecNo(ctx)    == ctx[9]
TakeRight(ctx) == IF IsFam(k) THEN VecNo(ctx) % 2 = 1 ELSE Pick(ctx \o <<4>>, 2) = 1
TakeNone(ctx)  == IF IsFam(k) THEN VecNo(ctx) % 4 = 3 ELSE Pick(ctx \o <<2>>, 2) = 0

RECURSIVE GenV(_, _, _, _), GenFs(_, _, _, _, _, _)
GenFs(S, fs, ctx, dep, i, acc) ==
  IF i > Len(fs) THEN acc ELSE GenFs(S, fs, ctx, dep, i + 1, acc @@ (fs[i].name :> GenV(S, fs[i].ty, ctx \o <<i>>, dep + 1)))
GenCtor(S, d, ctx, dep) == GenFs(S, d.fields, ctx, dep, 1, "_" :> d.ctor)
\* VarUInteger n: the length by vector number (0, n - 1, 1, drawn), the top byte 0x01 or with its top bit set, the rest a pattern
VarV(ctx, n) ==
  LET j == VecNo(ctx)
      l == IF n = 1 \/ j % 4 = 0 THEN 0 ELSE IF j % 4 = 1 THEN n - 1 ELSE IF j % 4 = 2 THEN 1 ELSE Pick(ctx \o <<50>>, n)
      top == IF (j \div 4) % 2 = 0 THEN <<0, 0, 0, 0, 0, 0, 0, 1>> ELSE <<1>> \o PatBits(ctx \o <<51>>, 7)
  IN IF l = 0 THEN "0" ELSE UDec(top \o PatBits(ctx \o <<52>>, 8 * (l - 1)))
GenV(S, ty, ctx, dep) ==
  CASE ty.t \in {"uint", "nat"} -> UDec(PatBits(ctx, ty.n))
    [] ty.t = "varuint" -> VarV(ctx, ty.n)
    [] ty.t = "int"    -> B!SDec(PatBits(ctx, ty.n))
    [] ty.t = "bits"   -> BitsToStr(PatBits(ctx, ty.n))
    [] ty.t = "bool"   -> Pick(ctx \o <<1>>, 2) = 1
    [] ty.t = "maybe"  -> IF TakeNone(ctx) THEN [m |-> "none"] ELSE [m |-> "just", v |-> GenV(S, ty.of, ctx \o <<3>>, dep)]
    [] ty.t = "either" -> IF ~TakeRight(ctx) THEN [e |-> "l", v |-> GenV(S, ty.l, ctx \o <<5>>, dep)]
                          ELSE [e |-> "r", v |-> GenV(S, ty.r, ctx \o <<6>>, dep)]
    [] ty.t = "ref"    -> GenV(S, ty.of, ctx \o <<7>>, dep)
    [] ty.t = "anon"   -> GenFs(S, ty.fields, ctx, dep, 1, "_" :> "")
    [] ty.t = "named"  -> LET cs == CtorsOf(S, ty.name) IN GenCtor(S, S.decls[NthOf(cs, Pick(ctx \o <<8>>, Cardinality(cs)))], ctx, dep)
    [] ty.t = "dict"   -> LET cnt  == Pick(ctx \o <<9>>, 5)
                              keys == SortBits({PatBits(ctx \o <<30 + j>>, ty.n) : j \in 1..cnt}) IN
                          [j \in 1..Len(keys) |-> [k |-> BitsToStr(keys[j]), v |-> GenV(S, ty.val, ctx \o <<40 + j>>, dep + 1)]]
\* root of a union: constructor number `round` (cycling), so every constructor is produced
GenRoot(S, name, ctx, round) ==
  LET cs == CtorsOf(S, name) IN GenCtor(S, S.decls[NthOf(cs, round % Cardinality(cs))], ctx, 0)

Targets == <<"Main", "Main", "Main", "Main", "Un", "Un", "Un", "Main", "Main", "Un", "Alt", "Hx", "Inner", "NoTag", "Main", "Main", "Un", "Alt", "Main", "Main">>
VecOf(S, j) ==
  LET name == Targets[((j - 1) % Len(Targets)) + 1]
      ty   == Nm(name)
      v    == GenRoot(S, name, B4(Seed) \o B4(k) \o B4(j), j - 1)
      fits == Fits(S, ty, v)
      base == [vec |-> j - 1, ty |-> name, v |-> v, fits |-> fits, sane |-> ValidTy(S, ty, v)]
      cell == CellJ(Enc(S, ty, v))
      \* families: the cell this value has under the wrong declaration (^ of the Either sides exchanged / unnamed ^ dropped), where that makes a difference
      wrong == CellJ(Enc(SchemaFor(k, WrongShape(k)), ty, v))
  IN IF fits /\ ~HasDict(S, ty, 4)
       THEN (IF IsFam(k) /\ wrong # cell THEN base @@ [cell |-> cell, wrong |-> wrong] ELSE base @@ [cell |-> cell])
       ELSE base

\* which side Main's Either takes in value v of an Either-family schema
ESide(n, v) == LET x == v[EField(n - EBase)] IN IF ECtx(n - EBase) = 1 THEN (IF x.m = "none" THEN "none" ELSE x.v.e) ELSE x.e
\* not vacuous: Main takes both sides (and `nothing` under Maybe); where the sides differ in ^, each side has its `wrong`
ECovered(n, vs) ==
  LET mains == {j \in 1..Len(vs) : vs[j].ty = "Main"}
      sides == {ESide(n, vs[j].v) : j \in mains}
      ei    == EiOf(n - EBase) IN
  /\ {"l", "r"} \subseteq sides /\ (ECtx(n - EBase) = 1 => "none" \in sides)
  /\ \A j \in mains : "cell" \in DOMAIN vs[j]
  /\ (ei.l.t = "ref") # (ei.r.t = "ref") => \A sd \in {"l", "r"} : \E j \in mains : ESide(n, vs[j].v) = sd /\ "wrong" \in DOMAIN vs[j]

\* unnamed-field family, not vacuous: every Main vector has its cell; an Either takes both sides, a Maybe is empty and full;
\* a field with a ^ of its own has a `wrong` twin
ACovered(n, vs) ==
  LET mains == {j \in 1..Len(vs) : vs[j].ty = "Main"}
      ty    == AKind(n - ABase)
      fld   == StrCat("f", ToString(AIdx(n - ABase))) IN
  /\ mains # {} /\ \A j \in mains : "cell" \in DOMAIN vs[j]
  /\ (ty.t = "either" => {"l", "r"} \subseteq {vs[j].v[fld].e : j \in mains})
  /\ (ty.t = "maybe"  => {"none", "just"} \subseteq {vs[j].v[fld].m : j \in mains})
  /\ (OwnRef(ty) => \E j \in mains : "wrong" \in DOMAIN vs[j])

\* VarUInteger family, not vacuous: Main has the value 0, a value of the largest length, and (n a power of two) a `wrong` twin
VCovered(n, vs) ==
  LET m == n - VBase + 1  mains == {j \in 1..Len(vs) : vs[j].ty = "Main"} IN
  /\ \A j \in mains : "cell" \in DOMAIN vs[j]
  /\ \E j \in mains : vs[j].v.f2 = "0"
  /\ \E j \in mains : VarLen(vs[j].v.f2, m) = m - 1
  /\ (IsPow2(m) <=> \E j \in mains : "wrong" \in DOMAIN vs[j])

Out(n) == LET S == SchemaOf(n)  vs == [j \in 1..PerSchema |-> VecOf(S, j)] IN
          [schema |-> n, ast |-> S, kinds |-> [i \in 1..Len(Shape(n)) |-> KLabelAt(n, i)], vecs |-> vs,
           sane |-> /\ \A j \in 1..PerSchema :
                         /\ vs[j].sane
                         /\ ("cell" \in DOMAIN vs[j] => Matches(S, Nm(vs[j].ty), vs[j].v, CellOf(vs[j].cell)) /\ CellFits(CellOf(vs[j].cell)))
                         /\ ("wrong" \in DOMAIN vs[j] => ~Matches(S, Nm(vs[j].ty), vs[j].v, CellOf(vs[j].wrong)))
                    /\ (IsE(n) => ECovered(n, vs))
                    /\ (IsA(n) => ACovered(n, vs))
                    /\ (IsV(n) => VCovered(n, vs))
                    /\ (IsN(n) => \E j \in 1..Len(vs) : vs[j].ty = "Main" /\ "wrong" \in DOMAIN vs[j])]

Init == k \in Ns
Next == UNCHANGED k
Spec == Init /\ [][Next]_k
Emit == LET o == Out(k) IN o.sane /\ PrintT(<<"VEC", ToJson(o)>>)
=============================================================================
