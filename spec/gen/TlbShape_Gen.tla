---------------------------- MODULE TlbShape_Gen ----------------------------
(* S->C for the TL-B half of C09 (programs x inputs): TLC enumerates TL-B       *)
(* declaration shapes over the constructs tlb/parser supports and abi/schemas   *)
(* use, and values of every generated type with the cell TlbMini requires.      *)
(*   kinds: uintN, intN, bitsN, (## N), Bool, Maybe T, Maybe ^T, Either L R      *)
(*          (incl. the X / ^X form), ^T, ^[ anonymous ], references to a tagged  *)
(*          record, an untagged record, a $-tagged and a #-tagged union,         *)
(*          HashmapE n V with inline, referenced and record values               *)
(* Shape n < |Alphabet| is the single-field shape of kind n+1; larger n are      *)
(* sequences of 2..4 kinds drawn from CRC32(Seed, n).  Schema of a shape:        *)
(* Inner (#a1), NoTag, Alt ($00 $01 $1), Hx (#1234 #5678abcd), Main = the shape  *)
(* under a tag that cycles through #deadbeef, #a1, $101, none, #0c5, and Un =     *)
(* 2..3 constructors ($0 $10 $11) carrying rotations of the shape.               *)
EXTENDS TlbMini, Json, FiniteSets, TlChoice
CONSTANTS Seed, Ns, PerSchema
VARIABLE k

U(n)  == [t |-> "uint", n |-> n]
I(n)  == [t |-> "int", n |-> n]
Bt(n) == [t |-> "bits", n |-> n]
N(n)  == [t |-> "nat", n |-> n]
Bo    == [t |-> "bool"]
Mb(x) == [t |-> "maybe", of |-> x]
Ei(l, r) == [t |-> "either", l |-> l, r |-> r]
Rf(x) == [t |-> "ref", of |-> x]
Nm(s) == [t |-> "named", name |-> s]
Di(n, v) == [t |-> "dict", n |-> n, val |-> v]
An(fs) == [t |-> "anon", fields |-> fs]
F(nm, ty) == [name |-> nm, ty |-> ty]

Alphabet == <<U(1), U(8), U(13), U(16), U(32), U(48), U(64), U(128), U(256),
              I(7), I(8), I(16), I(32), I(64), I(257), Bt(96), Bt(256), N(1), N(5), N(10), N(32), Bo,
              Mb(U(7)), Mb(Rf(Nm("Inner"))), Mb(Nm("Inner")), Mb(Nm("Alt")),
              Ei(U(8), Rf(U(8))), Ei(Nm("Inner"), Rf(Nm("Inner"))), Ei(Nm("Inner"), Nm("Alt")), Ei(U(8), Rf(U(16))), Ei(Rf(Nm("Inner")), U(8)),
              Rf(Nm("Inner")), Rf(U(32)), Rf(Nm("Alt")), Rf(An(<<F("p", U(8)), F("q", I(8))>>)),
              Nm("Inner"), Nm("NoTag"), Nm("Alt"), Nm("Hx"),
              Di(8, U(9)), Di(16, Rf(Nm("Inner"))), Di(32, Nm("Inner")), Di(256, U(1))>>
NA == Len(Alphabet)
Shape(n) == IF n < NA THEN <<Alphabet[n + 1]>>
            ELSE LET ctx == B4(Seed) \o B4(n) \o <<78>>  len == 2 + Pick(ctx, 3)
                 IN [i \in 1..len |-> Alphabet[Pick(ctx \o <<i>>, NA) + 1]]

\* label of a kind = its TL-B text; the two Either kinds that put ^ on one side of two different types share a label
RECURSIVE TyText(_)
TyText(ty) ==
  CASE ty.t \in {"uint", "int", "bits"} -> StrCat(ty.t, ToString(ty.n))
    [] ty.t = "nat"    -> StrCat("(## ", StrCat(ToString(ty.n), ")"))
    [] ty.t = "bool"   -> "Bool"
    [] ty.t = "maybe"  -> StrCat("(Maybe ", StrCat(TyText(ty.of), ")"))
    [] ty.t = "either" -> StrCat("(Either ", StrCat(TyText(ty.l), StrCat(" ", StrCat(TyText(ty.r), ")"))))
    [] ty.t = "ref"    -> StrCat("^", TyText(ty.of))
    [] ty.t = "anon"   -> "[anon]"
    [] ty.t = "named"  -> ty.name
    [] ty.t = "dict"   -> StrCat("(HashmapE ", StrCat(ToString(ty.n), StrCat(" ", StrCat(TyText(ty.val), ")"))))
KLabel(ty) ==
  IF ty.t = "either" /\ (ty.l.t = "ref" \/ ty.r.t = "ref") /\ ~(ty.r.t = "ref" /\ TyText(ty.r.of) = TyText(ty.l))
    THEN "Either-with-^-on-one-side-of-different-types"
    ELSE TyText(ty)

Fields(sh) == [i \in 1..Len(sh) |-> F(StrCat("f", ToString(i)), sh[i])]
Rot(sh, r) == [i \in 1..Len(sh) |-> sh[((i - 1 + r) % Len(sh)) + 1]]
MainTags == <<"#deadbeef", "#a1", "$101", "", "#0c5">>
D(c, tag, res, fs) == [ctor |-> c, tag |-> tag, result |-> res, fields |-> fs]
SchemaOf(n) ==
  LET sh == Shape(n)  ku == 2 + (n % 2) IN
  [decls |->
     <<D("inner", "#a1", "Inner", <<F("a", U(8)), F("b", I(32))>>),
       D("notag", "", "NoTag", <<F("a", U(8))>>),
       D("alt_a", "$00", "Alt", <<F("x", U(16))>>),
       D("alt_b", "$01", "Alt", <<F("y", N(5)), F("z", Bt(96))>>),
       D("alt_c", "$1", "Alt", <<>>),
       D("hx_a", "#1234", "Hx", <<F("q", U(3))>>),
       D("hx_b", "#5678abcd", "Hx", <<F("r", I(7))>>),
       D("main", MainTags[(n % Len(MainTags)) + 1], "Main", Fields(sh))>>
     \o [i \in 1..ku |-> D(StrCat("un_", SubStr("abc", i, i)), <<"$0", "$10", "$11">>[i], "Un", Fields(Rot(sh, i - 1)))]]

\* ------------------------------------------------------------------ values
UDec(b) == IF \A i \in 1..Len(b) : b[i] = 0 THEN "0" ELSE BitsToDec(b)
PatBits(ctx, n) == LET x == Pick(ctx \o <<20>>, 6) IN
                   IF x = 0 THEN [i \in 1..n |-> 0] ELSE IF x = 1 THEN [i \in 1..n |-> 1]
                   ELSE IF x = 2 THEN [i \in 1..n |-> IF i = 1 THEN 1 ELSE 0] ELSE RBits(ctx \o <<21>>, n)
BLess(a, b) == \E i \in 1..Len(a) : a[i] < b[i] /\ \A j \in 1..(i - 1) : a[j] = b[j]
RECURSIVE SortBits(_)
SortBits(set) == IF set = {} THEN <<>>
                 ELSE LET m == CHOOSE x \in set : \A y \in set \ {x} : BLess(x, y) IN <<m>> \o SortBits(set \ {m})

RECURSIVE GenV(_, _, _, _), GenFs(_, _, _, _, _, _)
GenFs(S, fs, ctx, dep, i, acc) ==
  IF i > Len(fs) THEN acc ELSE GenFs(S, fs, ctx, dep, i + 1, acc @@ (fs[i].name :> GenV(S, fs[i].ty, ctx \o <<i>>, dep + 1)))
GenCtor(S, d, ctx, dep) == GenFs(S, d.fields, ctx, dep, 1, "_" :> d.ctor)
GenV(S, ty, ctx, dep) ==
  CASE ty.t \in {"uint", "nat"} -> UDec(PatBits(ctx, ty.n))
    [] ty.t = "int"    -> B!SDec(PatBits(ctx, ty.n))
    [] ty.t = "bits"   -> BitsToStr(PatBits(ctx, ty.n))
    [] ty.t = "bool"   -> Pick(ctx \o <<1>>, 2) = 1
    [] ty.t = "maybe"  -> IF Pick(ctx \o <<2>>, 2) = 0 THEN [m |-> "none"] ELSE [m |-> "just", v |-> GenV(S, ty.of, ctx \o <<3>>, dep)]
    [] ty.t = "either" -> IF Pick(ctx \o <<4>>, 2) = 0 THEN [e |-> "l", v |-> GenV(S, ty.l, ctx \o <<5>>, dep)]
                          ELSE [e |-> "r", v |-> GenV(S, ty.r, ctx \o <<6>>, dep)]
    [] ty.t = "ref"    -> GenV(S, ty.of, ctx \o <<7>>, dep)
    [] ty.t = "anon"   -> GenFs(S, ty.fields, ctx, dep, 1, "_" :> "")
    [] ty.t = "named"  -> LET cs == CtorsOf(S, ty.name) IN GenCtor(S, S.decls[NthOf(cs, Pick(ctx \o <<8>>, Cardinality(cs)))], ctx, dep)
    [] ty.t = "dict"   -> LET cnt  == Pick(ctx \o <<9>>, 5)
                              keys == SortBits({PatBits(ctx \o <<30 + j>>, ty.n) : j \in 1..cnt}) IN
                          [j \in 1..Len(keys) |-> [k |-> BitsToStr(keys[j]), v |-> GenV(S, ty.val, ctx \o <<40 + j>>, dep + 1)]]
\* root of a union: constructor number `round` (cycling), so every constructor is produced
GenRoot(S, name, ctx, round) ==
  LET cs == CtorsOf(S, name) IN GenCtor(S, S.decls[NthOf(cs, round % Cardinality(cs))], ctx, 0)

Targets == <<"Main", "Main", "Main", "Main", "Un", "Un", "Un", "Main", "Main", "Un", "Alt", "Hx", "Inner", "NoTag", "Main", "Main", "Un", "Alt", "Main", "Main">>
VecOf(S, j) ==
  LET name == Targets[((j - 1) % Len(Targets)) + 1]
      ty   == Nm(name)
      v    == GenRoot(S, name, B4(Seed) \o B4(k) \o B4(j), j - 1)
      fits == Fits(S, ty, v)
      base == [vec |-> j - 1, ty |-> name, v |-> v, fits |-> fits, sane |-> ValidTy(S, ty, v)]
  IN IF fits /\ ~HasDict(S, ty, 4) THEN base @@ [cell |-> CellJ(Enc(S, ty, v))] ELSE base

Out(n) == LET S == SchemaOf(n)  vs == [j \in 1..PerSchema |-> VecOf(S, j)] IN
          [schema |-> n, ast |-> S, kinds |-> [i \in 1..Len(Shape(n)) |-> KLabel(Shape(n)[i])], vecs |-> vs,
           sane |-> \A j \in 1..PerSchema : vs[j].sane /\ ("cell" \in DOMAIN vs[j] => Matches(S, Nm(vs[j].ty), vs[j].v, CellOf(vs[j].cell)) /\ CellFits(CellOf(vs[j].cell)))]

Init == k \in Ns
Next == UNCHANGED k
Spec == Init /\ [][Next]_k
Emit == LET o == Out(k) IN o.sane /\ PrintT(<<"VEC", ToJson(o)>>)
=============================================================================
