SPECIFICATION Spec
CONSTANT TimeProduct = "diag"
CHECK_DEADLOCK FALSE
