CONSTANTS
  MaxOps = 6
  MaxReq = 1
  TwoStep = FALSE
  Exotic = FALSE
  Hold = TRUE
  Free = FALSE
SPECIFICATION Spec
INVARIANT Emit
CHECK_DEADLOCK FALSE
