CONSTANTS
  MaxN = 8
  Offsets = 10
  Huge = TRUE
SPECIFICATION Spec
CHECK_DEADLOCK FALSE
