SPECIFICATION Spec
CHECK_DEADLOCK FALSE
INVARIANT DecAgrees
