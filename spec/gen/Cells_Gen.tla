------------------------------ MODULE Cells_Gen ------------------------------
(* S->C for C02 / C01: TLC enumerates well-formed cell DAGs over all five cell *)
(* types and all level masks, serialises each with the reference writer under  *)
(* every header variant, and emits (bag bytes, the hash / level / tree the      *)
(* specification assigns to the root).  The Go side must parse the bag and      *)
(* report exactly those.                                                        *)
EXTENDS Boc, Json
CONSTANTS NCh          \* number of randomly chosen header variants per DAG

\* ---- terms: [t |-> kind, b |-> bits, k |-> <<sub terms>>, m |-> mask (pruned only)]
Ord(b, k) == [t |-> "ord", b |-> b, k |-> k, m |-> 0]
Pr(m)     == [t |-> "pr",  b |-> <<>>, k |-> <<>>, m |-> m]
\* a pruned branch with mask m whose every stored depth is d (the depth bound of the cells above it)
PrD(m, d) == [t |-> "prd", b |-> <<>>, k |-> <<>>, m |-> m, d |-> d]
\* a pruned branch with mask m that stands for the level-0 term x: every stored hash is x's hash, every stored depth x's depth
PrOf(m, x) == [t |-> "prof", b |-> <<>>, k |-> <<>>, m |-> m, of |-> x]
Lib       == [t |-> "lib", b |-> <<>>, k |-> <<>>, m |-> 0]
MP(x)     == [t |-> "mp",  b |-> <<>>, k |-> <<x>>, m |-> 0]
MU(x, y)  == [t |-> "mu",  b |-> <<>>, k |-> <<x, y>>, m |-> 0]

Rep(n, v) == [i \in 1..n |-> v]
\* pruned-branch data: 01, mask, Pop(mask) stored hashes (distinct fill patterns), Pop(mask) stored depths
PrData(m) == <<1, m>> \o FoldLeft(LAMBDA a, i : a \o Rep(32, 16 * i + m), <<>>, [i \in 1..Pop(m) |-> i])
                      \o FoldLeft(LAMBDA a, i : a \o <<0, i + m>>, <<>>, [i \in 1..Pop(m) |-> i])

\* flatten a term to a (tree-shaped) cell table, root first
RECURSIVE Flat(_)
Flat(t) ==
  LET subs == [i \in 1..Len(t.k) |-> Flat(t.k[i])]
      offs == [i \in 1..Len(subs) |-> 1 + FoldLeft(LAMBDA a, j : a + Len(subs[j]), 0, [j \in 1..(i - 1) |-> j])]
      shifted == [i \in 1..Len(subs) |-> [c \in 1..Len(subs[i]) |->
                    [subs[i][c] EXCEPT !.r = [j \in 1..Len(subs[i][c].r) |-> subs[i][c].r[j] + offs[i]]]]]
      tail == FoldLeft(LAMBDA a, x : a \o x, <<>>, shifted)
      kidRoot(i) == offs[i] + 1
      kidInfo(i) == InfoTable(subs[i])[1]
      kidMask(i) == subs[i][1].m
      refs == [i \in 1..Len(subs) |-> kidRoot(i)]
      root ==
        CASE t.t = "ord" -> [b |-> t.b, x |-> Ordinary, r |-> refs,
                             m |-> FoldLeft(LAMBDA a, i : OrM(a, kidMask(i)), 0, [i \in 1..Len(subs) |-> i])]
          [] t.t = "pr"  -> [b |-> BytesToBits(PrData(t.m)), x |-> Pruned, r |-> <<>>, m |-> t.m]
          [] t.t = "prd" -> [b |-> BytesToBits(<<1, t.m>> \o FoldLeft(LAMBDA a, i : a \o Rep(32, 16 * i + t.m), <<>>, [i \in 1..Pop(t.m) |-> i])
                                                          \o FoldLeft(LAMBDA a, i : a \o U16(t.d), <<>>, [i \in 1..Pop(t.m) |-> i])),
                             x |-> Pruned, r |-> <<>>, m |-> t.m]
          [] t.t = "prof" -> LET of == InfoTable(Flat(t.of))[1] IN
                            [b |-> BytesToBits(<<1, t.m>> \o FoldLeft(LAMBDA a, i : a \o of.h[1], <<>>, [i \in 1..Pop(t.m) |-> i])
                                                          \o FoldLeft(LAMBDA a, i : a \o U16(of.d[1]), <<>>, [i \in 1..Pop(t.m) |-> i])),
                             x |-> Pruned, r |-> <<>>, m |-> t.m]
          [] t.t = "lib" -> [b |-> BytesToBits(<<2>> \o Rep(32, 171)), x |-> Library, r |-> <<>>, m |-> 0]
          [] t.t = "mp"  -> [b |-> BytesToBits(<<3>> \o kidInfo(1).h[1] \o U16(kidInfo(1).d[1])), x |-> MerkleProof,
                             r |-> refs, m |-> kidMask(1) \div 2]
          [] t.t = "mu"  -> [b |-> BytesToBits(<<4>> \o kidInfo(1).h[1] \o kidInfo(2).h[1] \o U16(kidInfo(1).d[1]) \o U16(kidInfo(2).d[1])),
                             x |-> MerkleUpdate, r |-> refs, m |-> OrM(kidMask(1), kidMask(2)) \div 2]
  IN <<root>> \o tail

BitChoices == {<<>>, <<1>>, <<0,1,0,1,0,1,0>>, <<1,1,1,1,0,0,0,0>>, <<1,0,0,0,0,0,0,0,1>>}
Leaves  == {Ord(b, <<>>) : b \in BitChoices} \cup {Pr(m) : m \in 1..7} \cup {Lib}
LeafSeq == SetToSeq(Leaves)
NL      == Len(LeafSeq)
SomePairs == {<<LeafSeq[p[1]], LeafSeq[p[2]]>> : p \in {q \in (1..NL) \X (1..NL) : (q[1] * 7 + q[2]) % 5 = 0}}
L1 == {Ord(b, <<x>>) : b \in {<<>>, <<1,0,1>>}, x \in Leaves}
      \cup {Ord(<<0>>, p) : p \in SomePairs}
      \cup {Ord(<<1,1>>, <<x, x, x, x>>) : x \in {Pr(1), Pr(5), Lib}}
      \cup {MP(x) : x \in Leaves} \cup {MU(p[1], p[2]) : p \in SomePairs}
L1Seq == SetToSeq(L1)
L2 == {Ord(<<1>>, <<x>>) : x \in L1} \cup {MP(x) : x \in L1}
      \cup {MU(L1Seq[p[1]], L1Seq[p[2]]) : p \in {q \in (1..Len(L1Seq)) \X (1..Len(L1Seq)) : (q[1] * 13 + q[2]) % 41 = 0}}
      \cup {Ord(<<>>, <<L1Seq[p[1]], L1Seq[p[2]]>>) : p \in {q \in (1..Len(L1Seq)) \X (1..Len(L1Seq)) : (q[1] * 11 + q[2]) % 37 = 0}}
L3 == {MP(MP(x)) : x \in {Ord(<<1>>, <<Pr(m)>>) : m \in 1..7}} \cup {Ord(<<>>, <<MP(Ord(<<>>, <<Pr(m)>>)), Pr(n)>>) : m \in {1, 3, 7}, n \in {2, 4, 6}}
\* the depth bound level by level: cells above a pruned branch of stored depth 1023 (exist) / 1024 (do not: too deep below their level)
Deep == {Ord(<<1>>, <<PrD(m, d)>>) : m \in {1, 2, 5, 7}, d \in {1023, 1024}}
        \cup {MP(Ord(<<>>, <<PrD(1, d)>>)) : d \in {1023, 1024}}
        \cup {Ord(<<0>>, <<Ord(<<1>>, <<PrD(3, d)>>), Lib>>) : d \in {1023, 1024, 65535}}
\* a pruned branch next to the cell it stands for (equal lower hashes, different cells), every mask
Originals == {Ord(<<1,0,1>>, <<>>), Ord(<<>>, <<Ord(<<1>>, <<>>)>>)}
Beside == {Ord(<<1>>, <<PrOf(m, x), x>>) : m \in 1..7, x \in Originals} \cup {Ord(<<>>, <<x, PrOf(m, x), PrOf(m, x)>>) : m \in {2, 5, 6}, x \in Originals}
Terms == Leaves \cup L1 \cup L2 \cup L3 \cup Deep \cup Beside

AllChoices == {[magic |-> mg, idx |-> i, crc |-> c, cache |-> ca, size |-> sz, ob |-> o, hashes |-> h] :
                 mg \in {"generic", "idx", "idxcrc"}, i \in BOOLEAN, c \in BOOLEAN, ca \in BOOLEAN,
                 sz \in {1, 2, 4}, o \in {0, 1}, h \in BOOLEAN}      \* o: extra offset bytes beyond the minimum
VARIABLES term, ch, out
Min1(n) == IF n < 256 THEN 1 ELSE IF n < 65536 THEN 2 ELSE 3
Vector(t, c) ==
  LET T == Flat(t)
      I == InfoTable(T)
      approx == (IF c.hashes THEN 210 ELSE 70) * Len(T) + FoldLeft(LAMBDA a, i : a + Len(T[i].b) \div 8, 0, [i \in 1..Len(T) |-> i])
      cc == [c EXCEPT !.ob = Min1(approx) + c.ob]
      B == Write(T, <<1>>, cc)
  IN [boc |-> BytesToHex(B), hash |-> BytesToHex(ReprHash(I[1])), level |-> LevelOf(T[1].m),
      tree |-> TreeStr(T, 1), wf |-> CellsShapeOK(T), deep |-> ~WellFormed(T), kind |-> t.t, magic |-> c.magic, hashes |-> c.hashes,
      selfcheck |-> (Parse(B).ok /\ Parse(B).T = T)]

Init == /\ term \in Terms
        /\ ch \in {RandomElement(AllChoices) : i \in 1..NCh}
        /\ out = "todo"
Next == out = "todo" /\ out' = "done" /\ UNCHANGED <<term, ch>> /\ PrintT(<<"VEC", ToJson(Vector(term, ch))>>)
Spec == Init /\ [][Next]_<<term, ch, out>>
=============================================================================
