-------------------------- MODULE TokenTransfer_Gen --------------------------
(* S->C for X07.  TLC enumerates transfers (amount classes x address forms x     *)
(* presence of the two payloads x forward amounts) and prints the body the       *)
(* standards require, in the form with payloads in references: the bits of the   *)
(* root with 64 "?" for the query id, and the number of references.              *)
EXTENDS TokenTransfer, Json, TLC
VARIABLE c

S == ndJsonDeserialize("samples.ndjson")[1]
Addrs == S.addrs                         \* "wc:hex64" texts (wc in int8)
Payloads == S.payloads                   \* cell tables (rows), each a small tree
Amounts == <<"0", "1", "255", "256", "65535", "65536", "1000000000", "18446744073709551615", "18446744073709551616",
             "1329227995784915872903807060280344575">>          \* the last is 2^120 - 1, the largest VarUInteger 16
FwdTons == <<"0", "1", "50000000", "1000000000">>
Q == [i \in 1..64 |-> 63]                                       \* "?"
BitsText(b) == [i \in 1..Len(b) |-> 48 + b[i]]

Vec(kind, amount, dest, resp, ci, fi, fwdTon, to, attached) ==
  LET t == [kind |-> kind, amount |-> amount, dest |-> dest, resp |-> resp, custom |-> IF ci = 0 THEN <<>> ELSE BocM!FromJson(Payloads[ci]),
            fwdTon |-> fwdTon, fwd |-> IF fi = 0 THEN <<>> ELSE BocM!FromJson(Payloads[fi]), to |-> to, attached |-> attached]
      hd == BodyHead(t)
  IN [k |-> "xfer", cl |-> StrCat(kind, StrCat(IF ci = 0 THEN ":nocustom" ELSE ":custom", IF fi = 0 THEN ":nofwd" ELSE ":fwd")),
      kind |-> kind, amount |-> amount, dest |-> dest, resp |-> resp, custom |-> IF ci = 0 THEN <<>> ELSE Payloads[ci],
      fwd |-> IF fi = 0 THEN <<>> ELSE Payloads[fi], fwdTon |-> fwdTon, to |-> to, attached |-> attached,
      root |-> CodesToStr(BitsText(hd[1]) \o Q \o BitsText(hd[2] \o Tail1(t))),
      nrefs |-> (IF ci = 0 THEN 0 ELSE 1) + (IF fi = 0 THEN 0 ELSE 1),
      refs |-> (IF ci = 0 THEN <<>> ELSE <<TreeOf(t.custom)>>) \o (IF fi = 0 THEN <<>> ELSE <<TreeOf(t.fwd)>>)]

NA == Len(Addrs)   NP == Len(Payloads)
Groups == {<<"jetton", a>> : a \in 1..Len(Amounts)} \cup {<<"nft", 0>>}
Cases(g) == {<<d, r, ci, fi, f>> : d \in 1..2, r \in 0..1, ci \in {0, 1}, fi \in {0, 2}, f \in 1..Len(FwdTons)}
Out(g, x) == Vec(g[1], IF g[1] = "jetton" THEN Amounts[g[2]] ELSE "0", Addrs[x[1]], IF x[2] = 0 THEN "none" ELSE Addrs[3],
                 x[3], IF x[4] = 0 THEN 0 ELSE ((x[1] + x[5]) % (NP - 1)) + 2, FwdTons[x[5]], Addrs[NA], IF x[5] % 2 = 0 THEN "50000000" ELSE "1")
Init == c \in {<<0, g, 0>> : g \in Groups}
Next == c[1] = 0 /\ c' \in {<<1, c[2], x>> : x \in Cases(c[2])}
Spec == Init /\ [][Next]_c
Emit == c[1] = 1 => PrintT(<<"VEC", ToJson(Out(c[2], c[3]))>>)
=============================================================================
