----------------------------- MODULE WalletSend -----------------------------
(* C15: a wallet's address and its send parameters follow from key, version    *)
(* and chain state.                                                            *)
(*                                                                             *)
(* Part A - address derivation.  Written from block.tlb (StateInit), from the  *)
(* storage layouts the wallet contracts document, and from the W5 wallet-id    *)
(* definition - not from wallet/*.go:                                          *)
(*   StateInit:  _ split_depth:(Maybe (## 5)) special:(Maybe TickTock)         *)
(*               code:(Maybe ^Cell) data:(Maybe ^Cell)                         *)
(*               library:(HashmapE 256 SimpleLib)      = bits 0 0 1 1 0,       *)
(*               refs <<code, data>>                                           *)
(*   v1/v2  (wallet-code.fc, wallet-v2):  seqno:uint32 public_key:bits256      *)
(*   v3     (wallet-v3-code.fc):  seqno:uint32 subwallet_id:uint32 public_key  *)
(*   v4     (wallet-v4-code.fc):  seqno subwallet_id public_key                *)
(*                                plugins:(HashmapE 264 ())                    *)
(*   v5beta (w5 @ beta):  seqno:(## 33) wallet_id:(global_id:int32 wc:int8     *)
(*                        version:(## 8) subwallet_number:(## 32))             *)
(*                        public_key:bits256 extensions:(HashmapE 256 int8)    *)
(*   v5r1   (w5 types.tlb): is_signature_allowed:(## 1) seqno:# wallet_id:(## 32)*)
(*                        public_key:(## 256) extensions:(HashmapE 256 int1)   *)
(*          wallet_id = global_id XOR context_id,                              *)
(*          context_id_client$1 wc:int8 wallet_version:(## 8) counter:(## 15)  *)
(*          (mainnet, wc 0, counter 0 -> 2147483409; testnet -> 2147483645;    *)
(*           mainnet, wc -1 -> 8388369: the values the W5 documentation lists) *)
(*   highload v2 (highload-wallet-v2-code.fc): subwallet_id:uint32             *)
(*                        last_cleaned:uint64 public_key:bits256               *)
(*                        old_queries:(HashmapE 64 ())                         *)
(*   defaults (docs.ton.org "subwallet ids"): subwallet_id = 698983191 + wc    *)
(*   for v3/v4/highload; subwallet number 0 for v5; network = mainnet (-239).  *)
(* The code cells are data: their bags arrive in codes.ndjson (recorded from   *)
(* the library once per run), are parsed by Boc!Parse and pinned against the   *)
(* published code hashes (abi/schemas/wallets.xml).                            *)
(*                                                                             *)
(* Part B - the send pipeline as a state machine over a scripted chain:        *)
(*   GetState(none|uninit|active(n)|frozen|err), Build, Send(ok|err),          *)
(*   Poll(err|value), Deadline, Return(ok|err).  A polled value counts only if  *)
(*   it is GREATER than the seqno used (unchanged and lower values - a lagging  *)
(*   server - mean "not advanced").             GetState and Poll carry `own`: *)
(*   whether the wallet asked about its own account.                           *)
(* Step(p, s, e) is the transition function; the generator (gen/) enumerates   *)
(* its behaviours, the trace spec (trace/) folds it over recorded runs.        *)
EXTENDS Boc, Json

\* ------------------------------------------------------------------- bits
BitAt(n, k) == IF k >= 31 THEN 0 ELSE (n \div (2 ^ k)) % 2
U(n, w)     == [i \in 1..w |-> BitAt(n, w - i)]                      \* 0 <= n < 2^31, big-endian, w bits
UDec(d, w)  == LET b == DecToBits(d) IN [i \in 1..(w - Len(b)) |-> 0] \o b   \* decimal text < 2^w
NotB(b)     == [i \in 1..Len(b) |-> 1 - b[i]]
S(n, w)     == IF n >= 0 THEN U(n, w) ELSE NotB(U(-n - 1, w))         \* two's complement, |n| < 2^31
Xor(a, b)   == [i \in 1..Len(a) |-> (a[i] + b[i]) % 2]
Val(b)      == FoldLeft(LAMBDA a, x : 2 * a + x, 0, b)                \* short fields only
\* order of naturals given as decimal texts (seqno can be 2^32-1: not a TLC integer)
NatLess(a, b) == LET x == DecToBits(a)  y == DecToBits(b) IN
                 \/ Len(x) < Len(y)
                 \/ Len(x) = Len(y) /\ \E i \in 1..Len(x) : x[i] < y[i] /\ \A j \in 1..(i - 1) : x[j] = y[j]

\* keys of the send runs: "seed" (64 hex digits; public key by RFC 8032 key generation) or "seed:pub" (a private key value
\* seed || pub with the given public half - the wallet's data and address hold whatever key.Public() is)
KeyPub(k) == IF StrLen(k) = 64 THEN BytesToBits(EdPubFromSeed(HexToBytes(k))) ELSE BytesToBits(HexToBytes(SubStr(k, 66, 129)))

\* --------------------------------------------------------------- versions
VersionSeq == <<"V1R1", "V1R2", "V1R3", "V2R1", "V2R2", "V3R1", "V3R2", "V4R1", "V4R2", "V5Beta", "V5R1", "HighLoadV2R2">>
Versions   == {VersionSeq[i] : i \in 1..Len(VersionSeq)}
Family(v)  == CASE v \in {"V1R1", "V1R2", "V1R3", "V2R1", "V2R2"} -> "v1v2"
                [] v \in {"V3R1", "V3R2"} -> "v3"
                [] v \in {"V4R1", "V4R2"} -> "v4"
                [] v = "V5Beta" -> "v5beta"
                [] v = "V5R1" -> "v5r1"
                [] v = "HighLoadV2R2" -> "hl2"
HasSub(v)  == Family(v) # "v1v2"                     \* the version's storage holds a sub-wallet id / number
\* ... and the library's documented API takes it as an input. wallet.New / GenerateWalletAddress document the sub-wallet id as
\* "only used in V3 and V4 wallets"; v5 beta and highload v2 take it as well; for v5r1 the option is not an input: the wallet
\* is the one with sub-wallet number 0 whatever the option says (observation in the evidence, not a clause of the statement)
TakesSub(v) == Family(v) \in {"v3", "v4", "v5beta", "hl2"}
HasNet(v)  == Family(v) \in {"v5beta", "v5r1"}
\* versions whose messages carry a seqno / that implement sending in the library
HasSeqno(v)     == Family(v) # "hl2"
SendVersions    == {"V3R1", "V3R2", "V4R1", "V4R2", "V5Beta", "V5R1", "HighLoadV2R2"}
ConfirmSupported(v) == HasSeqno(v)        \* there is no seqno to watch on a highload wallet

\* published code hashes (abi/schemas/wallets.xml; the same values are listed by the TON documentation)
PublishedCodeHash(v) ==
  CASE v = "V1R1" -> "a0cfc2c48aee16a271f2cfc0b7382d81756cecb1017d077faaab3bb602f6868c"
    [] v = "V1R2" -> "d4902fcc9fad74698fa8e353220a68da0dcf72e32bcb2eb9ee04217c17d3062c"
    [] v = "V1R3" -> "587cc789eff1c84f46ec3797e45fc809a14ff5ae24f1e0c7a6a99cc9dc9061ff"
    [] v = "V2R1" -> "5c9a5e68c108e18721a07c42f9956bfb39ad77ec6d624b60c576ec88eee65329"
    [] v = "V2R2" -> "fe9530d3243853083ef2ef0b4c2908c0abf6fa1c31ea243aacaa5bf8c7d753f1"
    [] v = "V3R1" -> "b61041a58a7980b946e8fb9e198e3c904d24799ffa36574ea4251c41a566f581"
    [] v = "V3R2" -> "84dafa449f98a6987789ba232358072bc0f76dc4524002a5d0918b9a75d2d599"
    [] v = "V4R1" -> "64dd54805522c5be8a9db59cea0105ccf0d08786ca79beb8cb79e880a8d7322d"
    [] v = "V4R2" -> "feb5ff6820e2ff0d9483e7e0d62c817d846789fb4ae580c878866d959dabd5c0"
    \* v5 beta is deployed as a library reference: the code cell is the library cell (first hash) that
    \* points at the library with the second hash
    [] v = "V5Beta" -> "f3d7ca53493deedac28b381986a849403cbac3d2c584779af081065af0ac4b93"
    [] v = "V5R1" -> "20834b7b72b112147e1b2fb457b84e74d1a30f04f737d4f62a668e9552d2b72f"
    [] v = "HighLoadV2R2" -> "203dd4f358adb49993129aa925cac39916b68a0e4f78d26e8f2c2b69eafa5679"
V5BetaLibraryHash == "e4cf3b2f4c6d6a61ea0f2b5447d266785b26af3637db2deee6bcd1aa826f3412"

\* ------------------------------------------------------------ code cells
CodeLines == ndJsonDeserialize("codes.ndjson")          \* {"k":"Code","ver":..,"boc":hex,"hash":hex}
CodeRec(v) ==
  LET ix == {i \in 1..Len(CodeLines) : CodeLines[i].k = "Code" /\ CodeLines[i].ver = v} IN
  IF ix = {} THEN [ok |-> FALSE, why |-> "missing"]
  ELSE LET e == CodeLines[CHOOSE i \in ix : \A j \in ix : i <= j]
           P == Parse(HexToBytes(e.boc))
       IN IF ~P.ok THEN [ok |-> FALSE, why |-> P.err]
          ELSE IF Len(P.roots) # 1 THEN [ok |-> FALSE, why |-> "roots"]
          ELSE LET I == InfoTable(P.T)  root == P.T[P.roots[1]] IN
               [ok |-> TRUE, info |-> I[P.roots[1]], hash |-> BytesToHex(ReprHash(I[P.roots[1]])),
                x |-> root.x, b |-> root.b, ncells |-> Len(P.T)]
\* evaluated once: FoldLeft/Append builds a concrete tuple
CodeTab == FoldLeft(LAMBDA acc, v : Append(acc, CodeRec(v)), <<>>, VersionSeq)
VerIdx(v) == CHOOSE i \in 1..Len(VersionSeq) : VersionSeq[i] = v
Code(v) == CodeTab[VerIdx(v)]
\* "the published code for the version"
CodeIsPublished(v) ==
  /\ Code(v).ok
  /\ Code(v).hash = PublishedCodeHash(v)
  /\ v = "V5Beta" => (Code(v).x = Library /\ Len(Code(v).b) = 264
                      /\ BytesToHex(BitsToBytes(SubSeq(Code(v).b, 9, 264))) = V5BetaLibraryHash)

\* ------------------------------------------------------- initial data cells
DefaultSubBits(v, wc) == IF Family(v) \in {"v3", "v4", "hl2"} THEN U(698983191 + wc, 32) ELSE U(0, 32)
MainnetId == -239
\* effective parameters: sub = "" (not given) or decimal text; net = [set, id]
EffSub(v, wc, sub) == IF sub = "" \/ ~TakesSub(v) THEN DefaultSubBits(v, wc) ELSE UDec(sub, 32)
EffNet(hasNet, net) == IF hasNet THEN S(net, 32) ELSE S(MainnetId, 32)
InDomain(v, sub) == TRUE

\* one-entry dictionaries (canonical label hml_long$10 n:(#<= m) s:(n * Bit), whole key in the root edge)
ExtKey(pub)  == NotB(pub)
ExtChild(v, pub, wc) ==
  LET f == Family(v) IN
  CASE f = "v4"     -> <<1, 0>> \o U(264, 9) \o S(wc, 8) \o ExtKey(pub)
    [] f = "v5r1"   -> <<1, 0>> \o U(256, 9) \o ExtKey(pub) \o <<1>>
    [] f = "v5beta" -> <<1, 0>> \o U(256, 9) \o ExtKey(pub) \o S(wc, 8)
    [] f = "hl2"    -> <<1, 0>> \o U(64, 7) \o SubSeq(ExtKey(pub), 1, 64)
HasDict(v) == Family(v) \in {"v4", "v5r1", "v5beta", "hl2"}

\* data with stored seqno n (decimal text), sub / net as 32-bit strings; the trailing dictionary bit is added by DataTable
DataHead(v, n, pub, wc, sub, net) ==
  LET f == Family(v) IN
  CASE f = "v1v2"   -> UDec(n, 32) \o pub
    [] f = "v3"     -> UDec(n, 32) \o sub \o pub
    [] f = "v4"     -> UDec(n, 32) \o sub \o pub
    [] f = "v5r1"   -> <<1>> \o UDec(n, 32) \o Xor(<<1>> \o S(wc, 8) \o U(0, 8) \o SubSeq(sub, 18, 32), net) \o pub
    [] f = "v5beta" -> UDec(n, 33) \o net \o S(wc, 8) \o U(0, 8) \o sub \o pub
    [] f = "hl2"    -> sub \o U(0, 64) \o pub
\* cell table of the data: <<root>> or <<root, dictionary root>>
DataTable(v, n, pub, wc, sub, net, ext) ==
  LET h == DataHead(v, n, pub, wc, sub, net) IN
  IF ~HasDict(v) THEN <<[b |-> h, x |-> 0, m |-> 0, r |-> <<>>]>>
  ELSE IF ~ext THEN <<[b |-> h \o <<0>>, x |-> 0, m |-> 0, r |-> <<>>]>>
  ELSE <<[b |-> h \o <<1>>, x |-> 0, m |-> 0, r |-> <<2>>], [b |-> ExtChild(v, pub, wc), x |-> 0, m |-> 0, r |-> <<>>]>>
InitialData(v, pub, wc, sub, net) == DataTable(v, "0", pub, wc, sub, net, FALSE)[1]

StateInitBits == <<0, 0, 1, 1, 0>>
\* representation hash of the StateInit cell with refs <<code(v), data>>
AddressHash(v, pub, wc, sub, net) ==
  LET d  == CellInfo(InitialData(v, pub, wc, sub, net), <<>>)
      si == CellInfo([b |-> StateInitBits, x |-> 0, m |-> 0, r |-> <<1, 2>>], <<Code(v).info, d>>)
  IN ReprHash(si)
InitialDataHash(v, pub, wc, sub, net) == ReprHash(CellInfo(InitialData(v, pub, wc, sub, net), <<>>))

\* ------------------------------------------------- external inbound message
\* ext_in_msg_info$10 src:MsgAddressExt dest:MsgAddressInt import_fee:Grams
\* message$_ info:CommonMsgInfo init:(Maybe (Either StateInit ^StateInit)) body:(Either X ^X)
\* addr_none$00;  addr_std$10 anycast:(Maybe Anycast) workchain_id:int8 address:bits256;  Grams = VarUInteger 16
Fail(w) == [ok |-> FALSE, why |-> w]
Pad12 == <<2, 2, 2, 2, 2, 2, 2, 2, 2, 2, 2, 2>>
\* StateInit fields starting at bit q of c, references taken from rr starting at index k
SIParse(c, q, rr, k) ==
  LET z  == c \o Pad12
      sd == z[q]
      q1 == q + 1 + (IF sd = 1 THEN 5 ELSE 0)
      sp == z[q1]
      q2 == q1 + 1 + (IF sp = 1 THEN 2 ELSE 0)
      hc == z[q2]  hd == z[q2 + 1]  hl == z[q2 + 2]
      nr == (IF hc = 1 THEN 1 ELSE 0) + (IF hd = 1 THEN 1 ELSE 0) + (IF hl = 1 THEN 1 ELSE 0)
  IN IF {sd, sp, hc, hd, hl} \subseteq {0, 1} /\ q2 + 2 <= Len(c) /\ k + nr - 1 <= Len(rr)
     THEN [ok |-> TRUE, plain |-> sd = 0 /\ sp = 0 /\ hl = 0 /\ hc = 1 /\ hd = 1,
           code |-> IF hc = 1 THEN rr[k] ELSE 0, data |-> IF hd = 1 THEN rr[k + hc] ELSE 0,
           next |-> q2 + 3, nextRef |-> k + nr]
     ELSE [ok |-> FALSE]
NoInit == [ok |-> TRUE, plain |-> FALSE, code |-> 0, data |-> 0, next |-> 0, nextRef |-> 0]

MsgParse(T, i) ==
  LET b == T[i].b  rr == T[i].r  n == Len(b) IN
  IF n < 277 THEN Fail("short")
  ELSE IF SubSeq(b, 1, 2) # <<1, 0>> THEN Fail("not-ext-in")
  ELSE IF SubSeq(b, 3, 4) # <<0, 0>> THEN Fail("src")
  ELSE IF SubSeq(b, 5, 7) # <<1, 0, 0>> THEN Fail("dest")
  ELSE
  LET p == 276 + 8 * Val(SubSeq(b, 272, 275)) IN          \* the init Maybe bit
  IF n < p + 1 THEN Fail("short")
  ELSE
  LET hasInit == b[p] = 1
      inl  == hasInit /\ b[p + 1] = 0
      si   == IF ~hasInit THEN NoInit
              ELSE IF inl THEN SIParse(b, p + 2, rr, 1)
              ELSE IF Len(rr) < 1 THEN [ok |-> FALSE]
              ELSE LET c == T[rr[1]]  x == SIParse(c.b, 1, c.r, 1) IN
                   IF x.ok /\ x.next = Len(c.b) + 1 /\ x.nextRef = Len(c.r) + 1 /\ c.x = 0 THEN x ELSE [ok |-> FALSE]
  IN IF ~si.ok THEN Fail("init-form")
     ELSE
     LET pb == IF ~hasInit THEN p + 1 ELSE IF inl THEN si.next ELSE p + 2      \* the body Either bit
         kb == IF ~hasInit THEN 1 ELSE IF inl THEN si.nextRef ELSE 2          \* next unused reference
     IN IF n < pb THEN Fail("short")
        ELSE IF b[pb] = 1 /\ (n # pb \/ Len(rr) # kb) THEN Fail("body-form")
        ELSE IF b[pb] = 0 /\ Len(rr) < kb - 1 THEN Fail("body-form")
        ELSE [ok |-> TRUE, wc |-> SubSeq(b, 8, 15), addr |-> SubSeq(b, 16, 271), hasInit |-> hasInit, init |-> si,
              body |-> IF b[pb] = 1 THEN T[rr[kb]].b ELSE SubSeq(b, pb + 1, n)]

\* where the signed bodies carry the seqno (wallet contracts' recv_external):
\*   v3: signature:bits512 subwallet_id:uint32 valid_until:uint32 msg_seqno:uint32 ...      v4: the same, then op:uint8
\*   v5r1: opcode:uint32 wallet_id:uint32 valid_until:uint32 msg_seqno:uint32 ... signature:bits512 (at the end)
\*   v5beta: opcode:uint32 wallet_id:bits80 valid_until:uint32 msg_seqno:uint32 ...
SeqnoAt(v) == CASE Family(v) \in {"v3", "v4"} -> 512 + 64 + 1
                [] Family(v) = "v5r1" -> 96 + 1
                [] Family(v) = "v5beta" -> 32 + 80 + 32 + 1
BodySeqno(v, body) == IF ~HasSeqno(v) THEN ""
                      ELSE IF Len(body) < SeqnoAt(v) + 31 THEN "short"
                      ELSE BitsToDec(SubSeq(body, SeqnoAt(v), SeqnoAt(v) + 31))

\* ------------------------------------------------------------ send pipeline
\* run parameters p: [ver, entry, confirm, rawseq, rawinit]
\*   entry SendV2 / Send: the wallet asks the chain for the account state;
\*   entry RawSendV2 / RawSend: the caller passes seqno and init (rawseq, rawinit)
StateEntries == {"SendV2", "Send"}
RawEntries   == {"RawSendV2", "RawSend"}
S0 == [pc |-> "start", st |-> "", n |-> "", seq |-> "", init |-> FALSE, polls |-> 0,
       adv |-> FALSE, late |-> FALSE, lateAdv |-> FALSE, res |-> "", why |-> ""]
Bad(s, w) == IF s.pc = "bad" THEN s ELSE [s EXCEPT !.pc = "bad", !.why = w]

\* what the statement requires of (seqno, init): "" = allowed, else the clause that fails
ParamsWhy(p, s, seq, init) ==
  IF p.entry \in RawEntries
    THEN IF HasSeqno(p.ver) /\ seq # p.rawseq THEN "seq" ELSE IF init # p.rawinit THEN "init" ELSE ""
  ELSE IF s.st = "active"
    THEN IF HasSeqno(p.ver) /\ seq # s.n THEN "seq" ELSE IF init THEN "init" ELSE ""
  ELSE IF s.st \in {"none", "uninit"}
    THEN IF ~init THEN "init" ELSE IF HasSeqno(p.ver) /\ seq # "0" THEN "seq" ELSE ""
  ELSE ""                                     \* frozen: the statement says nothing

ReturnWhy(p, s, res) ==
  CASE s.pc = "got"    -> IF res = "err" /\ s.st \in {"err", "frozen"} THEN "" ELSE "return-without-send"
    [] s.pc = "failed" -> IF res = "err" THEN "" ELSE "ok-after-send-error"
    [] s.pc = "sent"   ->
         IF ~p.confirm THEN (IF res = "ok" THEN "" ELSE "error-without-confirmation")
         ELSE IF ~ConfirmSupported(p.ver) /\ s.polls = 0 /\ res = "err" THEN ""    \* may refuse: nothing to watch
         ELSE IF s.adv THEN (IF res = "ok" THEN "" ELSE "error-after-advance")
         ELSE IF s.late THEN (IF res = "err" \/ s.lateAdv THEN "" ELSE "ok-without-advance")
         ELSE IF res = "ok" THEN "ok-without-advance" ELSE "error-before-deadline"
    [] OTHER -> "return-without-send"

Step(p, s, e) ==
  IF s.pc = "bad" THEN s
  ELSE CASE e.k = "GetState" ->
         IF ~(s.pc = "start" /\ p.entry \in StateEntries /\ e.st \in {"none", "uninit", "active", "frozen", "err"}) THEN Bad(s, "GetState:order")
         ELSE IF ~e.own THEN Bad(s, "GetState:account")             \* it is the wallet's own account whose state decides
         ELSE [s EXCEPT !.pc = "got", !.st = e.st, !.n = e.n]
    [] e.k = "Build" ->
         IF ~((s.pc = "got" /\ s.st # "err") \/ (s.pc = "start" /\ p.entry \in RawEntries)) THEN Bad(s, "Build:order")
         ELSE IF ParamsWhy(p, s, e.seq, e.init) # "" THEN Bad(s, StrCat("Build:", ParamsWhy(p, s, e.seq, e.init)))
         ELSE [s EXCEPT !.pc = "built", !.seq = e.seq, !.init = e.init]
    [] e.k = "Send" ->
         IF s.pc # "built" THEN Bad(s, "Send:order")
         ELSE IF ~e.srcNone THEN Bad(s, "Send:src")
         ELSE IF ~e.destOK THEN Bad(s, "Send:dest")
         ELSE IF e.seq # s.seq \/ e.init # s.init THEN Bad(s, "Send:params")
         ELSE IF e.init /\ ~e.initOK THEN Bad(s, "Send:initstate")
         ELSE [s EXCEPT !.pc = IF e.r = "ok" THEN "sent" ELSE "failed"]
    [] e.k = "Poll" ->
         IF s.pc # "sent" \/ ~p.confirm THEN Bad(s, "Poll:order")
         ELSE IF s.adv THEN Bad(s, "Poll:after-advance")
         ELSE IF ~e.own THEN Bad(s, "Poll:account")
         ELSE LET a == e.r = "val" /\ HasSeqno(p.ver) /\ NatLess(s.seq, e.v) IN
              [s EXCEPT !.polls = @ + 1, !.adv = ~s.late /\ a, !.lateAdv = @ \/ (s.late /\ a)]
    [] e.k = "Deadline" ->
         IF s.pc = "sent" /\ p.confirm /\ ~s.late /\ ~s.adv THEN [s EXCEPT !.late = TRUE] ELSE Bad(s, "Deadline")
    [] e.k = "Return" ->
         IF ReturnWhy(p, s, e.res) = "" THEN [s EXCEPT !.pc = "done", !.res = e.res]
         ELSE Bad(s, StrCat("Return:", ReturnWhy(p, s, e.res)))
    [] OTHER -> Bad(s, "unknown-event")

\* ----- the statement's clauses as invariants of the machine (checked by TLC on the generator's state graph)
InvActive(p, s)  == (p.entry \in StateEntries /\ s.st = "active" /\ s.pc \in {"built", "sent", "failed"})
                       => (~s.init /\ (HasSeqno(p.ver) => s.seq = s.n))
InvFresh(p, s)   == (p.entry \in StateEntries /\ s.st \in {"none", "uninit"} /\ s.pc \in {"built", "sent", "failed"})
                       => (s.init /\ (HasSeqno(p.ver) => s.seq = "0"))
InvNoState(p, s) == (s.st = "err" /\ s.pc = "done") => s.res = "err"
InvConfirm(p, s, wasSentOK) ==
  (s.pc = "done" /\ wasSentOK /\ p.confirm /\ ConfirmSupported(p.ver) /\ ~s.lateAdv)
     => /\ (s.res = "ok") = s.adv
        /\ (s.res = "err") = (s.late /\ ~s.adv)
=============================================================================
