---------------------------- MODULE TokenTransfer ----------------------------
(* X07: the message bodies contract/jetton and contract/nft build for token      *)
(* transfers, and the envelope they are put in.                                  *)
(*                                                                               *)
(* Written from TEP-74 (jettons) and TEP-62 (NFT), not from the Go code:         *)
(*   transfer#0f8a7ea5 query_id:uint64 amount:(VarUInteger 16)                   *)
(*     destination:MsgAddress response_destination:MsgAddress                    *)
(*     custom_payload:(Maybe ^Cell) forward_ton_amount:(VarUInteger 16)          *)
(*     forward_payload:(Either Cell ^Cell) = InternalMsgBody;        (jetton)    *)
(*   transfer#5fcc3d14 query_id:uint64 new_owner:MsgAddress                      *)
(*     response_destination:MsgAddress custom_payload:(Maybe ^Cell)              *)
(*     forward_amount:(VarUInteger 16)                                           *)
(*     forward_payload:(Either Cell ^Cell) = InternalMsgBody;        (NFT)       *)
(*   var_uint$_ {n:#} len:(#< n) value:(uint (len * 8)) -- the shortest len      *)
(*   addr_none$00 ;  addr_std$10 anycast:(Maybe Anycast) workchain_id:int8       *)
(*   address:bits256                                                             *)
(* The jetton transfer goes to the SENDER's jetton wallet, the NFT transfer to   *)
(* the item; both are bounceable internal messages carrying the attached TON.    *)
(* query_id is arbitrary.  Either form of forward_payload is a correct body.     *)
(*                                                                               *)
(* A transfer is [kind, amount, dest, resp, custom, fwdTon, fwd] with decimal    *)
(* texts, addresses "wc:hex64" or "none", and payload cells given as cell tables *)
(* (Cells!FromJson rows) or <<>> for "absent".                                   *)
EXTENDS TextForms
BocM == INSTANCE Boc

OpJetton == HexBits("0f8a7ea5")
OpNft    == HexBits("5fcc3d14")

\* ------------------------------------------------------------------ writers
VarUInt16(dec) == LET m == DecToBits(dec)  nb == (Len(m) + 7) \div 8 IN NumBits(nb, 4) \o LeftPad(m, 8 * nb)     \* nb <= 15
FitsVarUInt16(dec) == DecSyntax(StrToCodes(dec)) = "canon" /\ SubStr(dec, 1, 1) # "-" /\ Len(DecToBits(dec)) <= 120
AddrBits(a) ==
  IF a = "none" THEN <<0, 0>>
  ELSE LET c == StrToCodes(a)  k == CHOOSE i \in 1..Len(c) : c[i] = 58 IN
       <<1, 0, 0>> \o TwosBits(CodesToStr(SubSeq(c, 1, k - 1)), 8) \o HexDigitsBits(SubSeq(c, k + 1, Len(c)))
ASSUME VarUInt16("0") = <<0,0,0,0>> /\ VarUInt16("1") = <<0,0,0,1, 0,0,0,0,0,0,0,1>> /\ Len(VarUInt16("256")) = 20

\* the body in the form with both payloads in references (query_id = 64 x "?" is written by the generator)
BodyHead(t) == IF t.kind = "jetton"
           THEN <<OpJetton, VarUInt16(t.amount) \o AddrBits(t.dest) \o AddrBits(t.resp)>>
           ELSE <<OpNft, AddrBits(t.dest) \o AddrBits(t.resp)>>
Tail1(t) == <<IF t.custom = <<>> THEN 0 ELSE 1>> \o VarUInt16(t.fwdTon) \o <<IF t.fwd = <<>> THEN 0 ELSE 1>>

\* ------------------------------------------------------------------- reader
\* Does the cell table T (root 1) hold a body of transfer t?  The root is read field by field.
TreeOf(rows) == BocM!TreeStr(rows, 1)
EmptyTree == "0{[]}"
Reads(T, t) ==
  LET bits == T[1].b  refs == T[1].r
      hd == BodyHead(t)
      p1 == 32 + 64 + Len(hd[2])                     \* bits before custom_payload
      hasC == t.custom # <<>>
      p2 == p1 + 1 + Len(VarUInt16(t.fwdTon))        \* bits before forward_payload
  IN /\ Len(bits) >= p2 + 1
     /\ SubSeq(bits, 1, 32) = hd[1]
     /\ SubSeq(bits, 97, p1) = hd[2]
     /\ bits[p1 + 1] = (IF hasC THEN 1 ELSE 0)
     /\ SubSeq(bits, p1 + 2, p2) = VarUInt16(t.fwdTon)
     /\ hasC => Len(refs) >= 1 /\ BocM!TreeStr(T, refs[1]) = TreeOf(t.custom)
     /\ LET rest == IF hasC THEN Tail(refs) ELSE refs IN
        IF bits[p2 + 1] = 1
        THEN \* right: the payload is the next reference and nothing follows
             /\ Len(bits) = p2 + 1 /\ Len(rest) = 1
             /\ BocM!TreeStr(T, rest[1]) = (IF t.fwd = <<>> THEN EmptyTree ELSE TreeOf(t.fwd))
        ELSE \* left: the rest of the root IS the payload
             LET pb == IF t.fwd = <<>> THEN <<>> ELSE t.fwd[1].b
                 pr == IF t.fwd = <<>> THEN <<>> ELSE t.fwd[1].r
             IN /\ SubSeq(bits, p2 + 2, Len(bits)) = pb
                /\ Len(rest) = Len(pr)
                /\ \A i \in 1..Len(pr) : BocM!TreeStr(T, rest[i]) = BocM!TreeStr(t.fwd, pr[i])
\* the envelope: m = [dest, value (decimal), bounce, mode]
Envelope(t, m) == m.dest = t.to /\ m.value = t.attached /\ m.bounce /\ m.mode = 3
=============================================================================
