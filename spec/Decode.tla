------------------------------- MODULE Decode -------------------------------
(* C08: decoders of untrusted input are total.                                 *)
(*                                                                             *)
(* A decoder call is an event.  The only events that are steps of this         *)
(* specification are RETURNS: the call came back with a value or with an       *)
(* error, within the budget of its input.  A panic, a call that had to be      *)
(* stopped, a process that died - Panic, Timeout, Crash - are not steps.       *)
(*                                                                             *)
(* Budget.  Work may be proportional to the size of the input and no more:     *)
(*     allocation <= 64 * Size + 2 MiB         time <= 2 s + Size / 64 ms      *)
(* Size of a byte string is its length.  Size of a cell input is the size of   *)
(* the TREE the cells unfold to (a DAG is charged for every path):             *)
(* 4 bytes per cell (descriptors and the references to it) plus its bits.      *)
(* The driver measures the unfolding with a walk bounded by 2^21 cells; an     *)
(* input beyond that is "capped": its true size is unknown (and larger), so    *)
(* only the crash / hang clauses apply to it.                                  *)
(* Time is the processor time of the calling thread ("ms"), so that a busy     *)
(* machine cannot produce a breach; a call that does not come back within the  *)
(* driver's wall-clock limit (20 s) is a Timeout.                              *)
(* The constants are generous on purpose; a breach must reproduce on a second  *)
(* run before the runner reports it.                                           *)
(*                                                                             *)
(* Total does not mean "accept anything".  Where the decoder returns a VALUE   *)
(* and the type has a complete schema, the value must be a reading of the      *)
(* input:                                                                      *)
(*  TL-B  the cell TlbSem!Enc builds for the value is a PREFIX of the input    *)
(*        tree - PrefixOf: its bits are a prefix of the input cell's bits, its *)
(*        references a prefix of the input's references, recursively; cells    *)
(*        carried verbatim (^Cell, Any) must be identical.  A pruned branch in *)
(*        the input stands for a subtree that is not there: nothing is         *)
(*        required of the value below it.                                      *)
(*        TL-B gives some values several encodings, and the library's values   *)
(*        cannot express everything an input can say:                          *)
(*          VarUInteger  any length that holds the number encodes it;          *)
(*          HashmapE     labels have three forms;                              *)
(*          Maybe ^X     over a pruned branch the library reports "absent".    *)
(*        For schemas containing one of these the relation is decided by       *)
(*        Reads, which walks schema, value and input together, takes the bits  *)
(*        of every primitive from TlbSem!EncT and reads exactly those free     *)
(*        choices from the input (the length field of a VarUInteger as it      *)
(*        stands - whether it respects its (#< n) bound is a question of       *)
(*        conformance, C03 / C04, not of totality; the presence bit of a       *)
(*        dictionary, below which nothing is compared).  For all other schemas *)
(*        both relations are evaluated and must agree (the runner treats a     *)
(*        disagreement as an error of the specification, never as a verdict).  *)
(*  TL    TlSem's total decoder must return the same value (and leave the same *)
(*        number of bytes unread).  Since Dec is total this also says that the *)
(*        code returns an error whenever Dec does.  The converse - the code    *)
(*        must accept whatever Dec accepts - is not part of totality (it is    *)
(*        C10's statement) and is left free.                                   *)
EXTENDS TlbSem

TL == INSTANCE TlSem

\* ------------------------------------------------------------------ budgets
MiB == 1048576
AllocBudgetKb(size) == (64 * size) \div 1024 + 2048           \* size in bytes; result in KiB
TimeBudgetMs(size)  == 2000 + size \div 64
TreeSize(cells, bits) == 4 * cells + bits \div 8
WithinBudget(size, allocKb, ms) == allocKb <= AllocBudgetKb(size) /\ ms <= TimeBudgetMs(size)
\* the ADNL stream reader may hold one frame of the announced length (the protocol bounds it by MaxFrame) before
\* the bytes have arrived, and one copy of its payload
MaxFrame == 8 * MiB
FrameAllocBudgetKb(size, announced) ==
  AllocBudgetKb(size) + (IF announced >= 64 /\ announced <= MaxFrame THEN (2 * announced) \div 1024 ELSE 0)

\* --------------------------------------------------------- trees and prefixes
Pruned == 1
ExactMark == 16        \* added to the type of a tree that must be matched verbatim
RECURSIVE PrefixOfAt(_, _, _)
PrefixOfAt(e, i, atRoot) ==
  IF ~atRoot /\ i.x = Pruned THEN TRUE
  ELSE IF e.x >= ExactMark THEN [e EXCEPT !.x = @ - ExactMark] = i
  ELSE /\ IsPrefix(e.b, i.b)
       /\ Len(e.r) <= Len(i.r)
       /\ \A k \in 1..Len(e.r) : PrefixOfAt(e.r[k], i.r[k], FALSE)
PrefixOf(e, i) == PrefixOfAt(e, i, TRUE)

\* mark the cells a value carries verbatim, so that the tree Enc builds says where prefix turns into identity
RECURSIVE MarkExact(_, _)
MarkTree(j)  == [j EXCEPT !.x = @ + ExactMark]
MarkKids(j)  == [j EXCEPT !.r = [k \in 1..Len(j.r) |-> MarkTree(j.r[k])]]
MarkExact(ty, v) ==
  CASE ty.t = "maybe"  -> IF v.has THEN [v EXCEPT !.v = MarkExact(ty.of, v.v)] ELSE v
    [] ty.t = "either" -> [v EXCEPT !.v = MarkExact(IF v.right THEN ty.r ELSE ty.l, v.v)]
    [] ty.t = "ref"    -> MarkExact(ty.of, v)
    [] ty.t = "cell"   -> MarkTree(v)
    [] ty.t = "any"    -> MarkKids(v)
    [] ty.t = "seq"    -> IF Len(v) # Len(ty.fields) THEN v ELSE [k \in 1..Len(v) |-> MarkExact(ty.fields[k].ty, v[k])]
    [] ty.t = "sum"    -> LET ix == {k \in 1..Len(ty.ctors) : ty.ctors[k].name = v.c} IN
                          IF ix = {} THEN v ELSE [v EXCEPT !.v = MarkExact(ty.ctors[CHOOSE k \in ix : TRUE].body, v.v)]
    [] OTHER -> v

\* does the schema contain a node whose encoding is not unique?
RECURSIVE Ambiguous(_)
Ambiguous(ty) ==
  CASE ty.t \in {"varuint", "dict"} -> TRUE
    [] ty.t = "maybe"  -> ty.of.t = "ref" \/ Ambiguous(ty.of)      \* Maybe ^X over a pruned branch reads as absent
    [] ty.t = "ref"    -> Ambiguous(ty.of)
    [] ty.t = "either" -> Ambiguous(ty.l) \/ Ambiguous(ty.r)
    [] ty.t = "seq"    -> \E k \in 1..Len(ty.fields) : Ambiguous(ty.fields[k].ty)
    [] ty.t = "sum"    -> \E k \in 1..Len(ty.ctors) : Ambiguous(ty.ctors[k].body)
    [] OTHER -> FALSE

EncPrefix(ty, v, input) == LET r == Enc(<<>>, ty, MarkExact(ty, v)) IN r.ok /\ PrefixOf(r.c, input)

\* ------------------------------------------------- reading guided by the value
\* st = [ok, b (bits of the current cell not yet read), r (references not yet read), cell (the whole current cell)]
Stop == [ok |-> FALSE, b |-> <<>>, r |-> <<>>, cell |-> EmptyCell]
Enter(c) == [ok |-> TRUE, b |-> c.b, r |-> c.r, cell |-> c]
TakeBits(st, bits) == IF st.ok /\ IsPrefix(bits, st.b) THEN [st EXCEPT !.b = SubSeq(st.b, Len(bits) + 1, Len(st.b))] ELSE Stop
BitsToNat(bits) == FoldLeft(LAMBDA a, x : 2 * a + x, 0, bits)

RECURSIVE ReadsT(_, _, _, _)
ReadsT(ty, v, st, env) ==
  IF ~st.ok THEN Stop
  ELSE
  CASE ty.t \in {"uint", "int", "bits", "bitsdep", "bitstring", "bool", "natle", "natlt", "unary", "magic"} ->
         LET e == EncT(<<>>, ty, v, EmptyCell, env) IN IF e.ok THEN TakeBits(st, e.c.b) ELSE Stop
    [] ty.t = "varuint" ->
         \* var_uint$_ {n:#} len:(#< n) value:(uint (len * 8)): every len that holds the value is an encoding of it
         LET w == BitLen(ty.n - 1) IN
         IF Len(st.b) < w THEN Stop
         ELSE LET len == BitsToNat(SubSeq(st.b, 1, w)) IN
              \* (whether len respects the (#< n) bound is a conformance question - C03 / C04 -, not one of totality:
              \*  the value is a reading of the input as long as it is the number in the len bytes that follow)
              IF IsNeg(v) \/ ~UFits(v, 8 * len) THEN Stop
              ELSE TakeBits(st, SubSeq(st.b, 1, w) \o UBits(v, 8 * len))
    [] ty.t = "dict" ->
         \* HashmapE: 0 for the empty map, 1 and a reference to the tree otherwise (labels have several forms: not read)
         IF Len(st.b) < 1 THEN Stop
         ELSE IF st.b[1] = 0 THEN (IF Len(v) = 0 THEN TakeBits(st, <<0>>) ELSE Stop)
         ELSE IF Len(st.r) < 1 THEN Stop
         ELSE [TakeBits(st, <<1>>) EXCEPT !.r = Tail(st.r)]
    [] ty.t = "maybe" ->
         IF v.has THEN ReadsT(ty.of, v.v, TakeBits(st, <<1>>), env)
         ELSE IF ty.of.t = "ref" /\ Len(st.b) >= 1 /\ st.b[1] = 1 /\ Len(st.r) >= 1 /\ st.r[1].x = Pruned
              \* present, but the subtree is not there: the library's value has no way to say so other than "absent"
              THEN [TakeBits(st, <<1>>) EXCEPT !.r = Tail(st.r)]
         ELSE TakeBits(st, <<0>>)
    [] ty.t = "either" ->
         ReadsT(IF v.right THEN ty.r ELSE ty.l, v.v, TakeBits(st, <<IF v.right THEN 1 ELSE 0>>), env)
    [] ty.t = "ref" ->
         IF Len(st.r) < 1 THEN Stop
         ELSE LET kid == st.r[1]
                  rest == [st EXCEPT !.r = Tail(st.r)] IN
              IF kid.x = Pruned THEN rest
              ELSE IF ty.of.t = "cell" THEN (IF TreeOfJson(v) = kid THEN rest ELSE Stop)
              ELSE IF ReadsT(ty.of, v, Enter(kid), <<>>).ok THEN rest ELSE Stop
    [] ty.t = "cell" -> IF TreeOfJson(v) = st.cell THEN st ELSE Stop     \* a cell field without ^: the current cell itself
    [] ty.t = "any" ->
         LET t == TreeOfJson(v) IN IF t.b = st.b /\ t.r = st.r THEN [st EXCEPT !.b = <<>>, !.r = <<>>] ELSE Stop
    [] ty.t = "seq" ->
         IF Len(v) # Len(ty.fields) THEN Stop
         ELSE FoldLeft(LAMBDA acc, k : [st |-> ReadsT(ty.fields[k].ty, v[k], acc.st, acc.env),
                                        env |-> Append(acc.env, <<ty.fields[k].name, v[k]>>)],
                       [st |-> st, env |-> <<>>], [k \in 1..Len(v) |-> k]).st
    [] ty.t = "sum" ->
         LET ix == {k \in 1..Len(ty.ctors) : ty.ctors[k].name = v.c} IN
         IF ix = {} THEN Stop
         ELSE LET c == ty.ctors[CHOOSE k \in ix : TRUE] IN ReadsT(c.body, v.v, TakeBits(st, TagBits(c.tag)), <<>>)
    [] OTHER -> Stop
Reads(ty, v, input) == ReadsT(ty, v, Enter(input), <<>>).ok

\* ----------------------------------------------------- network-facing helpers
\* TL length prefix of a byte string (what an ADNL answer carries after the query id):
\*   b0 < 254: length b0, one byte of prefix;  b0 = 254: length in the next three bytes, little-endian;  255: not a prefix
LenPrefix(b) ==
  IF Len(b) = 0 THEN [ok |-> FALSE, n |-> 0, h |-> 0]
  ELSE IF b[1] < 254 THEN [ok |-> TRUE, n |-> b[1], h |-> 1]
  ELSE IF b[1] = 254 /\ Len(b) >= 4 THEN [ok |-> TRUE, n |-> b[2] + 256 * b[3] + 65536 * b[4], h |-> 4]
  ELSE [ok |-> FALSE, n |-> 0, h |-> 0]
\* adnl.message.answer query_id:int256 answer:bytes: the bytes delivered for an answer payload (magic, id, byte string)
AnswerOf(p) ==
  IF Len(p) < 37 THEN [ok |-> FALSE, data |-> <<>>]
  ELSE LET l == LenPrefix(SubSeq(p, 37, Len(p))) IN
       IF l.ok /\ 36 + l.h + l.n <= Len(p) THEN [ok |-> TRUE, data |-> SubSeq(p, 37 + l.h, 36 + l.h + l.n)]
       ELSE [ok |-> FALSE, data |-> <<>>]
\* ADNL frame: len32le nonce(32) payload sha256(nonce payload), 64 <= len <= MaxFrame
FrameLen(b) == IF Len(b) < 4 THEN -1 ELSE IF b[4] >= 128 THEN MaxFrame + 1
               ELSE b[1] + 256 * b[2] + 65536 * b[3] + 16777216 * b[4]
FrameOf(b) ==
  LET n == FrameLen(b) IN
  IF n < 64 \/ n > MaxFrame \/ Len(b) < 4 + n THEN [ok |-> FALSE, payload |-> <<>>]
  ELSE LET body == SubSeq(b, 5, 4 + n)
           np   == SubSeq(body, 1, n - 32) IN
       IF Sha256(np) = SubSeq(body, n - 31, n) THEN [ok |-> TRUE, payload |-> SubSeq(np, 33, Len(np))]
       ELSE [ok |-> FALSE, payload |-> <<>>]
=============================================================================
