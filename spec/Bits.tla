-------------------------------- MODULE Bits --------------------------------
(* C06: the bit-string / cell read-write primitives as an ideal bit list.     *)
(*                                                                             *)
(* State: s   the bits written so far (sequence of 0/1)                        *)
(*        r   read cursor, 0 <= r <= Len(s)                                    *)
(*        cap capacity in bits (1023 for a cell)                               *)
(*        nrefs, rr   number of references added / reference read cursor       *)
(* Every API call is one action.  A write either appends exactly the bits the  *)
(* value denotes, or fails and leaves what was written before intact (the      *)
(* implementation may have appended a prefix of the new bits).  A read either  *)
(* returns SubSeq(s, r+1, r+w) interpreted at the given width and advances r,  *)
(* or fails because fewer than w bits remain.                                  *)
(* Wide numbers travel as decimal strings; DecToBits is a converter, the       *)
(* width/sign/two's-complement rules are below.                                *)
EXTENDS BitOps

VARIABLES s, r, cap, nrefs, rr
bvars == <<s, r, cap, nrefs, rr>>

MaxRefs == 4

\* what a read of w bits at the cursor sees
Window(w) == SubSeq(s, r + 1, r + w)
Avail     == Len(s) - r
\* leading ones at the cursor (for ReadUnary); -1 if no terminating 0 in what remains
RECURSIVE LeadOnes(_, _)
LeadOnes(b, i) == IF i > Len(b) THEN -1 ELSE IF b[i] = 0 THEN i - 1 ELSE LeadOnes(b, i + 1)

\* ------------------------------------------------------------------- actions
TypeOK == /\ r \in 0..Len(s) /\ Len(s) <= cap /\ \A i \in 1..Len(s) : s[i] \in {0, 1}
          /\ nrefs \in 0..MaxRefs /\ rr \in 0..nrefs

New(c) == s' = <<>> /\ r' = 0 /\ cap' = c /\ nrefs' = 0 /\ rr' = 0

\* Append `bits`; ok says what the implementation reported.
Write(bits, ok) ==
  /\ UNCHANGED <<r, cap, nrefs, rr>>
  /\ IF Len(s) + Len(bits) <= cap
       THEN ok /\ s' = s \o bits
       ELSE ~ok /\ \E k \in 0..(cap - Len(s)) : s' = s \o SubSeq(bits, 1, k)

\* Append to a GROWING bit string (BitString.Append): never fails, every bit of the nested string is written (wherever the
\* nested string's own read cursor is), the capacity grows as far as needed.
AppendGrow(bits) ==
  /\ UNCHANGED <<r, nrefs, rr>>
  /\ s' = s \o bits
  /\ cap' = IF Len(s) + Len(bits) > cap THEN Len(s) + Len(bits) ELSE cap

\* Read w bits: `ok` as reported; on success the cursor moves by adv (w, or 0 for a peek).
Read(w, adv, ok) ==
  /\ UNCHANGED <<s, cap, nrefs, rr>>
  /\ IF w <= Avail THEN ok /\ r' = r + adv ELSE ~ok /\ r' = r

ReadUnaryAct(ok) ==
  /\ UNCHANGED <<s, cap, nrefs, rr>>
  /\ LET n == LeadOnes(s, r + 1) IN
       IF n >= 0 THEN ok /\ r' = n + 1           \* consumed the ones and the terminating zero
       ELSE ~ok /\ r' \in r..Len(s)              \* ran off the end: error, cursor unspecified

Skip(n, ok)   == Read(n, n, ok)
ResetCounter  == r' = 0 /\ rr' = 0 /\ UNCHANGED <<s, cap, nrefs>>
AddRef(ok)    == /\ UNCHANGED <<s, r, cap, rr>>
                 /\ IF nrefs < MaxRefs THEN ok /\ nrefs' = nrefs + 1 ELSE ~ok /\ nrefs' = nrefs
NextRef(ok)   == /\ UNCHANGED <<s, r, cap, nrefs>>
                 /\ IF rr < nrefs THEN ok /\ rr' = rr + 1 ELSE ~ok /\ rr' = rr

\* On(n) / Off(n): one bit set in place. A position at or beyond the write cursor is not (yet) part of the bit string: no
\* visible effect, and what is written there later is what that write says; beyond the capacity: an error.
SetBit(n, val, ok) == /\ UNCHANGED <<r, cap, nrefs, rr>>
                      /\ IF n >= 0 /\ n < cap THEN ok /\ s' = (IF n < Len(s) THEN [s EXCEPT ![n + 1] = val] ELSE s)
                         ELSE ~ok /\ s' = s
\* writing to a by-value copy of the bit string (RawBitString(), struct assignment): nothing of the original changes
Alias == UNCHANGED bvars
\* CopyRemaining: a new cell holding the unread bits and the unread references in their order; the original is untouched.
\* (references are named by the order they were added: 1, 2, ...)
CopyRemainingOut == [bits |-> SubSeq(s, r + 1, Len(s)), refs |-> [i \in 1..(nrefs - rr) |-> rr + i]]

\* the "top-upped" byte form of a bit string (how cell data is stored): the bits, then - if they do not fill whole bytes -
\* a completion tag 1 and zeros up to the byte boundary; an aligned string is its bytes as they are
TopUpBytes(b) == BitsToBytes(IF Len(b) % 8 = 0 THEN b ELSE b \o <<1>> \o [i \in 1..(7 - (Len(b) % 8)) |-> 0])

\* ------------------------------------------------- read results (pure, at s/r)
ReadUintOut(w)    == Window(w)                            \* = UBits(result, w)
ReadBitsOut(n)    == Window(n)
ReadUnaryOut      == LeadOnes(s, r + 1) - r

\* ------------------------------------------------------------------ Fift hex
\* canonical text: nibbles of (s ++ completion tag 1 0* up to a multiple of 4), '_' iff a tag was added
NibbleChar(b) == LET v == 8 * b[1] + 4 * b[2] + 2 * b[3] + b[4]
                 IN SubStr("0123456789ABCDEF", v + 1, v + 1)
RECURSIVE HexOf(_)
HexOf(b) == IF Len(b) = 0 THEN "" ELSE StrCat(NibbleChar(SubSeq(b, 1, 4)), HexOf(SubSeq(b, 5, Len(b))))
FiftHex(b) == IF Len(b) % 4 = 0 THEN HexOf(b)
              ELSE StrCat(HexOf(b \o <<1>> \o Zeros(3 - (Len(b) % 4))), "_")
=============================================================================
