--------------------------------- MODULE Boc ---------------------------------
(* Bag-of-cells container, written from boc.tlb:                               *)
(*   serialized_boc#b5ee9c72 has_idx:(## 1) has_crc32c:(## 1) has_cache_bits:(## 1) flags:(## 2) {flags = 0}   *)
(*     size:(## 3) {size <= 4} off_bytes:(## 8) {off_bytes <= 8}                *)
(*     cells:(##(size*8)) roots:(##(size*8)) absent:(##(size*8)) {roots+absent <= cells}                        *)
(*     tot_cells_size:(##(off_bytes*8)) root_list:(roots * ##(size*8))          *)
(*     index:has_idx?(cells * ##(off_bytes*8)) cell_data:(tot_cells_size*[uint8]) crc32c:has_crc32c?uint32       *)
(*   serialized_boc_idx#68ff65f3 / serialized_boc_idx_crc32c#acc3a728: size:(## 8) off_bytes:(## 8) cells roots *)
(*     absent tot_cells_size index cell_data [crc32c]   (single root, no root list)                            *)
(* Cell: d1 = refs + 8*exotic + 16*with_hashes + 32*level_mask, d2 = floor(bits/8)+ceil(bits/8),                *)
(*   [hashes: 32*n, depths: 2*n if with_hashes, n = hash count of the mask] data refs(size bytes each).          *)
(*                                                                             *)
(* Parse(B) is a total function: [ok |-> TRUE, T, roots, ...] or [ok |-> FALSE, err |-> "guard"].               *)
(* Guards are evaluated in order; the name of the first failing guard is the  *)
(* `err`.  The table T is in file order; references are 1-based indices.       *)
EXTENDS Cells, TLC

\* big-endian unsigned integer of n bytes at 1-based position p. Values beyond 2^31 cannot be TLC
\* integers: Wide(..) says so and the parser rejects such counts as "count too big" (they exceed any input).
RECURSIVE BE(_, _, _)
BE(B, p, n) == IF n = 0 THEN 0 ELSE BE(B, p, n - 1) * 256 + B[p + n - 1]
Wide(B, p, n) == \E k \in 0..(n - 1) : (n - k > 4 /\ B[p + k] # 0) \/ (n - k = 4 /\ B[p + k] >= 128)

Magic(B) == IF Len(B) < 4 THEN "none"
            ELSE IF SubSeq(B, 1, 4) = <<181, 238, 156, 114>> THEN "generic"     \* b5ee9c72
            ELSE IF SubSeq(B, 1, 4) = <<104, 255, 101, 243>> THEN "idx"         \* 68ff65f3
            ELSE IF SubSeq(B, 1, 4) = <<172, 195, 167, 40>>  THEN "idxcrc"      \* acc3a728
            ELSE "unknown"

Err(e) == [ok |-> FALSE, err |-> e]

\* ---- one cell at position p (1-based) of B, cells end at `lim` (inclusive), reference width sz
CellAt(B, p, lim, sz) ==
  IF p + 1 > lim THEN Err("cell:descriptors")
  ELSE
  LET d1 == B[p]  d2 == B[p + 1]
      nr == d1 % 8
      exo == (d1 \div 8) % 2 = 1
      wh == (d1 \div 16) % 2 = 1
      m  == d1 \div 32
      hs == IF wh THEN HashCount(m) * 34 ELSE 0
      dl == (d2 \div 2) + (d2 % 2)
      dp == p + 2 + hs
      rp == dp + dl
      end == rp + nr * sz - 1
  IN IF nr > 4 THEN Err("cell:refs>4")
     ELSE IF end > lim THEN Err("cell:truncated")
     ELSE
     LET raw == SubSeq(B, dp, dp + dl - 1)
         bits0 == BytesToBits(raw)
         \* not byte aligned (d2 odd): strip the completion tag = the last 1 bit and the zeros after it
         lastOne == IF d2 % 2 = 0 \/ dl = 0 THEN 0
                    ELSE LET tail == SubSeq(bits0, Len(bits0) - 7, Len(bits0))
                             ix == {i \in 1..8 : tail[i] = 1}
                         IN IF ix = {} THEN -1 ELSE Len(bits0) - 8 + (CHOOSE i \in ix : \A j \in ix : j <= i)
         bits == IF d2 % 2 = 0 THEN bits0 ELSE IF lastOne <= 0 THEN <<>> ELSE SubSeq(bits0, 1, lastOne - 1)
     IN IF d2 % 2 = 1 /\ (dl = 0 \/ lastOne = -1) THEN Err("cell:no-completion-tag")
        ELSE IF exo /\ Len(bits) < 8 THEN Err("cell:exotic-without-type")
        ELSE [ok |-> TRUE, next |-> end + 1, wh |-> wh,
              cell |-> [b |-> bits, x |-> IF exo THEN raw[1] ELSE 0, m |-> m,
                        r |-> [j \in 1..nr |-> IF Wide(B, rp + (j - 1) * sz, sz) THEN 0 ELSE BE(B, rp + (j - 1) * sz, sz) + 1]],
              widerefs |-> \E j \in 1..nr : Wide(B, rp + (j - 1) * sz, sz)]

ParseX(B, strictIdx) ==
  LET mg == Magic(B) IN
  IF mg = "none" THEN Err("hdr:short")
  ELSE IF mg = "unknown" THEN Err("hdr:magic")
  ELSE IF Len(B) < 6 THEN Err("hdr:short")
  ELSE
  LET fl   == B[5]
      gen  == mg = "generic"
      hasIdx == IF gen THEN (fl \div 128) % 2 = 1 ELSE TRUE
      hasCrc == IF gen THEN (fl \div 64) % 2 = 1 ELSE mg = "idxcrc"
      hasCache == IF gen THEN (fl \div 32) % 2 = 1 ELSE FALSE
      flags == IF gen THEN (fl \div 8) % 4 ELSE 0
      sz   == IF gen THEN fl % 8 ELSE fl
      ob   == B[6]
  IN IF flags # 0 THEN Err("hdr:flags")
     ELSE IF sz < 1 \/ sz > 4 THEN Err("hdr:size")
     ELSE IF ob < 1 \/ ob > 8 THEN Err("hdr:off_bytes")
     ELSE IF Len(B) < 6 + 3 * sz + ob THEN Err("hdr:counters-truncated")
     ELSE IF Wide(B, 7, sz) \/ Wide(B, 7 + sz, sz) \/ Wide(B, 7 + 2 * sz, sz) \/ Wide(B, 7 + 3 * sz, ob) THEN Err("hdr:count-too-big")
     ELSE
     LET ncells == BE(B, 7, sz)
         nroots == BE(B, 7 + sz, sz)
         absent == BE(B, 7 + 2 * sz, sz)
         tot    == BE(B, 7 + 3 * sz, ob)
         rootsAt == 7 + 3 * sz + ob
         \* the lean formats have exactly one root = cell 0 and no root list
         rootBytes == IF gen THEN nroots * sz ELSE 0
         idxAt  == rootsAt + rootBytes
         idxBytes == IF hasIdx THEN ncells * ob ELSE 0
         dataAt == idxAt + idxBytes
         dataEnd == dataAt + tot - 1
         total  == dataEnd + (IF hasCrc THEN 4 ELSE 0)
     IN IF ncells < 1 THEN Err("hdr:no-cells")
        ELSE IF nroots < 1 THEN Err("hdr:no-roots")
        \* boc.tlb asks roots + absent <= cells, but the reference serialiser lists a root once per request, so a bag
        \* may name the same cell as a root several times (the repository's own fixtures contain such bags)
        ELSE IF absent > ncells THEN Err("hdr:absent>cells")
        ELSE IF nroots > Len(B) THEN Err("hdr:roots>input")
        ELSE IF ~gen /\ nroots # 1 THEN Err("hdr:lean-multi-root")
        ELSE IF tot > Len(B) THEN Err("body:truncated")                      \* (also keeps the arithmetic below in range)
        ELSE IF ncells > tot \div 2 THEN Err("hdr:cells>data")               \* every cell needs >= 2 bytes
        ELSE IF Len(B) < total THEN Err("body:truncated")
        ELSE IF Len(B) > total THEN Err("body:trailing-bytes")
        ELSE IF hasCrc /\ SubSeq(B, total - 3, total) # Reverse(Crc32c(SubSeq(B, 1, total - 4))) THEN Err("body:crc")
        ELSE
        LET roots0 == IF gen THEN [i \in 1..nroots |-> BE(B, rootsAt + (i - 1) * sz, sz)] ELSE <<0>>
            \* cells, sequentially
            Walk == FoldLeft(LAMBDA acc, i :
                       IF ~acc.ok THEN acc
                       ELSE LET c == CellAt(B, acc.next, dataEnd, sz) IN
                            IF ~c.ok THEN c
                            ELSE [ok |-> TRUE, next |-> c.next, T |-> Append(acc.T, c.cell),
                                  ends |-> Append(acc.ends, c.next - dataAt), wide |-> acc.wide \/ c.widerefs],
                     [ok |-> TRUE, next |-> dataAt, T |-> <<>>, ends |-> <<>>, wide |-> FALSE],
                     [i \in 1..ncells |-> i])
        IN IF ~Walk.ok THEN Walk
           ELSE IF Walk.next # dataEnd + 1 THEN Err("body:cells-do-not-fill-data")
           ELSE IF Walk.wide THEN Err("cell:ref-out-of-range")
           ELSE IF \E i \in 1..nroots : roots0[i] >= ncells THEN Err("hdr:root-out-of-range")
           ELSE IF \E i \in 1..ncells : \E j \in 1..Len(Walk.T[i].r) : Walk.T[i].r[j] > ncells THEN Err("cell:ref-out-of-range")
           ELSE IF \E i \in 1..ncells : \E j \in 1..Len(Walk.T[i].r) : Walk.T[i].r[j] <= i THEN Err("cell:ref-not-forward")
           ELSE IF strictIdx /\ hasIdx /\ \E i \in 1..ncells :
                      Wide(B, idxAt + (i - 1) * ob, ob) \/
                      (LET v == BE(B, idxAt + (i - 1) * ob, ob) IN (IF hasCache THEN v \div 2 ELSE v) # Walk.ends[i])
                THEN Err("body:index")
           ELSE [ok |-> TRUE, T |-> Walk.T, roots |-> [i \in 1..nroots |-> roots0[i] + 1],
                 hasIdx |-> hasIdx, hasCrc |-> hasCrc, hasCache |-> hasCache, size |-> sz, offBytes |-> ob,
                 ncells |-> ncells, absent |-> absent, magic |-> mg]

Parse(B) == ParseX(B, TRUE)
\* the index is an auxiliary table for random access; ParseLenient ignores its contents (not its size)
ParseLenient(B) == ParseX(B, FALSE)

\* ------------------------------------------------------- reference writer
\* Write(T, roots, ch): the bytes a conforming serialiser may produce for the cell table T (topological
\* order as given), ch = [magic, idx, crc, cache, size, ob, hashes]: every header variant of boc.tlb.
RECURSIVE ToBE(_, _)
ToBE(v, n) == IF n = 0 THEN <<>> ELSE ToBE(v \div 256, n - 1) \o <<v % 256>>
CellBytes(T, I, i, sz, withHashes) ==
  LET c == T[i]
      d1 == D1(c, 3) + (IF withHashes THEN 16 ELSE 0)
      lv == Levels(c.m)
      \* stored hashes / depths: one per significant level, lowest first
      hh == IF withHashes THEN FoldLeft(LAMBDA a, l : a \o I[i].h[l + 1], <<>>, lv) ELSE <<>>
      dd == IF withHashes THEN FoldLeft(LAMBDA a, l : a \o U16(I[i].d[l + 1]), <<>>, lv) ELSE <<>>
  IN <<d1, D2(c)>> \o hh \o dd \o DataBytes(c.b) \o FoldLeft(LAMBDA a, r : a \o ToBE(r - 1, sz), <<>>, c.r)
Write(T, roots, ch) ==
  LET n  == Len(T)
      I  == InfoTable(T)
      gen == ch.magic = "generic"
      hasIdx == IF gen THEN ch.idx ELSE TRUE
      hasCrc == IF gen THEN ch.crc ELSE ch.magic = "idxcrc"
      hasCache == gen /\ ch.cache
      cb == [i \in 1..n |-> CellBytes(T, I, i, ch.size, ch.hashes)]
      data == FoldLeft(LAMBDA a, x : a \o x, <<>>, cb)
      ends == FoldLeft(LAMBDA a, x : Append(a, (IF Len(a) = 0 THEN 0 ELSE a[Len(a)]) + Len(x)), <<>>, cb)
      magic == IF gen THEN <<181, 238, 156, 114>> ELSE IF ch.magic = "idx" THEN <<104, 255, 101, 243>> ELSE <<172, 195, 167, 40>>
      flagByte == IF gen THEN (IF ch.idx THEN 128 ELSE 0) + (IF ch.crc THEN 64 ELSE 0) + (IF ch.cache THEN 32 ELSE 0) + ch.size
                  ELSE ch.size
      hdr == magic \o <<flagByte, ch.ob>> \o ToBE(n, ch.size) \o ToBE(Len(roots), ch.size) \o ToBE(0, ch.size)
                   \o ToBE(Len(data), ch.ob)
      rl  == IF gen THEN FoldLeft(LAMBDA a, r : a \o ToBE(r - 1, ch.size), <<>>, roots) ELSE <<>>
      ix  == IF hasIdx THEN FoldLeft(LAMBDA a, e : a \o ToBE(IF hasCache THEN 2 * e + 1 ELSE e, ch.ob), <<>>, ends) ELSE <<>>
      body == hdr \o rl \o ix \o data
  IN IF hasCrc THEN body \o Reverse(Crc32c(body)) ELSE body

\* canonical text of the tree a cell unfolds to (small DAGs only): type, bits, children in order
RECURSIVE TreeStr(_, _)
TreeStr(T, i) == LET kids == FoldLeft(LAMBDA a, r : StrCat(StrCat(a, TreeStr(T, r)), ","), "", T[i].r)
                 IN StrCat(StrCat(StrCat(StrCat(StrCat(ToString(T[i].x), "{"), BitsToStr(T[i].b)), "["), kids), "]}")

\* ------------------------------------------------------------------ judgements
\* The cells a parse result stands for, as hashes: root hashes at the highest level, in root order.
\* (the info table is an ARGUMENT of the helper: TLC evaluates an argument once, a LET at every use when called from an action)
RootHashesI(I, roots) == [i \in 1..Len(roots) |-> ReprHash(I[roots[i]])]
RootHashes(pr) == RootHashesI(InfoTable(pr.T), pr.roots)

\* "shared sub-trees are stored once": no two cells of the bag are structurally equal
NoDuplicatesI(I, n) == Cardinality({ReprHash(I[i]) : i \in 1..n}) = n
NoDuplicates(pr) == NoDuplicatesI(InfoTable(pr.T), Len(pr.T))
\* every cell is reachable from a root (nothing but the DAG is stored)
Reach(pr) == LET n == Len(pr.T)
                 R == FoldLeft(LAMBDA acc, i : IF i \in acc THEN acc \cup {pr.T[i].r[j] : j \in 1..Len(pr.T[i].r)} ELSE acc,
                               {pr.roots[k] : k \in 1..Len(pr.roots)}, [i \in 1..n |-> i])
             IN R
AllReachable(pr) == Reach(pr) = 1..Len(pr.T)
=============================================================================
