------------------------------- MODULE Tep64 -------------------------------
(* TEP-64 token data (X02).  Written from the Token Data Standard              *)
(* (TEPs/text/0064-token-data-standard.md) and the doc comments of package      *)
(* tep64, not from the Go code:                                                 *)
(*   content      the first byte of the root cell selects the layout            *)
(*     onchain#00  data:(HashmapE 256 ^ContentData)    keys = sha256(attribute)  *)
(*     offchain#01 uri:Text                            the rest is the URI       *)
(*   semi-chain   = on-chain data whose dictionary has the key `uri`            *)
(*   ContentData  snake#00 data:(SnakeData ~n) | chunks#01 data:ChunkedData      *)
(*   SnakeData    tail#_ b:(bits bn) | cons#_ b:(bits bn) next:^(SnakeData ~n):  *)
(*                the data continues in the FIRST reference of the cell          *)
(*   ChunkedData  chunked_data#_ data:(HashmapE 32 ^(SnakeData ~0)), the chunks  *)
(*                concatenated in ascending order of the 32-bit index            *)
(*   Text         text#_ {n:#} data:(SnakeData ~n)                               *)
(*   data is a whole number of bytes (bits are concatenated first: a cell of a   *)
(*   chain may end inside a byte, TL-B puts no constraint on bn)                 *)
(* Attributes (TEP-64 + custom_payload_api_uri, which the package documents):   *)
(*   uri name description image image_data symbol decimals amount_style          *)
(*   render_type custom_payload_api_uri                                          *)
(*                                                                               *)
(* WHAT IS LEFT FREE.  A decoder is REQUIRED to decode a conforming content and  *)
(* to refuse (error, never a panic) a content whose required part cannot be      *)
(* read: unknown layout byte, missing bytes, unknown ContentData tag under a     *)
(* known attribute, missing value / chunk reference, broken dictionary label,    *)
(* data that is not a whole number of bytes.  The documents say nothing about    *)
(* input that is readable but carries MORE than the schema asks for (bits after  *)
(* the HashmapE bit, references beyond the one the schema uses, bits in a leaf   *)
(* whose value is a reference, a chunk that is itself a chain, a fork cell with  *)
(* extra bits / a third reference) nor about broken values under attributes the  *)
(* decoder ignores anyway: on those (strict = FALSE) a decoder may refuse, or    *)
(* decode what the schema's part says (surplus ignored, first reference          *)
(* followed, unknown attribute skipped) -- verdict "free".  Exotic cells are     *)
(* outside the documents altogether -- verdict "any" (anything but a panic).     *)
(* Unknown attributes are ignored.  `uri` present but empty: on-chain or         *)
(* semi-chain.  Error texts are never compared.                                  *)
EXTENDS Dict, Boc

\* ------------------------------------------------------------- attributes
Attrs == <<"uri", "name", "description", "image", "image_data", "symbol", "decimals",
           "amount_style", "render_type", "custom_payload_api_uri">>
AttrSet == {Attrs[i] : i \in 1..Len(Attrs)}
KeyOf(name) == BytesToBits(Sha256(StrToCodes(name)))          \* 256 key bits of an attribute
AttrKeys == [a \in AttrSet |-> KeyOf(a)]
NoFields == [a \in AttrSet |-> <<>>]

Byte(v) == NatToBits(v, 8)
Bad == [ok |-> FALSE, strict |-> FALSE, bytes |-> <<>>]

\* ------------------------------------------------------------------ snake
\* bits of the chain that starts in cell i after its first `from` bits (from <= Len(T[i].b))
RECURSIVE SnakeBits(_, _, _)
SnakeBits(T, i, from) ==
  LET c   == T[i]
      own == SubSeq(c.b, from + 1, Len(c.b))
  IN IF Len(c.r) = 0 THEN [bits |-> own, strict |-> TRUE, cells |-> 1]
     ELSE LET rest == SnakeBits(T, c.r[1], 0)
          IN [bits |-> own \o rest.bits, strict |-> rest.strict /\ Len(c.r) = 1, cells |-> rest.cells + 1]
SnakeBytes(T, i, from) ==
  LET s == SnakeBits(T, i, from) IN
  IF Len(s.bits) % 8 # 0 THEN Bad ELSE [ok |-> TRUE, strict |-> s.strict, bytes |-> BitsToBytes(s.bits)]

\* ------------------------------------------------------------- dictionaries
\* HashmapE n stored in cell i after `from` bits.  The reading of Dict (DecDictE) is the conforming one; a
\* dictionary that Dict refuses only because a fork carries surplus bits / references is read by TEdge.
DFail == [ok |-> FALSE, strict |-> FALSE, items |-> <<>>]
RECURSIVE TEdge(_, _, _, _)
TEdge(T, i, n, prefix) ==
  LET c  == T[i]
      lb == Label(c.b, n)
  IN IF ~lb.ok THEN DFail
     ELSE LET m   == n - Len(lb.s)
              key == prefix \o lb.s
          IN IF m = 0 THEN [ok |-> TRUE, strict |-> TRUE,
                            items |-> << [k |-> key, v |-> [b |-> SubSeq(c.b, lb.used + 1, Len(c.b)), r |-> c.r]] >>]
             ELSE IF Len(c.r) < 2 THEN DFail
             ELSE LET L == TEdge(T, c.r[1], m - 1, key \o <<0>>) IN
                  IF ~L.ok THEN DFail
                  ELSE LET R == TEdge(T, c.r[2], m - 1, key \o <<1>>) IN
                       IF ~R.ok THEN DFail
                       ELSE [ok |-> TRUE, strict |-> L.strict /\ R.strict /\ Len(c.r) = 2 /\ lb.used = Len(c.b),
                             items |-> L.items \o R.items]
View(T, i, from) == [T EXCEPT ![i].b = SubSeq(@, from + 1, Len(@))]
DictAt(T, i, from, n) ==
  LET c == T[i] IN
  IF Len(c.b) < from + 1 THEN DFail
  ELSE LET d     == DecDictE(View(T, i, from), i, n)
           exact == Len(c.b) = from + 1 /\ Len(c.r) = c.b[from + 1]      \* nothing after the HashmapE
       IN IF d.ok THEN [ok |-> TRUE, strict |-> exact, items |-> d.items]
          ELSE IF c.b[from + 1] = 0 \/ Len(c.r) < 1 THEN DFail
          ELSE LET t == TEdge(T, c.r[1], n, <<>>) IN [t EXCEPT !.strict = FALSE]
\* cross-check of the two readings on a conforming dictionary (used by the generator's self-check)
DictReadingsAgree(T, i, from, n) ==
  LET d == DecDictE(View(T, i, from), i, n)
      t == IF T[i].b[from + 1] = 0 THEN [ok |-> TRUE, strict |-> TRUE, items |-> <<>>] ELSE TEdge(T, T[i].r[1], n, <<>>)
  IN d.ok => (t.ok /\ t.strict /\ t.items = d.items)

\* ------------------------------------------------------------ ContentData
Tag8(c) == BitsToNat(SubSeq(c.b, 1, 8))
ContentDataBytes(T, i) ==
  LET c == T[i] IN
  IF Len(c.b) < 8 THEN Bad
  ELSE IF Tag8(c) = 0 THEN SnakeBytes(T, i, 8)
  ELSE IF Tag8(c) = 1 THEN
    LET d == DictAt(T, i, 8, 32) IN
    IF ~d.ok THEN Bad
    ELSE IF \E j \in 1..Len(d.items) : Len(d.items[j].v.r) = 0 THEN Bad          \* a chunk without its cell
    ELSE LET parts == [j \in 1..Len(d.items) |-> SnakeBits(T, d.items[j].v.r[1], 0)]
             bits  == FoldLeft(LAMBDA a, p : a \o p.bits, <<>>, parts)           \* traversal order = ascending index
             strict == d.strict /\ \A j \in 1..Len(d.items) :
                          d.items[j].v.b = <<>> /\ Len(d.items[j].v.r) = 1 /\ parts[j].cells = 1   \* ^(SnakeData ~0): a tail
         IN IF Len(bits) % 8 # 0 THEN Bad ELSE [ok |-> TRUE, strict |-> strict, bytes |-> BitsToBytes(bits)]
  ELSE Bad
\* shape of a value, for statistics: "snake1" | "snakeN" | "chunks" | "other"
ValueShape(T, i) ==
  IF Len(T[i].b) < 8 THEN "other"
  ELSE IF Tag8(T[i]) = 0 THEN (IF Len(T[i].r) = 0 THEN "snake1" ELSE "snakeN")
  ELSE IF Tag8(T[i]) = 1 THEN "chunks" ELSE "other"

\* ---------------------------------------------------------------- content
NoContent == [ok |-> FALSE, strict |-> FALSE, layout |-> "none", fields |-> NoFields, url |-> <<>>,
              nknown |-> 0, nunknown |-> 0, shapes |-> <<>>, ashape |-> [a \in AttrSet |-> "-"]]
DecodeContent(T, root) ==
  LET c == T[root] IN
  IF Len(c.b) < 8 THEN NoContent
  ELSE IF Tag8(c) = 1 THEN
    LET s == SnakeBytes(T, root, 8) IN
    IF ~s.ok THEN NoContent
    ELSE [NoContent EXCEPT !.ok = TRUE, !.strict = s.strict, !.layout = "offchain", !.url = s.bytes]
  ELSE IF Tag8(c) = 0 THEN
    LET d == DictAt(T, root, 8, 256) IN
    IF ~d.ok THEN NoContent
    ELSE
    LET n      == Len(d.items)
        vals   == [j \in 1..n |-> IF Len(d.items[j].v.r) = 0 THEN Bad ELSE ContentDataBytes(T, d.items[j].v.r[1])]
        known  == {j \in 1..n : \E a \in AttrSet : AttrKeys[a] = d.items[j].k}
        At(a)  == {j \in 1..n : d.items[j].k = AttrKeys[a]}
        fields == [a \in AttrSet |-> IF At(a) = {} THEN <<>> ELSE vals[CHOOSE j \in At(a) : TRUE].bytes]
        strict == d.strict /\ \A j \in 1..n : vals[j].ok /\ vals[j].strict /\ d.items[j].v.b = <<>> /\ Len(d.items[j].v.r) = 1
    IN IF \E j \in known : ~vals[j].ok THEN NoContent
       ELSE [ok |-> TRUE, strict |-> strict, layout |-> IF At("uri") # {} THEN "semichain" ELSE "onchain",
             fields |-> fields, url |-> <<>>, nknown |-> Cardinality(known), nunknown |-> n - Cardinality(known),
             shapes |-> [j \in 1..n |-> IF Len(d.items[j].v.r) = 0 THEN "other" ELSE ValueShape(T, d.items[j].v.r[1])],
             ashape |-> [a \in AttrSet |-> IF At(a) = {} THEN "-" ELSE ValueShape(T, d.items[CHOOSE j \in At(a) : TRUE].v.r[1])]]
  ELSE NoContent

HasExotic(T, root) == \E i \in Reach([T |-> T, roots |-> <<root>>]) : T[i].x # Ordinary
\* "ok" must decode to d | "err" must refuse | "free" may refuse or decode to d | "any" outside the documents
Verdict(T, root) ==
  IF HasExotic(T, root) THEN [v |-> "any", d |-> NoContent]
  ELSE LET d == DecodeContent(T, root) IN
       [v |-> IF ~d.ok THEN "err" ELSE IF d.strict THEN "ok" ELSE "free", d |-> d]

\* ------------------------------------------------------- observed results
\* g = what the real code returned for one decoding call:
\*   [ok, err ("" | "e"), panic, layout, url (hex), has_meta, fields (attribute -> hex), data (hex),
\*    json_ok, json (attribute -> hex | "-" when absent)]
Ascii(bytes) == \A k \in 1..Len(bytes) : bytes[k] < 128
ResultEq(g, d) ==
  /\ \/ g.layout = d.layout
     \/ d.layout = "semichain" /\ d.fields["uri"] = <<>> /\ g.layout = "onchain"     \* `uri` present but empty
  /\ \A a \in AttrSet : HexToBytes(g.fields[a]) = d.fields[a]
  /\ CASE d.layout = "offchain" -> HexToBytes(g.url) = d.url /\ HexToBytes(g.data) = d.url
       [] d.layout = "onchain"  -> g.url = "" /\ g.has_meta
       \* FullContent.OffchainURL is documented for the off-chain layout only; Metadata.Uri is the semi-chain link
       [] OTHER                 -> g.url \in {"", BytesToHex(d.fields["uri"])} /\ g.has_meta
  \* FullContent.Data of an on-chain content is the JSON object of the non-empty attributes (image_data in base64)
  /\ d.layout # "offchain" =>
       /\ g.json_ok
       /\ \A a \in AttrSet :
            IF d.fields[a] = <<>> THEN g.json[a] = "-"
            ELSE g.json[a] # "-" /\ ((a = "image_data" \/ Ascii(d.fields[a])) => HexToBytes(g.json[a]) = d.fields[a])
Refused(g)  == ~g.ok /\ g.err # ""
Decoded(g, d) == g.ok /\ g.err = "" /\ ResultEq(g, d)
Matches(g, V) ==
  /\ g.panic = ""
  /\ CASE V.v = "ok"   -> Decoded(g, V.d)
       [] V.v = "err"  -> Refused(g)
       [] V.v = "free" -> Decoded(g, V.d) \/ Refused(g)
       [] OTHER        -> TRUE
\* ConvertOnchainData: the attributes only
ConvMatches(g, V) ==
  /\ g.panic = ""
  /\ LET dec == g.ok /\ g.err = "" /\ \A a \in AttrSet : HexToBytes(g.fields[a]) = V.d.fields[a]
     IN CASE V.v = "ok"   -> dec
          [] V.v = "err"  -> Refused(g)
          [] V.v = "free" -> dec \/ Refused(g)
          [] OTHER        -> TRUE

\* ------------------------------------------------------------------ Merge
\* A Metadata value: [f |-> attribute -> bytes, img_nil |-> image_data is the nil slice].
\* Contract (the package's tests "keep all fields" / "copy all fields"): every non-empty attribute of `other`
\* replaces the receiver's, an empty one leaves it; a nil `other` changes nothing.  image_data that is empty but
\* not nil is left free (either reading of "empty").  `other` itself is not changed.
MergeSpec(a, bnil, b) ==
  IF bnil THEN a.f
  ELSE [x \in AttrSet |-> IF b.f[x] # <<>> THEN b.f[x] ELSE a.f[x]]
MergeAllowed(a, bnil, b, r) ==
  LET w == MergeSpec(a, bnil, b) IN
  /\ \A x \in AttrSet \ {"image_data"} : r.f[x] = w[x]
  /\ \/ r.f["image_data"] = w["image_data"]
     \/ ~bnil /\ ~b.img_nil /\ b.f["image_data"] = <<>> /\ r.f["image_data"] = <<>>

\* ------------------------------------------------------- reference encoders
Cell(b, r) == [b |-> b, x |-> Ordinary, m |-> 0, r |-> r]
ShiftT(TT, d) == [j \in 1..Len(TT) |-> [TT[j] EXCEPT !.r = [q \in 1..Len(TT[j].r) |-> TT[j].r[q] + d]]]
Sums(cuts) == FoldLeft(LAMBDA a, x : Append(a, a[Len(a)] + x), <<0>>, cuts)       \* <<0, c1, c1+c2, ..>>
\* a chain holding `bits`; cell j carries cuts[j] of them (sum = Len(bits)), the first one after `prefix`
EncSnake(prefix, bits, cuts) ==
  LET n == Len(cuts)
      s == Sums(cuts)
  IN [j \in 1..n |-> Cell((IF j = 1 THEN prefix ELSE <<>>) \o SubSeq(bits, s[j] + 1, s[j + 1]),
                          IF j < n THEN <<j + 1>> ELSE <<>>)]
\* the cuts of a writer that fills every cell with whole bytes (what the usual encoders do)
RECURSIVE FillCuts(_, _)
FillCuts(nbits, room) == IF nbits <= room THEN <<nbits>> ELSE <<room>> \o FillCuts(nbits - room, 1016)

\* hang the value tables vals[k] (k-th leaf in key order; <<>> = leave the leaf without reference) under the leaves
\* of a dictionary table D written by Dict!EncDictE with empty leaf values
Attach(D, vals) ==
  LET nv     == Len(vals)
      leaves == SelectSeq([j \in 1..Len(D) |-> j], LAMBDA j : j > 1 /\ Len(D[j].r) = 0)
      offs   == FoldLeft(LAMBDA a, k : Append(a, a[Len(a)] + Len(vals[k])), <<Len(D)>>, [k \in 1..nv |-> k])
      rank(j) == CHOOSE k \in 1..Len(leaves) : leaves[k] = j
      DA == [j \in 1..Len(D) |->
               IF (\E k \in 1..Len(leaves) : leaves[k] = j) /\ rank(j) <= nv /\ Len(vals[rank(j)]) > 0
                 THEN [D[j] EXCEPT !.r = <<offs[rank(j)] + 1>>] ELSE D[j]]
  IN DA \o FoldLeft(LAMBDA a, k : a \o ShiftT(vals[k], offs[k]), <<>>, [k \in 1..nv |-> k])
SortByKey(es) == SortSeq(es, LAMBDA x, y : BitsLess(x.k, y.k))
\* entries: sequence of [k |-> key bits, t |-> value table]; the HashmapE bit follows `prefix` in the root cell
EncDictOfRefs(prefix, entries, n, forms) ==
  LET es == SortByKey(entries)
      D  == EncDictE([j \in 1..Len(es) |-> [k |-> es[j].k, v |-> [b |-> <<>>]]], n, forms)
      A  == Attach(D, [j \in 1..Len(es) |-> es[j].t])
  IN [A EXCEPT ![1].b = prefix \o @]
EncChunked(chunks, forms) == EncDictOfRefs(Byte(1), chunks, 32, forms)              \* chunks: [k |-> 32 index bits, t |-> tail cell]
EncOnchain(entries, forms) == EncDictOfRefs(Byte(0), entries, 256, forms)           \* entries: [k |-> KeyOf(attr), t |-> ContentData table]
EncOffchain(bytes, cuts)   == EncSnake(Byte(1), BytesToBits(bytes), cuts)
=============================================================================
