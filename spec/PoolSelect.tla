----------------------------- MODULE PoolSelect -----------------------------
(* C13, first clause: which connection a refresh (updateBest) may choose.      *)
(* Written from the property statement, not from the Go code:                  *)
(*   "Whenever at least one pooled connection is alive and at most one         *)
(*    masterchain block behind the newest head known to the pool, the          *)
(*    connection chosen as best after a refresh is such a connection: the one  *)
(*    with the lowest round-trip time under the best-ping strategy, the first  *)
(*    one in configuration order under the first-working strategy; otherwise   *)
(*    the previous choice is kept."                                            *)
(* conns is a function 1..N -> [alive, seqno, rtt]; configuration order is the *)
(* index order.  Seqnos are natural numbers (no wrap-around: 2^32-1 is one     *)
(* ahead of 2^32-2 and not behind anything).  Round-trip ties are left free.   *)
EXTENDS Naturals, FiniteSets

Newest(conns)   == CHOOSE m \in {conns[i].seqno : i \in DOMAIN conns} :
                      \A i \in DOMAIN conns : conns[i].seqno <= m
Good(conns, i)  == conns[i].alive /\ conns[i].seqno + 1 >= Newest(conns)
GoodSet(conns)  == {i \in DOMAIN conns : Good(conns, i)}
BestPing(conns) == {i \in GoodSet(conns) : \A j \in GoodSet(conns) : conns[i].rtt <= conns[j].rtt}
FirstWorking(conns) == {i \in GoodSet(conns) : \A j \in GoodSet(conns) : i <= j}

Strategies == {"best-ping", "first-working"}

\* the set of values the best connection may have after a refresh
Choices(strategy, conns, prev) ==
  IF DOMAIN conns = {} \/ GoodSet(conns) = {} THEN {prev}
  ELSE IF strategy = "best-ping" THEN BestPing(conns) ELSE FirstWorking(conns)

\* the refresh as an action on (best, best')
UpdateBest(strategy, conns, best, bestNext) == bestNext \in Choices(strategy, conns, best)
=============================================================================
