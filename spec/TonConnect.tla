----------------------------- MODULE TonConnect -----------------------------
(* TON Connect `ton_proof` verification (property C19).                        *)
(*                                                                             *)
(* SPECIFIED BY TON CONNECT (ton-connect/docs, "Address proof signing"):        *)
(*   message = utf8("ton-proof-item-v2/") ++ workchain (4 bytes, big endian,    *)
(*             two's complement) ++ account id (32 bytes) ++ domain length      *)
(*             (4 bytes, LITTLE endian) ++ domain (utf8) ++ timestamp (8 bytes, *)
(*             LITTLE endian) ++ payload (the payload text, utf8)               *)
(*   signature = Ed25519Sign(privkey,                                           *)
(*                  sha256(0xffff ++ utf8("ton-connect") ++ sha256(message)))   *)
(*   the address is the raw form "<workchain>:<64 hex digits>", the signature   *)
(*   and the state-init travel as standard base64, the state-init being the     *)
(*   bag of cells of a TL-B StateInit whose representation hash is the account  *)
(*   id.  The verifier obtains the public key from the account (get-method      *)
(*   get_public_key) and, where the account cannot answer, from the state-init: *)
(*   it must hash to the address and carry the code of a known wallet contract, *)
(*   whose persistent data holds the key at a version-specific position.        *)
(*   The proof is only valid for `lifeTimeProof` seconds after its timestamp,   *)
(*   for the verifier's own domain, and for a payload the verifier issued.      *)
(*                                                                             *)
(* THE LIBRARY'S OWN (not prescribed by TON Connect): the payload.  Here it is  *)
(*   hex( nonce[8] ++ T[8, big endian] ++ HMAC-SHA256(secret, nonce ++ T)[0..15] ) *)
(*   = 64 hex digits.  T is the second the payload was issued at (GeneratePayload*)
(*   stores now + lifetime *nanoseconds*, i.e. now), and the payload is          *)
(*   "issued under the server's secret and not expired" iff the MAC is the one   *)
(*   the secret gives and now - T <= lifeTimePayload.                            *)
(*                                                                             *)
(* The module has two layers.  Decide(f) is the decision table of the property  *)
(* over a record of facts f; it is shared by the generator (facts derived from  *)
(* the *meaning* of a tampering, TonConnect_Gen) and by the trace specification *)
(* (facts recomputed from the recorded *bytes*, Facts(e) below).                *)
EXTENDS Boc

\* ============================================================ small tools
ToLE(v, n)   == Reverse(ToBE(v, n))
\* int32 as 4 bytes big endian two's complement (TLC ints are 32-bit: no 2^32 here)
WcBytes(wc)  == IF wc >= 0 THEN ToBE(wc, 4) ELSE LET m == ToBE(-(wc + 1), 4) IN [i \in 1..4 |-> 255 - m[i]]
\* unsigned 64-bit quantity given as decimal text -> 8 bytes little endian
U64LE(dec)   == LET b == DecToBits(dec) IN Reverse(BitsToBytes([i \in 1..(64 - Len(b)) |-> 0] \o b))
IsDigit(c)   == c >= 48 /\ c <= 57
HexVal(c)    == IF IsDigit(c) THEN c - 48 ELSE IF c >= 97 /\ c <= 102 THEN c - 87 ELSE IF c >= 65 /\ c <= 70 THEN c - 55 ELSE -1
IsHexText(s) == Len(s) % 2 = 0 /\ \A i \in 1..Len(s) : HexVal(s[i]) >= 0
HexDecode(s) == [i \in 1..(Len(s) \div 2) |-> 16 * HexVal(s[2 * i - 1]) + HexVal(s[2 * i])]
\* non-negative decimal text (character codes) -> integer; -1: does not fit 31 bits, -2: not such a text
BitsVal(b)   == FoldLeft(LAMBDA a, x : 2 * a + x, 0, b)
Dec31(c)     == IF Len(c) = 0 \/ Len(c) > 20 \/ \E i \in 1..Len(c) : ~IsDigit(c[i]) THEN -2
                ELSE LET b == DecToBits(CodesToStr(c)) IN IF Len(b) > 31 THEN -1 ELSE BitsVal(b)
\* big-endian bytes -> integer, -1 if it does not fit 31 bits
BEInt(b)     == IF Wide(b, 1, Len(b)) THEN -1 ELSE BE(b, 1, Len(b))

\* ------------------------------------------------- RFC 4648 base64 (standard alphabet, padded)
B64V(c) == IF c >= 65 /\ c <= 90 THEN c - 65 ELSE IF c >= 97 /\ c <= 122 THEN c - 71
           ELSE IF IsDigit(c) THEN c + 4 ELSE IF c = 43 THEN 62 ELSE IF c = 47 THEN 63 ELSE -1
B64Pad(s) == LET n == Len(s) IN IF n > 0 /\ s[n] = 61 THEN (IF n > 1 /\ s[n - 1] = 61 THEN 2 ELSE 1) ELSE 0
B64Valid(s) == LET n == Len(s)  p == B64Pad(s) IN n % 4 = 0 /\ \A i \in 1..(n - p) : B64V(s[i]) >= 0
\* the unused low bits of the last digit are zero (what an encoder produces; decoders differ on the rest)
B64Canonical(s) == LET n == Len(s)  p == B64Pad(s) IN
                   CASE p = 0 -> TRUE [] p = 1 -> B64V(s[n - 1]) % 4 = 0 [] p = 2 -> B64V(s[n - 2]) % 16 = 0
B64Decode(s) ==
  LET n == Len(s)  p == B64Pad(s)
      d(i) == IF i > n - p THEN 0 ELSE B64V(s[i])
      byte(j) == LET g == (j - 1) \div 3  k == (j - 1) % 3  o == 4 * g IN
                 CASE k = 0 -> d(o + 1) * 4 + d(o + 2) \div 16
                   [] k = 1 -> (d(o + 2) % 16) * 16 + d(o + 3) \div 4
                   [] k = 2 -> (d(o + 3) % 4) * 64 + d(o + 4)
  IN [j \in 1..((n \div 4) * 3 - p) |-> byte(j)]

\* ============================================================ TON Connect message
Utf8Item    == <<116,111,110,45,112,114,111,111,102,45,105,116,101,109,45,118,50,47>>    \* "ton-proof-item-v2/"
Utf8Connect == <<116,111,110,45,99,111,110,110,101,99,116>>                              \* "ton-connect"
ProofItem(wc, addr, domain, tsDec, payload) ==
  Utf8Item \o WcBytes(wc) \o addr \o ToLE(Len(domain), 4) \o domain \o U64LE(tsDec) \o payload
SignedMessage(wc, addr, domain, tsDec, payload) ==
  Sha256(<<255, 255>> \o Utf8Connect \o Sha256(ProofItem(wc, addr, domain, tsDec, payload)))

\* ============================================================ raw address text
\* "<workchain>:<64 hex digits>", workchain = optional '-' and a decimal numeral below 2^31
ParseRawAddr(s) ==
  LET cols == {i \in 1..Len(s) : s[i] = 58} IN
  IF Cardinality(cols) # 1 THEN [ok |-> FALSE]
  ELSE LET c == CHOOSE i \in cols : TRUE
           w == SubSeq(s, 1, c - 1)
           h == SubSeq(s, c + 1, Len(s))
           neg == Len(w) > 0 /\ w[1] = 45
           min32 == neg /\ Tail(w) = <<50, 49, 52, 55, 52, 56, 51, 54, 52, 56>>      \* "-2147483648", the one int32 whose magnitude is not one
           mag == IF min32 THEN 0 ELSE Dec31(IF neg THEN Tail(w) ELSE w)
       IN IF mag < 0 \/ Len(h) # 64 \/ ~IsHexText(h) THEN [ok |-> FALSE]
          ELSE [ok |-> TRUE, wc |-> IF min32 THEN -2147483647 - 1 ELSE IF neg THEN -mag ELSE mag, addr |-> HexDecode(h)]

\* ============================================================ the library's payload
\* text (bytes of the hex text) -> [wf, nonce, t, mac]
PayloadParts(text) ==
  IF ~IsHexText(text) \/ Len(text) # 64 THEN [wf |-> FALSE]
  ELSE LET b == HexDecode(text) IN [wf |-> TRUE, head |-> SubSeq(b, 1, 16), t |-> SubSeq(b, 9, 16), mac |-> SubSeq(b, 17, 32)]
PayloadMacOK(secret, p) == p.wf /\ SubSeq(HmacSha256(secret, p.head), 1, 16) = p.mac
\* age against a lifetime: "yes" certainly within, "no" certainly beyond, "edge" exactly on the second where the
\* sub-second clock decides, "future" stamped later than now (the statement says nothing about it)
Fresh(now, t, life) == IF t < 0 THEN "future"                    \* does not fit 31 bits: beyond 2038
                       ELSE IF t > now THEN "future"
                       ELSE IF now - t < life THEN "yes" ELSE IF now - t = life THEN "edge" ELSE "no"

\* ============================================================ StateInit and the wallet contracts
\* _ split_depth:(Maybe (## 5)) special:(Maybe TickTock) code:(Maybe ^Cell) data:(Maybe ^Cell) library:(Maybe ^Cell) = StateInit;
StateInitOf(T, root) ==
  LET b == T[root].b  r == T[root].r IN
  IF T[root].x # Ordinary \/ Len(b) < 1 THEN [ok |-> FALSE]
  ELSE LET p1 == IF b[1] = 1 THEN 6 ELSE 1                              \* bits consumed by split_depth
       IN IF Len(b) < p1 + 1 THEN [ok |-> FALSE]
          ELSE LET p2 == p1 + (IF b[p1 + 1] = 1 THEN 3 ELSE 1) IN       \* ... and by special
               IF Len(b) < p2 + 3 THEN [ok |-> FALSE]
               ELSE LET hc == b[p2 + 1] = 1  hd == b[p2 + 2] = 1  hl == b[p2 + 3] = 1
                        need == (IF hc THEN 1 ELSE 0) + (IF hd THEN 1 ELSE 0) + (IF hl THEN 1 ELSE 0)
                    IN IF Len(r) < need THEN [ok |-> FALSE]
                       ELSE [ok |-> TRUE, hasCode |-> hc, hasData |-> hd,
                             code |-> IF hc THEN r[1] ELSE 0,
                             data |-> IF hd THEN r[IF hc THEN 2 ELSE 1] ELSE 0]

\* The wallet contracts (ton-blockchain/wallet-contract, ton/crypto/smartcont, tonkeeper/w5): representation hash of
\* the published code cell, position of the 256-bit public key in the persistent data, length of the fixed part of
\* the data.  cls "std": the simple wallets a TON Connect verifier is expected to understand; "other": wallet-like
\* contracts with a key in their data for which the statement does not demand acceptance (but never a wrong key).
\*   v1, v2:        seqno:32 public_key:256
\*   v3, lockup:    seqno:32 subwallet_id:32 public_key:256 [...]
\*   v4:            seqno:32 subwallet_id:32 public_key:256 plugins:(HashmapE 264 ..)
\*   v5 beta:       seqno:33 wallet_id:80 public_key:256 extensions:(HashmapE 256 ..)
\*   v5r1:          is_signature_allowed:1 seqno:32 wallet_id:32 public_key:256 extensions:(HashmapE 256 ..)
\*   highload v1:   seqno:32 subwallet_id:32 public_key:256 ;   highload v2: subwallet_id:32 last_cleaned:64 public_key:256 ..
Wallets == <<
  [v |-> "v1r1", cls |-> "std", off |-> 32, full |-> 288, h |-> "a0cfc2c48aee16a271f2cfc0b7382d81756cecb1017d077faaab3bb602f6868c"],
  [v |-> "v1r2", cls |-> "std", off |-> 32, full |-> 288, h |-> "d4902fcc9fad74698fa8e353220a68da0dcf72e32bcb2eb9ee04217c17d3062c"],
  [v |-> "v1r3", cls |-> "std", off |-> 32, full |-> 288, h |-> "587cc789eff1c84f46ec3797e45fc809a14ff5ae24f1e0c7a6a99cc9dc9061ff"],
  [v |-> "v2r1", cls |-> "std", off |-> 32, full |-> 288, h |-> "5c9a5e68c108e18721a07c42f9956bfb39ad77ec6d624b60c576ec88eee65329"],
  [v |-> "v2r2", cls |-> "std", off |-> 32, full |-> 288, h |-> "fe9530d3243853083ef2ef0b4c2908c0abf6fa1c31ea243aacaa5bf8c7d753f1"],
  [v |-> "v3r1", cls |-> "std", off |-> 64, full |-> 320, h |-> "b61041a58a7980b946e8fb9e198e3c904d24799ffa36574ea4251c41a566f581"],
  [v |-> "v3r2", cls |-> "std", off |-> 64, full |-> 320, h |-> "84dafa449f98a6987789ba232358072bc0f76dc4524002a5d0918b9a75d2d599"],
  [v |-> "v4r1", cls |-> "std", off |-> 64, full |-> 321, h |-> "64dd54805522c5be8a9db59cea0105ccf0d08786ca79beb8cb79e880a8d7322d"],
  [v |-> "v4r2", cls |-> "std", off |-> 64, full |-> 321, h |-> "feb5ff6820e2ff0d9483e7e0d62c817d846789fb4ae580c878866d959dabd5c0"],
  [v |-> "v5beta", cls |-> "std", off |-> 113, full |-> 370, h |-> "f3d7ca53493deedac28b381986a849403cbac3d2c584779af081065af0ac4b93"],
  [v |-> "v5r1", cls |-> "std", off |-> 65, full |-> 322, h |-> "20834b7b72b112147e1b2fb457b84e74d1a30f04f737d4f62a668e9552d2b72f"],
  [v |-> "v3r2_lockup",   cls |-> "other", off |-> 64, full |-> 320, h |-> "88fbf818e47d5f328f7dc34bad4323bb28a12ec6c75ce9ec25d77746c56e1ded"],
  [v |-> "highload_v1r1", cls |-> "other", off |-> 64, full |-> 320, h |-> "d8cdbbb79f2c5caa677ac450770be0351be21e1250486de85cc52aa33dd16484"],
  [v |-> "highload_v1r2", cls |-> "other", off |-> 64, full |-> 320, h |-> "0dceed21269d66013e95b19fbb5c55a6f01adad40837baa8e521cde3a02aa46c"],
  [v |-> "highload_v2",   cls |-> "other", off |-> 96, full |-> 353, h |-> "9494d1cc8edf12f05671a1a9ba09921096eb50811e1924ec65c3c629fbb80812"],
  [v |-> "highload_v2r1", cls |-> "other", off |-> 96, full |-> 353, h |-> "8ceb45b3cd4b5cc60eaae1c13b9c092392677fe536b2e9b2d801b62eff931fe1"],
  [v |-> "highload_v2r2", cls |-> "other", off |-> 96, full |-> 353, h |-> "203dd4f358adb49993129aa925cac39916b68a0e4f78d26e8f2c2b69eafa5679"] >>
WalletVersions == {Wallets[i].v : i \in 1..Len(Wallets)}
WalletByName(v) == Wallets[CHOOSE i \in 1..Len(Wallets) : Wallets[i].v = v]
WalletByHash(hx) == LET ix == {i \in 1..Len(Wallets) : Wallets[i].h = hx} IN
                    IF ix = {} THEN [v |-> "unknown", cls |-> "unknown", off |-> 0, full |-> 0] ELSE Wallets[CHOOSE i \in ix : TRUE]

\* A bag may deviate from boc.tlb in places a reader does not need: the two reserved flag bits, has_cache_bits, the
\* `absent` counter, the contents of the index, and the level-mask bits of the cell descriptors (which the children
\* determine).  Whether a verifier refuses such a bag is a matter of its bag parser (C07), not of C19: the tolerant
\* reading below is what the bag can only mean, a proof carrying such a bag may be accepted for the key of that reading
\* or rejected ("free"), and a bag without even a tolerant reading is garbage.
NormHeader(B) ==
  IF Magic(B) # "generic" \/ Len(B) < 6 THEN B
  ELSE LET fl == B[5]  sz == fl % 8  a0 == 7 + 2 * sz IN
       IF (fl \div 64) % 2 = 1 \/ sz < 1 \/ sz > 4 \/ Len(B) < 6 + 3 * sz THEN B        \* (a crc protects the header)
       ELSE [i \in 1..Len(B) |-> IF i = 5 THEN fl - ((fl \div 8) % 8) * 8 ELSE IF i >= a0 /\ i < a0 + sz THEN 0 ELSE B[i]]
\* A bag may carry, per cell, the hashes and depths of the cell (descriptor bit 16, "with hashes").  They are redundant:
\* what a cell IS is its content, and its hash is the hash of that content.  StoredExact: every stored hash / depth is
\* the one the content gives.  A bag with a wrong stored value is not what a serialiser produces; a reader may refuse it
\* or ignore the stored values (free) -- but it may never take a stored value for the hash of the cell.
StoredExact(B, P) ==
  LET sz == P.size  ob == P.offBytes
      dataAt == 7 + 3 * sz + ob + (IF P.magic = "generic" THEN Len(P.roots) * sz ELSE 0) + (IF P.hasIdx THEN P.ncells * ob ELSE 0)
      At == FoldLeft(LAMBDA acc, i : LET c == CellAt(B, acc.next, Len(B), sz) IN
                                     [next |-> c.next, pos |-> Append(acc.pos, acc.next), wh |-> Append(acc.wh, c.wh)],
                     [next |-> dataAt, pos |-> <<>>, wh |-> <<>>], [i \in 1..P.ncells |-> i])
  IN IF \A i \in 1..P.ncells : ~At.wh[i] THEN TRUE
     ELSE IF \E i \in 1..P.ncells : ~HashableCell(P.T[i]) THEN FALSE
     ELSE LET I == InfoTable(P.T) IN
          \A i \in 1..P.ncells :
             At.wh[i] => LET lv == Levels(P.T[i].m)
                             hh == FoldLeft(LAMBDA a, l : a \o I[i].h[l + 1], <<>>, lv)
                             dd == FoldLeft(LAMBDA a, l : a \o U16(I[i].d[l + 1]), <<>>, lv)
                         IN SubSeq(B, At.pos[i] + 2, At.pos[i] + 1 + 34 * Len(lv)) = hh \o dd
BagReading(B) ==
  LET Ps == Parse(B)
      exact == Ps.ok /\ Ps.T = WithMasks(Ps.T) /\ StoredExact(B, Ps)
      Pt == IF exact THEN Ps ELSE ParseLenient(NormHeader(B))
      T  == IF Pt.ok THEN WithMasks(Pt.T) ELSE <<>>
  IN [ok |-> Pt.ok /\ Len(Pt.roots) = 1 /\ \A i \in 1..Len(T) : HashableCell(T[i]),
      exact |-> exact, T |-> T, root |-> IF Pt.ok /\ Len(Pt.roots) = 1 THEN Pt.roots[1] ELSE 0]

\* the account id a bag stands for as a state-init (hash of its root), <<>> if it has no reading
BagRootHash(B) == LET R == BagReading(B) IN IF R.ok THEN ReprHash(InfoTable(R.T)[R.root]) ELSE <<>>
\* RFC 4648 encoder (for generators that write bags themselves)
B64Alphabet == <<65,66,67,68,69,70,71,72,73,74,75,76,77,78,79,80,81,82,83,84,85,86,87,88,89,90,
                 97,98,99,100,101,102,103,104,105,106,107,108,109,110,111,112,113,114,115,116,117,118,119,120,121,122,
                 48,49,50,51,52,53,54,55,56,57,43,47>>
B64Encode(b) ==
  LET n == Len(b)  g == (n + 2) \div 3
      at(i) == IF i <= n THEN b[i] ELSE 0
      ch(k) == LET q == (k - 1) \div 4  j == (k - 1) % 4  o == 3 * q
                   v == CASE j = 0 -> at(o + 1) \div 4
                          [] j = 1 -> (at(o + 1) % 4) * 16 + at(o + 2) \div 16
                          [] j = 2 -> (at(o + 2) % 16) * 4 + at(o + 3) \div 64
                          [] j = 3 -> at(o + 3) % 64
               IN IF (j = 2 /\ o + 2 > n) \/ (j = 3 /\ o + 3 > n) THEN 61 ELSE B64Alphabet[v + 1]
  IN [k \in 1..(4 * g) |-> ch(k)]

\* What a state-init text (base64) says: every fact the decision needs, each one FALSE when a prerequisite is.
StateInitFacts(text, addr) ==
  LET given == Len(text) > 0
      b64   == given /\ B64Valid(text)
      R     == IF b64 THEN BagReading(B64Decode(text)) ELSE [ok |-> FALSE, exact |-> FALSE]
      boc   == R.ok
      I     == IF boc THEN InfoTable(R.T) ELSE <<>>
      S     == IF boc THEN StateInitOf(R.T, R.root) ELSE [ok |-> FALSE]
      lay   == S.ok
      W     == IF lay /\ S.hasCode THEN WalletByHash(BytesToHex(ReprHash(I[S.code]))) ELSE WalletByHash("")
      D     == IF lay /\ S.hasData THEN R.T[S.data].b ELSE <<>>
      keyOK == lay /\ S.hasCode /\ S.hasData /\ W.cls # "unknown" /\ Len(D) >= W.off + 256
  IN [given |-> given, b64 |-> b64, canon |-> b64 /\ B64Canonical(text) /\ (boc => R.exact), boc |-> boc, layout |-> lay,
      hash |-> boc /\ ReprHash(I[R.root]) = addr,
      code |-> lay /\ S.hasCode, data |-> lay /\ S.hasData, wallet |-> W.cls, version |-> W.v,
      keyOK |-> keyOK, key |-> IF keyOK THEN BitsToBytes(SubSeq(D, W.off + 1, W.off + 256)) ELSE <<>>,
      full |-> keyOK /\ Len(D) >= W.full]

\* ============================================================ the decision table
\* Acc(k) / Free(k): k is the key that controls the address -- the one the account reports, or the one at the known
\* position of the data of the state-init that hashes to the address -- and the signature is valid for exactly that key.
\* No other key may come back with ok = TRUE, in particular not a degenerate one for which anybody can produce signatures.
Acc(k)  == [v |-> "accept", key |-> k]
Rej     == [v |-> "reject", key |-> ""]
Free(k) == [v |-> "free",   key |-> k]       \* the statement does not decide: accept with key k, or reject with an error

\* f: plWf plMac plFresh | addrWf | sigB64 sigCanon | prFresh domOK | chain chainJunk chainKey sigChain |
\*    siGiven siB64 siCanon siBoc siLayout siHash siCode siData siWallet siKeyOK siFull siKey sigSi
Decide(f) ==
  IF ~f.plWf \/ ~f.plMac \/ f.plFresh = "no" THEN Rej       \* wrong-length / non-hex payload, not issued under the secret, expired
  ELSE IF ~f.addrWf \/ ~f.sigB64 THEN Rej                     \* malformed address or signature text
  ELSE IF f.prFresh = "no" \/ ~f.domOK THEN Rej               \* proof expired; made for another domain
  ELSE
  \* (chainJunk: the account answered with something that is no key; whether the state-init may then stand in is not decided)
  LET undecided == f.plFresh # "yes" \/ f.prFresh # "yes" \/ ~f.sigCanon \/ f.chainJunk
      siProper  == f.siGiven /\ f.siB64 /\ f.siBoc /\ f.siLayout /\ f.siHash /\ f.siCode /\ f.siData
  IN IF f.chain = "key"                                        \* the account itself names its key
       THEN IF ~f.sigChain THEN Rej                            \* signed by another key / over other fields
            ELSE IF siProper /\ f.siCanon /\ ~undecided THEN Acc(f.chainKey) ELSE Free(f.chainKey)
     ELSE IF ~(siProper /\ f.siWallet # "unknown" /\ f.siKeyOK) THEN Rej   \* key must come from the state-init and cannot
     ELSE IF ~f.sigSi THEN Rej
     ELSE IF f.siWallet = "std" /\ f.siFull /\ f.siCanon /\ ~undecided THEN Acc(f.siKey) ELSE Free(f.siKey)

\* the observable result of the real code against a verdict: (ok, key, err class, panic)
Matches(g, v) ==
  /\ g.panic = ""
  /\ \/ v.v \in {"accept", "free"} /\ g.ok /\ g.err = "" /\ g.key = v.key
     \/ v.v \in {"reject", "free"} /\ ~g.ok /\ g.err # ""

\* ============================================================ facts from recorded bytes
\* e: [secret, lp, lpr, want_domain, now, address, domain, ts, sig, payload, state_init, chain] -- texts as byte
\* tuples, now / ts decimal strings, chain = <<[wc, addr, mode, key]>> the accounts the (mock) executor knows.
\* The account answers get_public_key with an INTEGER; the key is its 32-byte big-endian form.  What is no key: a contract
\* without one answers 0 or some small number, and the 32-byte forms of such numbers are points nobody holds a private key
\* for (00..00 and 00..0080 have order 4: for them anybody can write a "signature" with S = 0).  The library's own rule
\* (getWalletPubKey): an answer of fewer than 24 significant bytes is not taken for a key -- a real key is that short with
\* probability 2^-72 -- and the proof is then treated as if the account had not answered (junk).  The accepted set stays:
\* proofs signed by the holder of the key the account commits to.
RECURSIVE StripZeros(_)
StripZeros(b) == IF Len(b) > 0 /\ b[1] = 0 THEN StripZeros(Tail(b)) ELSE b
ChainLookup(chain, a) ==
  LET ix == {i \in 1..Len(chain) : chain[i].wc = a.wc /\ chain[i].addr = a.addr /\ chain[i].mode = "key"} IN
  IF ix = {} THEN [has |-> FALSE, junk |-> FALSE, key |-> <<>>]
  ELSE LET v == StripZeros(chain[CHOOSE i \in ix : TRUE].key) IN
       IF Len(v) < 24 \/ Len(v) > 32 THEN [has |-> FALSE, junk |-> TRUE, key |-> <<>>]
       ELSE [has |-> TRUE, junk |-> FALSE, key |-> [i \in 1..(32 - Len(v)) |-> 0] \o v]
SigValid(key, msg, sig) == Len(key) = 32 /\ Len(sig) = 64 /\ EdVerify(key, msg, sig)
Facts(e) ==
  LET now == Dec31(StrToCodes(e.now))
      pl  == PayloadParts(e.payload)
      a   == ParseRawAddr(e.address)
      tsc == StrToCodes(e.ts)
      tsNeg == Len(tsc) > 0 /\ tsc[1] = 45
      tsOK  == ~tsNeg /\ Dec31(tsc) # -2
      ts  == Dec31(tsc)                                               \* -1: does not fit (far future)
      sigB64 == B64Valid(e.sig)
      sig == IF sigB64 THEN B64Decode(e.sig) ELSE <<>>
      msg == IF a.ok /\ tsOK THEN SignedMessage(a.wc, a.addr, e.domain, e.ts, e.payload) ELSE <<>>
      ch  == IF a.ok THEN ChainLookup(e.chain, a) ELSE [has |-> FALSE, junk |-> FALSE, key |-> <<>>]
      si  == IF a.ok THEN StateInitFacts(e.state_init, a.addr) ELSE StateInitFacts(<<>>, <<>>)
      vCh == ch.has /\ tsOK /\ SigValid(ch.key, msg, sig)
      vSi == si.keyOK /\ tsOK /\ (IF ch.has /\ ch.key = si.key THEN vCh ELSE SigValid(si.key, msg, sig))
  IN [plWf |-> pl.wf, plMac |-> PayloadMacOK(e.secret, pl),
      plFresh |-> IF pl.wf THEN Fresh(now, BEInt(pl.t), e.lp) ELSE "no",
      addrWf |-> a.ok, sigB64 |-> sigB64, sigCanon |-> sigB64 /\ B64Canonical(e.sig),
      prFresh |-> IF tsNeg \/ ~tsOK THEN "no" ELSE Fresh(now, ts, e.lpr),
      domOK |-> e.domain = e.want_domain,
      chain |-> IF ch.has THEN "key" ELSE "none", chainJunk |-> ch.junk, chainKey |-> BytesToHex(ch.key),
      sigChain |-> vCh,
      siGiven |-> si.given, siB64 |-> si.b64, siCanon |-> si.canon, siBoc |-> si.boc, siLayout |-> si.layout, siHash |-> si.hash,
      siCode |-> si.code, siData |-> si.data, siWallet |-> si.wallet, siVersion |-> si.version, siKeyOK |-> si.keyOK, siFull |-> si.full,
      siKey |-> BytesToHex(si.key), sigSi |-> vSi]

\* ------------------------------------------------------------ payload functions on their own
\* CheckPayload(text) at `now` under (secret, lifetime)
PayloadVerdict(secret, life, now, text) ==
  LET pl == PayloadParts(text) IN
  IF ~pl.wf \/ ~PayloadMacOK(secret, pl) THEN "reject"
  ELSE LET fr == Fresh(now, BEInt(pl.t), life) IN IF fr = "yes" THEN "accept" ELSE IF fr = "no" THEN "reject" ELSE "free"
\* a payload GeneratePayload returned during second `issued`, presented during second `now`: whatever it stores inside,
\* it is issued under the secret and lives `life` seconds (whole seconds are recorded, so one second either way is free)
\* An issued payload with anything changed -- a byte of the nonce, of the time the lifetime is measured from, of the tag --
\* is no longer a payload the server issued: whatever the format, it must be refused.  (Only a respelling of the same
\* bytes, e.g. upper-case hex digits, is left to the verdict of the unchanged payload.)
TamperedVerdict(orig, text) ==
  IF IsHexText(orig) /\ IsHexText(text) /\ HexDecode(orig) = HexDecode(text) THEN "free" ELSE "reject"
IssuedVerdict(secret, life, issued, now, text) ==
  LET pl == PayloadParts(text) IN
  IF ~pl.wf \/ ~PayloadMacOK(secret, pl) THEN "malformed"
  ELSE IF now - issued + 1 <= life THEN "accept" ELSE IF now - issued - 1 >= life THEN "reject" ELSE "free"
=============================================================================
