// TLC module overrides for Prim.tla: JDK cryptography and representation converters only.
// Compile: javac -cp /opt/veriftools/tla/tla2tools.jar -d spec spec/Prim.java
import tlc2.value.impl.*;
import java.math.BigInteger;
import java.nio.charset.StandardCharsets;
import java.nio.file.*;
import java.security.*;
import java.security.spec.*;
import javax.crypto.*;
import javax.crypto.spec.*;
import util.UniqueString;

public class Prim {
  // ---------- helpers
  private static byte[] toBytes(Value v) {
    TupleValue t = (TupleValue) v.toTuple();
    byte[] b = new byte[t.elems.length];
    for (int i = 0; i < b.length; i++) b[i] = (byte) ((IntValue) t.elems[i]).val;
    return b;
  }
  private static Value fromBytes(byte[] b) {
    Value[] vs = new Value[b.length];
    for (int i = 0; i < b.length; i++) vs[i] = IntValue.gen(b[i] & 0xff);
    return new TupleValue(vs);
  }
  private static String str(Value v) { return ((StringValue) v).val.toString(); }
  private static Value sv(String s) { return new StringValue(s); }
  private static int iv(Value v) { return ((IntValue) v).val; }
  private static final char[] HEX = "0123456789abcdef".toCharArray();
  private static String hex(byte[] b) {
    char[] c = new char[b.length * 2];
    for (int i = 0; i < b.length; i++) { c[2*i] = HEX[(b[i] >> 4) & 15]; c[2*i+1] = HEX[b[i] & 15]; }
    return new String(c);
  }

  // ---------- hashes
  public static Value Sha256(Value v) throws Exception { return fromBytes(MessageDigest.getInstance("SHA-256").digest(toBytes(v))); }
  public static Value Sha512(Value v) throws Exception { return fromBytes(MessageDigest.getInstance("SHA-512").digest(toBytes(v))); }
  public static Value HmacSha256(Value k, Value v) throws Exception {
    Mac m = Mac.getInstance("HmacSHA256"); m.init(new SecretKeySpec(toBytes(k), "HmacSHA256")); return fromBytes(m.doFinal(toBytes(v)));
  }
  public static Value Crc32c(Value v) {
    java.util.zip.CRC32C c = new java.util.zip.CRC32C(); c.update(toBytes(v)); long x = c.getValue();
    return fromBytes(new byte[]{(byte)(x>>>24),(byte)(x>>>16),(byte)(x>>>8),(byte)x});
  }
  public static Value Crc32Ieee(Value v) {
    java.util.zip.CRC32 c = new java.util.zip.CRC32(); c.update(toBytes(v)); long x = c.getValue();
    return fromBytes(new byte[]{(byte)(x>>>24),(byte)(x>>>16),(byte)(x>>>8),(byte)x});
  }

  // ---------- AES-256-CTR keystream (big-endian 128-bit counter), starting `skip` bytes into the stream
  public static Value AesCtrXor(Value key, Value ivv, Value skip, Value data) throws Exception {
    Cipher c = Cipher.getInstance("AES/CTR/NoPadding");
    c.init(Cipher.ENCRYPT_MODE, new SecretKeySpec(toBytes(key), "AES"), new IvParameterSpec(toBytes(ivv)));
    int sk = iv(skip);
    if (sk > 0) c.update(new byte[sk]);
    byte[] d = toBytes(data);
    byte[] out = c.update(d);
    if (out == null) out = new byte[0];
    return fromBytes(out);
  }

  // ---------- curve25519 / ed25519 (BigInteger arithmetic; independent of Go's crypto)
  private static final BigInteger P = BigInteger.TWO.pow(255).subtract(BigInteger.valueOf(19));
  private static final BigInteger L = BigInteger.TWO.pow(252).add(new BigInteger("27742317777372353535851937790883648493"));
  private static final BigInteger D = BigInteger.valueOf(-121665).multiply(BigInteger.valueOf(121666).modInverse(P)).mod(P);
  private static final BigInteger SQRTM1 = BigInteger.TWO.modPow(P.subtract(BigInteger.ONE).divide(BigInteger.valueOf(4)), P);
  private static BigInteger le(byte[] b) { byte[] r = new byte[b.length]; for (int i = 0; i < b.length; i++) r[i] = b[b.length-1-i]; return new BigInteger(1, r); }
  private static byte[] le32(BigInteger x) { byte[] be = x.toByteArray(); byte[] r = new byte[32]; for (int i = 0; i < be.length && i < 32; i++) r[i] = be[be.length-1-i]; return r; }
  private static BigInteger recoverX(BigInteger y, boolean odd) {
    BigInteger y2 = y.multiply(y).mod(P);
    BigInteger u = y2.subtract(BigInteger.ONE).mod(P), v = D.multiply(y2).add(BigInteger.ONE).mod(P);
    BigInteger x2 = u.multiply(v.modInverse(P)).mod(P);
    BigInteger x = x2.modPow(P.add(BigInteger.valueOf(3)).divide(BigInteger.valueOf(8)), P);
    if (!x.multiply(x).subtract(x2).mod(P).equals(BigInteger.ZERO)) x = x.multiply(SQRTM1).mod(P);
    if (!x.multiply(x).subtract(x2).mod(P).equals(BigInteger.ZERO)) return null;
    if (x.testBit(0) != odd) x = P.subtract(x).mod(P);
    return x;
  }
  // extended coordinates (X:Y:Z:T), a = -1, unified addition (Hisil-Wong-Carter-Dawson 2008), complete on ed25519
  private static final BigInteger D2 = D.shiftLeft(1).mod(P);
  private static BigInteger[] ext(BigInteger[] a) { return new BigInteger[]{a[0], a[1], BigInteger.ONE, a[0].multiply(a[1]).mod(P)}; }
  private static BigInteger[] extAdd(BigInteger[] p, BigInteger[] q) {
    BigInteger A = p[1].subtract(p[0]).multiply(q[1].subtract(q[0])).mod(P);
    BigInteger B = p[1].add(p[0]).multiply(q[1].add(q[0])).mod(P);
    BigInteger C = p[3].multiply(D2).mod(P).multiply(q[3]).mod(P);
    BigInteger Dd = p[2].shiftLeft(1).multiply(q[2]).mod(P);
    BigInteger E = B.subtract(A), F = Dd.subtract(C), G = Dd.add(C), H = B.add(A);
    return new BigInteger[]{E.multiply(F).mod(P), G.multiply(H).mod(P), F.multiply(G).mod(P), E.multiply(H).mod(P)};
  }
  private static BigInteger[] toAffine(BigInteger[] e) {
    BigInteger zi = e[2].modInverse(P);
    return new BigInteger[]{e[0].multiply(zi).mod(P), e[1].multiply(zi).mod(P)};
  }
  private static BigInteger[] edAdd(BigInteger[] a, BigInteger[] b) { return toAffine(extAdd(ext(a), ext(b))); }
  private static BigInteger[] edMul(BigInteger k, BigInteger[] p) {
    BigInteger[] r = new BigInteger[]{BigInteger.ZERO, BigInteger.ONE, BigInteger.ONE, BigInteger.ZERO};
    BigInteger[] pe = ext(p);
    for (int i = k.bitLength()-1; i >= 0; i--) { r = extAdd(r, r); if (k.testBit(i)) r = extAdd(r, pe); }
    return toAffine(r);
  }
  private static BigInteger[] basePoint() {
    BigInteger y = BigInteger.valueOf(4).multiply(BigInteger.valueOf(5).modInverse(P)).mod(P);
    return new BigInteger[]{recoverX(y, false), y};
  }
  private static byte[] encPoint(BigInteger[] p) { byte[] r = le32(p[1]); if (p[0].testBit(0)) r[31] |= (byte)0x80; return r; }
  private static BigInteger[] decPoint(byte[] b) {
    byte[] c = b.clone(); boolean odd = (c[31] & 0x80) != 0; c[31] &= 0x7f;
    BigInteger y = le(c); if (y.compareTo(P) >= 0) return null;
    BigInteger x = recoverX(y, odd); if (x == null) return null;
    return new BigInteger[]{x, y};
  }
  private static byte[] clamp(byte[] h32) { byte[] a = h32.clone(); a[0] &= (byte)248; a[31] &= 127; a[31] |= 64; return a; }

  public static Value EdPubFromSeed(Value seed) throws Exception {
    byte[] h = MessageDigest.getInstance("SHA-512").digest(toBytes(seed));
    byte[] a = clamp(java.util.Arrays.copyOf(h, 32));
    return fromBytes(encPoint(edMul(le(a), basePoint())));
  }
  public static Value EdSeedToX25519Scalar(Value seed) throws Exception {
    byte[] h = MessageDigest.getInstance("SHA-512").digest(toBytes(seed));
    return fromBytes(clamp(java.util.Arrays.copyOf(h, 32)));
  }
  public static Value EdPubToMontU(Value pub) {
    byte[] c = toBytes(pub); c[31] &= 0x7f; BigInteger y = le(c);
    BigInteger u = BigInteger.ONE.add(y).multiply(BigInteger.ONE.subtract(y).mod(P).modInverse(P)).mod(P);
    return fromBytes(le32(u));
  }
  public static Value X25519(Value scalar, Value uv) { // RFC 7748 Montgomery ladder
    byte[] kb = clamp(toBytes(scalar)); BigInteger k = le(kb);
    byte[] ub = toBytes(uv); ub[31] &= 0x7f; BigInteger x1 = le(ub).mod(P);
    BigInteger x2 = BigInteger.ONE, z2 = BigInteger.ZERO, x3 = x1, z3 = BigInteger.ONE; int swap = 0;
    BigInteger a24 = BigInteger.valueOf(121665);
    for (int t = 254; t >= 0; t--) {
      int kt = k.testBit(t) ? 1 : 0; swap ^= kt;
      if (swap == 1) { BigInteger tmp = x2; x2 = x3; x3 = tmp; tmp = z2; z2 = z3; z3 = tmp; }
      swap = kt;
      BigInteger A = x2.add(z2).mod(P), AA = A.multiply(A).mod(P), B = x2.subtract(z2).mod(P), BB = B.multiply(B).mod(P);
      BigInteger E = AA.subtract(BB).mod(P), C = x3.add(z3).mod(P), Dd = x3.subtract(z3).mod(P);
      BigInteger DA = Dd.multiply(A).mod(P), CB = C.multiply(B).mod(P);
      x3 = DA.add(CB).mod(P); x3 = x3.multiply(x3).mod(P);
      z3 = DA.subtract(CB).mod(P); z3 = x1.multiply(z3.multiply(z3).mod(P)).mod(P);
      x2 = AA.multiply(BB).mod(P);
      z2 = E.multiply(AA.add(a24.multiply(E)).mod(P)).mod(P);
    }
    if (swap == 1) { BigInteger tmp = x2; x2 = x3; x3 = tmp; tmp = z2; z2 = z3; z3 = tmp; }
    return fromBytes(le32(x2.multiply(z2.modInverse(P).mod(P)).mod(P)));
  }
  public static Value EdVerify(Value pub, Value msg, Value sig) throws Exception {
    byte[] pk = toBytes(pub), m = toBytes(msg), s = toBytes(sig);
    if (pk.length != 32 || s.length != 64) return BoolValue.ValFalse;
    BigInteger[] A = decPoint(pk); if (A == null) return BoolValue.ValFalse;
    byte[] Rb = java.util.Arrays.copyOf(s, 32);
    BigInteger[] R = decPoint(Rb); if (R == null) return BoolValue.ValFalse;
    BigInteger S = le(java.util.Arrays.copyOfRange(s, 32, 64)); if (S.compareTo(L) >= 0) return BoolValue.ValFalse;
    MessageDigest md = MessageDigest.getInstance("SHA-512"); md.update(Rb); md.update(pk); md.update(m);
    BigInteger h = le(md.digest()).mod(L);
    BigInteger[] lhs = edMul(S, basePoint());
    BigInteger[] rhs = edAdd(R, edMul(h, A));
    return (lhs[0].equals(rhs[0]) && lhs[1].equals(rhs[1])) ? BoolValue.ValTrue : BoolValue.ValFalse;
  }

  // ---------- converters
  public static Value HexToBytes(Value v) {
    String s = str(v); byte[] b = new byte[s.length()/2];
    for (int i = 0; i < b.length; i++) b[i] = (byte) Integer.parseInt(s.substring(2*i, 2*i+2), 16);
    return fromBytes(b);
  }
  public static Value BytesToHex(Value v) { return sv(hex(toBytes(v))); }
  public static Value StrToBits(Value v) {
    String s = str(v); Value[] vs = new Value[s.length()];
    for (int i = 0; i < vs.length; i++) vs[i] = IntValue.gen(s.charAt(i) == '1' ? 1 : 0);
    return new TupleValue(vs);
  }
  public static Value BitsToStr(Value v) {
    TupleValue t = (TupleValue) v.toTuple(); char[] c = new char[t.elems.length];
    for (int i = 0; i < c.length; i++) c[i] = ((IntValue) t.elems[i]).val == 1 ? '1' : '0';
    return sv(new String(c));
  }
  public static Value StrToCodes(Value v) { return fromBytes(str(v).getBytes(StandardCharsets.UTF_8)); }
  public static Value CodesToStr(Value v) { return sv(new String(toBytes(v), StandardCharsets.UTF_8)); }
  public static Value DecToBits(Value v) {
    BigInteger x = new BigInteger(str(v)).abs(); int n = x.bitLength(); Value[] vs = new Value[n];
    for (int i = 0; i < n; i++) vs[i] = IntValue.gen(x.testBit(n-1-i) ? 1 : 0);
    return new TupleValue(vs);
  }
  public static Value BitsToDec(Value v) {
    TupleValue t = (TupleValue) v.toTuple(); BigInteger x = BigInteger.ZERO;
    for (int i = 0; i < t.elems.length; i++) { x = x.shiftLeft(1); if (((IntValue) t.elems[i]).val == 1) x = x.setBit(0); }
    return sv(x.toString());
  }
  public static Value BytesToBits(Value v) {
    byte[] b = toBytes(v); Value[] vs = new Value[b.length*8];
    for (int i = 0; i < b.length; i++) for (int j = 0; j < 8; j++) vs[8*i+j] = IntValue.gen((b[i] >> (7-j)) & 1);
    return new TupleValue(vs);
  }
  public static Value BitsToBytes(Value v) {
    TupleValue t = (TupleValue) v.toTuple(); byte[] b = new byte[t.elems.length/8];
    for (int i = 0; i < b.length*8; i++) if (((IntValue) t.elems[i]).val == 1) b[i/8] |= (byte)(1 << (7-(i%8)));
    return fromBytes(b);
  }
  public static Value FileHex(Value v) throws Exception { return sv(hex(Files.readAllBytes(Paths.get(str(v))))); }
  public static Value StrLen(Value v) { return IntValue.gen(str(v).length()); }
  public static Value SubStr(Value v, Value a, Value b) {
    String s = str(v); int i = iv(a), j = iv(b); if (j < i) return sv(""); return sv(s.substring(i-1, j));
  }
  public static Value StrCat(Value a, Value b) { return sv(str(a) + str(b)); }

  // ---------- appended for X04: HMAC-SHA-512 and the raw AES block cipher (ECB, no padding)
  public static Value HmacSha512(Value k, Value v) throws Exception {
    byte[] kb = toBytes(k);
    Mac m = Mac.getInstance("HmacSHA512");
    // the JDK refuses an empty key; HMAC pads the key with zeros, so one zero byte is the same key (RFC 2104)
    m.init(new SecretKeySpec(kb.length == 0 ? new byte[1] : kb, "HmacSHA512")); return fromBytes(m.doFinal(toBytes(v)));
  }
  private static Value aesEcb(int mode, Value key, Value data) throws Exception {
    Cipher c = Cipher.getInstance("AES/ECB/NoPadding");
    c.init(mode, new SecretKeySpec(toBytes(key), "AES"));
    byte[] d = toBytes(data);
    if (d.length == 0) return fromBytes(d);
    return fromBytes(c.doFinal(d));
  }
  public static Value AesEcbEnc(Value key, Value data) throws Exception { return aesEcb(Cipher.ENCRYPT_MODE, key, data); }
  public static Value AesEcbDec(Value key, Value data) throws Exception { return aesEcb(Cipher.DECRYPT_MODE, key, data); }
}
