------------------------------ MODULE MsgHashSeq ------------------------------
(* C16, the multi-step part: decoding is an operation on two pieces of state   *)
(* -- the source cell (it has read cursors, and has or has not been read       *)
(* before) and the destination value (a Message / Transaction variable that    *)
(* may already hold an earlier record) -- and the statement must hold for      *)
(* every sequence of operations, not only for "fresh cell into fresh value":   *)
(*                                                                             *)
(*   Decode(c, d)   always succeeds on a message / transaction cell, however   *)
(*                  often c was read before and whatever d held;               *)
(*   every observer of d -- Hash, normalised hash, SourceBoc, fields -- is a   *)
(*                  function of the cell decoded into d LAST, nothing else.    *)
(*                                                                             *)
(* State: holds[d] = name of the cell d was decoded from last ("none" before), *)
(*        reads[c] = how often c was decoded (kept only to name input classes: *)
(*        no observer may depend on it).                                       *)
EXTENDS MsgHash
VARIABLES holds, reads
svars == <<holds, reads>>

SeqInit(Cs, Ds) == holds = [d \in Ds |-> "none"] /\ reads = [c \in Cs |-> 0]
\* ok: what the implementation reported.  There is no failing decode of a well-formed record.
Decode(c, d, ok) == /\ c \in DOMAIN reads /\ d \in DOMAIN holds
                    /\ ok
                    /\ holds' = [holds EXCEPT ![d] = c]
                    /\ reads' = [reads EXCEPT ![c] = @ + 1]
Observable(d) == d \in DOMAIN holds /\ holds[d] # "none"

\* what the observers of a value must report, as functions of the source cell table alone
MsgFacts(T) ==
  LET I == InfoTable(T)  mp == MsgParse(T, 1) IN
  [ok |-> mp.ok, h |-> BytesToHex(ReprHash(I[1])),
   norm |-> IF ~mp.ok THEN {} ELSE IF mp.info.kind # "ext_in" THEN {BytesToHex(ReprHash(I[1]))} ELSE {BytesToHex(x) : x \in NormSet(T, mp)},
   kind |-> IF mp.ok THEN mp.info.kind ELSE "?", body |-> IF mp.ok THEN mp.body ELSE "?"]
TxFacts(T) ==
  LET I == InfoTable(T)  tp == TxParse(T, 1) IN
  [ok |-> tp.ok, h |-> BytesToHex(ReprHash(I[1])), raw |-> ReprHash(I[1]),
   acc |-> IF tp.ok THEN BytesToHex(BitsToBytes(tp.acc)) ELSE "?", lt |-> IF tp.ok THEN BitsToDec(tp.lt) ELSE "?",
   hasIn |-> tp.ok /\ tp.hasIn, inh |-> IF tp.ok /\ tp.hasIn THEN BytesToHex(ReprHash(I[tp.inIdx])) ELSE ""]
=============================================================================
