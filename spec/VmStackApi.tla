------------------------------ MODULE VmStackApi ------------------------------
(* The TVM stack as the library's API presents it (C03, last sentence of the      *)
(* statement; C08 for the readers of tlb/tuple.go).  Written from TVM's stack     *)
(* semantics, block.tlb (quoted in tlb/stack.go) and the FunC conventions the     *)
(* get-method schemas of the library rely on; NOT from the Go bodies.             *)
(*                                                                               *)
(* VALUES (block.tlb)                                                             *)
(*   vm_stk_null#00  vm_stk_tinyint#01 value:int64  vm_stk_int#0201_ value:int257 *)
(*   vm_stk_nan#02ff  vm_stk_cell#03 cell:^Cell  vm_stk_slice#04 _:VmCellSlice    *)
(*   vm_stk_builder#05 cell:^Cell  vm_stk_cont#06 cont:VmCont                     *)
(*   vm_stk_tuple#07 len:(## 16) data:(VmTuple len)                               *)
(*   _ cell:^Cell st_bits:(## 10) end_bits:(## 10) {st_bits <= end_bits}          *)
(*     st_ref:(#<= 4) end_ref:(#<= 4) {st_ref <= end_ref} = VmCellSlice           *)
(*   vm_tuple_nil$_ = VmTuple 0;  vm_tuple_tcons$_ {n:#} head:(VmTupleRef n)      *)
(*     tail:^VmStackValue = VmTuple (n + 1);  vm_tupref_nil$_ = VmTupleRef 0;     *)
(*   vm_tupref_single$_ entry:^VmStackValue = VmTupleRef 1;                       *)
(*   vm_tupref_any$_ {n:#} ref:^(VmTuple (n + 2)) = VmTupleRef (n + 2)            *)
(* A value is a record (the JSON shape the vectors and events carry):             *)
(*   [t |-> "null"] [t |-> "nan"] [t |-> "cont"]                                  *)
(*   [t |-> "tinyint", v |-> decimal]   [t |-> "int", v |-> decimal]              *)
(*   [t |-> "cell" | "builder", c |-> tree]                                       *)
(*   [t |-> "slice", c |-> tree, sb, eb, sr, er]   the window [sb,eb) x [sr,er)   *)
(*   [t |-> "tuple", es |-> <<values>>]                                           *)
(* with tree = [b |-> "0101", x |-> 0, r |-> <<trees>>] (TlbSem!TreeOfJson).      *)
(*                                                                               *)
(* THE STACK is a sequence whose LAST element is the top.  Put(v) pushes.         *)
(*   vm_stack#_ depth:(## 24) stack:(VmStackList depth) = VmStack;                *)
(*   vm_stk_cons#_ {n:#} rest:^(VmStackList n) tos:VmStackValue = VmStackList (n+1) *)
(*   vm_stk_nil#_ = VmStackList 0;                                                *)
(* so the outermost cell holds the TOP and the chain of `rest` references leads   *)
(* to the bottom.  The API lists a stack it is GIVEN (arguments: VmStack built by *)
(* Put, MarshalTLB / MarshalTL) top-first, and a stack it RETURNS (UnmarshalTLB / *)
(* UnmarshalTL: results of a get method) bottom-first - the order a FunC method   *)
(* declares its arguments and its results in.  Hence                              *)
(*   ArgList(Put(.. Put(Put(empty, a), b) .., z)) = <<z, .., b, a>>               *)
(*   ResList(DecStack(EncStack(StackOfArgList(l)))) = Reverse(l)                  *)
(* MarshalTL / UnmarshalTL carry the same cell as TL `bytes` holding a bag of     *)
(* cells with exactly one root; empty bytes stand for the empty stack.            *)
(*                                                                               *)
(* ACCESSORS.  IsNull / IsCell / IsCellSlice / IsTuple hold exactly for their     *)
(* constructor; IsInt holds for both integer constructors (NaN is left free: TVM  *)
(* types it Integer, but it has no integer value).  Int64 / Uint64 / Int257 /     *)
(* Cell / CellSlice have no error result: the matching Is* is their precondition; *)
(* where it holds they return, and return the value itself whenever the result    *)
(* type can represent it (the comments promise no truncation rule, so what an     *)
(* out-of-range conversion yields is left free).  CellSlice() is a cell holding   *)
(* exactly the window of the slice.                                               *)
(*                                                                               *)
(* READING INTO GO VALUES (VmStackValue.Unmarshal / VmStkTuple.Unmarshal):        *)
(*   integer -> intN / uintN: the number when it is in the range of the type;    *)
(*              outside it an error (TVM never truncates: storing an integer that *)
(*              does not fit is a range check error; Unmarshal has an error       *)
(*              result, unlike the accessors, and no comment promises truncation) *)
(*              bool: number # 0 (TVM: every non-zero integer is true)           *)
(*              big integer (Int257): the number                                  *)
(*              Bits256: the number as 256 bits, big-endian, when 0 <= x < 2^256, *)
(*              else an error                                                     *)
(*   null    -> a pointer stays nil; a non-pointer cannot hold it: error          *)
(*   any other value -> pointer: a new target is filled                           *)
(*   tuple of n entries -> struct of n fields, entry i into field i, in order;    *)
(*              another number of fields: error                                   *)
(*   lisp-style list (FunC cons / nil: a pair (head, tail) whose tail is null or  *)
(*              a list) -> slice, head first                                      *)
(*   NaN has no Go value: error.  A kind that cannot hold the value: error.       *)
(*   Never a panic, whatever the destination.                                     *)
(* RecursiveToSlice(): the elements of a lisp-style list; anything else: error.   *)
(* VmTuple.RecursiveToSlice(n) on the body of a tuple of n >= 1 entries: the n    *)
(* entries in order.                                                              *)
(* VmStack.Unmarshal reads a result stack into a struct the same way, result i    *)
(* (bottom first) into field i.                                                   *)
(* TlbStructToVmCell(x): the cell value holding TlbSem!Enc(x);                    *)
(* TlbStructToVmCellSlice(x): the slice value over the whole of that cell;        *)
(* reading either back into the type (Unmarshal / UnmarshalToTlbStruct) gives x.  *)
EXTENDS TlbSem

\* ------------------------------------------------------------------ values
VNull        == [t |-> "null"]
VNan         == [t |-> "nan"]
VCont        == [t |-> "cont"]
VTiny(d)     == [t |-> "tinyint", v |-> d]
VInt(d)      == [t |-> "int", v |-> d]
VCell(c)     == [t |-> "cell", c |-> c]
VBuilder(c)  == [t |-> "builder", c |-> c]
VSlice(c, sb, eb, sr, er) == [t |-> "slice", c |-> c, sb |-> sb, eb |-> eb, sr |-> sr, er |-> er]
VWhole(c)    == VSlice(c, 0, StrLen(c.b), 0, Len(c.r))
VTup(es)     == [t |-> "tuple", es |-> es]
JCell(b, r)  == [b |-> b, x |-> 0, r |-> r]                    \* a tree in JSON shape: bits as text

IsIntKind(v) == v.t \in {"tinyint", "int"}
RECURSIVE InDomain(_)
InDomain(v) == CASE v.t = "tinyint" -> SFits(v.v, 64)
                 [] v.t = "int"     -> SFits(v.v, 257)
                 [] v.t = "slice"   -> 0 <= v.sb /\ v.sb <= v.eb /\ v.eb <= StrLen(v.c.b) /\ 0 <= v.sr /\ v.sr <= v.er /\ v.er <= Len(v.c.r)
                 [] v.t = "tuple"   -> Len(v.es) < 65536 /\ \A i \in 1..Len(v.es) : InDomain(v.es[i])
                 [] OTHER -> TRUE
\* the library declares the codec of continuations, and the encoder of tuples, "not implemented"
RECURSIVE HasKind(_, _)
HasKind(v, ks) == v.t \in ks \/ (v.t = "tuple" /\ \E i \in 1..Len(v.es) : HasKind(v.es[i], ks))
Encodable(v) == ~HasKind(v, {"cont", "tuple"})
Decodable(v) == ~HasKind(v, {"cont"})

\* what a slice shows: the window of its cell
Window(v) == LET c == TreeOfJson(v.c) IN [b |-> SubSeq(c.b, v.sb + 1, v.eb), x |-> 0, r |-> SubSeq(c.r, v.sr + 1, v.er)]

Join(seq, sep) == FoldLeft(LAMBDA a, i : IF i = 1 THEN seq[i] ELSE StrCat(StrCat(a, sep), seq[i]), "", [i \in 1..Len(seq) |-> i])
Cat3(a, b, c) == StrCat(StrCat(a, b), c)
\* canonical text of a value (the harness writes the same text for the Go value it holds)
RECURSIVE Text(_)
Text(v) == CASE v.t = "null"    -> "nil"
             [] v.t = "nan"     -> "nan"
             [] v.t = "cont"    -> "cont"
             [] v.t = "tinyint" -> StrCat("tiny:", v.v)
             [] v.t = "int"     -> StrCat("int:", v.v)
             [] v.t = "cell"    -> StrCat("cell:", TreeText(TreeOfJson(v.c)))
             [] v.t = "builder" -> StrCat("builder:", TreeText(TreeOfJson(v.c)))
             [] v.t = "slice"   -> StrCat("slice:", TreeText(Window(v)))
             [] v.t = "tuple"   -> Cat3("tuple(", Join([i \in 1..Len(v.es) |-> Text(v.es[i])], ","), ")")
Texts(vs) == [i \in 1..Len(vs) |-> Text(vs[i])]

\* ------------------------------------------------------------ serialisation
NatBits(x, w) == [i \in 1..w |-> (x \div (2 ^ (w - i))) % 2]
Byte8(x)      == NatBits(x, 8)
Piece(b, r)   == [b |-> b, r |-> r]                            \* bits and references a value adds to the cell it is written into
Tree(b, r)    == [b |-> b, x |-> 0, r |-> r]

RECURSIVE ValuePiece(_), TupleBody(_), TupleRefBody(_)
ValueCell(v) == LET p == ValuePiece(v) IN Tree(p.b, p.r)
\* VmTuple n: head:(VmTupleRef (n-1)) tail:^VmStackValue
TupleBody(es) == IF Len(es) = 0 THEN <<>>
                 ELSE TupleRefBody(SubSeq(es, 1, Len(es) - 1)) \o <<ValueCell(es[Len(es)])>>
\* VmTupleRef n: nothing | entry:^VmStackValue | ref:^(VmTuple n)
TupleRefBody(es) == IF Len(es) = 0 THEN <<>>
                    ELSE IF Len(es) = 1 THEN <<ValueCell(es[1])>>
                    ELSE <<Tree(<<>>, TupleBody(es))>>
ValuePiece(v) ==
  CASE v.t = "null"    -> Piece(Byte8(0), <<>>)
    [] v.t = "tinyint" -> Piece(Byte8(1) \o SBits(v.v, 64), <<>>)
    [] v.t = "int"     -> Piece(Byte8(2) \o NatBits(0, 7) \o SBits(v.v, 257), <<>>)          \* #0201_ : 0000 0010 0000 000
    [] v.t = "nan"     -> Piece(Byte8(2) \o Byte8(255), <<>>)
    [] v.t = "cell"    -> Piece(Byte8(3), <<TreeOfJson(v.c)>>)
    [] v.t = "slice"   -> Piece(Byte8(4) \o NatBits(v.sb, 10) \o NatBits(v.eb, 10) \o NatBits(v.sr, 3) \o NatBits(v.er, 3), <<TreeOfJson(v.c)>>)
    [] v.t = "builder" -> Piece(Byte8(5), <<TreeOfJson(v.c)>>)
    [] v.t = "cont"    -> Piece(Byte8(6) \o <<1, 0, 0, 1>>, <<>>)                            \* vmc_quit_exc$1001
    [] v.t = "tuple"   -> Piece(Byte8(7) \o NatBits(Len(v.es), 16), TupleBody(v.es))

\* ------------------------------------------------------------------- stacks
\* a stack is a sequence of values, bottom first: s[Len(s)] is the top
Put(s, v)         == Append(s, v)
ArgList(s)        == Reverse(s)               \* how the API lists a stack it is given: top first
ResList(s)        == s                        \* how the API lists a stack it returns: bottom first
StackOfArgList(l) == Reverse(l)
RECURSIVE ListPiece(_)
\* VmStackList n, inline: nothing for n = 0, else rest:^(VmStackList (n-1)) tos:VmStackValue
ListPiece(s) == IF Len(s) = 0 THEN Piece(<<>>, <<>>)
                ELSE LET rest == ListPiece(SubSeq(s, 1, Len(s) - 1))
                         tos  == ValuePiece(s[Len(s)])
                     IN Piece(tos.b, <<Tree(rest.b, rest.r)>> \o tos.r)
EncStack(s) == LET l == ListPiece(s) IN Tree(NatBits(Len(s), 24) \o l.b, l.r)

\* ---------------------------------------------------------------- accessors
\* expected answers of IsNull, IsInt, IsCell, IsCellSlice, IsTuple: "T", "F" or "any"
IsFlags(v) == [null  |-> IF v.t = "null" THEN "T" ELSE "F",
               int   |-> IF IsIntKind(v) THEN "T" ELSE IF v.t = "nan" THEN "any" ELSE "F",
               cell  |-> IF v.t = "cell" THEN "T" ELSE "F",
               slice |-> IF v.t = "slice" THEN "T" ELSE "F",
               tuple |-> IF v.t = "tuple" THEN "T" ELSE "F"]
FlagOK(want, got) == want = "any" \/ (want = "T") = got
\* an accessor outcome o = [res |-> "ok" | "panic", v |-> text].  `pre`: the precondition holds; `exact`: the result type can
\* represent the value; `want`: the value as text
AccessOK(pre, exact, want, o) == pre => (o.res = "ok" /\ (exact => o.v = want))
Int64OK(v, o)   == AccessOK(IsIntKind(v), IsIntKind(v) /\ SFits(v.v, 64), IF IsIntKind(v) THEN v.v ELSE "", o)
Uint64OK(v, o)  == AccessOK(IsIntKind(v), IsIntKind(v) /\ UFits(v.v, 64), IF IsIntKind(v) THEN v.v ELSE "", o)
Int257OK(v, o)  == AccessOK(IsIntKind(v), TRUE, IF IsIntKind(v) THEN v.v ELSE "", o)
CellOK(v, o)    == AccessOK(v.t = "cell", TRUE, IF v.t = "cell" THEN TreeText(TreeOfJson(v.c)) ELSE "", o)
CellSliceOK(v, o) == AccessOK(v.t = "slice", TRUE, IF v.t = "slice" THEN TreeText(Window(v)) ELSE "", o)

\* lisp-style lists
RECURSIVE IsList(_), ListElems(_)
IsList(v)    == v.t = "tuple" /\ Len(v.es) = 2 /\ (v.es[2].t = "null" \/ IsList(v.es[2]))
ListElems(v) == <<v.es[1]>> \o (IF v.es[2].t = "null" THEN <<>> ELSE ListElems(v.es[2]))

\* ---------------------------------------------------- reading into Go values
\* destinations:  [d |-> "int", n, s]  intN (s) / uintN;  "bool";  "big" (Int257);  "bits256";  [d |-> "ptr", of];
\*                [d |-> "struct", fs |-> <<destinations>>];  [d |-> "slice", of];  [d |-> "unexported", n] (a struct of n fields
\*                that cannot be set from outside its package)
\* outcome: [k |-> "val", s |-> canonical text of the destination] | [k |-> "err"] | [k |-> "free"] (error or any value; no panic)
Val(s) == [k |-> "val", s |-> s]
ErrO   == [k |-> "err"]
FreeO  == [k |-> "free"]
IsZeroDec(d) == IsZeroBits(Mag(d))
Combine(rs, open, close) ==
  IF \E i \in 1..Len(rs) : rs[i].k = "err" THEN ErrO
  ELSE IF \E i \in 1..Len(rs) : rs[i].k = "free" THEN FreeO
  ELSE Val(Cat3(open, Join([i \in 1..Len(rs) |-> rs[i].s], ","), close))
Scalar(D) == D.d \in {"int", "bool", "big", "bits256"}
RECURSIVE MapTo(_, _)
MapTo(D, v) ==
  IF D.d = "ptr" THEN (IF v.t = "null" THEN Val("nil")
                       ELSE LET r == MapTo(D.of, v) IN IF r.k = "val" THEN Val(StrCat("&", r.s)) ELSE r)
  ELSE IF v.t = "null" THEN (IF Scalar(D) \/ D.d = "struct" THEN ErrO ELSE FreeO)   \* (a slice may or may not take null for the empty list)
  ELSE IF IsIntKind(v) THEN
         CASE D.d = "int"     -> IF (IF D.s THEN SFits(v.v, D.n) ELSE UFits(v.v, D.n)) THEN Val(v.v) ELSE ErrO      \* range check
           [] D.d = "bool"    -> Val(IF IsZeroDec(v.v) THEN "false" ELSE "true")
           [] D.d = "big"     -> Val(v.v)
           [] D.d = "bits256" -> IF UFits(v.v, 256) THEN Val(StrCat("x", BytesToHex(BitsToBytes(UBits(v.v, 256))))) ELSE ErrO
           [] D.d \in {"struct", "slice", "unexported"} -> ErrO
  ELSE IF v.t = "nan" THEN ErrO                                                  \* no Go value stands for NaN
  ELSE IF v.t = "tuple" THEN
         CASE D.d = "struct" -> IF Len(v.es) # Len(D.fs) THEN ErrO
                                ELSE Combine([i \in 1..Len(v.es) |-> MapTo(D.fs[i], v.es[i])], "{", "}")
           [] D.d = "slice"  -> IF IsList(v) THEN LET es == ListElems(v) IN Combine([i \in 1..Len(es) |-> MapTo(D.of, es[i])], "[", "]")
                                ELSE FreeO
           [] D.d = "unexported" -> ErrO
           [] Scalar(D) -> ErrO
  ELSE FreeO                                   \* cells, slices, builders, continuations: the TL-B reading of the cell (StructCell below)
\* an outcome o = [res |-> "ok" | "err" | "panic", val |-> text] against the required one
MapOK(want, o) == CASE want.k = "val"  -> o.res = "ok" /\ o.val = want.s
                    [] want.k = "err"  -> o.res = "err"
                    [] want.k = "free" -> o.res \in {"ok", "err"}
\* VmStack.Unmarshal: a RESULT stack (listed bottom first) read into a struct, result i into field i. More results than fields:
\* left free (a caller may want only the first ones); fewer: error; a destination that is not a struct: error.
StackMapTo(D, rs) ==
  CASE D.d = "struct"     -> IF Len(D.fs) > Len(rs) THEN ErrO ELSE IF Len(D.fs) < Len(rs) THEN FreeO
                             ELSE Combine([i \in 1..Len(rs) |-> MapTo(D.fs[i], rs[i])], "{", "}")
    [] D.d = "unexported" -> IF D.n < Len(rs) THEN FreeO ELSE ErrO
    [] D.d = "ptr"        -> FreeO
    [] OTHER              -> ErrO
\* RecursiveToSlice of a tuple value: o = [res, list |-> texts]
ToSliceOK(v, o) == IF IsList(v) THEN o.res = "ok" /\ o.list = Texts(ListElems(v)) ELSE o.res = "err"
\* VmTuple.RecursiveToSlice(n) on the body of a tuple of n >= 1 entries
BodyToSliceOK(v, o) == Len(v.es) >= 1 => (o.res = "ok" /\ o.list = Texts(v.es))

\* the destinations the harness offers, by name (harness/internal/c03/vmstack_dest.go declares the same)
DI(n, s) == [d |-> "int", n |-> n, s |-> s]
DBool    == [d |-> "bool"]
DBig     == [d |-> "big"]
DB256    == [d |-> "bits256"]
DPtr(of) == [d |-> "ptr", of |-> of]
DStruct(fs) == [d |-> "struct", fs |-> fs]
DSlice(of)  == [d |-> "slice", of |-> of]
I64 == DI(64, TRUE)
S2  == DStruct(<<I64, I64>>)
DestNames == <<"i8", "i16", "i32", "i64", "u8", "u16", "u32", "u64", "bool", "big", "b256", "pi64", "pbig",
               "S0", "S1", "S2", "S3", "S4", "S5", "S6", "S2u", "SU2", "S3m", "PS2", "L64", "Lbool", "LS2", "SL">>
Dest(name) ==
  CASE name = "i8"  -> DI(8, TRUE)   [] name = "i16" -> DI(16, TRUE)  [] name = "i32" -> DI(32, TRUE)  [] name = "i64" -> I64
    [] name = "u8"  -> DI(8, FALSE)  [] name = "u16" -> DI(16, FALSE) [] name = "u32" -> DI(32, FALSE) [] name = "u64" -> DI(64, FALSE)
    [] name = "bool" -> DBool [] name = "big" -> DBig [] name = "b256" -> DB256
    [] name = "pi64" -> DPtr(I64) [] name = "pbig" -> DPtr(DBig)
    [] name = "S0" -> DStruct(<<>>) [] name = "S1" -> DStruct(<<I64>>) [] name = "S2" -> S2
    [] name = "S3" -> DStruct(<<I64, I64, I64>>) [] name = "S4" -> DStruct(<<I64, I64, I64, I64>>)
    [] name = "S5" -> DStruct(<<I64, I64, I64, I64, I64>>) [] name = "S6" -> DStruct(<<I64, I64, I64, I64, I64, I64>>)
    [] name = "S2u" -> [d |-> "unexported", n |-> 2]
    [] name = "SU2" -> DStruct(<<DI(64, FALSE), DI(32, FALSE)>>)
    [] name = "S3m" -> DStruct(<<I64, DPtr(S2), DBool>>)
    [] name = "PS2" -> DPtr(S2)
    [] name = "L64" -> DSlice(I64) [] name = "Lbool" -> DSlice(DBool) [] name = "LS2" -> DSlice(S2)
    [] name = "SL"  -> DStruct(<<I64, DSlice(I64)>>)

\* ---------------------------------------------------------- TL-B structures
\* three types of the library, their schema (block.tlb) and the cases' plain descriptions
\*   [ty |-> "Grams", amount |-> decimal]                 nanograms$_ amount:(VarUInteger 16) = Grams
\*   [ty |-> "MsgAddress", ctor |-> "none"]               addr_none$00 = MsgAddressExt
\*   [ty |-> "MsgAddress", ctor |-> "std", wc, addr]      addr_std$10 anycast:(Maybe Anycast) workchain_id:int8 address:bits256
\*   [ty |-> "StateInit", hascode, code, hasdata, data]   _ split_depth:(Maybe (## 5)) special:(Maybe TickTock) code:(Maybe ^Cell)
\*                                                          data:(Maybe ^Cell) library:(HashmapE 256 SimpleLib) = StateInit
TSeq(fs)    == [t |-> "seq", fields |-> fs]
TF(n, ty)   == [name |-> n, ty |-> ty]
TMaybe(ty)  == [t |-> "maybe", of |-> ty]
TRefCell    == [t |-> "ref", of |-> [t |-> "cell"]]
StructTy(name) ==
  CASE name = "Grams" -> [t |-> "varuint", n |-> 16]
    [] name = "MsgAddress" ->
         [t |-> "sum", ctors |-> << [name |-> "none", tag |-> "$00", body |-> TSeq(<<>>)],
                                    [name |-> "std", tag |-> "$10", body |-> TSeq(<< TF("anycast", TMaybe([t |-> "bits", n |-> 0])),
                                                                                     TF("workchain_id", [t |-> "int", n |-> 8]),
                                                                                     TF("address", [t |-> "bits", n |-> 256]) >>)] >>]
    [] name = "StateInit" ->
         TSeq(<< TF("split_depth", TMaybe([t |-> "uint", n |-> 5])), TF("special", TMaybe([t |-> "bits", n |-> 2])),
                 TF("code", TMaybe(TRefCell)), TF("data", TMaybe(TRefCell)), TF("library", [t |-> "dict", n |-> 256]) >>)
Absent == [has |-> FALSE]
Just(x) == [has |-> TRUE, v |-> x]
StructVal(s) ==
  CASE s.ty = "Grams" -> s.amount
    [] s.ty = "MsgAddress" -> IF s.ctor = "none" THEN [c |-> "none", v |-> <<>>]
                              ELSE [c |-> "std", v |-> <<Absent, s.wc, BitsToStr(BytesToBits(HexToBytes(s.addr)))>>]
    [] s.ty = "StateInit" -> << Absent, Absent, IF s.hascode THEN Just(s.code) ELSE Absent, IF s.hasdata THEN Just(s.data) ELSE Absent, <<>> >>
StructCell(s) == Enc(<<>>, StructTy(s.ty), StructVal(s))          \* [ok, c]
StructText(s) ==
  CASE s.ty = "Grams" -> StrCat("Grams:", s.amount)
    [] s.ty = "MsgAddress" -> IF s.ctor = "none" THEN "MsgAddress:none" ELSE Cat3(Cat3("MsgAddress:std:", s.wc, ":"), s.addr, "")
    [] s.ty = "StateInit" -> Cat3(Cat3("StateInit:code=", IF s.hascode THEN TreeText(TreeOfJson(s.code)) ELSE "-", ":data="),
                                  IF s.hasdata THEN TreeText(TreeOfJson(s.data)) ELSE "-", "")
RECURSIVE TreeToJ(_)
TreeToJ(t) == [b |-> BitsToStr(t.b), x |-> t.x, r |-> [i \in 1..Len(t.r) |-> TreeToJ(t.r[i])]]
\* the stack values the two constructors must give for the structure s
StructAsCell(s)  == VCell(TreeToJ(StructCell(s).c))
StructAsSlice(s) == VWhole(TreeToJ(StructCell(s).c))
=============================================================================
