---------------------------- MODULE LiteInit_MC ----------------------------
(* X03 (B), exhaustive: an operational model of the initialization of the     *)
(* connection pool - one attempt per server of the list, attempts end in any  *)
(* order, a discrete clock with urgency (time passes only when no attempt is  *)
(* due), the pool takes usable servers while there is room, initialization    *)
(* ends when the pool is full or every attempt has ended, at the latest at    *)
(* the deadline (per-call timeout cut short by the initialization context).   *)
(* TLC enumerates every configuration of the bounded instance (all class      *)
(* vectors up to MaxN servers x MaxConnections x context deadline) and every  *)
(* interleaving, with the relation of LiteInit as invariant: the relation     *)
(* that judges the real code admits every behaviour of a correct              *)
(* initialization, always ends, and never ends late.                          *)
EXTENDS LiteInit, TLC
CONSTANTS MaxN, T, SlowD, LateD, CtxD      \* list length bound; timeout; the two answer delays; context deadline
VARIABLES cfg,        \* the configuration (chosen in the initial state)
          now,        \* discrete clock (ms)
          pending,    \* attempts that have not ended
          pool,       \* connection ids (list indices) in the pool, ascending
          fin,        \* initialization has ended (synchronous construction has returned)
          err         \* ... with an error
ivars == <<cfg, now, pending, pool, fin, err>>

Srv(c) == [c |-> c, d |-> IF c = "slow" THEN SlowD ELSE IF c = "late" THEN LateD ELSE 0]
Lists == UNION {[1..n -> {Srv(c) : c \in Classes}] : n \in 0..MaxN}
Configs == {[servers |-> s, maxc |-> m, sync |-> TRUE, t |-> T, ctx |-> x] :
              s \in Lists, m \in 1..(MaxN + 1), x \in {0, CtxD}}

L == Deadline(cfg)
\* when the attempt on server i ends by itself, and whether it then yields a connection; an attempt that would
\* take longer than the deadline is abandoned at the deadline
EndsAt(i) == LET s == cfg.servers[i] IN
             CASE s.c \in {"good", "dead", "bad_key", "error", "garbage"} -> 0
               [] s.c \in {"slow", "late"} -> Min2(s.d, L)
               [] OTHER -> L                                   \* mute, blackhole: only the deadline ends them
Yields(i) == LET s == cfg.servers[i] IN s.c = "good" \/ (s.c \in {"slow", "late"} /\ s.d < L)

Insert(p, i) == LET lo == SelectSeq(p, LAMBDA x : x < i)  hi == SelectSeq(p, LAMBDA x : x > i) IN lo \o <<i>> \o hi

IInit == /\ cfg \in Configs
         /\ now = 0 /\ pending = Idx(cfg) /\ pool = <<>>
         /\ fin = (cfg.servers = <<>>) /\ err = (cfg.servers = <<>>)
Due == {i \in pending : EndsAt(i) <= now}
\* an attempt ends; a usable server joins the pool while there is room
Resolve(i) == /\ ~fin /\ i \in Due
              /\ pending' = pending \ {i}
              /\ pool' = IF Yields(i) /\ Len(pool) < cfg.maxc THEN Insert(pool, i) ELSE pool
              /\ UNCHANGED <<cfg, now, fin, err>>
\* time passes only when nothing is due (urgency), up to the next end of an attempt
Advance == /\ ~fin /\ Due = {} /\ pending # {} /\ Len(pool) < cfg.maxc
           /\ now' = LET ts == {EndsAt(i) : i \in pending} IN CHOOSE t \in ts : \A u \in ts : t <= u
           /\ UNCHANGED <<cfg, pending, pool, fin, err>>
\* initialization ends when the pool is full or every attempt has ended (at the latest at the deadline)
Finish == /\ ~fin /\ (Len(pool) = cfg.maxc \/ pending = {})
          /\ fin' = TRUE /\ err' = (pool = <<>>)
          /\ UNCHANGED <<cfg, now, pending, pool>>
INext == (\E i \in Idx(cfg) : Resolve(i)) \/ Advance \/ Finish
ISpec == IInit /\ [][INext]_ivars /\ WF_ivars(INext)

\* every behaviour of the model satisfies the relation when it ends, and it always ends by the deadline
ModelMeetsRelation == fin => /\ ResultOK(cfg, err)
                             /\ (cfg.servers # <<>> => PoolOK(cfg, pool))
                             /\ (~err => EarlyPoolOK(cfg, pool))
                             /\ ElapsedOK(cfg, now)
NeverLate == now <= L
NoUnusableInPool == \A k \in 1..Len(pool) : Yields(pool[k])
EventuallyEnds == <>fin
=============================================================================
