\* LEAD, expected to FAIL: NoStuck - after a silence reconnect the old packet goroutine can stay blocked for ever on its unbuffered channel
CONSTANTS
  Calls = {c1, c2}
  NConns = 1
  Unknown = unk
  MaxDrops = 0
  MaxNoise = 1
  MaxSilence = 1
  StrictRst = TRUE
  MaxBacklog = 3
SPECIFICATION Spec
SYMMETRY Sym
VIEW View
CONSTRAINT Bounded
INVARIANTS NoStuck
CHECK_DEADLOCK TRUE
