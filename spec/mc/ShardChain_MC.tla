--------------------------- MODULE ShardChain_MC ---------------------------
(* X08: exhaustive instance of ShardChain: every behaviour with at most MaxBlocks *)
(* history entries and splitting depth <= Depth; the invariants of ShardChain.    *)
EXTENDS ShardChain
CONSTANT MaxBlocks
Bound == Len(hist) < MaxBlocks
\* vacuity: the model reaches splits, merges and masterchain blocks (reported by the POSTCONDITION)
Seen == /\ TLCGet("distinct") > 0
        /\ PrintT(<<"MC", "distinct", TLCGet("distinct")>>)
\* canary: denied by the model (a behaviour with a split, a merge and a masterchain block exists)
Reached == ~(cnt.split > 0 /\ cnt.merge > 0 /\ cnt.mcs > 0)
=============================================================================
