SPECIFICATION Spec
CONSTANTS
  Depth = 2
  Wc = "0"
  MaxBlocks = 5
CONSTRAINT Bound
INVARIANTS Reached
CHECK_DEADLOCK FALSE
