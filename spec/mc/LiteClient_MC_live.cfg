\* liveness under fairness: 2 calls x 1 connection, 1 drop (no symmetry, no view)
CONSTANTS
  Calls = {c1, c2}
  NConns = 1
  Unknown = unk
  MaxDrops = 1
  MaxNoise = 0
  MaxSilence = 0
  StrictRst = TRUE
  MaxBacklog = 3
SPECIFICATION FairSpec
CONSTRAINT Bounded
INVARIANTS TypeOK
PROPERTIES EveryCallReturns DropLeadsToConnected
CHECK_DEADLOCK TRUE
