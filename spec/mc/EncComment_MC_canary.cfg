CONSTANTS
  Lens = {1}
  NPairs = 2
  SignException = FALSE
  Masks = {128}
SPECIFICATION Spec
INVARIANTS RoundTrip Tamper
CHECK_DEADLOCK FALSE
