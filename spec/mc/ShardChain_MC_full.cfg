SPECIFICATION Spec
CONSTANTS
  Depth = 3
  Wc = "0"
  MaxBlocks = 8
CONSTRAINT Bound
INVARIANTS TypeOK Partition Measure Arith BlockRules NoFork McRules
POSTCONDITION Seen
CHECK_DEADLOCK FALSE
