\* thorough: 3 calls x 1 connection, 1 drop, 1 noise packet (reduced interleaving RedSpec, see LiteClient_MC.tla)
CONSTANTS
  Calls = {c1, c2, c3}
  NConns = 1
  Unknown = unk
  MaxDrops = 1
  MaxNoise = 1
  MaxSilence = 0
  StrictRst = TRUE
  MaxBacklog = 3
SPECIFICATION RedSpec
SYMMETRY Sym
VIEW View
CONSTRAINT Bounded
INVARIANTS TypeOK OwnAnswer ChanOwn ReaderNeverBlocks RegisteredWhileWaiting NoLeakAtEnd StatusLink NoLeak NoLeakAtRest NoStuck
CHECK_DEADLOCK TRUE
