CONSTANTS
  Lens = {0, 1, 2, 3, 7, 8, 14, 15, 16, 17, 18, 30, 31, 32, 33, 34, 47, 48, 49, 63, 64, 65, 79, 80, 81, 95, 96, 97, 127, 128, 129, 255, 256, 257}
  NPairs = 3
  SignException = TRUE
  Masks = {1, 16, 128, 255}
SPECIFICATION Spec
INVARIANTS RoundTrip Tamper
CHECK_DEADLOCK FALSE
