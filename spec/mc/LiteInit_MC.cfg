CONSTANTS
  MaxN = 3
  T = 800
  SlowD = 150
  LateD = 2400
  CtxD = 350
SPECIFICATION ISpec
INVARIANTS ModelMeetsRelation NeverLate NoUnusableInPool
PROPERTY EventuallyEnds
CHECK_DEADLOCK FALSE
