\* big: 3 calls x 2 connections, 1 drop, 1 noise packet (reduced interleaving RedSpec); 16 workers; not part of the tiers' time budget
CONSTANTS
  Calls = {c1, c2, c3}
  NConns = 2
  Unknown = unk
  MaxDrops = 1
  MaxNoise = 1
  MaxSilence = 0
  StrictRst = TRUE
  MaxBacklog = 2
SPECIFICATION RedSpec
SYMMETRY Sym
VIEW View
CONSTRAINT Bounded
INVARIANTS TypeOK OwnAnswer ChanOwn ReaderNeverBlocks RegisteredWhileWaiting NoLeakAtEnd StatusLink NoLeak NoLeakAtRest NoStuck
CHECK_DEADLOCK TRUE
