\* big: 3 calls x 2 connections, 1 drop, 1 noise packet (reduced interleaving RedSpec, VIEW, SYMMETRY, backlog <= 2):
\* measured 13,994,240 distinct / 65,954,834 generated states, depth 41, 7 min 54 s with 12 workers; opt-in for the thorough tier (C12_BIG=1)
CONSTANTS
  Calls = {c1, c2, c3}
  NConns = 2
  Unknown = unk
  MaxDrops = 1
  MaxNoise = 1
  MaxSilence = 0
  StrictRst = TRUE
  MaxBacklog = 2
SPECIFICATION RedSpec
SYMMETRY Sym
VIEW View
CONSTRAINT Bounded
INVARIANTS TypeOK OwnAnswer ChanOwn ReaderNeverBlocks RegisteredWhileWaiting NoLeakAtEnd StatusLink NoLeak NoLeakAtRest NoStuck
CHECK_DEADLOCK TRUE
