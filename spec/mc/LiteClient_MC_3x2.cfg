\* 3 calls x 2 connections, 1 drop, 2 noise packets (RedSpec): beyond the time budget with this fine-grained model -
\* a 9 min probe (12 workers) reached depth 21 with 18.6 M distinct states and a growing queue; kept for long runs
CONSTANTS
  Calls = {c1, c2, c3}
  NConns = 2
  Unknown = unk
  MaxDrops = 1
  MaxNoise = 2
  MaxSilence = 0
  StrictRst = TRUE
  MaxBacklog = 2
SPECIFICATION RedSpec
SYMMETRY Sym
VIEW View
CONSTRAINT Bounded
INVARIANTS TypeOK OwnAnswer ChanOwn ReaderNeverBlocks RegisteredWhileWaiting NoLeakAtEnd StatusLink NoLeak NoLeakAtRest NoStuck
CHECK_DEADLOCK TRUE
