--------------------------- MODULE EncComment_MC ---------------------------
(* X04, exhaustive instance of the algebraic laws of EncComment over a grid:    *)
(*   RoundTrip  Decrypt(receiver, Encrypt(sender, receiver, msg, salt)) = msg   *)
(*              (and the sender reads its own message) for every length in Lens,*)
(*              every ordered key pair and every salt;                          *)
(*   Layout     lengths and the visible fields;                                 *)
(*   Tamper     XOR-ing any single byte of the ciphertext with any mask in      *)
(*              Masks makes Decrypt refuse -- with the one exception the format *)
(*              has: the top bit of byte 32 of pub_xor is the sign of the       *)
(*              Edwards x-coordinate, which the Montgomery u-coordinate (and    *)
(*              therefore the shared secret) does not depend on; there the      *)
(*              result is the unchanged comment, never another one;             *)
(*   Cut        dropping or appending whole blocks / single bytes refuses;      *)
(*   WrongKey   a third party's key and a different salt refuse.                *)
(* A state is <<0, L, s, r, a>> (one message) or <<1, L, s, r, a, pos, ct>>    *)
(* (one byte position of its ciphertext; tampering is done under salt 2).      *)
EXTENDS EncComment, TLC
CONSTANTS Lens, NPairs, Masks, SignException      \* SignException = FALSE only in the canary instance
Pairs == IF NPairs = 2 THEN {<<1, 2>>, <<2, 1>>} ELSE {<<1, 2>>, <<2, 1>>, <<1, 1>>}     \* <<sender, receiver>> key numbers
VARIABLE c

Seed(i)  == Sha256(<<i>>)
Salts    == << <<>>, StrToCodes("EQCD39VS5jcptHL8vMjEXrzGaRcCVYto7HUn4bpAOg8xqB2N") >>
Msg(L)   == [i \in 1..L |-> (7 * i + L) % 256]
Tape(L, s) == [i \in 1..31 |-> (13 * i + 5 * L + s) % 256]
Ct(L, s, r, a) == Encrypt(Seed(s), PubOf(Seed(r)), Msg(L), Salts[a], Tape(L, s))
Ok(m) == [ok |-> TRUE, msg |-> m]

Init == c \in {<<0, L, p[1], p[2], a>> : L \in Lens, p \in Pairs, a \in 1..Len(Salts)}
Next == /\ c[1] = 0 /\ c[5] = 2
        /\ LET ct == Ct(c[2], c[3], c[4], c[5]) IN
           c' \in {<<1, c[2], c[3], c[4], c[5], pos, ct>> : pos \in 1..CipherLen(c[2])}
Spec == Init /\ [][Next]_c

RoundTrip ==
  c[1] = 0 =>
    LET L == c[2]  ct == Ct(L, c[3], c[4], c[5])  salt == Salts[c[5]] IN
    /\ Len(ct) = CipherLen(L) /\ Len(ct) % 16 = 0 /\ Len(ct) >= 64
    /\ PrefixLen(L) \in 16..31 /\ (PrefixLen(L) + L) % 16 = 0
    /\ Decrypt(Seed(c[4]), ct, salt) = Ok(Msg(L))
    /\ Decrypt(Seed(c[3]), ct, salt) = Ok(Msg(L))
    /\ Conforms(Seed(c[3]), Seed(c[4]), Msg(L), salt, ct)
    /\ ConformsPub(Seed(c[3]), PubOf(Seed(c[4])), Msg(L), salt, ct)
    \* cut / extended ciphertexts, a stranger's key, another salt
    /\ Decrypt(Seed(c[4]), Slice(ct, 1, Len(ct) - 16), salt) = Refused
    /\ Decrypt(Seed(c[4]), Slice(ct, 1, Len(ct) - 1), salt) = Refused
    /\ Decrypt(Seed(c[4]), ct \o Zeros(16), salt) = Refused
    /\ Decrypt(Seed(c[4]), ct \o <<0>>, salt) = Refused
    /\ Decrypt(Seed(c[4]), Slice(ct, 1, 48), salt) = Refused
    /\ Decrypt(Seed(99), ct, salt) = Refused
    /\ Decrypt(Seed(c[4]), ct, salt \o <<65>>) = Refused

Tamper ==
  c[1] = 1 =>
    LET L == c[2]  ct == c[7]  salt == Salts[c[5]]  pos == c[6] IN
    \A m \in Masks :
      LET r == Decrypt(Seed(c[4]), [ct EXCEPT ![pos] = XByte(ct[pos], m)], salt) IN
      IF SignException /\ pos = 32 /\ m = 128 THEN r = Ok(Msg(L)) ELSE r = Refused
=============================================================================
