CONSTANTS
  MaxC = 0
  MaxS = 2
  SegDirs = {"s2c"}
  FaultDirs = {"s2c"}
  Deltas = {1, 128}
SPECIFICATION Spec
INVARIANTS TypeOK NoFaultNoReject SessionAgreement DeliveredIsPrefixOfSent NothingFromHitFrameOn AllUndamagedDelivered
CHECK_DEADLOCK FALSE
