CONSTANTS
  MaxC = 2
  MaxS = 0
  SegDirs = {"c2s"}
  FaultDirs = {"c2s"}
  Deltas = {1, 128}
SPECIFICATION Spec
INVARIANTS TypeOK NoFaultNoReject SessionAgreement DeliveredIsPrefixOfSent NothingFromHitFrameOn AllUndamagedDelivered
CHECK_DEADLOCK FALSE
