\* repaired protocol, update channel scaled to 2 slots, 2 connections x 2 callers
CONSTANTS
  NC = 2
  Waiters = {w1, w2}
  None = none
  RunP = run
  MaxSeq = 3
  Steps = {1}
  Wants = {2, 4}
  Timeouts = {1}
  UpdCap = 2
  MaxTime = 2
  Strategy = "first-working"
  Rtt0 <- Rtt_00
  MaxFlips = 0
  FixNotify = TRUE
  FixTimer = TRUE
  FixSetHead = TRUE
SPECIFICATION Spec
SYMMETRY Sym
INVARIANTS Safe NeverStuck ByDeadline
CHECK_DEADLOCK FALSE
