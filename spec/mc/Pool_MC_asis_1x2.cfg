\* protocol before the repairs (all Fix* = FALSE; kept as a leads generator: only the safety part is checked), 1 connection x 2 callers, heads 0..3, clock 0..4
CONSTANTS
  NC = 1
  Waiters = {w1, w2}
  None = none
  RunP = run
  MaxSeq = 3
  Steps = {0, 1}
  Wants = {2, 4}
  Timeouts = {2}
  UpdCap = 10
  MaxTime = 4
  Strategy = "first-working"
  Rtt0 <- Rtt_1
  MaxFlips = 0
  FixNotify = FALSE
  FixTimer = FALSE
  FixSetHead = FALSE
SPECIFICATION Spec
SYMMETRY Sym
INVARIANTS Safe
CHECK_DEADLOCK FALSE
