CONSTANTS
  Lens = {0, 1, 15, 16, 17, 32}
  NPairs = 2
  SignException = TRUE
  Masks = {1, 128}
SPECIFICATION Spec
INVARIANTS RoundTrip Tamper
CHECK_DEADLOCK FALSE
