\* protocol as implemented, 2 connections x 1 caller, best switches (ticker, one liveness flip)
CONSTANTS
  NC = 2
  Waiters = {w1}
  None = none
  RunP = run
  MaxSeq = 3
  Steps = {1, 2}
  Wants = {2, 4}
  Timeouts = {2, 1000000000}
  UpdCap = 10
  MaxTime = 3
  Strategy = "best-ping"
  Rtt0 <- Rtt_10
  MaxFlips = 1
  FixNotify = FALSE
  FixTimer = FALSE
  FixSetHead = FALSE
SPECIFICATION Spec
SYMMETRY Sym
INVARIANTS Safe
CHECK_DEADLOCK FALSE
