\* protocol before the repairs (all Fix* = FALSE; kept as a leads generator: only the safety part is checked), 1 connection x 2 callers; NeverStuck and ByDeadline do NOT hold for it (leads: gen/Pool_Gen_cex*.cfg)
CONSTANTS
  NC = 1
  Waiters = {w1, w2}
  None = none
  RunP = run
  MaxSeq = 2
  Steps = {1}
  Wants = {2, 3}
  Timeouts = {1}
  UpdCap = 10
  MaxTime = 1
  Strategy = "first-working"
  Rtt0 <- Rtt_1
  MaxFlips = 0
  FixNotify = FALSE
  FixTimer = FALSE
  FixSetHead = FALSE
SPECIFICATION Spec
SYMMETRY Sym
INVARIANTS Safe
CHECK_DEADLOCK FALSE
