------------------------------ MODULE Adnl_MC ------------------------------
(* Exhaustive instance of the Adnl state machine: real handshake and frames   *)
(* (real SHA-256 / AES-CTR / X25519 through Prim) with tiny payloads, every    *)
(* split of the byte streams into TCP segments, one fault (any byte in flight  *)
(* replaced, or the stream cut) in the directions FaultDirs, sends interleaved *)
(* with arrival and parsing.  The invariants are the two clauses of C11 plus   *)
(* the positive half (all undamaged frames are delivered).                     *)
EXTENDS Adnl, TLC
CONSTANTS MaxC, MaxS,   \* number of data packets client->server / server->client (the ack is extra)
          SegDirs,      \* directions whose stream is split at every byte boundary (others arrive whole)
          FaultDirs,    \* directions in which the single fault may happen
          Deltas        \* a corrupted byte b becomes Xor8(b, m) for m in Deltas

ServerSeed  == HexToBytes("9d61b19deffd5a60ba844af492ec2cc44449c5697b326919703bac031cae7f60")
ClientSeed  == HexToBytes("4ccd089b28ff96da9db6c346ec114e0f5b8a319f35aba624da8cf6ed4fb8a6fb")
ServerPub   == EdPubFromSeed(ServerSeed)
Params      == Sha512(<<1>>) \o Sha512(<<2>>) \o Sha256(<<3>>)          \* 160 arbitrary bytes
Payloads    == {<<>>, <<7>>}
NonceOf(d, k) == Sha256(<<IF d = "c2s" THEN 1 ELSE 2, k>>)

VARIABLE faults
mvars == <<hs, cp, sp, wire, buf, txoff, rxoff, sent, delivered, dead, eof, got, units, hit, faults>>

DataSent(d) == IF d = "s2c" THEN (IF sent[d] = <<>> THEN 0 ELSE Len(sent[d]) - 1) ELSE Len(sent[d])
\* one byte at a time reaches every split point (k bytes at once = k single steps without parsing in between)
SegChoices(d) == (IF d \in SegDirs THEN {1, Len(wire[d])} ELSE {Len(wire[d])}) \ {0}

Init == AInit /\ faults = 0
Next ==
  \/ /\ UNCHANGED faults
     /\ \/ Handshake(ServerPub, ClientSeed, Params)
        \/ HsDeliver(ServerSeed)
        \/ ServerAck(NonceOf("s2c", 0))
        \/ \E d \in Dirs, p \in Payloads :
             /\ DataSent(d) < (IF d = "c2s" THEN MaxC ELSE MaxS) /\ (d = "s2c" => sent[d] # <<>>)
             /\ Send(d, p, NonceOf(d, Len(sent[d]) + 1))
        \/ \E d \in Dirs : ~dead[d] /\ \E k \in SegChoices(d) : Segment(d, k)
        \/ \E d \in Dirs : Deliver(d)
  \/ /\ faults = 0 /\ faults' = 1
     /\ \E d \in FaultDirs :
          \/ \E i \in 1..Len(wire[d]), m \in Deltas : Corrupt(d, i, Xor8(wire[d][i], m))
          \/ hs # "none" /\ Truncate(d)
Spec == Init /\ [][Next]_mvars
\* the client completes the handshake with a conforming server: only a fault makes the server reject
NoFaultNoReject == faults = 0 => hs # "rejected" /\ \A d \in Dirs : ~dead[d] /\ hit[d] = 0
=============================================================================
