\* quick: 3 calls x 1 connection, 1 drop
CONSTANTS
  Calls = {c1, c2, c3}
  NConns = 1
  Unknown = unk
  MaxDrops = 1
  MaxNoise = 0
  MaxSilence = 0
  StrictRst = TRUE
  MaxBacklog = 3
SPECIFICATION Spec
SYMMETRY Sym
VIEW View
CONSTRAINT Bounded
INVARIANTS TypeOK OwnAnswer ChanOwn ReaderNeverBlocks RegisteredWhileWaiting NoLeakAtEnd StatusLink NoLeak NoLeakAtRest NoStuck
CHECK_DEADLOCK TRUE
