------------------------------ MODULE Pool_MC ------------------------------
(* Exhaustive instances of Pool (constants that a .cfg cannot spell).          *)
EXTENDS Pool
Rtt_1   == <<0>>
Rtt_10  == <<1, 0>>           \* connection 2 is the faster one
Rtt_00  == <<0, 0>>
Sym     == Permutations(Waiters)
\* properties that also held for the protocol before the repairs (asis_* configs)
Safe    == TypeOK /\ OkJustified /\ ErrJustified
=============================================================================
