---------------------------- MODULE LiteClient_MC ----------------------------
(* Exhaustive instances of LiteClient.                                           *)
(*                                                                               *)
(* Calls are interchangeable (SYMMETRY for the safety runs).  The VIEW leaves    *)
(* out what no action ever reads: the returned value ret (OwnAnswer over ret is  *)
(* implied by ChanOwn, an invariant over the viewed state), the connection of a  *)
(* call once its Send is over, and the contents of generations whose socket and  *)
(* goroutines are all gone.  The state constraint bounds the unparsed            *)
(* server->client backlog.                                                       *)
(*                                                                               *)
(* RedSpec is Spec with three reductions, each of which only removes             *)
(* interleavings of a step that commutes with every step of every other process  *)
(* and that no invariant looks at:                                               *)
(*  - PickConn is fused with Register (it writes only the caller's own conn/pc); *)
(*  - SrvRecv is taken as soon as it is enabled (moving a query from `out` to    *)
(*    `pend` is invisible to the client; a drop or close empties both alike);    *)
(*  - PktExit is taken as soon as it is enabled (P at the end of a closed,       *)
(*    drained stream can do nothing else, and nobody else reads p = "run" on a   *)
(*    drained closed stream except ConnReaderEOF, which it enables).             *)
EXTENDS LiteClient

CONSTANTS MaxBacklog
Sym  == Permutations(Calls)
Gone(l) == l.p = "dead" /\ l.r = "dead" /\ l.fin # "open"
View == <<pc, [c \in Calls |-> IF pc[c] = "picked" THEN conn[c] ELSE 0], queries, chans, status, gen,
          [k \in Conns |-> [g \in Gens(k) |-> IF Gone(L(k, g)) THEN <<"gone">> ELSE L(k, g)]],
          clr, rcq, dial, produced, drops, noise, sil>>
Bounded == \A k \in Conns : \A g \in Gens(k) : Len(L(k, g).in) <= MaxBacklog

RegPick(c, k) ==
  /\ pc[c] = "start"
  /\ queries' = queries \cup {c} /\ conn' = [conn EXCEPT ![c] = k] /\ pc' = [pc EXCEPT ![c] = "picked"]
  /\ UNCHANGED <<ret, chans, status, gen, link, clr, rcq, dial, produced, drops, noise, sil>>
Urgent == \/ \E k \in Conns : \E g \in Gens(k) : \E i \in Calls : SrvRecv(k, g, i)
          \/ \E k \in Conns : \E g \in Gens(k) : PktExit(k, g)
RedCaller(c) == \/ (\E k \in Conns : RegPick(c, k)) \/ SendNotConnected(c) \/ SendOk(c) \/ SendFail(c)
                \/ CallerRecv(c) \/ CallerTimeout(c) \/ Unregister(c)
RedServer(k, g) == \/ \E i \in Calls : SrvAnswer(k, g, i, i) \/ SrvDup(k, g, i, i)
                   \/ SrvUnknown(k, g, Unknown) \/ SrvPong(k, g) \/ SrvOther(k, g, Unknown) \/ SrvDrop(k, g)
RedReader(k, g) == ConnReaderRecv(k, g) \/ ConnReaderEOF(k, g) \/ ConnReaderSilence(k, g)
                   \/ PktStuck(k, g) \/ HandOff(k, g) \/ ReaderRcBegin(k, g)
RedNext == IF ENABLED Urgent THEN Urgent
           ELSE \/ \E c \in Calls : RedCaller(c)
                \/ \E k \in Conns : ConnStep(k) \/ \E g \in Gens(k) : RedServer(k, g) \/ RedReader(k, g)
                \/ Done
RedSpec == Init /\ [][RedNext]_vars
=============================================================================
