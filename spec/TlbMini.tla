------------------------------ MODULE TlbMini ------------------------------
(* A small TL-B serialiser for the TL-B half of C09 (the constructs tlb/parser *)
(* supports and abi/schemas use), written from the TL-B documentation          *)
(* (ton.org docs "TL-B language", block.tlb's own definitions of Maybe, Either, *)
(* Hashmap, HmLabel, Unary), not from tongo's reflection codec:                 *)
(*   uintN / (## N)  N bits, unsigned, most significant bit first               *)
(*   intN            N bits, two's complement                                   *)
(*   bitsN           N raw bits             Bool   bool_false$0 / bool_true$1   *)
(*   VarUInteger n   var_uint$_ {n:#} len:(#< n) value:(uint (len * 8)):         *)
(*                   len in ceil(log2 n) bits (the bits of n - 1), the shortest  *)
(*                   len that holds the value, then len bytes                    *)
(*   Maybe T         nothing$0 | just$1 value:T                                 *)
(*   Either L R      left$0 value:L | right$1 value:R                           *)
(*   ^T              one reference to a cell holding exactly T                  *)
(*   ^[ fields ]     one reference to a cell holding the fields                 *)
(*   constructor     its tag (#hex: 4 bits per digit, $bin: the bits), fields   *)
(*   HashmapE n V    hme_empty$0 | hme_root$1 root:^(Hashmap n V)               *)
(*   Hashmap n V     label:(HmLabel ~l n) then, with m = n - l:                 *)
(*                   m = 0: the value V; m > 0: left:^(Hashmap (m-1) V) right:^ *)
(*   HmLabel ~l m    hml_short$0 len:(Unary ~l) s:(l * Bit)                     *)
(*                 | hml_long$10 l:(#<= m) s:(l * Bit) | hml_same$11 v:Bit l:(#<= m) *)
(*   a cell holds at most 1023 bits and 4 references                            *)
(*                                                                               *)
(* Schema AST: [decls |-> << [ctor, tag, result, fields |-> <<[name, ty]>>] >>]  *)
(*   ty = [t |-> "uint"|"int"|"bits"|"nat"|"varuint", n] | [t |-> "bool"] | [t |-> "maybe", of] *)
(*      | [t |-> "either", l, r] | [t |-> "ref", of] | [t |-> "anon", fields]    *)
(*      | [t |-> "named", name] | [t |-> "dict", n, val]                         *)
(* Values: numbers as decimal strings, bits as "0101", Bool TRUE/FALSE,          *)
(*   maybe [m |-> "none"] / [m |-> "just", v], either [e |-> "l"/"r", v],        *)
(*   ref transparent, constructor record with "_" = constructor name,            *)
(*   dict = sequence of [k |-> key bits, v |-> value] in ascending key order.    *)
(*                                                                               *)
(* Enc gives THE cell for values without dictionaries.  A dictionary has several *)
(* valid encodings (any HmLabel form may be used), so the judge is Matches:      *)
(* cell c is an encoding of value v — bit-exact everywhere except that each      *)
(* label may use any of its three forms.                                         *)
EXTENDS Integers, Sequences, TLC, Prim

B == INSTANCE Bits WITH s <- <<>>, r <- 0, cap <- 0, nrefs <- 0, rr <- 0

MaxBits == 1023
MaxRefs == 4

\* ------------------------------------------------------------------ schema
DeclIdx(S)      == 1..Len(S.decls)
CtorsOf(S, res) == {i \in DeclIdx(S) : S.decls[i].result = res}
DeclFor(S, res, ctor) == S.decls[CHOOSE i \in CtorsOf(S, res) : S.decls[i].ctor = ctor]
HasCtor(S, res, ctor) == \E i \in CtorsOf(S, res) : S.decls[i].ctor = ctor

HexBits(h) == IF StrLen(h) % 2 = 0 THEN BytesToBits(HexToBytes(h))
              ELSE SubSeq(BytesToBits(HexToBytes(StrCat("0", h))), 5, 4 * StrLen(h) + 4)
TagBits(tag) == IF tag = "" \/ tag = "#_" \/ tag = "$_" THEN <<>>
                ELSE IF SubStr(tag, 1, 1) = "#" THEN HexBits(SubStr(tag, 2, StrLen(tag)))
                ELSE StrToBits(SubStr(tag, 2, StrLen(tag)))

\* -------------------------------------------------------------- parts, cells
\* a part = what a value contributes to the cell being built: bits and references (cells)
Part(b, r)  == [b |-> b, r |-> r]
Nil         == Part(<<>>, <<>>)
Cat(x, y)   == Part(x.b \o y.b, x.r \o y.r)
BitsOnly(b) == Part(b, <<>>)

\* VarUInteger n: bytes the value needs (0 for 0; -1 if it needs more than n - 1), width of the len field
RECURSIVE VarLenFrom(_, _, _)
VarLenFrom(v, l, max) == IF l > max THEN -1 ELSE IF B!UFits(v, 8 * l) THEN l ELSE VarLenFrom(v, l + 1, max)
VarLen(v, n)   == IF v = "0" THEN 0 ELSE VarLenFrom(v, 1, n - 1)
VarLenBits(n)  == B!BitLen(n - 1)
VarBits(v, n)  == LET l == VarLen(v, n) IN (IF VarLenBits(n) = 0 THEN <<>> ELSE B!UBits(ToString(l), VarLenBits(n))) \o (IF l = 0 THEN <<>> ELSE B!UBits(v, 8 * l))

IsFixed(ty) == ty.t \in {"uint", "int", "bits", "nat", "bool", "varuint"}
FixedBits(ty, v) ==
  CASE ty.t \in {"uint", "nat"} -> B!UBits(v, ty.n)
    [] ty.t = "varuint" -> VarBits(v, ty.n)
    [] ty.t = "int"  -> B!SBits(v, ty.n)
    [] ty.t = "bits" -> StrToBits(v)
    [] ty.t = "bool" -> IF v THEN <<1>> ELSE <<0>>

RECURSIVE ValidTy(_, _, _), ValidFields(_, _, _, _)
ValidFields(S, fs, v, i) == IF i > Len(fs) THEN TRUE
                            ELSE fs[i].name \in DOMAIN v /\ ValidTy(S, fs[i].ty, v[fs[i].name]) /\ ValidFields(S, fs, v, i + 1)
ValidTy(S, ty, v) ==
  CASE ty.t \in {"uint", "nat"} -> B!UFits(v, ty.n)
    [] ty.t = "varuint" -> ty.n >= 1 /\ VarLen(v, ty.n) >= 0
    [] ty.t = "int"    -> ty.n >= 1 /\ B!SFits(v, ty.n)
    [] ty.t = "bits"   -> StrLen(v) = ty.n
    [] ty.t = "bool"   -> v \in BOOLEAN
    [] ty.t = "maybe"  -> v.m = "none" \/ (v.m = "just" /\ ValidTy(S, ty.of, v.v))
    [] ty.t = "either" -> (v.e = "l" /\ ValidTy(S, ty.l, v.v)) \/ (v.e = "r" /\ ValidTy(S, ty.r, v.v))
    [] ty.t = "ref"    -> ValidTy(S, ty.of, v)
    [] ty.t = "anon"   -> ValidFields(S, ty.fields, v, 1)
    [] ty.t = "named"  -> HasCtor(S, ty.name, v["_"]) /\ ValidFields(S, DeclFor(S, ty.name, v["_"]).fields, v, 1)
    [] ty.t = "dict"   -> /\ \A i \in 1..Len(v) : StrLen(v[i].k) = ty.n /\ ValidTy(S, ty.val, v[i].v)
                          /\ \A i \in 1..(Len(v) - 1) : B!UBits(BitsToDec(StrToBits(v[i].k)), ty.n + 1) # B!UBits(BitsToDec(StrToBits(v[i + 1].k)), ty.n + 1)

RECURSIVE HasDict(_, _, _)
HasDict(S, ty, fuel) ==
  CASE ty.t = "dict" -> TRUE
    [] ty.t \in {"maybe", "ref"} -> HasDict(S, ty.of, fuel)
    [] ty.t = "either" -> HasDict(S, ty.l, fuel) \/ HasDict(S, ty.r, fuel)
    [] ty.t = "anon" -> \E i \in 1..Len(ty.fields) : HasDict(S, ty.fields[i].ty, fuel)
    [] ty.t = "named" -> fuel > 0 /\ \E i \in CtorsOf(S, ty.name) : \E j \in 1..Len(S.decls[i].fields) : HasDict(S, S.decls[i].fields[j].ty, fuel - 1)
    [] OTHER -> FALSE

\* ----------------------------------------------------------------- encoding
RECURSIVE EncTy(_, _, _), EncFields(_, _, _, _)
EncFields(S, fs, v, i) == IF i > Len(fs) THEN Nil ELSE Cat(EncTy(S, fs[i].ty, v[fs[i].name]), EncFields(S, fs, v, i + 1))
EncTy(S, ty, v) ==
  CASE IsFixed(ty)     -> BitsOnly(FixedBits(ty, v))
    [] ty.t = "maybe"  -> IF v.m = "none" THEN BitsOnly(<<0>>) ELSE Cat(BitsOnly(<<1>>), EncTy(S, ty.of, v.v))
    [] ty.t = "either" -> IF v.e = "l" THEN Cat(BitsOnly(<<0>>), EncTy(S, ty.l, v.v)) ELSE Cat(BitsOnly(<<1>>), EncTy(S, ty.r, v.v))
    [] ty.t = "ref"    -> Part(<<>>, <<EncTy(S, ty.of, v)>>)          \* a part used as a cell: same record shape
    [] ty.t = "anon"   -> EncFields(S, ty.fields, v, 1)
    [] ty.t = "named"  -> LET d == DeclFor(S, ty.name, v["_"]) IN Cat(BitsOnly(TagBits(d.tag)), EncFields(S, d.fields, v, 1))
\* Enc(schema, type, value) -> the cell [b |-> bits, r |-> <<cells>>]  (types without dictionaries)
Enc(S, ty, v) == EncTy(S, ty, v)

RECURSIVE CellFits(_)
CellFits(c) == Len(c.b) <= MaxBits /\ Len(c.r) <= MaxRefs /\ \A i \in 1..Len(c.r) : CellFits(c.r[i])

\* size of the part a value contributes to its cell, nested cells checked: [b, r, ok]
RECURSIVE Sz(_, _, _), SzFs(_, _, _, _)
SzFs(S, fs, v, i) == IF i > Len(fs) THEN [b |-> 0, r |-> 0, ok |-> TRUE]
                     ELSE LET x == Sz(S, fs[i].ty, v[fs[i].name])  y == SzFs(S, fs, v, i + 1) IN [b |-> x.b + y.b, r |-> x.r + y.r, ok |-> x.ok /\ y.ok]
InCell(x) == x.ok /\ x.b <= MaxBits /\ x.r <= MaxRefs
Sz(S, ty, v) ==
  CASE ty.t \in {"uint", "int", "bits", "nat"} -> [b |-> ty.n, r |-> 0, ok |-> TRUE]
    [] ty.t = "varuint" -> [b |-> VarLenBits(ty.n) + 8 * VarLen(v, ty.n), r |-> 0, ok |-> TRUE]
    [] ty.t = "bool"   -> [b |-> 1, r |-> 0, ok |-> TRUE]
    [] ty.t = "maybe"  -> IF v.m = "none" THEN [b |-> 1, r |-> 0, ok |-> TRUE] ELSE LET x == Sz(S, ty.of, v.v) IN [x EXCEPT !.b = @ + 1]
    [] ty.t = "either" -> LET x == Sz(S, IF v.e = "l" THEN ty.l ELSE ty.r, v.v) IN [x EXCEPT !.b = @ + 1]
    [] ty.t = "ref"    -> [b |-> 0, r |-> 1, ok |-> InCell(Sz(S, ty.of, v))]
    [] ty.t = "anon"   -> SzFs(S, ty.fields, v, 1)
    [] ty.t = "named"  -> LET d == DeclFor(S, ty.name, v["_"])  x == SzFs(S, d.fields, v, 1) IN [x EXCEPT !.b = @ + Len(TagBits(d.tag))]
    [] ty.t = "dict"   -> [b |-> 1, r |-> IF Len(v) = 0 THEN 0 ELSE 1, ok |-> TRUE]     \* leaves here are far below a cell
Fits(S, ty, v) == InCell(Sz(S, ty, v))

\* cells in the exchange format: [b |-> "0101", r |-> <<cells>>]
RECURSIVE CellJ(_), CellOf(_)
CellJ(c)  == [b |-> BitsToStr(c.b), r |-> [i \in 1..Len(c.r) |-> CellJ(c.r[i])]]
CellOf(j) == [b |-> StrToBits(j.b), r |-> [i \in 1..Len(j.r) |-> CellOf(j.r[i])]]

\* ----------------------------------------------------------------- matching
Pos(bi, ri) == [bi |-> bi, ri |-> ri]
Fail        == Pos(-1, 0)
Failed(p)   == p.bi < 0
HasBits(c, p, n) == p.bi + n <= Len(c.b)
BitsAt(c, p, n)  == SubSeq(c.b, p.bi + 1, p.bi + n)
RECURSIVE BitsVal(_)
BitsVal(b) == IF Len(b) = 0 THEN 0 ELSE 2 * BitsVal(SubSeq(b, 1, Len(b) - 1)) + b[Len(b)]      \* at most 11 bits here
RECURSIVE Ones(_, _)
Ones(b, i) == IF i > Len(b) THEN -1 ELSE IF b[i] = 0 THEN 0 ELSE (LET x == Ones(b, i + 1) IN IF x < 0 THEN -1 ELSE x + 1)

\* label at the start of cell c, keys of m bits remaining: [ok, l (length), s (bits), bi (bits consumed)]
Label(c, m) ==
  LET k  == B!BitLen(m)
      no == [ok |-> FALSE, l |-> 0, s |-> <<>>, bi |-> 0] IN
  IF Len(c.b) < 1 THEN no
  ELSE IF c.b[1] = 0 THEN
    LET l == Ones(c.b, 2) IN
    IF l < 0 \/ l > m \/ Len(c.b) < 2 + 2 * l THEN no
    ELSE [ok |-> TRUE, l |-> l, s |-> SubSeq(c.b, 3 + l, 2 + 2 * l), bi |-> 2 + 2 * l]
  ELSE IF Len(c.b) < 2 THEN no
  ELSE IF c.b[2] = 0 THEN
    IF Len(c.b) < 2 + k THEN no
    ELSE LET l == BitsVal(SubSeq(c.b, 3, 2 + k)) IN
         IF l > m \/ Len(c.b) < 2 + k + l THEN no
         ELSE [ok |-> TRUE, l |-> l, s |-> SubSeq(c.b, 3 + k, 2 + k + l), bi |-> 2 + k + l]
  ELSE
    IF Len(c.b) < 3 + k THEN no
    ELSE LET l == BitsVal(SubSeq(c.b, 4, 3 + k)) IN
         IF l > m THEN no ELSE [ok |-> TRUE, l |-> l, s |-> [i \in 1..l |-> c.b[3]], bi |-> 3 + k]

\* leaves of the Hashmap rooted at cell c with m key bits remaining, in key order:
\* [ok, items |-> << [k |-> key bits, c |-> leaf cell, bi |-> where the value starts] >>]
RECURSIVE Leaves(_, _, _)
Leaves(c, m, prefix) ==
  LET lb == Label(c, m)
      no == [ok |-> FALSE, items |-> <<>>] IN
  IF ~lb.ok THEN no
  ELSE IF lb.l = m THEN [ok |-> TRUE, items |-> <<[k |-> prefix \o lb.s, c |-> c, bi |-> lb.bi]>>]
  ELSE IF lb.bi # Len(c.b) \/ Len(c.r) # 2 THEN no          \* a fork: nothing but the two branches
  ELSE LET le == Leaves(c.r[1], m - lb.l - 1, prefix \o lb.s \o <<0>>)
           ri == Leaves(c.r[2], m - lb.l - 1, prefix \o lb.s \o <<1>>) IN
       IF le.ok /\ ri.ok THEN [ok |-> TRUE, items |-> le.items \o ri.items] ELSE no

RECURSIVE MatchTy(_, _, _, _, _), MatchFields(_, _, _, _, _, _), MatchWhole(_, _, _, _, _)
MatchFields(S, fs, v, c, p, i) ==
  IF Failed(p) \/ i > Len(fs) THEN p ELSE MatchFields(S, fs, v, c, MatchTy(S, fs[i].ty, v[fs[i].name], c, p), i + 1)
ExpectBits(c, p, e) == IF ~Failed(p) /\ HasBits(c, p, Len(e)) /\ BitsAt(c, p, Len(e)) = e THEN Pos(p.bi + Len(e), p.ri) ELSE Fail
\* value v of type ty occupies cell c from position p0 to exactly the end of the cell
MatchWhole(S, ty, v, c, p0) == LET q == MatchTy(S, ty, v, c, p0) IN ~Failed(q) /\ q.bi = Len(c.b) /\ q.ri = Len(c.r)
MatchTy(S, ty, v, c, p) ==
  IF Failed(p) THEN Fail
  ELSE CASE IsFixed(ty) -> ExpectBits(c, p, FixedBits(ty, v))
    [] ty.t = "maybe"  -> IF v.m = "none" THEN ExpectBits(c, p, <<0>>) ELSE MatchTy(S, ty.of, v.v, c, ExpectBits(c, p, <<1>>))
    [] ty.t = "either" -> IF v.e = "l" THEN MatchTy(S, ty.l, v.v, c, ExpectBits(c, p, <<0>>))
                          ELSE MatchTy(S, ty.r, v.v, c, ExpectBits(c, p, <<1>>))
    [] ty.t = "ref"    -> IF p.ri < Len(c.r) /\ MatchWhole(S, ty.of, v, c.r[p.ri + 1], Pos(0, 0)) THEN Pos(p.bi, p.ri + 1) ELSE Fail
    [] ty.t = "anon"   -> MatchFields(S, ty.fields, v, c, p, 1)
    [] ty.t = "named"  -> LET d == DeclFor(S, ty.name, v["_"]) IN MatchFields(S, d.fields, v, c, ExpectBits(c, p, TagBits(d.tag)), 1)
    [] ty.t = "dict"   ->
         IF Len(v) = 0 THEN ExpectBits(c, p, <<0>>)
         ELSE LET q == ExpectBits(c, p, <<1>>) IN
              IF Failed(q) \/ q.ri >= Len(c.r) THEN Fail
              ELSE LET lv == Leaves(c.r[q.ri + 1], ty.n, <<>>) IN
                   IF /\ lv.ok /\ Len(lv.items) = Len(v)
                      /\ \A i \in 1..Len(v) : /\ lv.items[i].k = StrToBits(v[i].k)
                                              /\ MatchWhole(S, ty.val, v[i].v, lv.items[i].c, Pos(lv.items[i].bi, 0))
                   THEN Pos(q.bi, q.ri + 1) ELSE Fail

\* Matches(schema, type, value, cell): cell is an encoding of value
Matches(S, ty, v, c) == MatchWhole(S, ty, v, c, Pos(0, 0))
=============================================================================
