-------------------------------- MODULE Cells --------------------------------
(* The TON cell model: representation, level masks, hash / depth at every     *)
(* level, exotic-cell well-formedness.  Written from the TVM white paper and   *)
(* the DataCell definition of the reference node, not from the Go code.        *)
(*                                                                             *)
(* A DAG is a *cell table*: a sequence T of records                            *)
(*    [b |-> bits (seq of 0/1), x |-> type 0..4, m |-> level mask 0..7,        *)
(*     r |-> <<indices into T>>]                                               *)
(* in topological order: every reference points to a LARGER index.            *)
(* Types: 0 ordinary, 1 pruned branch, 2 library, 3 Merkle proof, 4 Merkle     *)
(* update.  Hashes are 32-byte tuples, computed with Prim!Sha256.              *)
EXTENDS Integers, Sequences, SequencesExt, FiniteSets, Prim

Ordinary == 0   Pruned == 1   Library == 2   MerkleProof == 3   MerkleUpdate == 4
MaxDepth == 1024

\* ------------------------------------------------------------- level masks
Bit(m, i)    == (m \div (2 ^ i)) % 2                     \* bit i (0-based) of mask m
Pop(m)       == Bit(m, 0) + Bit(m, 1) + Bit(m, 2)        \* number of significant levels above 0
LevelOf(m)   == IF m >= 4 THEN 3 ELSE IF m >= 2 THEN 2 ELSE IF m >= 1 THEN 1 ELSE 0
ApplyM(m, l) == m % (2 ^ l)                              \* mask restricted to levels <= l
Significant(m, l) == l = 0 \/ Bit(m, l - 1) = 1
HashCount(m) == Pop(m) + 1
OrM(a, b)    == LET o(i) == IF Bit(a, i) = 1 \/ Bit(b, i) = 1 THEN 2 ^ i ELSE 0 IN o(0) + o(1) + o(2)
\* significant levels of a mask in increasing order, always starting with 0
Levels(m) == <<0>> \o (IF Bit(m, 0) = 1 THEN <<1>> ELSE <<>>)
                   \o (IF Bit(m, 1) = 1 THEN <<2>> ELSE <<>>)
                   \o (IF Bit(m, 2) = 1 THEN <<3>> ELSE <<>>)

\* --------------------------------------------------------- representation
\* data bytes with the completion tag: bits, then (if not byte aligned) a 1 and zeros up to the byte
Padded(b)   == IF Len(b) % 8 = 0 THEN b ELSE b \o <<1>> \o [i \in 1..(7 - (Len(b) % 8)) |-> 0]
DataBytes(b) == BitsToBytes(Padded(b))
D1(c, l)    == Len(c.r) + (IF c.x # Ordinary THEN 8 ELSE 0) + 32 * ApplyM(c.m, l)
D2(c)       == (Len(c.b) \div 8) + ((Len(c.b) + 7) \div 8)
U16(d)      == <<d \div 256, d % 256>>
Max2(a, b)  == IF a > b THEN a ELSE b

\* the exotic type is the first data byte of an exotic cell
TypeByte(c) == LET by == DataBytes(c.b) IN IF Len(by) = 0 THEN -1 ELSE by[1]

\* Info of one cell given the infos of its children (kids[j] for reference j):
\*   [h |-> <<H(0), H(1), H(2), H(3)>>, d |-> <<Dp(0), .., Dp(3)>>]      (level l is entry l+1)
\* Pruned branch: levels below its own are answered from the hashes / depths stored in its data
\*   data = 01 mask  hash[0..n-1] (32 bytes each)  depth[0..n-1] (2 bytes each),  n = Pop(mask)
\* Merkle proof / update: children are taken one level higher.
CellInfo(c, kids) ==
  LET m    == c.m
      nr   == Len(c.r)
      data == DataBytes(c.b)
      lv   == Levels(m)
      off  == IF c.x = Pruned THEN Pop(m) ELSE 0
      Comp == FoldLeft(
                LAMBDA acc, i :
                   LET li   == lv[i + 1]
                       cl   == IF c.x \in {MerkleProof, MerkleUpdate} THEN li + 1 ELSE li
                       cli  == IF cl > 3 THEN 4 ELSE cl + 1
                       body == IF i = off THEN data ELSE acc[Len(acc)].h
                       deps == FoldLeft(LAMBDA a, k : a \o U16(k.d[cli]), <<>>, kids)
                       hs   == FoldLeft(LAMBDA a, k : a \o k.h[cli], <<>>, kids)
                       dep  == IF nr = 0 THEN 0 ELSE 1 + FoldLeft(LAMBDA a, k : Max2(a, k.d[cli]), 0, kids)
                   IN Append(acc, [h |-> Sha256(<<D1(c, li), D2(c)>> \o body \o deps \o hs), d |-> dep]),
                <<>>, [x \in 1..(Pop(m) + 1 - off) |-> off + x - 1])
      AtLevel(l) ==
         LET idx == Pop(ApplyM(m, l)) IN
         IF c.x = Pruned /\ idx # Pop(m)
           THEN [h |-> SubSeq(data, 3 + 32 * idx, 2 + 32 * (idx + 1)),
                 d |-> data[3 + 32 * Pop(m) + 2 * idx] * 256 + data[4 + 32 * Pop(m) + 2 * idx]]
           ELSE Comp[idx - off + 1]
  IN [h |-> <<AtLevel(0).h, AtLevel(1).h, AtLevel(2).h, AtLevel(3).h>>,
      d |-> <<AtLevel(0).d, AtLevel(1).d, AtLevel(2).d, AtLevel(3).d>>]

\* Info table of a whole cell table, computed from the last cell to the first (constant TLC level:
\* one fold, not one state per cell).  Result[i] is the info of T[i].
InfoTable(T) ==
  LET n == Len(T)
      Rev == FoldLeft(LAMBDA acc, i :                   \* acc = infos of cells n, n-1, .., n-i+2
                 LET idx  == n - i + 1
                     kids == [j \in 1..Len(T[idx].r) |-> acc[n - T[idx].r[j] + 1]]
                 IN Append(acc, CellInfo(T[idx], kids)),
              <<>>, [i \in 1..n |-> i])
  IN [i \in 1..n |-> Rev[n - i + 1]]

ReprHash(info)  == info.h[4]                             \* what Cell.Hash() reports (highest level)
ReprDepth(info) == info.d[4]

\* ------------------------------------------------------------ well-formedness
Topological(T) == \A i \in 1..Len(T) : \A j \in 1..Len(T[i].r) : T[i].r[j] > i /\ T[i].r[j] <= Len(T)
BasicOK(c) == Len(c.b) <= 1023 /\ Len(c.r) <= 4 /\ c.x \in 0..4 /\ c.m \in 0..7
\* the rules a validating node applies (DataCell::create)
WellFormedCell(c, kidCells, kidInfos) ==
  LET data == DataBytes(c.b)
      kidsMask == FoldLeft(LAMBDA a, k : OrM(a, k.m), 0, kidCells)
  IN /\ BasicOK(c)
     /\ CASE c.x = Ordinary -> c.m = kidsMask
          [] c.x = Pruned ->
               /\ Len(c.r) = 0 /\ c.m \in 1..7
               /\ Len(c.b) = 16 + Pop(c.m) * 272
               /\ data[1] = 1 /\ data[2] = c.m
          [] c.x = Library -> Len(c.r) = 0 /\ Len(c.b) = 264 /\ c.m = 0 /\ data[1] = 2
          [] c.x = MerkleProof ->
               /\ Len(c.r) = 1 /\ Len(c.b) = 280 /\ data[1] = 3
               /\ c.m = kidCells[1].m \div 2
               /\ SubSeq(data, 2, 33) = kidInfos[1].h[1]
               /\ <<data[34], data[35]>> = U16(kidInfos[1].d[1])
          [] c.x = MerkleUpdate ->
               /\ Len(c.r) = 2 /\ Len(c.b) = 552 /\ data[1] = 4
               /\ c.m = OrM(kidCells[1].m, kidCells[2].m) \div 2
               /\ SubSeq(data, 2, 33)  = kidInfos[1].h[1]
               /\ SubSeq(data, 34, 65) = kidInfos[2].h[1]
               /\ <<data[66], data[67]>> = U16(kidInfos[1].d[1])
               /\ <<data[68], data[69]>> = U16(kidInfos[2].d[1])
\* A cell exists only when its depth AT EVERY LEVEL stays within MaxDepth (the cell constructor of the reference
\* implementation bounds the depth inside its loop over the levels): a cell above a pruned branch whose stored depth is
\* 1024 is too deep at the lower levels although its representation depth is 1.
DepthsOK(inf) == \A k \in 1..4 : inf.d[k] <= MaxDepth
CellsShapeOK2(T, I) == \A i \in 1..Len(T) :
          WellFormedCell(T[i], [j \in 1..Len(T[i].r) |-> T[T[i].r[j]]], [j \in 1..Len(T[i].r) |-> I[T[i].r[j]]])
\* well-formed but for the depth bound
CellsShapeOK(T) == Topological(T) /\ CellsShapeOK2(T, InfoTable(T))
WellFormed2(T, I) == CellsShapeOK2(T, I) /\ \A i \in 1..Len(T) : DepthsOK(I[i])
WellFormed(T) == Topological(T) /\ WellFormed2(T, InfoTable(T))
\* the cells that do not exist because they, or a cell below them, are too deep (T topological: references point to later rows)
Doomed2(T, I) == FoldLeft(LAMBDA acc, k : LET i == Len(T) - k + 1 IN
                           IF ~DepthsOK(I[i]) \/ \E j \in 1..Len(T[i].r) : T[i].r[j] \in acc THEN acc \cup {i} ELSE acc,
                         {}, [k \in 1..Len(T) |-> k])
\* pruned cells must at least be long enough for the lookups CellInfo makes (used before hashing untrusted cells)
HashableCell(c) == c.x = Pruned => (c.m \in 1..7 /\ Len(c.b) >= 16 + Pop(c.m) * 272)

\* The level mask a well-formed cell must have, from its type, its data and its children's masks
\* (the public API of the library exposes only the level, so tables projected from it carry no mask).
DerivedMask(c, kidMasks) ==
  LET kidsOr == FoldLeft(LAMBDA a, k : OrM(a, k), 0, kidMasks)
      data == DataBytes(c.b)
  IN CASE c.x = Ordinary     -> kidsOr
       [] c.x = Pruned       -> IF Len(data) >= 2 THEN data[2] % 8 ELSE 0
       [] c.x = Library      -> 0
       [] c.x \in {MerkleProof, MerkleUpdate} -> kidsOr \div 2
       [] OTHER -> 0
WithMasks(T) ==
  LET n == Len(T)
      Rev == FoldLeft(LAMBDA acc, i :
                 LET idx == n - i + 1
                     km  == [j \in 1..Len(T[idx].r) |-> acc[n - T[idx].r[j] + 1]]
                 IN Append(acc, DerivedMask(T[idx], km)),
              <<>>, [i \in 1..n |-> i])
  IN [i \in 1..n |-> [b |-> T[i].b, x |-> T[i].x, r |-> T[i].r, m |-> Rev[n - i + 1]]]

\* --------------------------------------------------------- JSON cell tables
\* {"cells":[{"b":"0101","x":0,"m":0,"r":[2,5]}, ...], "roots":[0]}  (0-based indices) -> cell table
\* rows as recorded, no mask derivation (for soundness checks of possibly malformed results)
FromJsonRaw(cells) == [i \in 1..Len(cells) |->
                        [b |-> StrToBits(cells[i].b), x |-> cells[i].x, m |-> 0,
                         r |-> [j \in 1..Len(cells[i].r) |-> cells[i].r[j] + 1]]]
\* (rows without "m" get the derived mask)
FromJson(cells) ==
  LET raw == [i \in 1..Len(cells) |->
                [b |-> StrToBits(cells[i].b), x |-> cells[i].x,
                 m |-> IF "m" \in DOMAIN cells[i] THEN cells[i].m ELSE -1,
                 r |-> [j \in 1..Len(cells[i].r) |-> cells[i].r[j] + 1]]]
  IN IF \E i \in 1..Len(raw) : raw[i].m = -1 THEN WithMasks(raw) ELSE raw
=============================================================================
