INIT Init
NEXT Next
