------------------------------ MODULE TextForms ------------------------------
(* X05: small pure helpers of tongo/utils and tongo/ton and their text forms.   *)
(*                                                                               *)
(* Written from the definitions, not from the Go code:                           *)
(*  * CRC: the Rocksoft model (width, poly, init, refin, refout, xorout), one    *)
(*    message bit per step, registers are bit sequences.                         *)
(*      CRC-16/XMODEM   width 16 poly 1021 init 0000 refin F refout F xorout 0   *)
(*                      (the checksum of TON addresses and of get-method ids)    *)
(*      CRC-32/ISO-HDLC width 32 poly 04C11DB7 init FFFFFFFF refin T refout T    *)
(*                      xorout FFFFFFFF (FunC "..."c literals, TL constructor    *)
(*                      ids)                                                     *)
(*  * get-method id (TVM documentation, "method_id"):                            *)
(*      (crc16(name) & 0xffff) | 0x10000                                         *)
(*  * amounts: 1 TON = 10^9 nanoTON; units nano, micro, milli, -, kilo, mega,    *)
(*    giga differ by 10^3.  The human form of an amount is a decimal numeral and *)
(*    a unit that together denote EXACTLY the amount; for amounts >= 0 it is     *)
(*    normalised: the largest unit with an integer part >= 1 (nanoTON for 0), no *)
(*    trailing zeros in the fraction, no fraction point without a fraction.      *)
(*  * block ids: the text form "(workchain,shard,seqno)" used by the reference   *)
(*    node / lite-client: workchain a decimal int32, shard a hexadecimal uint64  *)
(*    (the reference prints 16 digits; the reading ignores leading zeros),       *)
(*    seqno a decimal uint32.  tonNode.blockIdExt in lite_api.tl: workchain:int  *)
(*    shard:long seqno:int root_hash:int256 file_hash:int256, little-endian.     *)
(*  * 256-bit strings: 64 hex digits (optionally "0x"), base64 (RFC 4648, 44     *)
(*    digits with one "="), in either alphabet; the JSON form is a string of     *)
(*    64 hex digits.                                                             *)
(* Wide integers never become TLC integers: decimals stay digit strings,         *)
(* uint64 values are 64-bit sequences.                                           *)
(* Reader verdicts: "ok" (must be read as the value), "bad" (must be refused),   *)
(* "free" (the documents do not decide; if accepted the value must be the one    *)
(* given, when one is given).                                                    *)
EXTENDS Integers, Sequences, SequencesExt, Prim

\* --------------------------------------------------------------------- bits
XorBits(a, b) == [i \in 1..Len(a) |-> (a[i] + b[i]) % 2]
ZeroBits(n)   == [i \in 1..n |-> 0]
OneBits(n)    == [i \in 1..n |-> 1]
RevBits(b)    == [i \in 1..Len(b) |-> b[Len(b) + 1 - i]]
Pow2(n)       == IF n = 0 THEN 1 ELSE 2 ^ n
NumBits(v, w) == [i \in 1..w |-> (v \div Pow2(w - i)) % 2]
BitsNum(b)    == FoldLeft(LAMBDA a, x : 2 * a + x, 0, b)          \* Len(b) <= 30
LeftPad(b, w) == ZeroBits(w - Len(b)) \o b
AllZero(b)    == \A i \in 1..Len(b) : b[i] = 0
Slice(s, a, b) == IF b < a THEN <<>> ELSE SubSeq(s, a, b)

\* ---------------------------------------------------------------------- CRC
\* One step per message bit: the bit is xor-ed into the top of the register, the register shifts left, and the
\* polynomial is subtracted when a one fell out (Williams, "A painless guide to CRC error detection algorithms").
CrcStep(poly, reg, bit) == LET out == (reg[1] + bit) % 2   sh == Tail(reg) \o <<0>>
                           IN IF out = 1 THEN XorBits(sh, poly) ELSE sh
ByteBits(byte, refin) == IF refin THEN RevBits(NumBits(byte, 8)) ELSE NumBits(byte, 8)
Crc(poly, init, refin, refout, xorout, bytes) ==
  LET reg == FoldLeft(LAMBDA r, byte : FoldLeft(LAMBDA q, bit : CrcStep(poly, q, bit), r, ByteBits(byte, refin)), init, bytes)
  IN XorBits(IF refout THEN RevBits(reg) ELSE reg, xorout)
HexBits(h) == BytesToBits(HexToBytes(h))
Crc16Bits(bytes) == Crc(HexBits("1021"), ZeroBits(16), FALSE, FALSE, ZeroBits(16), bytes)
Crc32Bits(bytes) == Crc(HexBits("04c11db7"), OneBits(32), TRUE, TRUE, OneBits(32), bytes)
Crc16(bytes) == BitsNum(Crc16Bits(bytes))                        \* 0..65535
Crc32Dec(bytes) == BitsToDec(Crc32Bits(bytes))                   \* decimal text of the uint32
\* the catalogue check values
ASSUME Crc16(StrToCodes("123456789")) = 12739                          \* 0x31C3
ASSUME BytesToHex(BitsToBytes(Crc32Bits(StrToCodes("123456789")))) = "cbf43926"
ASSUME BitsToBytes(Crc32Bits(StrToCodes("The quick brown fox"))) = Crc32Ieee(StrToCodes("The quick brown fox"))   \* against the JDK's

\* get-method ids; the two the TVM / wallet documentation quotes
MethodId(name) == 65536 + Crc16(name)                                 \* crc16 < 2^16, so "| 0x10000" is "+ 65536"
ASSUME MethodId(StrToCodes("seqno")) = 85143
ASSUME MethodId(StrToCodes("get_public_key")) = 78748

\* ----------------------------------------------------------------- decimals
IsDigits(c) == Len(c) >= 1 /\ \A i \in 1..Len(c) : c[i] \in 48..57
RECURSIVE StripLeft(_, _)
StripLeft(cs, x) == IF Len(cs) > 0 /\ cs[1] = x THEN StripLeft(Tail(cs), x) ELSE cs
RECURSIVE StripRight(_, _)
StripRight(cs, x) == IF Len(cs) > 0 /\ cs[Len(cs)] = x THEN StripRight(Front(cs), x) ELSE cs
\* digits without leading zeros ("0" for zero)
Canon(ds) == LET s == StripLeft(ds, 48) IN IF s = <<>> THEN <<48>> ELSE s
\* "canon" = 0 | -?[1-9][0-9]*, "loose" = sign / leading-zero variants of a decimal, "bad"
DecSyntax(c) ==
  IF IsDigits(c) THEN (IF Len(c) = 1 \/ c[1] # 48 THEN "canon" ELSE "loose")
  ELSE IF Len(c) >= 2 /\ c[1] = 45 /\ IsDigits(Tail(c)) THEN (IF c[2] # 48 THEN "canon" ELSE "loose")
  ELSE IF Len(c) >= 2 /\ c[1] = 43 /\ IsDigits(Tail(c)) THEN "loose"
  ELSE "bad"
\* the canonical text of the integer a loose decimal denotes ("-0" and "+5" denote 0 and 5)
DecValue(c) == LET neg == c[1] = 45   mag == Canon(IF c[1] \in {43, 45} THEN Tail(c) ELSE c)
               IN IF neg /\ mag # <<48>> THEN <<45>> \o mag ELSE mag
\* does the decimal (codes, syntactically a decimal) fit w bits two's complement / w bits unsigned
FitsSigned(c, w) == LET v == DecValue(c)  m == DecToBits(CodesToStr(v)) IN
                    IF v[1] = 45 THEN Len(m) <= w - 1 \/ (Len(m) = w /\ AllZero(Tail(m))) ELSE Len(m) <= w - 1
FitsUnsigned(c, w) == LET v == DecValue(c) IN v[1] # 45 /\ Len(DecToBits(CodesToStr(v))) <= w

\* ------------------------------------------------------------------ amounts
Units == <<"nanoTON", "microTON", "milliTON", "TON", "kiloTON", "megaTON", "gigaTON">>
\* amount: canonical decimal text of a non-negative number of nanoTON
HumanCoins(amount) ==
  LET d == StrToCodes(amount)  n == Len(d)
      i == IF n <= 3 THEN 1 ELSE IF (n + 2) \div 3 > 7 THEN 7 ELSE (n + 2) \div 3      \* the unit
      k == n - 3 * (i - 1)                                                            \* digits before the point
      frac == StripRight(SubSeq(d, k + 1, n), 48)
  IN CodesToStr(SubSeq(d, 1, k) \o (IF frac = <<>> THEN <<>> ELSE <<46>> \o frac) \o <<32>> \o StrToCodes(Units[i]))
\* the amount a text "<numeral> <unit>" denotes: canonical decimal text, or "?" when it is no such text
UnitIndex(u) == IF \E i \in 1..7 : Units[i] = u THEN CHOOSE i \in 1..7 : Units[i] = u ELSE 0
CoinsDenote(text) ==
  LET c == StrToCodes(text)
      sp == SelectSeq([i \in 1..Len(c) |-> i], LAMBDA i : c[i] = 32) IN
  IF Len(sp) # 1 THEN "?" ELSE
  LET num == SubSeq(c, 1, sp[1] - 1)   ui == UnitIndex(CodesToStr(SubSeq(c, sp[1] + 1, Len(c))))
      neg == Len(num) > 0 /\ num[1] = 45
      mag == IF neg THEN Tail(num) ELSE num
      dots == SelectSeq([i \in 1..Len(mag) |-> i], LAMBDA i : mag[i] = 46) IN
  IF ui = 0 \/ Len(dots) > 1 THEN "?" ELSE
  LET ip == IF Len(dots) = 0 THEN mag ELSE SubSeq(mag, 1, dots[1] - 1)
      fp == IF Len(dots) = 0 THEN <<>> ELSE SubSeq(mag, dots[1] + 1, Len(mag))
      e  == 3 * (ui - 1) IN
  IF ~IsDigits(ip) \/ (Len(dots) = 1 /\ ~IsDigits(fp)) \/ Len(fp) > e THEN "?" ELSE
  LET v == Canon(ip \o fp \o [j \in 1..(e - Len(fp)) |-> 48]) IN
  CodesToStr(IF neg /\ v # <<48>> THEN <<45>> \o v ELSE v)
ASSUME HumanCoins("1500000000") = "1.5 TON" /\ HumanCoins("0") = "0 nanoTON" /\ HumanCoins("999") = "999 nanoTON"
ASSUME HumanCoins("1000") = "1 microTON" /\ HumanCoins("9223372036854775807") = "9.223372036854775807 gigaTON"
ASSUME CoinsDenote("1.5 TON") = "1500000000" /\ CoinsDenote("-1500 nanoTON") = "-1500" /\ CoinsDenote("1.5 nanoTON") = "?"

\* --------------------------------------------------------------------- hex
IsHexCode(c) == c \in 48..57 \/ c \in 97..102 \/ c \in 65..70
IsHex(cs)    == Len(cs) >= 1 /\ \A i \in 1..Len(cs) : IsHexCode(cs[i])
HexVal(c)    == IF c \in 48..57 THEN c - 48 ELSE IF c \in 97..102 THEN c - 87 ELSE c - 55
HexDigitsBits(cs) == FoldLeft(LAMBDA a, c : a \o NumBits(HexVal(c), 4), <<>>, cs)
LowerHexDigit(v) == IF v < 10 THEN 48 + v ELSE 87 + v
BitsHexDigits(b) == [k \in 1..(Len(b) \div 4) |-> LowerHexDigit(BitsNum(SubSeq(b, 4 * k - 3, 4 * k)))]    \* Len(b) % 4 = 0
StripZeroBits(b) == StripLeft(b, 0)
\* uint64 (64 bits) as the reference prints it (16 digits) and without leading zeros ("0" for zero)
Hex16(b64)   == CodesToStr(BitsHexDigits(b64))
HexMin(b64)  == CodesToStr(Canon(BitsHexDigits(b64)))
LowerCodes(cs) == [i \in 1..Len(cs) |-> IF cs[i] \in 65..90 THEN cs[i] + 32 ELSE cs[i]]

\* ---------------------------------------------------------------- block ids
\* id = [wc |-> decimal text (int32), shard |-> 64 bits, seqno |-> decimal text (uint32)]
BlockIdText(id)    == StrCat("(", StrCat(id.wc, StrCat(",", StrCat(Hex16(id.shard), StrCat(",", StrCat(id.seqno, ")"))))))
BlockIdTextMin(id) == StrCat("(", StrCat(id.wc, StrCat(",", StrCat(HexMin(id.shard), StrCat(",", StrCat(id.seqno, ")"))))))
SplitAt(cs, x) ==        \* the pieces of cs between occurrences of code x
  LET pos == SelectSeq([i \in 1..Len(cs) |-> i], LAMBDA i : cs[i] = x)
      b   == <<0>> \o pos \o <<Len(cs) + 1>>
  IN [k \in 1..(Len(pos) + 1) |-> Slice(cs, b[k] + 1, b[k + 1] - 1)]
NoId == [wc |-> "", shard |-> <<>>, seqno |-> ""]
\* the reading of a text as a block id: [cls, id]
WhiteSpace == {32, 9, 10, 13}
BlockIdRead(c) ==
  IF Len(c) >= 1 /\ c[1] \in WhiteSpace THEN [cls |-> "free", id |-> NoId] ELSE
  IF Len(c) < 2 \/ c[1] # 40 THEN [cls |-> "bad", id |-> NoId] ELSE
  LET close == SelectSeq([i \in 1..Len(c) |-> i], LAMBDA i : c[i] = 41)
      \* a text that stops before the ")" is not the form, but (like text after the ")") leaves no doubt about the value
      open  == Len(close) = 0
      inner == IF open THEN Slice(c, 2, Len(c)) ELSE Slice(c, 2, close[1] - 1)
      rest  == IF open THEN <<>> ELSE Slice(c, close[1] + 1, Len(c))
      f     == SplitAt(inner, 44) IN
  IF Len(f) # 3 THEN [cls |-> "bad", id |-> NoId] ELSE
  LET ws == DecSyntax(f[1])  ss == DecSyntax(f[3])  hx == IsHex(f[2])
      \* white space around the numerals is not part of the form but no other value can be meant
      spacey == \E i \in 1..Len(inner) : inner[i] \in WhiteSpace IN
  IF spacey THEN [cls |-> "free", id |-> NoId] ELSE
  IF ws = "bad" \/ ss = "bad" \/ ~hx THEN [cls |-> "bad", id |-> NoId] ELSE
  LET hb == StripZeroBits(HexDigitsBits(f[2])) IN
  IF ~FitsSigned(f[1], 32) \/ ~FitsUnsigned(f[3], 32) \/ Len(hb) > 64 THEN [cls |-> "bad", id |-> NoId] ELSE
  LET id == [wc |-> CodesToStr(DecValue(f[1])), shard |-> LeftPad(hb, 64), seqno |-> CodesToStr(DecValue(f[3]))]
      strict == ws = "canon" /\ ss = "canon" /\ Len(f[2]) <= 16 /\ f[2] = LowerCodes(f[2]) /\ rest = <<>> /\ ~open
  IN [cls |-> IF strict THEN "ok" ELSE "free", id |-> id]

\* tonNode.blockIdExt: 80 bytes
TwosBits(dec, w) ==     \* decimal text -> w bits two's complement (must fit)
  LET c == StrToCodes(dec)  m == LeftPad(DecToBits(dec), w) IN
  IF c[1] = 45 /\ ~AllZero(m)
  THEN LET inv == [i \in 1..w |-> 1 - m[i]]
           \* + 1
           k == CHOOSE j \in 0..w : (\A t \in (j + 1)..w : inv[t] = 1) /\ (j = 0 \/ inv[j] = 0)
       IN [i \in 1..w |-> IF i < k THEN inv[i] ELSE IF i = k THEN 1 ELSE 0]
  ELSE m
LE(bits) == LET by == BitsToBytes(bits) IN [i \in 1..Len(by) |-> by[Len(by) + 1 - i]]
BlockIdExtTL(id, root, file) == LE(TwosBits(id.wc, 32)) \o LE(id.shard) \o LE(LeftPad(DecToBits(id.seqno), 32)) \o root \o file
BlockIdExtText(id, root, file, shardText) ==
  StrCat("(", StrCat(id.wc, StrCat(",", StrCat(shardText, StrCat(",", StrCat(id.seqno, StrCat(",",
    StrCat(BytesToHex(root), StrCat(",", StrCat(BytesToHex(file), ")"))))))))))
ASSUME TwosBits("-1", 8) = <<1,1,1,1,1,1,1,1>> /\ TwosBits("-128", 8) = <<1,0,0,0,0,0,0,0>> /\ TwosBits("5", 8) = <<0,0,0,0,0,1,0,1>>
ASSUME TwosBits("-2", 8) = <<1,1,1,1,1,1,1,0>> /\ TwosBits("0", 8) = ZeroBits(8)

\* ------------------------------------------------------------ 256-bit strings
B64Std == StrToCodes("ABCDEFGHIJKLMNOPQRSTUVWXYZabcdefghijklmnopqrstuvwxyz0123456789+/")
B64Url == StrToCodes("ABCDEFGHIJKLMNOPQRSTUVWXYZabcdefghijklmnopqrstuvwxyz0123456789-_")
IndexIn(alpha, c) == IF \E i \in 1..Len(alpha) : alpha[i] = c THEN (CHOOSE i \in 1..Len(alpha) : alpha[i] = c) - 1 ELSE -1
StdVal == [c \in 0..255 |-> IndexIn(B64Std, c)]
UrlVal == [c \in 0..255 |-> IndexIn(B64Url, c)]
\* RFC 4648 section 4: 24-bit groups -> 4 digits; a final 8-bit group -> 2 digits + "==", a final 16-bit group -> 3 digits + "="
B64Encode(bytes, alpha) ==
  LET bits == BytesToBits(bytes)   r == Len(bytes) % 3
      padded == bits \o ZeroBits(IF r = 0 THEN 0 ELSE IF r = 1 THEN 4 ELSE 2)
      digits == [k \in 1..(Len(padded) \div 6) |-> alpha[BitsNum(SubSeq(padded, 6 * k - 5, 6 * k)) + 1]]
  IN digits \o (IF r = 0 THEN <<>> ELSE IF r = 1 THEN <<61, 61>> ELSE <<61>>)
ASSUME CodesToStr(B64Encode(StrToCodes("foobar"), B64Std)) = "Zm9vYmFy" /\ CodesToStr(B64Encode(StrToCodes("fooba"), B64Std)) = "Zm9vYmE="
ASSUME CodesToStr(B64Encode(StrToCodes("f"), B64Std)) = "Zg=="
NoVal == [cls |-> "bad", v |-> <<>>, hasv |-> FALSE]
\* reading a text (codes) as base64 of exactly 32 bytes in the alphabet with digit values `val`
B64Read32(c, val) ==
  LET core == SelectSeq(c, LAMBDA x : x \notin {10, 13})          \* RFC 4648 3.3: line feeds MAY be ignored -> free
      nl   == Len(core) # Len(c)
      body == StripRight(core, 61)   npad == Len(core) - Len(body) IN
  IF \E i \in 1..Len(body) : val[body[i]] < 0 THEN NoVal                      \* a character outside the alphabet
  ELSE IF Len(body) # 43 THEN NoVal                                            \* not 32 bytes
  ELSE LET bits == FoldLeft(LAMBDA a, x : a \o NumBits(val[x], 6), <<>>, body)
           v == BitsToBytes(SubSeq(bits, 1, 256))
           canon == npad = 1 /\ ~nl /\ bits[257] = 0 /\ bits[258] = 0
       IN [cls |-> IF canon THEN "ok" ELSE "free", v |-> v, hasv |-> TRUE]
\* reading a text as 64 hex digits, optionally after "0x"
Hex32Read(c) ==
  LET pre == Len(c) >= 2 /\ c[1] = 48 /\ c[2] = 120                            \* "0x"
      preU == Len(c) >= 2 /\ c[1] = 48 /\ c[2] = 88                            \* "0X": not a documented spelling
      d == IF pre \/ preU THEN SubSeq(c, 3, Len(c)) ELSE c IN
  IF Len(d) # 64 \/ ~IsHex(d) THEN NoVal
  ELSE [cls |-> IF preU THEN "free" ELSE "ok", v |-> BitsToBytes(HexDigitsBits(d)), hasv |-> TRUE]
\* any of the three
Rank(cls) == IF cls = "ok" THEN 2 ELSE IF cls = "free" THEN 1 ELSE 0
Reads32(c) == <<B64Read32(c, StdVal), B64Read32(c, UrlVal), Hex32Read(c)>>
AnyRead32(c) ==
  LET rs == Reads32(c)
      best == CHOOSE i \in 1..3 : \A j \in 1..3 : Rank(rs[i].cls) >= Rank(rs[j].cls)
  IN rs[best]
\* the readings never disagree about the value
AnyReadCoherent(c) ==
  LET rs == Reads32(c) IN \A i, j \in 1..3 : (rs[i].hasv /\ rs[j].hasv) => rs[i].v = rs[j].v
\* JSON: a string of 64 hex digits and nothing else.  Other strings are refused; documents that are not a plain string
\* (other JSON values, white space around, escapes, a missing quote) are not decided here.
Json32Read(c) ==
  IF Len(c) >= 2 /\ c[1] = 34 /\ c[Len(c)] = 34 /\ (\A i \in 2..(Len(c) - 1) : c[i] # 34 /\ c[i] # 92)
  THEN LET inner == Slice(c, 2, Len(c) - 1)  r == Hex32Read(inner) IN
       IF r.hasv /\ Len(inner) = 64 THEN r
       ELSE IF r.hasv THEN [r EXCEPT !.cls = "free"]            \* "0x..." inside the string
       ELSE IF \E i \in 1..Len(inner) : inner[i] \in {32, 9, 10, 13} THEN [cls |-> "free", v |-> <<>>, hasv |-> FALSE]
       ELSE NoVal
  ELSE [cls |-> "free", v |-> <<>>, hasv |-> FALSE]
\* a reader's recorded result r = [err, v (hex)] against a verdict d
Admits(d, r) == CASE d.cls = "ok"   -> r.err = "" /\ HexToBytes(r.v) = d.v
                  [] d.cls = "bad"  -> r.err # ""
                  [] d.cls = "free" -> r.err # "" \/ ~d.hasv \/ HexToBytes(r.v) = d.v
=============================================================================
