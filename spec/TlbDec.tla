------------------------------- MODULE TlbDec -------------------------------
(* A TOTAL TL-B decoder over the schema AST and the value shapes of TlbSem:     *)
(*                                                                             *)
(*   Dec(S, ty, tree) = [ok |-> TRUE,  v |-> value, rest |-> [b, r] left unread]*)
(*                    | [ok |-> FALSE, err |-> reason]                          *)
(*                                                                             *)
(* written from the TL-B language definition, not from TlbSem!Enc and not from  *)
(* the Go decoder:                                                              *)
(*   ## n / uintN     n bits, big-endian, unsigned                              *)
(*   intN             n bits, two's complement                                  *)
(*   bitsN, (bits f)  n bits as they stand (n constant or the value of the      *)
(*                    earlier field f of the same constructor)                  *)
(*   Bool             one bit                                                   *)
(*   (#<= n)          BitLen(n) bits, the number must be <= n                   *)
(*   (#< n)           BitLen(n-1) bits, the number must be < n                  *)
(*   Unary            unary_succ$1 ... unary_zero$0: ones up to the first zero  *)
(*   VarUInteger n    len:(#< n) value:(uint (len * 8)); len > n-1 is refused   *)
(*                    (the type admits leading zero bytes; minimality is a rule *)
(*                    for writers and is TlbSem!Enc's business)                 *)
(*   Maybe T          nothing$0 | just$1 value:T                                *)
(*   Either L R       left$0 value:L | right$1 value:R                          *)
(*   ^T               the next reference; the referenced cell holds exactly T   *)
(*   constructors     the FIRST constructor (in schema order) whose tag bits    *)
(*                    are a prefix of what is left is selected; then its fields *)
(*                    in order, each later field seeing the earlier ones (env)  *)
(*   HashmapE n T     hme_empty$0 | hme_root$1 root:^(Hashmap n T); the tree is *)
(*                    read by Dict!DecEdge (every label form accepted), every   *)
(*                    leaf slice is decoded as T and must be used up; the value *)
(*                    is the list of <<keybits, value>> in ascending key order  *)
(*   f:c?T            conditional field: present iff the condition c on an       *)
(*                    earlier field holds (c = field, non-zero / true; or        *)
(*                    field . k, bit k of it); value [has, v] like Maybe         *)
(*   (T x)            a type parametrised by a number (constant or earlier       *)
(*                    field): first match among the constructors declared for x  *)
(*   ^[ ... ]         anonymous record in a reference: sees the fields before it *)
(*   ^Cell            the referenced cell itself (any cell type)                *)
(*   Any              everything that is left of the current cell               *)
(* A cell read as TL-B data must be an ordinary cell.                           *)
(* "lax" reading (DecLax) does not insist that referenced cells and dictionary  *)
(* leaves are used up (trailing data is ignored, as most readers do).           *)
(*                                                                             *)
(* Theorem (checked by TLC on every vector of Tlb_Gen, see DecEncAgree):        *)
(*   Enc(S, ty, v).ok  =>  Dec(S, ty, Enc(S, ty, v).c) = [ok, v, nothing left]  *)
(* Canon(S, ty, v) is the canonical JSON text of a value (the harness sends the *)
(* same text for the value the library holds), so that values are compared as   *)
(* strings and never as TLC values of possibly different shapes.                *)
EXTENDS TlbSem

D == INSTANCE Dict

Bad(e)        == [ok |-> FALSE, err |-> e]
Yes(val, st)  == [ok |-> TRUE, v |-> val, st |-> st]
EnterCell(c)  == [b |-> c.b, r |-> c.r, cell |-> c]
UsedUp(st)    == Len(st.b) = 0 /\ Len(st.r) = 0
DropBits(st, n) == [st EXCEPT !.b = SubSeq(st.b, n + 1, Len(st.b))]
NatOf(bits)   == FoldLeft(LAMBDA a, x : 2 * a + x, 0, bits)          \* at most 31 bits
RECURSIVE LeadingOnes(_, _)
LeadingOnes(b, i) == IF i > Len(b) \/ b[i] = 0 THEN 0 ELSE 1 + LeadingOnes(b, i + 1)

RECURSIVE TreeToJson(_)
TreeToJson(t) == [b |-> BitsToStr(t.b), x |-> t.x, r |-> [i \in 1..Len(t.r) |-> TreeToJson(t.r[i])]]

\* a cell tree as a table for Dict!DecEdge: row 1 is the root, references are row numbers; every row keeps its subtree
RECURSIVE Flat(_)
Flat(t) ==
  LET kids == [k \in 1..Len(t.r) |-> Flat(t.r[k])]
      offs == [k \in 1..Len(t.r) |-> 2 + FoldLeft(LAMBDA a, j : a + Len(kids[j]), 0, [j \in 1..(k - 1) |-> j])]
      shift(TT, d) == [j \in 1..Len(TT) |-> [TT[j] EXCEPT !.r = [q \in 1..Len(TT[j].r) |-> TT[j].r[q] + d]]]
  IN << [b |-> t.b, x |-> t.x, r |-> offs, m |-> 0, t |-> t] >>
       \o FoldLeft(LAMBDA a, k : a \o shift(kids[k], offs[k] - 1), <<>>, [k \in 1..Len(t.r) |-> k])

\* take n bits as a field value built by f
TakeN(st, n, f(_)) == IF n < 0 \/ Len(st.b) < n THEN Bad("cell underflow: bits") ELSE Yes(f(SubSeq(st.b, 1, n)), DropBits(st, n))

RECURSIVE DecT(_, _, _, _, _)
DecT(S, ty, st, env, lax) ==
  CASE ty.t = "uint"  -> TakeN(st, ty.n, LAMBDA p : BitsToDec(p))
    [] ty.t = "int"   -> IF ty.n < 1 THEN Bad("int0") ELSE TakeN(st, ty.n, LAMBDA p : SDec(p))
    [] ty.t = "bits"  -> TakeN(st, ty.n, LAMBDA p : BitsToStr(p))
    [] ty.t = "bitsdep" -> TakeN(st, DecToNat(EnvLast(env, ty.from)[2]), LAMBDA p : BitsToStr(p))
    [] ty.t = "bitstring" -> Yes(BitsToStr(st.b), [st EXCEPT !.b = <<>>])
    [] ty.t = "bool"  -> TakeN(st, 1, LAMBDA p : p[1] = 1)
    [] ty.t = "natle" ->
         LET a == TakeN(st, BitLen(ty.n), LAMBDA p : p) IN
         IF ~a.ok THEN a ELSE IF NatOf(a.v) > ty.n THEN Bad("#<= above its bound") ELSE Yes(BitsToDec(a.v), a.st)
    [] ty.t = "natlt" ->
         LET a == TakeN(st, BitLen(ty.n - 1), LAMBDA p : p) IN
         IF ~a.ok THEN a ELSE IF NatOf(a.v) >= ty.n THEN Bad("#< not below its bound") ELSE Yes(BitsToDec(a.v), a.st)
    [] ty.t = "unary" ->
         LET k == LeadingOnes(st.b, 1) IN
         IF k + 1 > Len(st.b) THEN Bad("unary without its zero") ELSE Yes(ToString(k), DropBits(st, k + 1))
    [] ty.t = "varuint" ->
         LET a == TakeN(st, BitLen(ty.n - 1), LAMBDA p : p) IN
         IF ~a.ok THEN a
         ELSE LET len == NatOf(a.v) IN
              IF len > ty.n - 1 THEN Bad("VarUInteger length above n-1")
              ELSE TakeN(a.st, 8 * len, LAMBDA p : BitsToDec(p))
    [] ty.t = "magic" ->
         LET tg == TagBits(ty.tag) IN
         IF IsPrefix(tg, st.b) THEN Yes("", DropBits(st, Len(tg))) ELSE Bad("constant tag does not match")
    [] ty.t = "maybe" ->
         IF Len(st.b) < 1 THEN Bad("cell underflow: bits")
         ELSE IF st.b[1] = 0 THEN Yes([has |-> FALSE], DropBits(st, 1))
         ELSE LET a == DecT(S, ty.of, DropBits(st, 1), env, lax) IN
              IF ~a.ok THEN a ELSE Yes([has |-> TRUE, v |-> a.v], a.st)
    [] ty.t = "either" ->
         IF Len(st.b) < 1 THEN Bad("cell underflow: bits")
         ELSE LET right == st.b[1] = 1
                  a == DecT(S, IF right THEN ty.r ELSE ty.l, DropBits(st, 1), env, lax) IN
              IF ~a.ok THEN a ELSE Yes([right |-> right, v |-> a.v], a.st)
    [] ty.t = "ref" ->
         IF Len(st.r) < 1 THEN Bad("cell underflow: refs")
         ELSE LET kid  == st.r[1]
                  rest == [st EXCEPT !.r = Tail(st.r)] IN
              IF ty.of.t = "cell" THEN Yes(TreeToJson(kid), rest)
              ELSE IF kid.x # 0 THEN Bad("exotic cell read as data")
              ELSE LET a == DecT(S, ty.of, EnterCell(kid), env, lax) IN       \* ^[ ... ] and ^(T f) see the fields before them
                   IF ~a.ok THEN a
                   ELSE IF ~lax /\ ~UsedUp(a.st) THEN Bad("referenced cell not used up")
                   ELSE Yes(a.v, rest)
    [] ty.t = "cell" -> Yes(TreeToJson(st.cell), [st EXCEPT !.b = <<>>, !.r = <<>>])   \* a cell field without ^: the current cell
    [] ty.t = "any" ->
         Yes([b |-> BitsToStr(st.b), x |-> 0, r |-> [i \in 1..Len(st.r) |-> TreeToJson(st.r[i])]], [st EXCEPT !.b = <<>>, !.r = <<>>])
    [] ty.t = "seq" ->
         LET R == FoldLeft(LAMBDA acc, i :
                     IF ~acc.res.ok THEN acc
                     ELSE LET a == DecT(S, ty.fields[i].ty, acc.res.st, acc.env, lax) IN
                          IF ~a.ok THEN [acc EXCEPT !.res = a]
                          ELSE [res |-> Yes(Append(acc.res.v, a.v), a.st), env |-> Append(acc.env, <<ty.fields[i].name, a.v, ty.fields[i].ty.t>>)],
                   [res |-> Yes(<<>>, st), env |-> env], [i \in 1..Len(ty.fields) |-> i])
         IN R.res
    [] ty.t = "sum" ->
         LET ix == {i \in 1..Len(ty.ctors) : IsPrefix(TagBits(ty.ctors[i].tag), st.b)} IN
         IF ix = {} THEN Bad("no constructor tag matches")
         ELSE LET k == ty.ctors[CHOOSE i \in ix : \A j \in ix : i <= j]          \* first match
                  a == DecT(S, k.body, DropBits(st, Len(TagBits(k.tag))), <<>>, lax)
              IN IF ~a.ok THEN a ELSE Yes([c |-> k.name, v |-> a.v], a.st)
    [] ty.t = "dict" ->
         IF ~("val" \in DOMAIN ty /\ "n" \in DOMAIN ty) THEN Bad("dictionary without a value schema")
         ELSE IF Len(st.b) < 1 THEN Bad("cell underflow: bits")
         ELSE IF st.b[1] = 0 THEN Yes(<<>>, DropBits(st, 1))
         ELSE IF Len(st.r) < 1 THEN Bad("cell underflow: refs")
         ELSE LET T  == Flat(st.r[1])
                  e  == D!DecEdge(T, 1, ty.n, <<>>)
                  rest == [DropBits(st, 1) EXCEPT !.r = Tail(st.r)]
              IN IF ~e.ok THEN Bad(StrCat("dictionary: ", e.err))
                 ELSE LET R == FoldLeft(LAMBDA acc, it :
                                  IF ~acc.ok THEN acc
                                  ELSE LET a == DecT(S, ty.val, [b |-> it.v.b, r |-> [q \in 1..Len(it.v.r) |-> T[it.v.r[q]].t], cell |-> EmptyCell], <<>>, lax) IN
                                       IF ~a.ok THEN a
                                       ELSE IF ~lax /\ ~UsedUp(a.st) THEN Bad("dictionary leaf not used up")
                                       ELSE [acc EXCEPT !.v = Append(acc.v, <<BitsToStr(it.k), a.v>>)],
                                Yes(<<>>, rest), e.items)
                      IN R
    [] ty.t = "named" -> IF ty.name \in DOMAIN S THEN DecT(S, S[ty.name], st, <<>>, lax) ELSE Bad("unknown type name")
    [] ty.t = "cond" ->
         IF ~CondHolds(env, ty) THEN Yes([has |-> FALSE], st)
         ELSE LET a == DecT(S, ty.of, st, env, lax) IN IF ~a.ok THEN a ELSE Yes([has |-> TRUE, v |-> a.v], a.st)
    [] ty.t = "pnamed" ->
         IF ~(ty.name \in DOMAIN S) THEN Bad("unknown type name")
         ELSE LET p  == ParamOf(env, ty.arg)
                  cs == S[ty.name].ctors
                  ix == {i \in 1..Len(cs) : cs[i].param = p /\ IsPrefix(TagBits(cs[i].tag), st.b)} IN
              IF ix = {} THEN Bad("no constructor for this parameter")
              ELSE LET k == cs[CHOOSE i \in ix : \A j \in ix : i <= j]
                       a == DecT(S, k.body, DropBits(st, Len(TagBits(k.tag))), <<>>, lax)
                   IN IF ~a.ok THEN a ELSE Yes([c |-> k.name, v |-> a.v], a.st)
    [] OTHER -> Bad("unsupported type node")

Result(a) == IF a.ok THEN [ok |-> TRUE, v |-> a.v, rest |-> [b |-> a.st.b, r |-> a.st.r]] ELSE a
\* tree: [b |-> bits, x |-> type, r |-> <<trees>>]
Dec(S, ty, tree)    == IF tree.x # 0 THEN Bad("exotic cell read as data") ELSE Result(DecT(S, ty, EnterCell(tree), <<>>, FALSE))
DecLax(S, ty, tree) == IF tree.x # 0 THEN Bad("exotic cell read as data") ELSE Result(DecT(S, ty, EnterCell(tree), <<>>, TRUE))
NothingLeft(d) == d.ok /\ Len(d.rest.b) = 0 /\ Len(d.rest.r) = 0

\* ----------------------------------------------------------------- canonical text
Q(s) == StrCat(StrCat("\"", s), "\"")
Join(seq) == FoldLeft(LAMBDA a, i : IF i = 1 THEN seq[i] ELSE StrCat(StrCat(a, ","), seq[i]), "", [i \in 1..Len(seq) |-> i])
Cat(seq) == FoldLeft(LAMBDA a, x : StrCat(a, x), "", seq)
RECURSIVE TreeCanon(_)
TreeCanon(j) == Cat(<< "{\"b\":", Q(j.b), ",\"r\":[", Join([i \in 1..Len(j.r) |-> TreeCanon(j.r[i])]), "],\"x\":", ToString(j.x), "}" >>)

RECURSIVE Canon(_, _, _)
Canon(S, ty, v) ==
  CASE ty.t \in {"uint", "int", "bits", "bitsdep", "bitstring", "natle", "natlt", "unary", "varuint", "magic"} -> Q(v)
    [] ty.t = "bool"   -> IF v THEN "true" ELSE "false"
    [] ty.t = "maybe"  -> IF v.has THEN Cat(<< "{\"has\":true,\"v\":", Canon(S, ty.of, v.v), "}" >>) ELSE "{\"has\":false}"
    [] ty.t = "either" -> Cat(<< "{\"right\":", IF v.right THEN "true" ELSE "false", ",\"v\":", Canon(S, IF v.right THEN ty.r ELSE ty.l, v.v), "}" >>)
    [] ty.t = "ref"    -> Canon(S, ty.of, v)
    [] ty.t \in {"cell", "any"} -> TreeCanon(v)
    [] ty.t = "seq"    -> Cat(<< "[", Join([i \in 1..Len(ty.fields) |-> Canon(S, ty.fields[i].ty, v[i])]), "]" >>)
    [] ty.t = "sum"    -> LET k == ty.ctors[CHOOSE i \in 1..Len(ty.ctors) : ty.ctors[i].name = v.c] IN
                          Cat(<< "{\"c\":", Q(v.c), ",\"v\":", Canon(S, k.body, v.v), "}" >>)
    [] ty.t = "dict"   -> Cat(<< "[", Join([i \in 1..Len(v) |-> Cat(<< "[", Q(v[i][1]), ",", Canon(S, ty.val, v[i][2]), "]" >>)]), "]" >>)
    [] ty.t = "named"  -> Canon(S, S[ty.name], v)
    [] ty.t = "cond"   -> IF v.has THEN Cat(<< "{\"has\":true,\"v\":", Canon(S, ty.of, v.v), "}" >>) ELSE "{\"has\":false}"
    [] ty.t = "pnamed" -> LET cs == S[ty.name].ctors
                              k == cs[CHOOSE i \in 1..Len(cs) : cs[i].name = v.c] IN
                          Cat(<< "{\"c\":", Q(v.c), ",\"v\":", Canon(S, k.body, v.v), "}" >>)
    [] OTHER -> "?"

\* the decoded value as canonical text ("!" + reason when the cell does not denote a value of the type)
DecText(S, ty, tree) == LET d == Dec(S, ty, tree) IN
                        IF ~d.ok THEN StrCat("!", d.err)
                        ELSE IF ~NothingLeft(d) THEN "!data left unread"
                        ELSE Canon(S, ty, d.v)
DecLaxText(S, ty, tree) == LET d == DecLax(S, ty, tree) IN IF ~d.ok THEN StrCat("!", d.err) ELSE Canon(S, ty, d.v)

\* ------------------------------------------------------ encoder / decoder agreement
\* For a value the encoder accepts, the decoder reads exactly that value back from the encoder's cell and leaves nothing.
\* (compared as canonical text: the two values have the same shape by construction, but TLC must not be asked to compare
\* values of different shapes when they do not)
DecEncAgree(S, ty, v) ==
  LET e == Enc(S, ty, v) IN
  ~e.ok \/ (LET d == Dec(S, ty, e.c) IN NothingLeft(d) /\ Canon(S, ty, d.v) = Canon(S, ty, v))
=============================================================================
