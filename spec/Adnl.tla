-------------------------------- MODULE Adnl --------------------------------
(* C11: ADNL over TCP (lite-server transport), written from the ADNL-TCP       *)
(* description in the TON documentation, not from the Go code.                 *)
(*                                                                             *)
(* Handshake (client -> server, 256 bytes, sent in the clear):                 *)
(*     key id (32) || client ephemeral Ed25519 public key (32)                 *)
(*  || sha256(params) (32) || AES-256-CTR(params) (160)                        *)
(*   key id  = sha256(c6 b4 13 48 || server public key)   (TL-boxed            *)
(*             `pub.ed25519 key:int256 = PublicKey`, id 0x4813b4c6 LE)          *)
(*   shared  = X25519(client ephemeral key, server key), both Ed25519 keys     *)
(*             converted to curve25519                                         *)
(*   AES key = shared[0..15] || hash[16..31],  iv = hash[0..3] || shared[20..31]*)
(*   params  = 160 bytes chosen by the client. They define two permanent       *)
(*             AES-256-CTR streams:                                            *)
(*      cipher A: key params[0..31],  iv params[64..79]  server -> client      *)
(*      cipher B: key params[32..63], iv params[80..95]  client -> server      *)
(*      params[96..159] padding                                                *)
(* The server answers with an empty packet.  Afterwards each direction is a    *)
(* sequence of frames                                                          *)
(*     len32le || nonce(32) || payload || sha256(nonce || payload)             *)
(* with len = 64 + |payload|, 64 <= len <= 8 MiB, the whole frame including    *)
(* the length encrypted with the direction's cipher, whose key stream          *)
(* continues across frames (it is never restarted).                            *)
(*                                                                             *)
(* Part 1 gives the byte layouts as operators (crypto = Prim, layouts = here). *)
(* Part 2 is the connection as a state machine over the two byte streams with  *)
(* channel faults; its receivers are the streaming parsers of part 1.          *)
EXTENDS Integers, Sequences, SequencesExt, Prim

\* ------------------------------------------------------------------ helpers
Take(s, n) == SubSeq(s, 1, n)
Drop(s, n) == SubSeq(s, n + 1, Len(s))
RECURSIVE XorN(_, _, _)
XorN(a, b, n) == IF n = 0 THEN 0 ELSE ((a + b) % 2) + 2 * XorN(a \div 2, b \div 2, n - 1)
Xor8(a, b) == XorN(a, b, 8)
RECURSIVE SumSeq(_)
SumSeq(s) == IF Len(s) = 0 THEN 0 ELSE s[1] + SumSeq(Tail(s))

\* ===================================================================== part 1
MinLen == 64                        \* nonce + checksum, empty payload
MaxLen == 8 * 1024 * 1024           \* 8 MiB
HsLen  == 256

PubKeyTag == <<198, 180, 19, 72>>   \* c6 b4 13 48 = 0x4813b4c6 little-endian
KeyId(pub) == Sha256(PubKeyTag \o pub)

Dirs == {"c2s", "s2c"}
\* the two permanent streams defined by the client's 160 bytes
StreamKey(p, d) == IF d = "s2c" THEN SubSeq(p, 1, 32)  ELSE SubSeq(p, 33, 64)
StreamIv(p, d)  == IF d = "s2c" THEN SubSeq(p, 65, 80) ELSE SubSeq(p, 81, 96)
Crypt(p, d, off, data) == AesCtrXor(StreamKey(p, d), StreamIv(p, d), off, data)

HsKey(shared, h) == SubSeq(shared, 1, 16) \o SubSeq(h, 17, 32)
HsIv(shared, h)  == SubSeq(h, 1, 4) \o SubSeq(shared, 21, 32)
SharedOfClient(clientSeed, serverPub) == X25519(EdSeedToX25519Scalar(clientSeed), EdPubToMontU(serverPub))
SharedOfServer(serverSeed, clientPub) == X25519(EdSeedToX25519Scalar(serverSeed), EdPubToMontU(clientPub))

HandshakeBytes(serverPub, clientSeed, p) ==
  LET h  == Sha256(p)
      sh == SharedOfClient(clientSeed, serverPub)
  IN KeyId(serverPub) \o EdPubFromSeed(clientSeed) \o h \o AesCtrXor(HsKey(sh, h), HsIv(sh, h), 0, p)

\* The handshake is a function of (server key, client ephemeral key, session parameters) and of nothing else:
\* no state carries over between the connections of a process.  A second or third connection to the same server
\* identity, and the connection a client opens by itself after a drop (reconnect), start from AInit like the first
\* and their 256 bytes are judged by ParseHandshake exactly like the first one's.
\* what a server holding serverSeed makes of 256 received bytes
ParseHandshake(b, serverSeed) ==
  LET kid  == SubSeq(b, 1, 32)
      cpub == SubSeq(b, 33, 64)
      h    == SubSeq(b, 65, 96)
      sh   == SharedOfServer(serverSeed, cpub)
      p    == AesCtrXor(HsKey(sh, h), HsIv(sh, h), 0, SubSeq(b, 97, 256))
  IN IF Len(b) # HsLen \/ kid # KeyId(EdPubFromSeed(serverSeed)) THEN [ok |-> FALSE, why |-> "keyid"]
     ELSE IF Sha256(p) # h THEN [ok |-> FALSE, why |-> "hash"]
     ELSE [ok |-> TRUE, params |-> p, cpub |-> cpub]

LE32(n) == <<n % 256, (n \div 256) % 256, (n \div 65536) % 256, (n \div 16777216) % 256>>
\* TLC integers are 32 bit: any length with a non-zero top byte is beyond MaxLen anyway
LenField(b) == IF b[4] # 0 THEN MaxLen + 1 ELSE b[1] + 256 * b[2] + 65536 * b[3]
LenOK(n) == n >= MinLen /\ n <= MaxLen

Frame(nonce, payload) == LE32(64 + Len(payload)) \o nonce \o payload \o Sha256(nonce \o payload)
FrameLen(payloadLen) == 4 + 64 + payloadLen

\* One step of the streaming receiver of direction d (params p, key-stream offset off) on the
\* ciphertext bytes it holds:  "more" (needs `want` bytes in total) | "bad" | "pkt".
Peek(p, d, off, b) ==
  IF Len(b) < 4 THEN [st |-> "more", want |-> 4]
  ELSE LET n == LenField(Crypt(p, d, off, SubSeq(b, 1, 4))) IN
    IF ~LenOK(n) THEN [st |-> "bad", why |-> "len", want |-> 4]
    ELSE IF Len(b) < 4 + n THEN [st |-> "more", want |-> 4 + n]
    ELSE LET body == Crypt(p, d, off + 4, SubSeq(b, 5, 4 + n)) IN
      IF Sha256(SubSeq(body, 1, n - 32)) # SubSeq(body, n - 31, n) THEN [st |-> "bad", why |-> "sum", want |-> 4 + n]
      ELSE [st |-> "pkt", payload |-> SubSeq(body, 33, n - 32), nonce |-> SubSeq(body, 1, 32), used |-> 4 + n]

\* What a receiver that is handed the whole stream b and then end-of-stream makes of it: the payloads it
\* delivers, the sizes of the reads it issues (4 for a length, then the announced length), and how it ends.
RECURSIVE DecodeFrom(_, _, _, _, _, _)
DecodeFrom(p, d, off, b, pls, wants) ==
  LET r == Peek(p, d, off, b) IN
  IF r.st = "pkt" THEN DecodeFrom(p, d, off + r.used, Drop(b, r.used), Append(pls, r.payload), wants \o <<4, r.used - 4>>)
  ELSE [payloads |-> pls, end |-> IF r.st = "more" THEN "eof" ELSE "bad",
        wants |-> wants \o (IF r.want = 4 THEN <<4>> ELSE <<4, r.want - 4>>)]
DecodeStream(p, d, b) == DecodeFrom(p, d, 0, b, <<>>, <<>>)

\* --- what the client's connection does with a valid server->client packet -----------------------------
\* The frames carry two kinds of payload: messages for the user of the connection (adnl.message.query /
\* adnl.message.answer and anything else) and the transport's own tcp.* messages of ton_api.tl.  The only
\* tcp.* message a server sends on an established connection without authentication is the keep-alive answer
\*     tcp.pong random_id:long = tcp.Pong          id dc69fb03, little-endian on the wire: exactly 12 bytes
\* which the connection consumes itself.  tcp.authentificationNonce belongs to the optional authentication
\* sub-protocol, which C11 does not cover: whether a connection that asked for no authentication keeps such a
\* packet or hands it on is left free.  EVERY other valid packet - whatever its first bytes look like, e.g. a
\* payload that merely starts with the pong id but is not 12 bytes long - reaches the user exactly once, in
\* order, with exactly its payload.
IdTcpPong         == <<3, 251, 105, 220>>      \* dc69fb03
IdTcpPing         == <<154, 43, 8, 77>>        \* 4d082b9a
IdTcpAuthNonce    == <<182, 74, 93, 227>>      \* e35d4ab6
IdTcpAuthComplete == <<166, 158, 173, 247>>    \* f7ad9ea6
IdAdnlQuery       == <<122, 249, 139, 180>>    \* b48bf97a
IdAdnlAnswer      == <<22, 132, 172, 15>>      \* 0fac8416
HasPrefix(pl, id) == Len(pl) >= Len(id) /\ SubSeq(pl, 1, Len(id)) = id
Absorbs(pl) == IF Len(pl) = 12 /\ HasPrefix(pl, IdTcpPong) THEN "yes"
               ELSE IF HasPrefix(pl, IdTcpAuthNonce) THEN "free"
               ELSE "no"
\* the user's view of a sequence of packets the client-side receiver accepted, when every free choice is "keep"
UserMustGet(pls) == SelectSeq(pls, LAMBDA pl : Absorbs(pl) = "no")

\* ===================================================================== part 2
VARIABLES
  hs,         \* "none" | "sent" | "accepted" | "rejected"    (the server's view of the handshake)
  cp, sp,     \* session params as chosen by the client / as recovered by the server (<<>> = not yet)
  wire,       \* [Dirs -> bytes]  written by the sender, still in flight (faults act here)
  buf,        \* [Dirs -> bytes]  arrived at the receiver, not yet consumed by its parser
  txoff, rxoff, \* [Dirs -> Nat]  key-stream offsets of the sender / the receiver
  sent,       \* [Dirs -> Seq(payload)]  payloads handed to the sender (s2c starts with the empty ack)
  delivered,  \* [Dirs -> Seq(payload)]  payloads handed out by the receiver
  dead,       \* [Dirs -> BOOLEAN] the receiver has given up (bad frame, bad handshake or end of stream)
  eof,        \* [Dirs -> BOOLEAN] the sender's side is closed / the stream was cut: nothing follows wire[d]
  got,        \* [Dirs -> Nat]   ghost: number of bytes that have arrived (absolute position of buf's end)
  units,      \* [Dirs -> Seq(Nat)] ghost: sizes of the units written (c2s: handshake first, then frames)
  hit         \* [Dirs -> Nat]   ghost: index in sent[d] of the first frame touched by a fault, 0 = none
                \*                 (the handshake is not a frame: a fault there either makes the server
                \*                 reject, or - e.g. the sign bit of the client's Ed25519 key, which X25519
                \*                 ignores - leaves both sides with the same session: SessionAgreement)
avars == <<hs, cp, sp, wire, buf, txoff, rxoff, sent, delivered, dead, eof, got, units, hit>>

AInit ==
  /\ hs = "none" /\ cp = <<>> /\ sp = <<>>
  /\ wire = [d \in Dirs |-> <<>>] /\ buf = [d \in Dirs |-> <<>>]
  /\ txoff = [d \in Dirs |-> 0] /\ rxoff = [d \in Dirs |-> 0]
  /\ sent = [d \in Dirs |-> <<>>] /\ delivered = [d \in Dirs |-> <<>>]
  /\ dead = [d \in Dirs |-> FALSE] /\ eof = [d \in Dirs |-> FALSE]
  /\ got = [d \in Dirs |-> 0] /\ units = [d \in Dirs |-> <<>>] /\ hit = [d \in Dirs |-> 0]

\* ghost bookkeeping: which frame of sent[d] owns absolute stream position pos (1-based)
RECURSIVE UnitAt(_, _, _)
UnitAt(us, pos, i) == IF i > Len(us) THEN i ELSE IF pos <= us[i] THEN i ELSE UnitAt(us, pos - us[i], i + 1)
FrameOfUnit(d, u) == IF d = "c2s" THEN u - 1 ELSE u               \* 0 = the handshake
FrameAt(d, pos) == FrameOfUnit(d, UnitAt(units[d], pos, 1))
Mark(d, fr) == hit' = [hit EXCEPT ![d] = IF fr # 0 /\ (hit[d] = 0 \/ fr < hit[d]) THEN fr ELSE hit[d]]
UnitStart(d, u) == SumSeq(SubSeq(units[d], 1, u - 1))       \* bytes before unit u

Established == Len(delivered["s2c"]) >= 1                      \* the client has seen the server's ack
TxParams(d) == IF d = "c2s" THEN cp ELSE sp                    \* the sender's view of the session
RxParams(d) == IF d = "c2s" THEN sp ELSE cp                    \* the receiver's view

\* --- the client opens the connection
Handshake(serverPub, clientSeed, p) ==
  /\ hs = "none" /\ Len(p) = 160
  /\ hs' = "sent" /\ cp' = p
  /\ wire' = [wire EXCEPT !["c2s"] = HandshakeBytes(serverPub, clientSeed, p)]
  /\ units' = [units EXCEPT !["c2s"] = <<HsLen>>]
  /\ UNCHANGED <<sp, buf, txoff, rxoff, sent, delivered, dead, eof, got, hit>>

\* --- the server consumes the handshake: accepts, or rejects and closes
\*     (Core leaves cp alone: trace validation learns the client's choice only here)
HsDeliverCore(serverSeed) ==
  /\ hs = "sent" /\ ~dead["c2s"]
  /\ IF Len(buf["c2s"]) >= HsLen
       THEN LET r == ParseHandshake(Take(buf["c2s"], HsLen), serverSeed) IN
            IF r.ok THEN /\ hs' = "accepted" /\ sp' = r.params
                         /\ buf' = [buf EXCEPT !["c2s"] = Drop(buf["c2s"], HsLen)]
                         /\ UNCHANGED <<dead, eof>>
                    ELSE /\ hs' = "rejected" /\ dead' = [dead EXCEPT !["c2s"] = TRUE]
                         /\ eof' = [eof EXCEPT !["s2c"] = TRUE]
                         /\ UNCHANGED <<sp, buf>>
       ELSE /\ eof["c2s"] /\ wire["c2s"] = <<>>                \* stream ended inside the handshake
            /\ hs' = "rejected" /\ dead' = [dead EXCEPT !["c2s"] = TRUE]
            /\ eof' = [eof EXCEPT !["s2c"] = TRUE]
            /\ UNCHANGED <<sp, buf>>
  /\ UNCHANGED <<wire, txoff, rxoff, sent, delivered, got, units, hit>>
HsDeliver(serverSeed) == HsDeliverCore(serverSeed) /\ UNCHANGED cp

\* --- a sender frames and encrypts one payload with its continuing stream
CanSend(d) == /\ ~eof[d]
              /\ IF d = "s2c" THEN hs = "accepted" ELSE Established
Send(d, payload, nonce) ==
  /\ CanSend(d) /\ (d = "s2c" /\ sent[d] = <<>> => payload = <<>>)      \* the server's first packet is the empty ack
  /\ LET f == Frame(nonce, payload) IN
       /\ wire'  = [wire  EXCEPT ![d] = @ \o Crypt(TxParams(d), d, txoff[d], f)]
       /\ txoff' = [txoff EXCEPT ![d] = @ + Len(f)]
       /\ units' = [units EXCEPT ![d] = Append(@, Len(f))]
  /\ sent' = [sent EXCEPT ![d] = Append(@, payload)]
  /\ UNCHANGED <<hs, cp, sp, buf, rxoff, delivered, dead, eof, got, hit>>
ServerAck(nonce) == sent["s2c"] = <<>> /\ Send("s2c", <<>>, nonce)
\* --- the sender is handed, once more, a packet it has sent before (a retry; one request offered to several
\*     connections): a packet is a value - payload and nonce - and sending it does not use it up or alter it.
\*     It goes out as a new frame with the same nonce and payload at the stream's current position.
Resend(d, k, nonceOfK) == k >= 1 /\ k <= Len(sent[d]) /\ Send(d, sent[d][k], nonceOfK)
\* --- time passes.  The deadline of the context a connection was dialled under bounds its establishment only;
\*     on an established connection neither that deadline nor any other passing of time is a fault: no
\*     variable changes, so whatever is sent afterwards must still be delivered.
TimePasses == UNCHANGED <<hs, cp, sp, wire, buf, txoff, rxoff, sent, delivered, dead, eof, got, units, hit>>

\* --- a sender that stops after the four length bytes of a frame announcing n (n may be out of bounds):
\*     the stream ends inside frame Len(sent[d]) + 1
SendHeaderOnly(d, n) ==
  /\ CanSend(d) /\ (d = "s2c" => sent[d] # <<>>)
  /\ wire'  = [wire  EXCEPT ![d] = @ \o Crypt(TxParams(d), d, txoff[d], LE32(n))]
  /\ txoff' = [txoff EXCEPT ![d] = @ + 4]
  /\ units' = [units EXCEPT ![d] = Append(@, 4)]
  /\ eof'   = [eof EXCEPT ![d] = TRUE]
  /\ Mark(d, Len(sent[d]) + 1)
  /\ UNCHANGED <<hs, cp, sp, buf, rxoff, sent, delivered, dead, got>>

\* --- TCP hands the next k bytes to the receiver (any split of the stream)
Segment(d, k) ==
  /\ k >= 1 /\ k <= Len(wire[d])
  /\ buf'  = [buf  EXCEPT ![d] = @ \o Take(wire[d], k)]
  /\ wire' = [wire EXCEPT ![d] = Drop(@, k)]
  /\ got'  = [got  EXCEPT ![d] = @ + k]
  /\ UNCHANGED <<hs, cp, sp, txoff, rxoff, sent, delivered, dead, eof, units, hit>>

\* --- faults: the i-th byte in flight is replaced by a different value v; the rest of the stream is lost
Corrupt(d, i, v) ==
  /\ i >= 1 /\ i <= Len(wire[d]) /\ v \in 0..255 /\ v # wire[d][i]
  /\ wire' = [wire EXCEPT ![d][i] = v]
  /\ Mark(d, FrameAt(d, got[d] + i))
  /\ UNCHANGED <<hs, cp, sp, buf, txoff, rxoff, sent, delivered, dead, eof, got, units>>
Truncate(d) ==                                    \* with nothing in flight this is an orderly close
  /\ ~eof[d]
  /\ wire' = [wire EXCEPT ![d] = <<>>]
  /\ eof'  = [eof EXCEPT ![d] = TRUE]
  /\ IF wire[d] # <<>> THEN Mark(d, FrameAt(d, got[d] + 1)) ELSE UNCHANGED hit
  /\ UNCHANGED <<hs, cp, sp, buf, txoff, rxoff, sent, delivered, dead, got, units>>

\* --- the receiver of direction d takes one parsing step on what has arrived
FramesPhase(d) == IF d = "c2s" THEN hs = "accepted" ELSE hs # "none"
Look(d) == Peek(RxParams(d), d, rxoff[d], buf[d])
Deliver(d) ==
  /\ FramesPhase(d) /\ ~dead[d]
  /\ LET r == Look(d) IN
     CASE r.st = "pkt" ->
            /\ delivered' = [delivered EXCEPT ![d] = Append(@, r.payload)]
            /\ buf'   = [buf   EXCEPT ![d] = Drop(@, r.used)]
            /\ rxoff' = [rxoff EXCEPT ![d] = @ + r.used]
            /\ UNCHANGED dead
       [] r.st = "bad" ->
            /\ dead' = [dead EXCEPT ![d] = TRUE]
            /\ UNCHANGED <<delivered, buf, rxoff>>
       [] r.st = "more" ->
            /\ eof[d] /\ wire[d] = <<>>                 \* end of stream (inside or between frames)
            /\ dead' = [dead EXCEPT ![d] = TRUE]
            /\ UNCHANGED <<delivered, buf, rxoff>>
  /\ UNCHANGED <<hs, cp, sp, wire, txoff, sent, eof, got, units, hit>>
\* is a parsing step possible, and which
DeliverKind(d) ==
  IF ~FramesPhase(d) \/ dead[d] THEN "none"
  ELSE LET r == Look(d) IN
       IF r.st = "more" THEN (IF eof[d] /\ wire[d] = <<>> THEN "eof" ELSE "none") ELSE r.st
HsDeliverKind ==
  IF hs # "sent" \/ dead["c2s"] THEN "none"
  ELSE IF Len(buf["c2s"]) >= HsLen THEN "hs"
  ELSE IF eof["c2s"] /\ wire["c2s"] = <<>> THEN "hs" ELSE "none"

\* -------------------------------------------------------------- invariants
TypeOK ==
  /\ hs \in {"none", "sent", "accepted", "rejected"}
  /\ \A d \in Dirs : /\ rxoff[d] <= txoff[d] /\ got[d] + Len(wire[d]) <= SumSeq(units[d])
                     /\ Len(delivered[d]) <= Len(sent[d])
\* whatever happened to the 256 handshake bytes: an accepted handshake means one common session
SessionAgreement == hs = "accepted" => sp = cp
\* the two clauses of the property
DeliveredIsPrefixOfSent == \A d \in Dirs : IsPrefix(delivered[d], sent[d])
NothingFromHitFrameOn   == \A d \in Dirs : hit[d] # 0 => Len(delivered[d]) < hit[d]
\* and the positive half: once everything in flight has arrived and the receiver can do no more,
\* exactly the frames before the first damaged one have been delivered (all of them without a fault)
Quiet(d) == wire[d] = <<>> /\ (IF d = "c2s" /\ hs = "sent" THEN HsDeliverKind = "none" ELSE DeliverKind(d) = "none")
            /\ (d = "c2s" => hs # "none")
AllUndamagedDelivered ==
  \A d \in Dirs : Quiet(d) =>
     IF hit[d] = 0 THEN delivered[d] = sent[d] /\ (~dead[d] => buf[d] = <<>>)
     ELSE Len(delivered[d]) = (IF hit[d] - 1 <= Len(sent[d]) THEN hit[d] - 1 ELSE Len(sent[d]))
=============================================================================
