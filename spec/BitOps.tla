------------------------------- MODULE BitOps -------------------------------
(* Pure bit-sequence arithmetic shared by the specifications (no variables):   *)
(* fixed-width unsigned / two's-complement forms of decimal strings, increment, *)
(* decrement, bit length.  Wide numbers travel as decimal strings; DecToBits    *)
(* is a converter, the width / sign / two's-complement rules are here.          *)
EXTENDS Integers, Sequences, SequencesExt, Prim

\* ------------------------------------------------------------ bit arithmetic
Zeros(n) == [i \in 1..n |-> 0]
Ones(n)  == [i \in 1..n |-> 1]
Not(b)   == [i \in 1..Len(b) |-> 1 - b[i]]
PadLeft(b, w) == Zeros(w - Len(b)) \o b                 \* needs Len(b) <= w
RECURSIVE Decr(_)                                        \* b - 1 for a non-zero fixed-width b
Decr(b) == IF b[Len(b)] = 1 THEN [b EXCEPT ![Len(b)] = 0]
           ELSE Decr(SubSeq(b, 1, Len(b) - 1)) \o <<1>>
RECURSIVE Incr(_)                                        \* b + 1 (grows by one bit on carry out)
Incr(b) == IF Len(b) = 0 THEN <<1>>
           ELSE IF b[Len(b)] = 0 THEN [b EXCEPT ![Len(b)] = 1]
           ELSE Incr(SubSeq(b, 1, Len(b) - 1)) \o <<0>>
\* decimal text of the two's-complement value of the bit pattern p (Len(p) >= 1)
SDec(p) == IF p[1] = 0 THEN BitsToDec(p) ELSE StrCat("-", BitsToDec(Incr(Not(p))))
RECURSIVE BitLen(_)
BitLen(n) == IF n = 0 THEN 0 ELSE 1 + BitLen(n \div 2)
IsNeg(dec) == StrLen(dec) > 0 /\ SubStr(dec, 1, 1) = "-"
Mag(dec)   == DecToBits(dec)                             \* |dec|, minimal big-endian
IsZeroBits(b) == \A i \in 1..Len(b) : b[i] = 0

\* unsigned: value v (decimal string) in w bits
UFits(dec, w) == ~IsNeg(dec) /\ Len(Mag(dec)) <= w
UBits(dec, w) == PadLeft(Mag(dec), w)
\* signed two's complement, w >= 1:  -2^(w-1) <= v < 2^(w-1)
SFits(dec, w) == IF IsNeg(dec)
                   THEN LET m == Mag(dec) IN Len(m) <= w /\ (Len(m) = w => IsZeroBits(Tail(m)))
                   ELSE Len(Mag(dec)) <= w - 1
SBits(dec, w) == IF IsNeg(dec) /\ ~IsZeroBits(Mag(dec))
                   THEN Not(Decr(PadLeft(Mag(dec), w)))  \* -m  =  ~(m-1)
                   ELSE PadLeft(Mag(dec), w)
UnaryBits(n)  == Ones(n) \o <<0>>

=============================================================================
