------------------------------ MODULE LiteInit ------------------------------
(* X03 (B): construction of a lite-API client over several lite servers        *)
(* (liteapi.NewClient with WithLiteServers / WithMaxConnectionsNumber /        *)
(* WithTimeout / WithInitializationContext / WithAsyncConnectionsInit, and the *)
(* pool's InitializeConnections), written from the documentation of those      *)
(* options, not from the code:                                                 *)
(*   - the servers of the list are tried; a server is USABLE when the ADNL     *)
(*     handshake with the configured key succeeds and it answers               *)
(*     liteServer.getMasterchainInfo with a masterchainInfo within the timeout *)
(*     and before the initialization context ends;                             *)
(*   - the pool maintains at most MaxConnections connections, each to a usable *)
(*     server, identified by the server's index in the list;                   *)
(*   - synchronous construction succeeds iff some server is usable and fails   *)
(*     with an error otherwise (and for an empty list); asynchronous           *)
(*     construction returns at once and fills the pool in the background;      *)
(*   - the timeout bounds every attempt, the initialization context bounds the *)
(*     whole initialization: construction returns, nothing keeps running hot,  *)
(*     and no connection is kept to a server that is not in the pool.          *)
(*                                                                             *)
(* This module is the required outcome as a relation between a configuration   *)
(* and an observation (used by LiteInit_Trace to judge the real code, by       *)
(* LiteInit_Gen to label configurations, and as the invariant of the           *)
(* operational model mc/LiteInit_MC: attempts resolving in any order on a      *)
(* discrete clock with urgency, model checked exhaustively for small lists -   *)
(* the relation allows every behaviour of a correct initialization and leaves  *)
(* free what depends on races: which usable servers fill a pool that is too    *)
(* small for all of them).                                                     *)
EXTENDS Integers, Sequences, FiniteSets

\* Server classes (what the peer does):
\*   good       answers at once                       slow/late  answers getMasterchainInfo after d ms
\*   mute       handshake, then never answers a query  error     answers liteServer.error
\*   garbage    answers bytes that are no masterchainInfo
\*   bad_key    has another key than the configured one (the handshake is refused)
\*   blackhole  accepts the TCP connection, never writes dead      connection refused
Classes == {"good", "slow", "late", "mute", "error", "garbage", "bad_key", "blackhole", "dead"}
Reachable(c) == c \in {"good", "slow", "late", "mute", "error", "garbage"}     \* these see the client's query

Min2(a, b) == IF a < b THEN a ELSE b
\* the moment by which an attempt must have ended: the per-call timeout, cut short by the initialization context
Deadline(cfg) == IF cfg.ctx > 0 THEN Min2(cfg.ctx, cfg.t) ELSE cfg.t

\* does the server become usable in time?  Real time is involved, so answers near the deadline are nobody's fault:
\* "yes" only with a factor 3 to spare, "no" only when the answer comes after twice the deadline
Usable(s, L) ==
  CASE s.c = "good" -> "yes"
    [] s.c \in {"slow", "late"} -> IF 3 * s.d <= L THEN "yes" ELSE IF s.d >= 2 * L THEN "no" ELSE "maybe"
    [] OTHER -> "no"
Idx(cfg)   == 1..Len(cfg.servers)
Yes(cfg)   == {i \in Idx(cfg) : Usable(cfg.servers[i], Deadline(cfg)) = "yes"}
Maybe(cfg) == {i \in Idx(cfg) : Usable(cfg.servers[i], Deadline(cfg)) = "maybe"}

Increasing(p) == \A i \in 1..(Len(p) - 1) : p[i] < p[i + 1]
Range(p) == {p[i] : i \in 1..Len(p)}

\* the result of construction: err = an error was returned
ResultOK(cfg, err) ==
  IF cfg.servers = <<>> THEN err
  ELSE IF cfg.sync THEN (Yes(cfg) # {} => ~err) /\ (Yes(cfg) \cup Maybe(cfg) = {} => err)
  ELSE ~err
\* the pool once every attempt has ended: connection ids are list indices (in order), each to a usable server,
\* as many as allowed and available
PoolOK(cfg, pool) ==
  /\ Increasing(pool)
  /\ Range(pool) \subseteq Yes(cfg) \cup Maybe(cfg)
  /\ Len(pool) >= Min2(cfg.maxc, Cardinality(Yes(cfg)))
  /\ Len(pool) <= Min2(cfg.maxc, Cardinality(Yes(cfg) \cup Maybe(cfg)))
\* the pool at the moment a synchronous construction returns successfully: not empty, only usable servers
EarlyPoolOK(cfg, pool) ==
  /\ Increasing(pool) /\ Range(pool) \subseteq Yes(cfg) \cup Maybe(cfg) /\ Len(pool) <= cfg.maxc
  /\ Len(pool) >= 1
\* construction returns in time: generous (the machine may be loaded): three times the configured timeout
Slack == 3
ElapsedOK(cfg, ms) == ms <= Slack * cfg.t

=============================================================================
