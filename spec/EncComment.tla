----------------------------- MODULE EncComment -----------------------------
(* X04: encrypted comments (message encryption between two wallets).            *)
(*                                                                               *)
(* Written from the TON documentation ("Encrypted comments" in the wallet /      *)
(* message-layout guidelines), not from the Go code:                             *)
(*                                                                               *)
(*  1. shared_secret: both parties own Ed25519 keys.  The secret is the X25519   *)
(*     function of one's private scalar (the clamped first half of SHA-512 of    *)
(*     the Ed25519 seed) and the other's public key moved to the Montgomery      *)
(*     curve (u = (1 + y) / (1 - y)) -- the same secret ADNL uses.               *)
(*  2. salt: the bytes of the sender's address text (any byte string here).      *)
(*  3. prefix: a byte string of length p, 16 <= p <= 31, such that               *)
(*     p + len(comment) is divisible by 16.  prefix[0] = p, the other bytes are  *)
(*     random.  data = prefix ++ comment.                                        *)
(*  4. msg_key = first 16 bytes of HMAC-SHA512(key = salt, data).                *)
(*  5. x = HMAC-SHA512(key = shared_secret, msg_key); key = x[0:32],             *)
(*     iv = x[32:48].                                                            *)
(*  6. encrypted = AES-256-CBC(key, iv, data), no further padding.               *)
(*  7. result = (sender_pub XOR receiver_pub) ++ msg_key ++ encrypted.           *)
(*                                                                               *)
(* Decryption (either party, knowing its own key pair and the salt):             *)
(*     other_pub = result[0:32] XOR own_pub; shared secret as in 1; key, iv as   *)
(*     in 5 from result[32:48]; data = CBC^-1(result[48:]); accept iff           *)
(*     len(result) >= 64, len(result) % 16 = 0, the recomputed msg_key equals    *)
(*     result[32:48], 16 <= data[0] <= min(31, len(data)); comment = data[data[0]:]. *)
(*                                                                               *)
(* Byte strings are sequences of 0..255.  SHA-512 / HMAC / the AES block cipher  *)
(* / curve arithmetic come from Prim (JDK, with known-answer tests); every       *)
(* layout, the padding rule and the CBC chaining are TLA+.                       *)
EXTENDS Integers, Sequences, SequencesExt, Prim

\* ------------------------------------------------------------------- bytes
XNib == [a \in 0..15 |-> [b \in 0..15 |->
           8 * (((a \div 8) + (b \div 8)) % 2) + 4 * (((a \div 4) + (b \div 4)) % 2)
         + 2 * (((a \div 2) + (b \div 2)) % 2) + ((a + b) % 2)]]
XByte(a, b)  == 16 * XNib[a \div 16][b \div 16] + XNib[a % 16][b % 16]
XBytes(a, b) == [i \in 1..Len(a) |-> XByte(a[i], b[i])]          \* Len(a) = Len(b)
Zeros(n)     == [i \in 1..n |-> 0]
Slice(s, a, b) == IF b < a THEN <<>> ELSE SubSeq(s, a, b)         \* 1-based inclusive, empty when b < a

\* ------------------------------------------------------------- the padding
\* the only p in 16..31 with (p + n) % 16 = 0
PrefixLen(n) == 16 + ((16 - (n % 16)) % 16)
\* `tape` stands for the random bytes (at least 31 of them are supplied; tape[1] is overwritten by the length)
Prefix(n, tape) == <<PrefixLen(n)>> \o Slice(tape, 2, PrefixLen(n))
Pad(msg, tape)  == Prefix(Len(msg), tape) \o msg

\* --------------------------------------------------------- keys and secret
PubOf(seed)         == EdPubFromSeed(seed)
\* Points of small order (the neutral element y = 1 has no Montgomery image u = (1 + y) / (1 - y); for the others the X25519
\* function is zero): y = 0, 1, -1, the two y of the points of order 8, and the non-canonical spellings p, p + 1 of 0, 1.
\* No honest key is one of them; what a library does with them is not part of the format.
SmallOrderY == { HexToBytes("0000000000000000000000000000000000000000000000000000000000000000"),
                 HexToBytes("0100000000000000000000000000000000000000000000000000000000000000"),
                 HexToBytes("ecffffffffffffffffffffffffffffffffffffffffffffffffffffffffffff7f"),
                 HexToBytes("edffffffffffffffffffffffffffffffffffffffffffffffffffffffffffff7f"),
                 HexToBytes("eeffffffffffffffffffffffffffffffffffffffffffffffffffffffffffff7f"),
                 HexToBytes("26e8958fc2b227b045c3f489f2ef98f0d5dfac05d3c63339b13802886d53fc05"),
                 HexToBytes("c7176a703d4dd84fba3c0b760d10670f2a2053fa2c39ccc64ec7fd7792ac037a") }
NoMontImage(pub)    == Len(pub) = 32 /\ [pub EXCEPT ![32] = pub[32] % 128] \in SmallOrderY
Secret(seed, pub)   == X25519(EdSeedToX25519Scalar(seed), EdPubToMontU(pub))
MsgKey(salt, data)  == SubSeq(HmacSha512(salt, data), 1, 16)
KeyIv(secret, mk)   == LET x == HmacSha512(secret, mk) IN [key |-> SubSeq(x, 1, 32), iv |-> SubSeq(x, 33, 48)]

\* -------------------------------------------------------------- AES-256-CBC
\* c_0 = iv, c_i = E_k(p_i XOR c_(i-1))         (NIST SP 800-38A 6.2); Len(data) % 16 = 0
Block(s, i) == SubSeq(s, 16 * (i - 1) + 1, 16 * i)
CbcEnc(key, iv, data) ==
  LET st == FoldLeft(LAMBDA acc, i : LET c == AesEcbEnc(key, XBytes(Block(data, i), acc[1])) IN <<c, acc[2] \o c>>,
                     <<iv, <<>>>>, [i \in 1..(Len(data) \div 16) |-> i])
  IN st[2]
\* p_i = D_k(c_i) XOR c_(i-1)
CbcDec(key, iv, ct) ==
  IF Len(ct) = 0 THEN <<>> ELSE XBytes(AesEcbDec(key, ct), iv \o Slice(ct, 1, Len(ct) - 16))
\* NIST SP 800-38A F.2.5 / F.2.6 (CBC-AES256), first two blocks
ASSUME LET k == HexToBytes("603deb1015ca71be2b73aef0857d77811f352c073b6108d72d9810a30914dff4")
           iv == HexToBytes("000102030405060708090a0b0c0d0e0f")
           p == HexToBytes("6bc1bee22e409f96e93d7e117393172aae2d8a571e03ac9c9eb76fac45af8e51")
           c == HexToBytes("f58c4c04d6e5f1ba779eabfb5f7bfbd69cfc4e967edb808d679f777bc6702c7d")
       IN CbcEnc(k, iv, p) = c /\ CbcDec(k, iv, c) = p

\* ------------------------------------------------------------------ Encrypt
\* seedS: the sender's 32-byte seed, pubR: the receiver's public key, tape: the random bytes of the prefix
Encrypt(seedS, pubR, msg, salt, tape) ==
  LET data == Pad(msg, tape)
      mk   == MsgKey(salt, data)
      ki   == KeyIv(Secret(seedS, pubR), mk)
  IN XBytes(PubOf(seedS), pubR) \o mk \o CbcEnc(ki.key, ki.iv, data)
CipherLen(n) == 48 + PrefixLen(n) + n

\* ------------------------------------------------------------------ Decrypt
Refused == [ok |-> FALSE, msg |-> <<>>]
Decrypt(seedMe, ct, salt) ==
  IF Len(ct) < 64 \/ Len(ct) % 16 # 0 THEN Refused ELSE
  LET other == XBytes(SubSeq(ct, 1, 32), PubOf(seedMe)) IN
  IF NoMontImage(other) THEN Refused ELSE
  LET mk   == SubSeq(ct, 33, 48)
      ki   == KeyIv(Secret(seedMe, other), mk)
      data == CbcDec(ki.key, ki.iv, SubSeq(ct, 49, Len(ct)))
  IN IF MsgKey(salt, data) # mk \/ data[1] < 16 \/ data[1] > 31 \/ data[1] > Len(data) THEN Refused
     ELSE [ok |-> TRUE, msg |-> Slice(data, data[1] + 1, Len(data))]

\* what a recorded ciphertext must be for (sender, receiver, msg, salt): the prefix bytes are free, everything else is fixed.
\* Both parties read the comment back; the visible fields have the documented layout.
Conforms(seedS, seedR, msg, salt, ct) ==
  /\ Len(ct) = CipherLen(Len(msg))
  /\ SubSeq(ct, 1, 32) = XBytes(PubOf(seedS), PubOf(seedR))
  /\ Decrypt(seedR, ct, salt) = [ok |-> TRUE, msg |-> msg]
  /\ Decrypt(seedS, ct, salt) = [ok |-> TRUE, msg |-> msg]
\* the same when only the receiver's public key is known (no second reader)
ConformsPub(seedS, pubR, msg, salt, ct) ==
  /\ Len(ct) = CipherLen(Len(msg))
  /\ SubSeq(ct, 1, 32) = XBytes(PubOf(seedS), pubR)
  /\ LET mk   == SubSeq(ct, 33, 48)
         ki   == KeyIv(Secret(seedS, pubR), mk)
         data == CbcDec(ki.key, ki.iv, SubSeq(ct, 49, Len(ct)))
     IN /\ MsgKey(salt, data) = mk
        /\ data[1] = PrefixLen(Len(msg))
        /\ Slice(data, data[1] + 1, Len(data)) = msg
=============================================================================
