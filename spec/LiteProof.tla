------------------------------ MODULE LiteProof ------------------------------
(* What a light client may accept from a lite server (X01).  Written from the  *)
(* TON light-client rules (lite_api.tl, block.tlb, the checks of the reference  *)
(* lite-client: check_block_header_proof, check_shard_proof,                    *)
(* check_account_proof), not from the Go code.                                  *)
(*                                                                               *)
(* TRUST.  The only thing the client trusts is the block id it put into its     *)
(* request (root_hash commits to the block, the block's state_update commits to *)
(* the state).  Everything in an answer is judged against that id:              *)
(*                                                                               *)
(*  liteServer.accountState id shardblk shard_proof proof state                 *)
(*   A1 id = requested id                                                        *)
(*   A2 shardblk is a block of the account's workchain whose shard contains the *)
(*      account                                                                  *)
(*   A3 shardblk = id, or id is a masterchain block and shard_proof is a bag    *)
(*      with two roots, both Merkle proofs: [block id, its state]; the virtual   *)
(*      root hash of the first is id.root_hash, its header names id, the new     *)
(*      hash of its state_update is the virtual root hash of the second, and the *)
(*      shard configuration in that state (custom.shard_hashes, BinTree leaf of  *)
(*      exactly shardblk's shard) names seq_no / root_hash / file_hash of        *)
(*      shardblk                                                                 *)
(*   A4 proof is a bag with exactly two roots, both Merkle proofs: [block       *)
(*      shardblk, its state]; virtual root hash of the first = shardblk.root_hash,*)
(*      header names shardblk, new hash of state_update = virtual root hash of   *)
(*      the second                                                               *)
(*   A5 the record under the account's address in ShardAccounts of that state   *)
(*      must be readable (no pruned branch on the path); if present, state is a  *)
(*      bag with one root whose hash is the hash of record.account; if absent,   *)
(*      state is empty                                                           *)
(*   Every bag must consist of well-formed cells (a Merkle-proof cell stores the *)
(*   level-0 hash and depth of its child, pruned branches have their exact       *)
(*   length, level masks are consistent): Cells!WellFormedCell.                  *)
(*  liteServer.blockData: hash of the root of data = requested root_hash.       *)
(*  liteServer.blockHeader: header_proof is one Merkle proof whose virtual root  *)
(*   hash is id.root_hash and whose header names id; id is the requested one     *)
(*   (getBlockHeader) or has the requested workchain / shard / seqno (lookupBlock*)
(*   by seqno).                                                                  *)
(*  liteServer.configInfo: id = requested; state_proof is a Merkle proof of block*)
(*   id; config_proof is a Merkle proof whose virtual root hash is the new hash  *)
(*   of that block's state_update and which shows custom.config.                 *)
(*                                                                               *)
(* POLICY.  The client has a switch: "fast" = proof checks enabled, "unsafe" =   *)
(* proof checks disabled (documented so).  Decide(policy, reason, value class):  *)
(*   reason = ""                       -> accept (and return what was served)    *)
(*   fast   and reason # ""            -> reject                                 *)
(*   unsafe and reason # ""            -> free, except that a value which is not *)
(*                                        in the answer cannot be returned:      *)
(*                                        value class "no" -> reject             *)
(* Whenever the client accepts, what it returns must be what the answer holds    *)
(* (AccountValue etc.): never a panic, never a made-up value.                    *)
EXTENDS Dict, Boc

\* ------------------------------------------------------------------ fields
Fld(b, from, w) == SubSeq(b, from, from + w - 1)
Zeros(n)        == [i \in 1..n |-> 0]
TagBits(hex)    == BytesToBits(HexToBytes(hex))
\* 32-bit two's complement of a small integer
I32(w) == IF w >= 0 THEN NatToBits(w, 32) ELSE [i \in 1..32 |-> 1 - NatToBits(-w - 1, 32)[i]]

\* block ids: [wc |-> small int, shard |-> 64 bits, seqno |-> small int, root |-> 32 bytes, file |-> 32 bytes]
ShardValid(s) == Len(s) = 64 /\ \E i \in 1..64 : s[i] = 1
PfxLen(s)     == (CHOOSE i \in 1..64 : s[i] = 1 /\ \A j \in (i + 1)..64 : s[j] = 0) - 1
ShardContains(s, addrBits) == ShardValid(s) /\ SubSeq(s, 1, PfxLen(s)) = SubSeq(addrBits, 1, PfxLen(s))
\* shard_ident$00 shard_pfx_bits:(#<= 60) workchain_id:int32 shard_prefix:uint64 (104 bits)
ShardIdent(b) ==
  LET p == BitsToNat(Fld(b, 3, 6)) pre == Fld(b, 41, 64) IN
  IF b[1] # 0 \/ b[2] # 0 \/ p > 60 \/ (\E j \in (p + 1)..64 : pre[j] # 0) THEN [ok |-> FALSE]
  ELSE [ok |-> TRUE, wc |-> Fld(b, 9, 32), shard |-> SubSeq(pre, 1, p) \o <<1>> \o Zeros(63 - p)]

Fail(w) == [ok |-> FALSE, why |-> w]

\* ------------------------------------------------------------------ bags
\* a bag as a validating reader sees it: parsed, every cell well formed, hashes at every level
WellFormedI(T, I) ==
  \A i \in 1..Len(T) :
     /\ WellFormedCell(T[i], [j \in 1..Len(T[i].r) |-> T[T[i].r[j]]], [j \in 1..Len(T[i].r) |-> I[T[i].r[j]]])
     /\ I[i].d[4] <= MaxDepth
Bag(B) ==
  LET pr == Parse(B) IN
  IF ~pr.ok THEN Fail("parse")
  ELSE IF \E i \in 1..Len(pr.T) : ~(BasicOK(pr.T[i]) /\ HashableCell(pr.T[i])) THEN Fail("malformed")
  ELSE LET I == InfoTable(pr.T) IN
       IF ~WellFormedI(pr.T, I) THEN Fail("malformed")
       ELSE [ok |-> TRUE, T |-> pr.T, I |-> I, roots |-> pr.roots]
\* root k must be a Merkle-proof cell; its child is the virtual root, the child's level-0 hash the virtual root hash
Virt(bag, k) ==
  LET i == bag.roots[k] IN
  IF bag.T[i].x # MerkleProof THEN [ok |-> FALSE]
  ELSE [ok |-> TRUE, row |-> bag.T[i].r[1], hash |-> bag.I[bag.T[i].r[1]].h[1]]

\* ------------------------------------------------------------------ block.tlb views
\* block#11ef55aa global_id:int32 info:^BlockInfo value_flow:^ state_update:^(MERKLE_UPDATE ShardState) extra:^
\* block_info#9bc7a987 version:uint32 not_master:(## 1) .. (7 more flags) flags:(## 8) seq_no:# vert_seq_no:# shard:ShardIdent
\*   gen_utime:uint32 start_lt:uint64 end_lt:uint64 ...
BlockView(T, row) ==
  LET c == T[row] IN
  IF c.x = Pruned THEN Fail("block:pruned")
  ELSE IF c.x # Ordinary \/ Len(c.b) # 64 \/ Len(c.r) # 4 \/ Fld(c.b, 1, 32) # TagBits("11ef55aa") THEN Fail("block:layout")
  ELSE LET info == T[c.r[1]] IN
       IF info.x = Pruned THEN Fail("block:info-pruned")
       ELSE IF info.x # Ordinary \/ Len(info.b) < 408 \/ Fld(info.b, 1, 32) # TagBits("9bc7a987") THEN Fail("block:info-layout")
       ELSE LET sh == ShardIdent(Fld(info.b, 145, 104)) IN
            IF ~sh.ok THEN Fail("block:info-layout")
            ELSE [ok |-> TRUE, gid |-> Fld(c.b, 33, 32), notMaster |-> info.b[65], seqno |-> Fld(info.b, 81, 32),
                  wc |-> sh.wc, shard |-> sh.shard, genUtime |-> Fld(info.b, 249, 32), startLt |-> Fld(info.b, 281, 64),
                  endLt |-> Fld(info.b, 345, 64), su |-> c.r[3]]
\* the header names the block id
IdMatches(bv, id) == /\ bv.seqno = NatToBits(id.seqno, 32) /\ bv.wc = I32(id.wc) /\ bv.shard = id.shard
                     /\ bv.notMaster = (IF id.wc = -1 THEN 0 ELSE 1)
\* hash of the state after the block: level-0 hash of the second child of the Merkle update
NewStateHash(bag, bv) ==
  LET su == bag.T[bv.su] IN
  IF su.x # MerkleUpdate THEN Fail("block:state-update") ELSE [ok |-> TRUE, hash |-> bag.I[su.r[2]].h[1]]

\* shard_state#9023afe2 global_id:int32 shard_id:ShardIdent seq_no:uint32 vert_seq_no:# gen_utime:uint32 gen_lt:uint64
\*   min_ref_mc_seqno:uint32 out_msg_queue_info:^ before_split:(## 1) accounts:^ShardAccounts ^[..] custom:(Maybe ^McStateExtra)
StateView(T, row) ==
  LET c == T[row] IN
  IF c.x = Pruned THEN Fail("state:pruned")
  ELSE IF c.x # Ordinary \/ Len(c.b) # 362 \/ Fld(c.b, 1, 32) # TagBits("9023afe2") \/ Len(c.r) # 3 + c.b[362] THEN Fail("state:layout")
  ELSE [ok |-> TRUE, accounts |-> c.r[2], hasCustom |-> c.b[362] = 1, custom |-> IF c.b[362] = 1 THEN c.r[4] ELSE 0]

\* lookup in a Hashmap / HashmapAug edge (aug: forks carry an extra after the label)
RECURSIVE DLook(_, _, _, _, _)
DLook(T, i, n, key, aug) ==
  LET c == T[i] IN
  IF c.x = Pruned THEN [st |-> "pruned"]
  ELSE IF c.x # Ordinary THEN [st |-> "bad"]
  ELSE LET lb == Label(c.b, n) IN
       IF ~lb.ok THEN [st |-> "bad"]
       ELSE LET ls == Len(lb.s) IN
            IF SubSeq(key, 1, ls) # lb.s THEN [st |-> "absent"]
            ELSE IF ls = n THEN [st |-> "found", b |-> SubSeq(c.b, lb.used + 1, Len(c.b)), r |-> c.r]
            ELSE IF Len(c.r) # 2 \/ (~aug /\ lb.used # Len(c.b)) THEN [st |-> "bad"]
            ELSE DLook(T, c.r[key[ls + 1] + 1], n - ls - 1, SubSeq(key, ls + 2, n), aug)

\* ShardAccounts = HashmapAugE 256 ShardAccount DepthBalanceInfo, stored in its own cell:
\*   ahme_empty$0 extra:Y | ahme_root$1 root:^(HashmapAug 256 X Y) extra:Y
AccountsLookup(T, row, addrBits) ==
  LET c == T[row] IN
  IF c.x = Pruned THEN [st |-> "pruned"]
  ELSE IF c.x # Ordinary \/ Len(c.b) < 1 THEN [st |-> "bad"]
  ELSE IF c.b[1] = 0 THEN [st |-> "absent"]
  ELSE IF Len(c.r) < 1 THEN [st |-> "bad"]
  ELSE DLook(T, c.r[1], 256, addrBits, TRUE)
\* leaf: extra = depth_balance$_ split_depth:(#<= 30) balance:(grams:(VarUInteger 16) other:(HashmapE 32 ..)),
\*       value = account_descr$_ account:^Account last_trans_hash:bits256 last_trans_lt:uint64
LeafAccount(lk) ==
  LET b == lk.b IN
  IF Len(b) < 10 THEN [ok |-> FALSE]
  ELSE LET off == 5 + 4 + 8 * BitsToNat(Fld(b, 6, 4)) + 1 IN
       IF Len(b) # off + 320 THEN [ok |-> FALSE]
       ELSE LET nref == 1 + b[off] IN
            IF Len(lk.r) # nref THEN [ok |-> FALSE]
            ELSE [ok |-> TRUE, acc |-> lk.r[nref], hash |-> Fld(b, off + 1, 256), lt |-> Fld(b, off + 257, 64)]

\* BinTree X: bt_leaf$0 leaf:X | bt_fork$1 left:^ right:^ ; p = the shard's prefix bits
RECURSIVE BinWalk(_, _, _)
BinWalk(T, i, p) ==
  LET c == T[i] IN
  IF c.x = Pruned THEN [st |-> "pruned"]
  ELSE IF c.x # Ordinary \/ Len(c.b) < 1 THEN [st |-> "bad"]
  ELSE IF Len(p) = 0 THEN (IF c.b[1] = 0 THEN [st |-> "leaf", b |-> Tail(c.b)] ELSE [st |-> "absent"])
  ELSE IF c.b[1] = 0 THEN [st |-> "absent"]
  ELSE IF Len(c.r) # 2 THEN [st |-> "bad"]
  ELSE BinWalk(T, c.r[p[1] + 1], Tail(p))
\* masterchain_state_extra#cc26 shard_hashes:(HashmapE 32 ^(BinTree ShardDescr)) config:ConfigParams ...
\* shard_descr#b / shard_descr_new#a seq_no:uint32 reg_mc_seqno:uint32 start_lt:uint64 end_lt:uint64 root_hash:bits256 file_hash:bits256 ...
\* "" when the configuration names exactly sb as the top block of its shard
ShardDescrReason(T, customRow, sb) ==
  LET c == T[customRow] IN
  IF c.x = Pruned THEN "shardproof:pruned"
  ELSE IF c.x # Ordinary \/ Len(c.b) < 17 \/ Fld(c.b, 1, 16) # TagBits("cc26") THEN "shardproof:layout"
  ELSE IF c.b[17] = 0 \/ Len(c.r) < 1 THEN "shardproof:no-shard"
  ELSE LET lk == DLook(T, c.r[1], 32, I32(sb.wc), FALSE) IN
       IF lk.st = "pruned" THEN "shardproof:pruned"
       ELSE IF lk.st = "bad" THEN "shardproof:layout"
       ELSE IF lk.st = "absent" \/ Len(lk.r) < 1 \/ ~ShardValid(sb.shard) THEN "shardproof:no-shard"
       ELSE LET w == BinWalk(T, lk.r[1], SubSeq(sb.shard, 1, PfxLen(sb.shard))) IN
            IF w.st = "pruned" THEN "shardproof:pruned"
            ELSE IF w.st = "bad" THEN "shardproof:layout"
            ELSE IF w.st = "absent" THEN "shardproof:no-shard"
            ELSE IF Len(w.b) < 708 \/ Fld(w.b, 1, 3) # <<1, 0, 1>> THEN "shardproof:layout"
            ELSE IF Fld(w.b, 5, 32) # NatToBits(sb.seqno, 32) \/ BitsToBytes(Fld(w.b, 197, 256)) # sb.root
                    \/ BitsToBytes(Fld(w.b, 453, 256)) # sb.file THEN "shardproof:descr"
            ELSE ""

\* ------------------------------------------------------------------ the chain block -> state
\* bag roots k, k+1 = [Merkle proof of block `id`, Merkle proof of its state]; pre = prefix of the reason names.
\* [ok |-> TRUE, state |-> row of the state's root] or Fail(reason)
BlockStateChain(bag, id, pre) ==
  LET hv == Virt(bag, 1)  sv == Virt(bag, 2) IN
  IF ~hv.ok \/ ~sv.ok THEN Fail(StrCat(pre, "not-merkle"))
  ELSE IF hv.hash # id.root THEN Fail(StrCat(pre, "root-hash"))
  ELSE LET bv == BlockView(bag.T, hv.row) IN
       IF ~bv.ok THEN Fail(StrCat(pre, bv.why))
       ELSE IF ~IdMatches(bv, id) THEN Fail(StrCat(pre, "header-id"))
       ELSE LET nh == NewStateHash(bag, bv) IN
            IF ~nh.ok THEN Fail(StrCat(pre, nh.why))
            ELSE IF nh.hash # sv.hash THEN Fail(StrCat(pre, "state-hash"))
            ELSE [ok |-> TRUE, state |-> sv.row]

IdEq(a, b) == a.wc = b.wc /\ a.shard = b.shard /\ a.seqno = b.seqno /\ a.root = b.root /\ a.file = b.file

\* ------------------------------------------------------------------ liteServer.accountState
\* req = [id, wc, addr (32 bytes)], ans = [id, shardblk, shard_proof, proof, state] (byte sequences)
ShardProofReason(id, sb, B) ==
  IF IdEq(sb, id) THEN ""                  \* the reference client only warns about a superfluous shard proof
  ELSE IF id.wc # -1 THEN "shardproof:ref-not-masterchain"
  ELSE LET P == Bag(B) IN
       IF ~P.ok THEN StrCat("shardproof:", P.why)
       ELSE IF Len(P.roots) # 2 THEN "shardproof:roots"
       ELSE LET ch == BlockStateChain(P, id, "shardproof:") IN
            IF ~ch.ok THEN ch.why
            ELSE LET st == StateView(P.T, ch.state) IN
                 IF ~st.ok THEN StrCat("shardproof:", st.why)
                 ELSE IF ~st.hasCustom THEN "shardproof:no-shard"
                 ELSE ShardDescrReason(P.T, st.custom, sb)

AccountReason(req, ans) ==
  LET addrBits == BytesToBits(req.addr) IN
  IF ~IdEq(ans.id, req.id) THEN "id"
  ELSE IF ans.shardblk.wc # req.wc \/ ~ShardContains(ans.shardblk.shard, addrBits) THEN "shard"
  ELSE LET sp == ShardProofReason(ans.id, ans.shardblk, ans.shard_proof) IN
  IF sp # "" THEN sp
  ELSE LET P == Bag(ans.proof) IN
  IF ~P.ok THEN StrCat("proof:", P.why)
  ELSE IF Len(P.roots) # 2 THEN "proof:roots"
  ELSE LET ch == BlockStateChain(P, ans.shardblk, "") IN
  IF ~ch.ok THEN ch.why
  ELSE LET st == StateView(P.T, ch.state) IN
  IF ~st.ok THEN st.why
  ELSE LET lk == AccountsLookup(P.T, st.accounts, addrBits) IN
  IF lk.st = "pruned" THEN "account:pruned"
  ELSE IF lk.st = "bad" THEN "account:layout"
  ELSE IF lk.st = "absent" THEN (IF Len(ans.state) = 0 THEN "" ELSE "account:absent-but-state")
  ELSE LET lf == LeafAccount(lk) IN
  IF ~lf.ok THEN "account:layout"
  ELSE IF Len(ans.state) = 0 THEN "account:present-but-empty"
  ELSE LET S == Bag(ans.state) IN
  IF ~S.ok THEN StrCat("state:", S.why)
  ELSE IF Len(S.roots) # 1 THEN "state:roots"
  ELSE IF ReprHash(S.I[S.roots[1]]) # P.I[lf.acc].h[1] THEN "account:hash"
  ELSE ""

\* What the answer holds, whether or not it is authentic: [cls, acc (hash of the served account record), lt, hash]
\*  "none"    no account record is served (empty state)
\*  "value"   a record is served and the proof bag shows a ShardAccount entry for the address
\*  "no"      a record is served but there is no such entry to read (bag unreadable, path pruned, entry absent)
\*  "unclear" anything else (cells a lenient reader may or may not take): nothing is required
AccountValue(req, ans) ==
  IF Len(ans.state) = 0 THEN [cls |-> "none"]
  ELSE LET S == Parse(ans.state)  P == Parse(ans.proof) IN
  IF ~S.ok \/ Len(S.roots) # 1 \/ ~P.ok \/ Len(P.roots) < 2 THEN [cls |-> "no"]
  ELSE IF \E i \in 1..Len(S.T) : ~(BasicOK(S.T[i]) /\ HashableCell(S.T[i])) THEN [cls |-> "unclear"]
  ELSE LET r2 == P.T[P.roots[2]] IN
  IF r2.x # MerkleProof \/ Len(r2.r) # 1 THEN [cls |-> "unclear"]
  ELSE LET st == StateView(P.T, r2.r[1]) IN
  IF ~st.ok THEN [cls |-> "no"]
  ELSE LET lk == AccountsLookup(P.T, st.accounts, BytesToBits(req.addr)) IN
  IF lk.st \in {"pruned", "absent"} THEN [cls |-> "no"]
  ELSE IF lk.st = "bad" THEN [cls |-> "unclear"]
  ELSE LET lf == LeafAccount(lk) IN
  IF ~lf.ok THEN [cls |-> "unclear"]
  ELSE [cls |-> "value", acc |-> ReprHash(InfoTable(S.T)[S.roots[1]]), lt |-> lf.lt, hash |-> BitsToBytes(lf.hash)]

\* ------------------------------------------------------------------ liteServer.blockData
BlockReason(req, ans) ==
  LET D == Bag(ans.data) IN
  IF ~D.ok THEN StrCat("data:", D.why)
  ELSE IF Len(D.roots) # 1 THEN "data:roots"
  ELSE IF ReprHash(D.I[D.roots[1]]) # req.id.root THEN "block:root-hash"
  ELSE ""
BlockValue(ans) ==
  LET D == Parse(ans.data) IN
  IF ~D.ok \/ Len(D.roots) # 1 THEN [cls |-> "no"]
  ELSE LET bv == BlockView(D.T, D.roots[1]) IN
       IF ~bv.ok THEN [cls |-> "unclear"] ELSE [cls |-> "value", gid |-> bv.gid, seqno |-> bv.seqno, genUtime |-> bv.genUtime]

\* ------------------------------------------------------------------ liteServer.blockHeader
\* kind "header": getBlockHeader (the id is requested); "lookup": lookupBlock by seqno (workchain, shard, seqno requested)
HeaderReason(kind, req, ans) ==
  IF kind = "header" /\ ~IdEq(ans.id, req.id) THEN "id"
  ELSE IF kind = "lookup" /\ ~(ans.id.wc = req.id.wc /\ ans.id.shard = req.id.shard /\ ans.id.seqno = req.id.seqno) THEN "id"
  ELSE LET P == Bag(ans.header_proof) IN
  IF ~P.ok THEN StrCat("proof:", P.why)
  ELSE IF Len(P.roots) # 1 THEN "proof:roots"
  ELSE LET hv == Virt(P, 1) IN
  IF ~hv.ok THEN "not-merkle"
  ELSE IF hv.hash # ans.id.root THEN "root-hash"
  ELSE LET bv == BlockView(P.T, hv.row) IN
  IF ~bv.ok THEN bv.why
  ELSE IF ~IdMatches(bv, ans.id) THEN "header-id"
  ELSE ""
HeaderValue(ans) ==
  LET P == Parse(ans.header_proof) IN
  IF ~P.ok \/ Len(P.roots) # 1 THEN [cls |-> "no"]
  ELSE LET r == P.T[P.roots[1]] IN
       IF r.x # MerkleProof \/ Len(r.r) # 1 THEN [cls |-> "unclear"]
       ELSE LET bv == BlockView(P.T, r.r[1]) IN
            IF ~bv.ok THEN [cls |-> "unclear"]
            ELSE [cls |-> "value", seqno |-> bv.seqno, genUtime |-> bv.genUtime, startLt |-> bv.startLt, endLt |-> bv.endLt]

\* ------------------------------------------------------------------ liteServer.configInfo
\* masterchain_state_extra#cc26 shard_hashes:(HashmapE 32 ..) config:(config_addr:bits256 config:^(Hashmap 32 ^Cell)) ...
ConfigAddr(T, customRow) ==
  LET c == T[customRow] IN
  IF c.x = Pruned THEN Fail("pruned")
  ELSE IF c.x # Ordinary \/ Len(c.b) < 273 \/ Fld(c.b, 1, 16) # TagBits("cc26") \/ Len(c.r) < 1 + c.b[17] THEN Fail("layout")
  ELSE [ok |-> TRUE, addr |-> BitsToBytes(Fld(c.b, 18, 256)), dict |-> c.r[1 + c.b[17]]]
ConfigReason(req, ans) ==
  IF ~IdEq(ans.id, req.id) THEN "id"
  ELSE LET SP == Bag(ans.state_proof) IN
  IF ~SP.ok THEN StrCat("stateproof:", SP.why)
  ELSE IF Len(SP.roots) # 1 THEN "stateproof:roots"
  ELSE LET hv == Virt(SP, 1) IN
  IF ~hv.ok THEN "stateproof:not-merkle"
  ELSE IF hv.hash # ans.id.root THEN "stateproof:root-hash"
  ELSE LET bv == BlockView(SP.T, hv.row) IN
  IF ~bv.ok THEN StrCat("stateproof:", bv.why)
  ELSE IF ~IdMatches(bv, ans.id) THEN "stateproof:header-id"
  ELSE LET nh == NewStateHash(SP, bv) IN
  IF ~nh.ok THEN StrCat("stateproof:", nh.why)
  ELSE LET CP == Bag(ans.config_proof) IN
  IF ~CP.ok THEN StrCat("config:", CP.why)
  ELSE IF Len(CP.roots) # 1 THEN "config:roots"
  ELSE LET sv == Virt(CP, 1) IN
  IF ~sv.ok THEN "config:not-merkle"
  ELSE IF sv.hash # nh.hash THEN "config:state-hash"
  ELSE LET st == StateView(CP.T, sv.row) IN
  IF ~st.ok THEN StrCat("config:", st.why)
  ELSE IF ~st.hasCustom THEN "config:no-custom"
  ELSE LET ca == ConfigAddr(CP.T, st.custom) IN
  IF ~ca.ok THEN StrCat("config:", ca.why)
  ELSE IF CP.T[ca.dict].x = Pruned THEN "config:pruned"
  ELSE ""
ConfigValue(ans) ==
  LET P == Parse(ans.config_proof) IN
  IF ~P.ok \/ Len(P.roots) # 1 THEN [cls |-> "no"]
  ELSE LET r == P.T[P.roots[1]] IN
       IF r.x # MerkleProof \/ Len(r.r) # 1 THEN [cls |-> "unclear"]
       ELSE LET st == StateView(P.T, r.r[1]) IN
            IF ~st.ok THEN [cls |-> "no"]
            ELSE IF ~st.hasCustom THEN [cls |-> "no"]
            ELSE LET ca == ConfigAddr(P.T, st.custom) IN
                 IF ~ca.ok \/ P.T[ca.dict].x # Ordinary THEN [cls |-> "unclear"] ELSE [cls |-> "value", addr |-> ca.addr]

\* ------------------------------------------------------------------ the verdict
Decide(policy, reason, cls) ==
  IF reason = "" THEN "accept"
  ELSE IF policy = "fast" THEN "reject"
  ELSE IF cls = "no" THEN "reject"
  ELSE "free"
=============================================================================
