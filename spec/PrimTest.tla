----------------------------- MODULE PrimTest -----------------------------
(* Known-answer tests for the Prim overrides (RFC 6234, RFC 3720, RFC 7748, *)
(* RFC 8032, NIST SP 800-38A F.5.5). Run by `bin/check selftest` and setup. *)
EXTENDS Naturals, Sequences, TLC, Prim
H(s) == HexToBytes(s)
ASSUME BytesToHex(Sha256(StrToCodes("abc"))) = "ba7816bf8f01cfea414140de5dae2223b00361a396177a9cb410ff61f20015ad"
ASSUME BytesToHex(Sha512(StrToCodes("abc"))) = "ddaf35a193617abacc417349ae20413112e6fa4e89a97ea20a9eeee64b55d39a2192992a274fc1a836ba3c23a3feebbd454d4423643ce80e2a9ac94fa54ca49f"
ASSUME BytesToHex(Crc32c(StrToCodes("123456789"))) = "e3069283"
ASSUME BytesToHex(Crc32Ieee(StrToCodes("123456789"))) = "cbf43926"
ASSUME BytesToHex(HmacSha256(StrToCodes("key"), StrToCodes("The quick brown fox jumps over the lazy dog"))) = "f7bc83f430538424b13298e6aa6fb143ef4d59a14946175997479dbc2d1a3cd8"
ASSUME BytesToHex(X25519(H("a546e36bf0527c9d3b16154b82465edd62144c0ac1fc5a18506a2244ba449ac4"), H("e6db6867583030db3594c1a424b15f7c726624ec26b3353b10a903a6d0ab1c4c"))) = "c3da55379de9c6908e94ea4df28d084f32eccf03491c71f754b4075577a28552"
ASSUME BytesToHex(EdPubFromSeed(H("9d61b19deffd5a60ba844af492ec2cc44449c5697b326919703bac031cae7f60"))) = "d75a980182b10ab7d54bfed3c964073a0ee172f3daa62325af021a68f707511a"
ASSUME EdVerify(H("d75a980182b10ab7d54bfed3c964073a0ee172f3daa62325af021a68f707511a"), <<>>, H("e5564300c360ac729086e2cc806e828a84877f1eb8e5d974d873e065224901555fb8821590a33bacc61e39701cf9b46bd25bf5f0595bbe24655141438e7a100b"))
ASSUME ~EdVerify(H("d75a980182b10ab7d54bfed3c964073a0ee172f3daa62325af021a68f707511a"), <<1>>, H("e5564300c360ac729086e2cc806e828a84877f1eb8e5d974d873e065224901555fb8821590a33bacc61e39701cf9b46bd25bf5f0595bbe24655141438e7a100b"))
ASSUME BytesToHex(AesCtrXor(H("603deb1015ca71be2b73aef0857d77811f352c073b6108d72d9810a30914dff4"), H("f0f1f2f3f4f5f6f7f8f9fafbfcfdfeff"), 0, H("6bc1bee22e409f96e93d7e117393172aae2d8a571e03ac9c9eb76fac45af8e51"))) = "601ec313775789a5b7a7f504bbf3d228f443e3ca4d62b59aca84e990cacaf5c5"
ASSUME BytesToHex(AesCtrXor(H("603deb1015ca71be2b73aef0857d77811f352c073b6108d72d9810a30914dff4"), H("f0f1f2f3f4f5f6f7f8f9fafbfcfdfeff"), 16, H("ae2d8a571e03ac9c9eb76fac45af8e51"))) = "f443e3ca4d62b59aca84e990cacaf5c5"
\* X25519 of an Ed25519 key pair agrees both ways: scalar(seedA)*U(pubB) = scalar(seedB)*U(pubA)
SA == H("9d61b19deffd5a60ba844af492ec2cc44449c5697b326919703bac031cae7f60")
SB == H("4ccd089b28ff96da9db6c346ec114e0f5b8a319f35aba624da8cf6ed4fb8a6fb")
ASSUME X25519(EdSeedToX25519Scalar(SA), EdPubToMontU(EdPubFromSeed(SB))) = X25519(EdSeedToX25519Scalar(SB), EdPubToMontU(EdPubFromSeed(SA)))
ASSUME StrToBits("0110") = <<0,1,1,0>> /\ BitsToStr(<<1,0>>) = "10" /\ DecToBits("5") = <<1,0,1>> /\ DecToBits("0") = <<>>
ASSUME BitsToDec(DecToBits("340282366920938463463374607431768211455")) = "340282366920938463463374607431768211455"
ASSUME BytesToBits(<<160>>) = <<1,0,1,0,0,0,0,0>> /\ BitsToBytes(<<1,0,1,0,0,0,0,0>>) = <<160>>
ASSUME SubStr("abcdef", 2, 4) = "bcd" /\ StrLen("abc") = 3 /\ StrCat("a","b") = "ab"
\* appended for X04: RFC 4231 test cases 1, 2; NIST SP 800-38A F.1.5 / F.1.6 (ECB-AES256, blocks 1-2)
ASSUME BytesToHex(HmacSha512(H("0b0b0b0b0b0b0b0b0b0b0b0b0b0b0b0b0b0b0b0b"), StrToCodes("Hi There"))) = "87aa7cdea5ef619d4ff0b4241a1d6cb02379f4e2ce4ec2787ad0b30545e17cdedaa833b7d6b8a702038b274eaea3f4e4be9d914eeb61f1702e696c203a126854"
ASSUME BytesToHex(HmacSha512(StrToCodes("Jefe"), StrToCodes("what do ya want for nothing?"))) = "164b7a7bfcf819e2e395fbe73b56e0a387bd64222e831fd610270cd7ea2505549758bf75c05a994a6d034f65f8f0e6fdcaeab1a34d4a6b4b636e070a38bce737"
ASSUME HmacSha512(<<>>, <<1,2,3>>) = HmacSha512(<<0>>, <<1,2,3>>)
ASSUME BytesToHex(AesEcbEnc(H("603deb1015ca71be2b73aef0857d77811f352c073b6108d72d9810a30914dff4"), H("6bc1bee22e409f96e93d7e117393172aae2d8a571e03ac9c9eb76fac45af8e51"))) = "f3eed1bdb5d2a03c064b5a7e3db181f8591ccb10d410ed26dc5ba74a31362870"
ASSUME BytesToHex(AesEcbDec(H("603deb1015ca71be2b73aef0857d77811f352c073b6108d72d9810a30914dff4"), H("f3eed1bdb5d2a03c064b5a7e3db181f8591ccb10d410ed26dc5ba74a31362870"))) = "6bc1bee22e409f96e93d7e117393172aae2d8a571e03ac9c9eb76fac45af8e51"
ASSUME AesEcbEnc(H("603deb1015ca71be2b73aef0857d77811f352c073b6108d72d9810a30914dff4"), <<>>) = <<>>
ASSUME PrintT("PRIMTEST-OK")
VARIABLE x
Init == x = 0
Next == x' = x
=============================================================================
