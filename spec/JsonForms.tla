------------------------------ MODULE JsonForms ------------------------------
(* C20: JSON forms of chain values parse back to the same value.              *)
(*                                                                             *)
(* The property is about a tiny abstract machine                               *)
(*        v  --Marshal-->  text  --Unmarshal-->  v'                            *)
(* per library type that has both a JSON encoder and a JSON decoder:           *)
(*   (1) text is a syntactically valid JSON document (RFC 8259),               *)
(*   (2) v' = v  (equality of the abstract values, per type),                  *)
(*   (3) no document makes a decoder panic; syntactically malformed JSON is an  *)
(*       error; the encoder's own text for a value is always read as that value*)
(* Nothing else about the text is fixed: whether a 64-bit integer is printed   *)
(* as a number or as a string, upper or lower case hex, the spelling of an     *)
(* address - all of that is free as long as (1)-(3) hold.  Section 5 gives the *)
(* loose *reading* of the simple forms (a decimal numeral denotes that         *)
(* integer, a string of hex digits denotes those bytes) which is all that (3)  *)
(* needs, and section 6 the canonical spelling used only to *produce* test     *)
(* documents and to look for collisions on the model (spec/mc).                *)
(*                                                                             *)
(* Abstract values (what the harness logs, never JSON produced by the library) *)
(*   integers            decimal string                  "-128"                *)
(*   byte arrays         lower-case hex string           "00ff.."              *)
(*   bit strings         "0101.."                                              *)
(*   cells               canonical text  <type>{<bits>}[child,child,..]        *)
(*   addresses           [kind, wc, bits, any, ad, ap]                         *)
(*   account ids         [wc, hex]                                             *)
(*   optional values     [ex, v]                                               *)
(*   message envelopes   [sum, hasop, op, v]                                   *)
(* Type descriptors: [t |-> family, n |-> width] (+ of |-> inner for maybe).   *)
EXTENDS Integers, Sequences, SequencesExt, FiniteSets, TLC, Prim
CONSTANT Rich          \* TRUE: the larger value-class partition of the thorough tier (only the generator looks at it)

(***************************************************************************)
(* 1.  RFC 8259 well-formedness over a sequence of bytes / code points      *)
(*     (a pushdown recogniser: one Step per byte, folded over the text).    *)
(*     value = false / null / true / object / array / number / string      *)
(*     ws = *( %x20 / %x09 / %x0A / %x0D )                                  *)
(*     number = [ - ] ( 0 / 1-9 *DIGIT ) [ . 1*DIGIT ] [ e|E [+|-] 1*DIGIT ]*)
(*     string = " *( unescaped / \ ( " \ / b f n r t / u 4HEXDIG ) ) "      *)
(*     unescaped = %x20-21 / %x23-5B / %x5D-10FFFF  (bytes >= 0x80 stand    *)
(*     for the UTF-8 encoding of non-ASCII code points and are unescaped)   *)
(***************************************************************************)
IsWs(c)       == c \in {32, 9, 10, 13}
IsDigit(c)    == c >= 48 /\ c <= 57
IsDigit19(c)  == c >= 49 /\ c <= 57
IsHexDigit(c) == IsDigit(c) \/ (c >= 65 /\ c <= 70) \/ (c >= 97 /\ c <= 102)

\* md: mode, st: stack of open containers ("a" array / "o" object), k: the string being read is an
\* object key, lit: what is left of a literal name, u: hex digits still due after \u
Q0   == [md |-> "val", st |-> <<>>, k |-> 0, lit |-> <<>>, u |-> 0]
QBad == [md |-> "bad", st |-> <<>>, k |-> 0, lit |-> <<>>, u |-> 0]

CloseTop(q) == [q EXCEPT !.md = "after", !.st = SubSeq(q.st, 1, Len(q.st) - 1)]

StartValue(q, c) ==
  CASE c = 34       -> [q EXCEPT !.md = "str", !.k = 0]
    [] c = 45       -> [q EXCEPT !.md = "minus"]
    [] c = 48       -> [q EXCEPT !.md = "zero"]
    [] IsDigit19(c) -> [q EXCEPT !.md = "int"]
    [] c = 91       -> [q EXCEPT !.md = "arr0", !.st = Append(q.st, "a")]
    [] c = 123      -> [q EXCEPT !.md = "obj0", !.st = Append(q.st, "o")]
    [] c = 116      -> [q EXCEPT !.md = "lit", !.lit = <<114, 117, 101>>]        \* t rue
    [] c = 102      -> [q EXCEPT !.md = "lit", !.lit = <<97, 108, 115, 101>>]    \* f alse
    [] c = 110      -> [q EXCEPT !.md = "lit", !.lit = <<117, 108, 108>>]        \* n ull
    [] OTHER        -> QBad

\* a value has just ended (also the continuation of a number on its first non-number byte)
AfterValue(q, c) ==
  IF IsWs(c) THEN [q EXCEPT !.md = "after"]
  ELSE IF q.st = <<>> THEN QBad                                  \* only white space may follow the top-level value
  ELSE IF q.st[Len(q.st)] = "a"
    THEN (IF c = 44 THEN [q EXCEPT !.md = "val"] ELSE IF c = 93  THEN CloseTop(q) ELSE QBad)
    ELSE (IF c = 44 THEN [q EXCEPT !.md = "key"] ELSE IF c = 125 THEN CloseTop(q) ELSE QBad)

IsExp(c) == c = 69 \/ c = 101

Step(q, c) ==
  CASE q.md = "bad"   -> q
    [] q.md = "val"   -> IF IsWs(c) THEN q ELSE StartValue(q, c)
    [] q.md = "arr0"  -> IF IsWs(c) THEN q ELSE IF c = 93 THEN CloseTop(q) ELSE StartValue(q, c)
    [] q.md = "obj0"  -> IF IsWs(c) THEN q ELSE IF c = 125 THEN CloseTop(q)
                        ELSE IF c = 34 THEN [q EXCEPT !.md = "str", !.k = 1] ELSE QBad
    [] q.md = "key"   -> IF IsWs(c) THEN q ELSE IF c = 34 THEN [q EXCEPT !.md = "str", !.k = 1] ELSE QBad
    [] q.md = "colon" -> IF IsWs(c) THEN q ELSE IF c = 58 THEN [q EXCEPT !.md = "val"] ELSE QBad
    [] q.md = "after" -> AfterValue(q, c)
    [] q.md = "str"   -> IF c = 34 THEN [q EXCEPT !.md = (IF q.k = 1 THEN "colon" ELSE "after"), !.k = 0]
                        ELSE IF c = 92 THEN [q EXCEPT !.md = "esc"]
                        ELSE IF c < 32 THEN QBad ELSE q
    [] q.md = "esc"   -> IF c \in {34, 92, 47, 98, 102, 110, 114, 116} THEN [q EXCEPT !.md = "str"]
                        ELSE IF c = 117 THEN [q EXCEPT !.md = "hex", !.u = 4] ELSE QBad
    [] q.md = "hex"   -> IF ~IsHexDigit(c) THEN QBad
                        ELSE IF q.u = 1 THEN [q EXCEPT !.md = "str", !.u = 0] ELSE [q EXCEPT !.u = q.u - 1]
    [] q.md = "lit"   -> IF c # Head(q.lit) THEN QBad
                        ELSE IF Len(q.lit) = 1 THEN [q EXCEPT !.md = "after", !.lit = <<>>]
                        ELSE [q EXCEPT !.lit = Tail(q.lit)]
    [] q.md = "minus" -> IF c = 48 THEN [q EXCEPT !.md = "zero"] ELSE IF IsDigit19(c) THEN [q EXCEPT !.md = "int"] ELSE QBad
    [] q.md = "zero"  -> IF c = 46 THEN [q EXCEPT !.md = "frac0"] ELSE IF IsExp(c) THEN [q EXCEPT !.md = "exp0"]
                        ELSE AfterValue(q, c)
    [] q.md = "int"   -> IF IsDigit(c) THEN q ELSE IF c = 46 THEN [q EXCEPT !.md = "frac0"]
                        ELSE IF IsExp(c) THEN [q EXCEPT !.md = "exp0"] ELSE AfterValue(q, c)
    [] q.md = "frac0" -> IF IsDigit(c) THEN [q EXCEPT !.md = "frac"] ELSE QBad
    [] q.md = "frac"  -> IF IsDigit(c) THEN q ELSE IF IsExp(c) THEN [q EXCEPT !.md = "exp0"] ELSE AfterValue(q, c)
    [] q.md = "exp0"  -> IF c = 43 \/ c = 45 THEN [q EXCEPT !.md = "exp1"] ELSE IF IsDigit(c) THEN [q EXCEPT !.md = "exp"] ELSE QBad
    [] q.md = "exp1"  -> IF IsDigit(c) THEN [q EXCEPT !.md = "exp"] ELSE QBad
    [] q.md = "exp"   -> IF IsDigit(c) THEN q ELSE AfterValue(q, c)

\* the whole text is exactly one JSON value surrounded by optional white space
WF(bytes) == LET q == FoldLeft(Step, Q0, bytes)
             IN  q.st = <<>> /\ q.md \in {"after", "zero", "int", "frac", "exp"}

(***************************************************************************)
(* 2.  Wide integers: decimal strings <-> bit patterns (TLC ints are 32 bit) *)
(***************************************************************************)
Zeros(n) == [i \in 1..n |-> 0]
Ones(n)  == [i \in 1..n |-> 1]
Alt(n)   == [i \in 1..n |-> i % 2]
Not(b)   == [i \in 1..Len(b) |-> 1 - b[i]]
PadLeft(b, w) == Zeros(w - Len(b)) \o b
IsZeroBits(b) == \A i \in 1..Len(b) : b[i] = 0
RECURSIVE Incr(_)
Incr(b) == IF Len(b) = 0 THEN <<1>>
           ELSE IF b[Len(b)] = 0 THEN [b EXCEPT ![Len(b)] = 1]
           ELSE Incr(SubSeq(b, 1, Len(b) - 1)) \o <<0>>
\* decimal text of the two's complement reading of a bit pattern (Len >= 1)
SDec(p) == IF p[1] = 0 THEN BitsToDec(p) ELSE StrCat("-", BitsToDec(Incr(Not(p))))

\* canonical decimal numeral: -?(0|[1-9][0-9]*), and not "-0"
IsDecCodes(c) ==
  LET neg == Len(c) >= 1 /\ c[1] = 45
      d   == IF neg THEN Tail(c) ELSE c
  IN  /\ Len(d) >= 1
      /\ \A i \in 1..Len(d) : IsDigit(d[i])
      /\ (Len(d) > 1 => d[1] # 48)
      /\ (neg => d # <<48>>)
IsDecimal(s) == IsDecCodes(StrToCodes(s))
HasPrefix(s, p) == StrLen(s) >= StrLen(p) /\ SubStr(s, 1, StrLen(p)) = p
IsNeg(dec)   == HasPrefix(dec, "-")
Mag(dec)     == DecToBits(dec)                       \* |dec|, minimal big-endian bits
\* 0 <= dec < 2^w
UFits(dec, w) == ~IsNeg(dec) /\ Len(Mag(dec)) <= w
\* -2^(w-1) <= dec < 2^(w-1)   (w >= 1)
SFits(dec, w) == IF IsNeg(dec)
                   THEN LET m == Mag(dec) IN Len(m) <= w /\ (Len(m) = w => IsZeroBits(Tail(m)))
                   ELSE Len(Mag(dec)) <= w - 1

(***************************************************************************)
(* 3.  Types, domains, equality, the stated exclusion                       *)
(***************************************************************************)
IntFamilies  == {"uint", "int", "varuint", "grams", "signedcoins", "magic"}
DecFamilies  == IntFamilies \ {"magic"}              \* printed / read as decimal numerals
ByteFamilies == {"bits", "tonbits256", "tlint256"}
CellFamilies == {"cell", "any"}
BodyFamilies == {"inbody", "outbody"}

\* uintN: 0..2^N-1; intN: two's complement N bits; VarUInteger N: at most N-1 bytes; Grams / SignedCoins as
\* the Go types carry them (64 bit); Magic: 32 bit tag
Width(ty) == CASE ty.t \in {"uint", "int"} -> ty.n
               [] ty.t = "varuint" -> 8 * (ty.n - 1)
               [] ty.t \in {"grams", "signedcoins"} -> 64
               [] ty.t = "magic" -> 32
Signed(ty) == ty.t \in {"int", "signedcoins"}
NBytes(ty) == IF ty.t = "bits" THEN ty.n \div 8 ELSE 32

IntInDomain(ty, dec) == IsDecimal(dec) /\ (IF Signed(ty) THEN SFits(dec, Width(ty)) ELSE UFits(dec, Width(ty)))

IsLowerHexCodes(c) == \A i \in 1..Len(c) : IsDigit(c[i]) \/ (c[i] >= 97 /\ c[i] <= 102)
IsBitCodes(c)      == \A i \in 1..Len(c) : c[i] = 48 \/ c[i] = 49
IsBitStr(s)        == IsBitCodes(StrToCodes(s))

MaxAnycastDepth == 30
AddrInDomain(a) ==
  /\ a.kind \in {"none", "extern", "std", "var"}
  /\ IsBitStr(a.bits) /\ IsDecimal(a.wc) /\ a.any \in {0, 1}
  /\ CASE a.kind = "none"   -> a.bits = "" /\ a.any = 0
       [] a.kind = "extern" -> StrLen(a.bits) <= 511 /\ a.any = 0                 \* len:(## 9)
       [] a.kind = "std"    -> StrLen(a.bits) = 256 /\ SFits(a.wc, 8)              \* workchain_id:int8 address:bits256
       [] a.kind = "var"    -> StrLen(a.bits) <= 511 /\ SFits(a.wc, 32)            \* addr_len:(## 9) workchain_id:int32
  /\ a.any = 1 => a.ad \in 1..MaxAnycastDepth /\ IsDecimal(a.ap) /\ UFits(a.ap, a.ad)  \* depth:(#<= 30) {depth >= 1} rewrite_pfx:(bits depth)

RECURSIVE InDomain(_, _)
InDomain(ty, v) ==
  CASE ty.t \in IntFamilies  -> IntInDomain(ty, v)
    [] ty.t \in ByteFamilies -> StrLen(v) = 2 * NBytes(ty) /\ IsLowerHexCodes(StrToCodes(v))
    [] ty.t = "bitstring"    -> IsBitStr(v)                              \* boc.BitString itself has no length limit (a cell has: 1023)
    [] ty.t \in CellFamilies -> v # "cyclic" /\ v # ""                   \* a finite tree (the recorder reports "cyclic" otherwise)
    [] ty.t = "addr"         -> AddrInDomain(v)
    [] ty.t = "account"      -> IsDecimal(v.wc) /\ SFits(v.wc, 32) /\ StrLen(v.hex) = 64 /\ IsLowerHexCodes(StrToCodes(v.hex))
    [] ty.t = "maybe"        -> v.ex \in {0, 1} /\ (v.ex = 1 => InDomain(ty.of, v.v))
    [] ty.t \in BodyFamilies -> v.hasop \in {0, 1} /\ IsDecimal(v.op) /\ UFits(v.op, 32) /\ v.v # "cyclic"
                                /\ ~HasPrefix(v.v, "tlb-marshal-error")

\* equality of abstract values of one type
RECURSIVE Eq(_, _, _)
Eq(ty, a, b) ==
  IF ty.t = "maybe" THEN a.ex = b.ex /\ (a.ex = 1 => Eq(ty.of, a.v, b.v))
  ELSE a = b

\* "every address kind except a variable-length address whose text is identical to a standard one
\*  (256 bits, 8-bit workchain)": for those the round trip is not required
RECURSIVE Excluded(_, _)
Excluded(ty, v) ==
  CASE ty.t = "addr"  -> v.kind = "var" /\ StrLen(v.bits) = 256 /\ SFits(v.wc, 8)
    [] ty.t = "maybe" -> v.ex = 1 /\ Excluded(ty.of, v.v)
    [] OTHER -> FALSE

(***************************************************************************)
(* 4.  The abstract machine and the property                                *)
(***************************************************************************)
VARIABLE m
M0 == [phase |-> "idle", ty |-> [t |-> "none", n |-> 0], v |-> "", text |-> <<>>, back |-> "", mok |-> TRUE, uok |-> TRUE]

Pick(ty, v)          == m.phase = "idle"   /\ m' = [M0 EXCEPT !.phase = "picked", !.ty = ty, !.v = v]
Marshal(text, ok)    == m.phase = "picked" /\ m' = [m EXCEPT !.phase = "text", !.text = text, !.mok = ok]
Unmarshal(back, ok)  == m.phase = "text"   /\ m' = [m EXCEPT !.phase = "done", !.back = back, !.uok = ok]
Forget               == m.phase = "done"   /\ m' = M0

\* what C20 requires of a finished run x of the machine (x.v in the domain of x.ty)
RoundTripOK(x) ==
  /\ x.mok /\ WF(x.text)                                             \* syntactically valid JSON, always
  /\ Excluded(x.ty, x.v) \/ (x.uok /\ Eq(x.ty, x.back, x.v))         \* parses back to an equal value
RoundTripInv == (m.phase = "done" /\ InDomain(m.ty, m.v)) => RoundTripOK(m)

(***************************************************************************)
(* 4b. Decoding into a target that is not fresh.  A decoder is a function   *)
(*     of the document alone: the value denoted after decoding document d  *)
(*     is Denote(d), independent of what the target held before (a variable *)
(*     reused in a decode loop, a field decoded twice, the old elements of  *)
(*     a slice that encoding/json reuses).  tgt is the FULL structural      *)
(*     state of the one reused target - every field, also Value under       *)
(*     Exists = false and the fields of constructors that are not selected. *)
(*     Denote(d) is what the decoder makes of d in a fresh target.          *)
(***************************************************************************)
VARIABLE tgt
FreshTarget == "fresh"
\* den / denok: Denote(d) and whether d is decodable at all; ok / after: what happened with the reused target
DecodeInto(denok, den, ok, after) == tgt' = after /\ ok = denok /\ (ok => after = den)
ReuseOK(denok, den, ok, after)    == ok = denok /\ (ok => after = den)

(***************************************************************************)
(* 5.  Documents that were not produced by this run of the encoder (mutated,*)
(*     truncated, wrong kind, out of range).  The loose reading of the      *)
(*     simple forms (a canonical decimal numeral, bare or in quotes, denotes*)
(*     that integer; a quoted string of hex digits denotes those bytes) is  *)
(*     used only to produce documents and to count observations.            *)
(***************************************************************************)
IsQuoted(d) == Len(d) >= 2 /\ d[1] = 34 /\ d[Len(d)] = 34
Inner(d)    == SubSeq(d, 2, Len(d) - 1)
NoEscapes(c) == \A i \in 1..Len(c) : c[i] # 92 /\ c[i] # 34
\* the document is a decimal numeral (bare number or quoted)
IsIntDoc(d)  == IF IsQuoted(d) THEN IsDecCodes(Inner(d)) ELSE IsDecCodes(d)
IntOfDoc(d)  == CodesToStr(IF IsQuoted(d) THEN Inner(d) ELSE d)
\* the document is a quoted string of hex digits
IsHexDoc(d)  == IsQuoted(d) /\ \A i \in 2..(Len(d) - 1) : IsHexDigit(d[i])
LowerCode(c) == IF c >= 65 /\ c <= 70 THEN c + 32 ELSE c
HexOfDoc(d)  == CodesToStr([i \in 1..(Len(d) - 2) |-> LowerCode(d[i + 1])])

\* What a decoder may produce.  The payload of a *known* message body is read by encoding/json's own struct
\* decoder (unknown keys ignored, missing fields left zero) - not this library's code - so for the envelopes
\* only the part the library decodes itself is constrained.
RECURSIVE DecodedInDomain(_, _)
DecodedInDomain(ty, v) ==
  CASE ty.t \in BodyFamilies -> v.hasop \in {0, 1} /\ IsDecimal(v.op) /\ UFits(v.op, 32) /\ v.v # "cyclic"
    [] ty.t = "maybe"        -> v.ex \in {0, 1} /\ (v.ex = 1 => DecodedInDomain(ty.of, v.v))
    [] OTHER                 -> InDomain(ty, v)

\* res = "ok" | "err"; back = the abstract value the decoder produced (when ok).
\* What C20 requires of a decode of a foreign document ("malformed JSON is reported as an error without
\* panicking", read narrowly): no panic (a Panic event has no action at all), and a syntactically malformed
\* document is never accepted.  A well-formed document that denotes no value of the type is NOT required to be
\* rejected.
DecodeOK(ty, doc, res, back) == res = "err" \/ (res = "ok" /\ WF(doc))
\* ... and when the document is exactly the text the encoder produces for a value v of the type's domain (the
\* recorder finds v by encoding candidates and comparing the bytes), the decode must succeed and give v.
EncoderTextOK(ty, v, res, back) == InDomain(ty, v) => (res = "ok" /\ Eq(ty, back, v))

\* Observation only, never a verdict: an accepted document that, under the loose reading, encodes no value of
\* the type (out-of-range or negative numeral, wrong-length hex, out-of-domain address ...).
DecodeStrict(ty, doc, res, back) ==
  \/ res = "err"
  \/ /\ res = "ok"
     /\ WF(doc)
     /\ DecodedInDomain(ty, back)
     /\ (ty.t \in DecFamilies /\ IsIntDoc(doc)) => back = IntOfDoc(doc)
     /\ (ty.t \in ByteFamilies /\ IsHexDoc(doc)) => back = HexOfDoc(doc)

(***************************************************************************)
(* 5b. Garbage inserted into a string document.  Let "s" be the encoder's   *)
(*     text of a value v and g bytes that belong to no spelling of a value  *)
(*     (zz, _, " 00", :Anycast, g, ! - white space alone is left out:       *)
(*     trimming it is a leniency; only zz, g, ! are put in front of or      *)
(*     inside s, where zeros and separators could be another spelling of    *)
(*     the same value).  Decoding "g s", "s1 g s2" or "s g" is              *)
(*     an error, or - where the longer string happens to spell something -  *)
(*     another value; it is never v itself: that would mean the decoder     *)
(*     ignored part of the string it was given.                             *)
(***************************************************************************)
InsertOK(ty, v, doc, res, back) == res = "err" \/ (res = "ok" /\ WF(doc) /\ ~Eq(ty, back, v))

(***************************************************************************)
(* 6.  The value-class partition (what TLC enumerates into test values) and *)
(*     canonical spellings, used only to produce documents.                 *)
(***************************************************************************)
\* named bit patterns of width w >= 1.  Read unsigned: zeros = 0, lsb = 1, ones = max, msb = 2^(w-1);
\* read as two's complement: zeros = 0, lsb = 1, ones = -1, msb = min, msb-clear = max, lsb-clear = -2
NamedPats(w) == { <<"zeros", Zeros(w)>>, <<"ones", Ones(w)>>, <<"msb", <<1>> \o Zeros(w - 1)>>,
                  <<"lsb", Zeros(w - 1) \o <<1>>>>, <<"msb-clear", <<0>> \o Ones(w - 1)>>,
                  <<"lsb-clear", Ones(w - 1) \o <<0>>>>, <<"alt", Alt(w)>> }

IntClasses(ty) ==
  LET w == Width(ty) IN
  IF w = 0 THEN { [cls |-> "zeros", v |-> "0"] }
  ELSE { [cls |-> p[1], v |-> (IF Signed(ty) THEN SDec(p[2]) ELSE BitsToDec(p[2]))] : p \in NamedPats(w) }

\* the nearest integers outside the domain
IntOutside(ty) ==
  LET w == Width(ty) IN
  IF Signed(ty)
    THEN { [cls |-> "max+1", v |-> BitsToDec(<<1>> \o Zeros(w - 1))],
           [cls |-> "min-1", v |-> StrCat("-", BitsToDec(Incr(<<1>> \o Zeros(w - 1))))] }
    ELSE { [cls |-> "max+1", v |-> BitsToDec(<<1>> \o Zeros(w))], [cls |-> "-1", v |-> "-1"] }

BytePats(n) == { <<"zeros", Zeros(8 * n)>>, <<"ones", Ones(8 * n)>>, <<"alt", Alt(8 * n)>>,
                 <<"lsb", Zeros(8 * n - 1) \o <<1>>>>, <<"msb", <<1>> \o Zeros(8 * n - 1)>>,
                 <<"count", [i \in 1..(8 * n) |-> (((i - 1) \div 8) \div (2 ^ (7 - ((i - 1) % 8)))) % 2]>> }
HexOfBits(b) == BytesToHex(BitsToBytes(b))
ByteClasses(ty) == { [cls |-> p[1], v |-> HexOfBits(p[2])] : p \in BytePats(NBytes(ty)) }

BitLens == IF Rich THEN 0..40 \cup 250..264 \cup 505..520 \cup 1000..1023
           ELSE {0, 1, 2, 3, 4, 5, 7, 8, 9, 12, 255, 256, 257, 1020, 1021, 1022, 1023}
BitPats(n) == IF n = 0 THEN { <<"empty", <<>> >> }
              ELSE { <<"zeros", Zeros(n)>>, <<"ones", Ones(n)>>, <<"alt", Alt(n)>>, <<"msb", <<1>> \o Zeros(n - 1)>>, <<"lsb", Zeros(n - 1) \o <<1>>>> }
BitStringClasses == UNION { { [cls |-> StrCat(StrCat(ToString(n), ":"), p[1]), v |-> BitsToStr(p[2])] : p \in BitPats(n) } : n \in BitLens }

Addr(kind, wc, bits, any, ad, ap) == [kind |-> kind, wc |-> wc, bits |-> bits, any |-> any, ad |-> ad, ap |-> ap]
NoAny(kind, wc, bits) == Addr(kind, wc, bits, 0, 0, "0")
Anycasts == { <<0, 0, "0">>, <<1, 1, "0">>, <<1, 1, "1">>, <<1, 5, "21">>, <<1, 30, "0">>, <<1, 30, "1073741823">> }
AddrBitPats(n) == IF n = 0 THEN { <<>> } ELSE { Zeros(n), Ones(n), Alt(n) }
StdWcs == {"-128", "-127", "-1", "0", "1", "127"}
VarWcs == {"-2147483648", "-32768", "-129", "-128", "-1", "0", "127", "128", "255", "1000", "65536", "2147483647"}
ExternLens == IF Rich THEN 0..17 \cup 250..260 \cup 500..511 ELSE {0, 1, 3, 4, 8, 255, 256, 511}
\* every length around the places where the text of a variable address is as long as a standard one (64 characters:
\* 249..251 bits = 62 digits + "X_", 253..255 bits = 64 digits + "_" ..., 256 bits = 64 digits)
VarLens    == IF Rich THEN 0..9 \cup 236..268 \cup {510, 511} ELSE {0, 1, 4, 7, 8, 511} \cup 240..264
AddrValues ==
       { NoAny("none", "0", "") }
  \cup { NoAny("extern", "0", BitsToStr(p)) : p \in UNION { AddrBitPats(n) : n \in ExternLens } }
  \cup { Addr("std", wc, BitsToStr(p), a[1], a[2], a[3]) : wc \in StdWcs, p \in AddrBitPats(256), a \in Anycasts }
  \cup { Addr("var", wc, BitsToStr(p), a[1], a[2], a[3]) : wc \in VarWcs, p \in UNION { AddrBitPats(n) : n \in VarLens },
                                                          a \in { <<0, 0, "0">>, <<1, 5, "21">> } }
AddrCls(a) == IF a.kind = "none" THEN "none"
              ELSE StrCat(a.kind, StrCat(":len", StrCat(ToString(StrLen(a.bits)),
                   StrCat(":wc", StrCat(a.wc, IF a.any = 1 THEN StrCat(":anycast", ToString(a.ad)) ELSE "")))))
AddrClasses == { [cls |-> AddrCls(a), v |-> a] : a \in AddrValues }

AccountClasses == { [cls |-> StrCat(StrCat("wc", wc), StrCat(":", p[1])), v |-> [wc |-> wc, hex |-> HexOfBits(p[2])]]
                    : wc \in {"-2147483648", "-129", "-1", "0", "1", "255", "2147483647"}, p \in BytePats(32) }

\* cells: finite trees [x |-> type, b |-> bits, r |-> children]; the abstract value is the canonical text
Leaf(b)    == [x |-> 0, b |-> BitsToStr(b), r |-> <<>>]
Node(b, r) == [x |-> 0, b |-> BitsToStr(b), r |-> r]
LibCell    == [x |-> 2, b |-> BitsToStr(<<0,0,0,0,0,0,1,0>> \o Alt(256)), r |-> <<>>]
RECURSIVE CellText(_)
RECURSIVE JoinCells(_, _)
JoinCells(r, i) == IF i > Len(r) THEN "" ELSE StrCat(IF i > 1 THEN "," ELSE "", StrCat(CellText(r[i]), JoinCells(r, i + 1)))
CellText(c) == StrCat(ToString(c.x), StrCat("{", StrCat(c.b, StrCat("}",
                 IF Len(c.r) = 0 THEN "" ELSE StrCat("[", StrCat(JoinCells(c.r, 1), "]"))))))
RECURSIVE Chain(_)
Chain(n) == IF n = 0 THEN Leaf(Ones(8)) ELSE Node(PadLeft(<<1>>, 16), <<Chain(n - 1)>>)
CellTrees ==
  LET leaves == { <<"leaf:0", Leaf(<<>>)>>, <<"leaf:1", Leaf(<<1>>)>>, <<"leaf:7", Leaf(Alt(7))>>, <<"leaf:8", Leaf(Ones(8))>>,
                  <<"leaf:9", Leaf(Alt(9))>>, <<"leaf:1023-ones", Leaf(Ones(1023))>>, <<"leaf:1023-alt", Leaf(Alt(1023))>>,
                  <<"leaf:1022", Leaf(Zeros(1022))>> }
      l1 == Leaf(<<1>>)  l2 == Leaf(Alt(9))  l3 == Leaf(<<>>)
  IN leaves
     \cup { <<StrCat("refs1:", l[1]), Node(<<>>, <<l[2]>>)>> : l \in leaves }
     \cup { <<"refs2", Node(Alt(5), <<l1, l2>>)>>, <<"refs3", Node(Ones(1023), <<l1, l2, l3>>)>>,
            <<"refs4", Node(Alt(16), <<l1, l2, l3, Leaf(Ones(1023))>>)>>,
            <<"refs4-same-child", Node(Alt(16), <<l2, l2, l2, l2>>)>>,
            <<"depth3", Node(<<1>>, <<Node(<<0>>, <<l2, l3>>), Node(Alt(1023), <<Node(<<>>, <<l1>>)>>)>>)>>,
            <<"chain12", Chain(12)>>,
            \* bags of exactly 255, 256, 257 distinct cells: the boundary of a one-byte cell counter / reference index
            <<"cells255", Chain(254)>>, <<"cells256", Chain(255)>>, <<"cells257", Chain(256)>>, <<"library", LibCell>>, <<"ref-to-library", Node(Alt(8), <<LibCell, l1>>)>> }
CellClasses == { [cls |-> t[1], v |-> t[2], canon |-> CellText(t[2])] : t \in CellTrees }

BodyClasses ==
       { [cls |-> "Empty", v |-> [sum |-> "", hasop |-> 0, op |-> "0", v |-> "nil"]] }
  \cup { [cls |-> StrCat("Unknown:", StrCat(o[1], StrCat(":", t[1]))),
          v |-> [sum |-> "Unknown", hasop |-> o[2], op |-> o[3], v |-> CellText(t[2])]]
         : o \in { <<"noop", 0, "0">>, <<"op0", 1, "0">>, <<"opmax", 1, "4294967295">>, <<"op", 1, "1935855772">> },
           t \in { <<"leaf0", Leaf(<<>>)>>, <<"leaf32", Leaf(Alt(32))>>, <<"refs", Node(Alt(32), <<Leaf(<<1>>), Leaf(Ones(1023))>>)>> } }

T(t, n) == [t |-> t, n |-> n]
NativeWidths == 1..64
BigWidths    == {128, 256, 257}
BitsWidths   == {80, 96, 128, 256, 264, 320, 352, 512}
SimpleTypes ==
       { T("uint", n) : n \in NativeWidths \cup BigWidths } \cup { T("int", n) : n \in NativeWidths \cup BigWidths }
  \cup { T("varuint", n) : n \in 1..32 } \cup { T("bits", n) : n \in BitsWidths }
  \cup { T("grams", 0), T("signedcoins", 0), T("magic", 0), T("tonbits256", 0), T("tlint256", 0),
         T("bitstring", 0), T("cell", 0), T("any", 0), T("addr", 0), T("account", 0), T("inbody", 0), T("outbody", 0) }
MaybeInner == { T("uint", 8), T("int", 64), T("uint", 256), T("varuint", 16), T("grams", 0), T("bits", 256),
                T("addr", 0), T("cell", 0), T("bitstring", 0) }
Maybe(ty)  == [t |-> "maybe", n |-> 0, of |-> ty]
\* Maybe[Maybe[T]] is not in the list: the library ships no such instantiation, so it is not "a library type"
MaybeTypes == { Maybe(ty) : ty \in MaybeInner }
AllTypes   == SimpleTypes \cup MaybeTypes

RECURSIVE Classes(_)
Classes(ty) ==
  CASE ty.t \in IntFamilies  -> IntClasses(ty)
    [] ty.t \in ByteFamilies -> ByteClasses(ty)
    [] ty.t = "bitstring"    -> BitStringClasses
    [] ty.t \in CellFamilies -> CellClasses
    [] ty.t = "addr"         -> AddrClasses
    [] ty.t = "account"      -> AccountClasses
    [] ty.t \in BodyFamilies -> BodyClasses
    [] ty.t = "maybe"        -> { [cls |-> "absent", v |-> [ex |-> 0, v |-> ""]] }
                                \cup { [cls |-> StrCat("present(", StrCat(c.cls, ")")), v |-> [ex |-> 1, v |-> c.v]] : c \in Classes(ty.of) }

\* the class values whose encoder output serves as the base of the mutated / truncated documents
RECURSIVE MutBaseCls(_)
MutBaseCls(ty) ==
  CASE ty.t \in IntFamilies  -> IF Width(ty) = 0 THEN {"zeros"} ELSE {"ones", "msb"}    \* the longest numerals: max / min
    [] ty.t \in ByteFamilies -> {"count"}
    [] ty.t = "bitstring"    -> {"0:empty", "5:alt", "12:alt"}
    [] ty.t \in CellFamilies -> {"leaf:0", "leaf:9", "refs2", "library"}
    [] ty.t = "addr"         -> {"none", "extern:len3:wc0", "extern:len8:wc0", "std:len256:wc-128", "std:len256:wc-1:anycast30",
                                 "var:len7:wc-2147483648:anycast5", "var:len8:wc128", "var:len0:wc0"}
    [] ty.t = "account"      -> {"wc-2147483648:count", "wc0:ones"}
    [] ty.t \in BodyFamilies -> {"Empty", "Unknown:noop:leaf0", "Unknown:op:refs"}
    [] ty.t = "maybe"        -> {"absent"} \cup { StrCat("present(", StrCat(c, ")")) : c \in MutBaseCls(ty.of) }

\* class values decoded one after the other into one reused target: every ordered pair of different classes
RECURSIVE SeqCls(_)
SeqCls(ty) == CASE ty.t \in IntFamilies -> MutBaseCls(ty) \cup {"zeros"}
                [] ty.t = "maybe"       -> {"absent"} \cup { StrCat("present(", StrCat(c, ")")) : c \in SeqCls(ty.of) }
                [] OTHER                -> MutBaseCls(ty)
SeqPairs(ty) == LET cs == { c \in Classes(ty) : c.cls \in SeqCls(ty) }
                IN  { p \in cs \X cs : p[1].cls # p[2].cls }

\* canonical spellings (only to produce documents and model-level leads; the encoders are free to differ)
Quote(codes)   == <<34>> \o codes \o <<34>>
IntDocs(dec)   == { StrToCodes(dec), Quote(StrToCodes(dec)) }            \* bare and quoted numeral
\* Fift hex of a bit string: nibbles of (bits ++ completion tag 1 0* up to a multiple of 4), '_' iff a tag was added
NibbleChar(b) == LET x == 8 * b[1] + 4 * b[2] + 2 * b[3] + b[4] IN SubStr("0123456789ABCDEF", x + 1, x + 1)
RECURSIVE HexOf(_)
HexOf(b)   == IF Len(b) = 0 THEN "" ELSE StrCat(NibbleChar(SubSeq(b, 1, 4)), HexOf(SubSeq(b, 5, Len(b))))
FiftHex(b) == IF Len(b) % 4 = 0 THEN HexOf(b) ELSE StrCat(HexOf(b \o <<1>> \o Zeros(3 - (Len(b) % 4))), "_")
AnyText(a)  == IF a.any = 1 THEN StrCat(":Anycast(", StrCat(ToString(a.ad), StrCat(",", StrCat(a.ap, ")")))) ELSE ""
AddrText(a) == CASE a.kind = "none"   -> ""
                 [] a.kind = "extern" -> FiftHex(StrToBits(a.bits))
                 [] a.kind = "std"    -> StrCat(a.wc, StrCat(":", StrCat(HexOfBits(StrToBits(a.bits)), AnyText(a))))
                 [] a.kind = "var"    -> StrCat(a.wc, StrCat(":", StrCat(FiftHex(StrToBits(a.bits)), AnyText(a))))
\* Model-level lead: two different address values with one spelling cannot both survive the round trip,
\* whatever the decoder does.  (This is where the statement's exclusion comes from.)
AddrCore == { a \in AddrValues : StrLen(a.bits) \in {0, 4, 256} /\ a.wc \in {"0", "-1", "128"} /\ a.any = 0 }
AddrCollisions == { p \in AddrCore \X AddrCore : p[1] # p[2] /\ AddrText(p[1]) = AddrText(p[2]) }
\* addresses just outside the domain, spelled canonically
AddrOutside ==
  LET z == BitsToStr(Zeros(256))  b8 == "10101010" IN
  { [cls |-> StrCat(k, StrCat(":anycast-depth", StrCat(ToString(d[1]), StrCat(",pfx", d[2])))),
     v |-> Addr(k, "0", IF k = "std" THEN z ELSE b8, 1, d[1], d[2])]
    : k \in {"std", "var"}, d \in { <<31, "0">>, <<0, "0">>, <<5, "32">>, <<30, "1073741824">>, <<32, "0">> } }
  \cup { [cls |-> "extern:len512", v |-> NoAny("extern", "0", BitsToStr(Zeros(512)))],
         [cls |-> "var:len512",    v |-> NoAny("var", "0", BitsToStr(Zeros(512)))] }
\* documents that cannot be an encoding of any value of the type
RECURSIVE OutsideDocs(_)
OutsideDocs(ty) ==
  CASE ty.t \in DecFamilies  -> UNION { { [cls |-> StrCat(o.cls, IF IsQuoted(d) THEN ":quoted" ELSE ":bare"), doc |-> d] : d \in IntDocs(o.v) } : o \in IntOutside(ty) }
    [] ty.t \in ByteFamilies -> LET n == NBytes(ty) IN
                                { [cls |-> "short", doc |-> Quote(StrToCodes(HexOfBits(Alt(8 * (n - 1)))))],
                                  [cls |-> "long",  doc |-> Quote(StrToCodes(HexOfBits(Alt(8 * (n + 1)))))],
                                  [cls |-> "odd",   doc |-> Quote(Tail(StrToCodes(HexOfBits(Alt(8 * n)))))],
                                  [cls |-> "empty", doc |-> Quote(<<>>)] }
    [] ty.t = "addr"         -> { [cls |-> o.cls, doc |-> Quote(StrToCodes(AddrText(o.v)))] : o \in AddrOutside }
    [] ty.t = "maybe"        -> OutsideDocs(ty.of)
    [] OTHER -> {}
=============================================================================
