------------------------------- MODULE KeyOps -------------------------------
(* C05: the three operations every dictionary key type offers to Hashmap:     *)
(* FixedSize, Equal and Compare.                                               *)
(*                                                                             *)
(* A key type is (kind, n): a key is its n-bit encoding (sequence of 0/1), the *)
(* very bits that label the edges of the Patricia tree (Dict.tla).             *)
(*   "u"  uintN    unsigned n-bit integer, big-endian                          *)
(*   "i"  intN     two's-complement n-bit integer, big-endian                  *)
(*   "b"  bitsN    n-bit byte string (n a multiple of 8)                       *)
(*   "a"  workchain:int32 address:bits256, the 288-bit key of                  *)
(*        suspended_address_list (block.tlb: HashmapE 288 Unit)                *)
(*                                                                             *)
(* What the dictionary needs of them (tlb/hashmap.go, interface fixedSize):    *)
(*   FixedSize  = n, the number of key bits the tree consumes; the codec of    *)
(*                the type reads and writes exactly n bits.                    *)
(*   Equal      decides whether two keys are the same key, i.e. whether their  *)
(*                encodings are equal (Get / Put-overwrite use nothing else).  *)
(*   Compare    gives Put its insertion point: (s, ok) with ok = TRUE for two  *)
(*                keys of one type and s < 0 / = 0 / > 0 as a < b / a = b /    *)
(*                a > b in a STRICT TOTAL ORDER CONSISTENT WITH Equal          *)
(*                (s = 0 exactly when Equal).  The order is the order of the   *)
(*                VALUES: numeric for the integer kinds (two's complement for  *)
(*                "i"), byte-wise big-endian for "b", lexicographic on         *)
(*                (workchain, address) for "a".                                *)
(*   A value of another type is never Equal and not comparable (ok = FALSE).   *)
(*                                                                             *)
(* Relation to "listed in ascending key-bit order" (C05): for the kinds u, b   *)
(* the value order IS the key-bit order (lemma BitOrderKinds), so Put keeps a  *)
(* decoded listing ascending in key bits; for "i" it differs exactly between   *)
(* keys of different sign (lemma SignedVsBits) - which is why the encoder may  *)
(* not rely on the in-memory order of a decoded-then-updated dictionary.       *)
EXTENDS Dict, BitOps

KeyKinds == {"u", "i", "b", "a"}
KeyFixedSize(kind, n) == n
KeyEqual(a, b) == a = b

\* two's complement: a negative value (top bit 1) is below every non-negative one; within one sign the value grows
\* with the unsigned reading of the pattern
SignedLess(a, b) == IF a[1] # b[1] THEN a[1] = 1 ELSE BitsLess(a, b)
\* unsigned big-endian integers and big-endian byte strings of one length: the first differing bit decides
UnsignedLess(a, b) == BitsLess(a, b)

\* the (workchain, address) key: the address part decides between keys of one workchain; between workchains
\* "lexicographic" admits the numeric order of the int32 and the order of its 32-bit encoding (they differ only
\* when the signs differ): the statement fixes neither, both are strict total orders consistent with Equal
AddrLessNum(a, b)  == LET wa == SubSeq(a, 1, 32)  wb == SubSeq(b, 1, 32) IN
                      IF wa # wb THEN SignedLess(wa, wb) ELSE BitsLess(SubSeq(a, 33, Len(a)), SubSeq(b, 33, Len(b)))
AddrLessBits(a, b) == BitsLess(a, b)

Sgn(x) == IF x < 0 THEN -1 ELSE IF x > 0 THEN 1 ELSE 0
SignOf(less(_, _), a, b) == IF a = b THEN 0 ELSE IF less(a, b) THEN -1 ELSE 1
\* the set of results Compare may report (a sign) for two keys of type (kind, n)
KeySigns(kind, a, b) ==
  CASE kind = "u" -> {SignOf(UnsignedLess, a, b)}
    [] kind = "i" -> {SignOf(SignedLess, a, b)}
    [] kind = "b" -> {SignOf(UnsignedLess, a, b)}
    [] kind = "a" -> {SignOf(AddrLessNum, a, b), SignOf(AddrLessBits, a, b)}

\* ------------------------------------------------------------------ lemmas
\* (checked by TLC at the start of KeyOps_Gen on every width up to W)
BitSeqs(n) == [1..n -> {0, 1}]
TwosVal(a) == BitsToNat(a) - (IF a[1] = 1 THEN 2 ^ Len(a) ELSE 0)
StrictTotal(less(_, _), S) ==
  /\ \A a \in S : ~less(a, a)
  /\ \A a, b \in S : (a # b) => (less(a, b) /\ ~less(b, a)) \/ (less(b, a) /\ ~less(a, b))
  /\ \A a, b, c \in S : (less(a, b) /\ less(b, c)) => less(a, c)
OrdersAreStrictTotal(W) == \A n \in 1..W : StrictTotal(SignedLess, BitSeqs(n)) /\ StrictTotal(UnsignedLess, BitSeqs(n))
SignedIsNumeric(W)   == \A n \in 1..W : \A a, b \in BitSeqs(n) : SignedLess(a, b) <=> TwosVal(a) < TwosVal(b)
UnsignedIsNumeric(W) == \A n \in 1..W : \A a, b \in BitSeqs(n) : UnsignedLess(a, b) <=> BitsToNat(a) < BitsToNat(b)
\* byte strings: byte-wise comparison, most significant byte first, each byte as an unsigned number
RECURSIVE BytesLess(_, _)
BytesLess(x, y) == IF Len(x) = 0 THEN FALSE ELSE IF x[1] # y[1] THEN x[1] < y[1] ELSE BytesLess(Tail(x), Tail(y))
BytesAreBytewise(S) == \A x, y \in S : BytesLess(x, y) <=> UnsignedLess(BytesToBits(x), BytesToBits(y))
\* value order versus key-bit order
BitOrderKinds(W) == \A n \in 1..W : \A a, b \in BitSeqs(n) : UnsignedLess(a, b) <=> BitsLess(a, b)
SignedVsBits(W)  == \A n \in 1..W : \A a, b \in BitSeqs(n) : (SignedLess(a, b) # BitsLess(a, b)) <=> (a[1] # b[1])

\* ------------------------------------------------------- key text (JSON) forms
\* The text that names a key in the JSON form of a dictionary: the decimal numeral of the value for the integer
\* kinds, the hexadecimal form of the bytes for "b", "<workchain>:<hex address>" for "a".
IsDecText(t, signed) ==
  LET c == StrToCodes(t)
      neg == signed /\ Len(c) >= 1 /\ c[1] = 45
      d == IF neg THEN Tail(c) ELSE c
  IN Len(d) >= 1 /\ \A i \in 1..Len(d) : d[i] \in 48..57
IsHexText(t) == LET c == StrToCodes(t) IN Len(c) % 2 = 0 /\ \A i \in 1..Len(c) : c[i] \in (48..57) \cup (97..102) \cup (65..70)
\* t is the text of a key of type (kind, n) / the key bits it denotes (meaningful only when KeyTextOK)
AddrSplit(t) == LET L == StrLen(t) IN [w |-> SubStr(t, 1, L - 65), h |-> SubStr(t, L - 63, L)]
KeyTextOK(kind, n, t) ==
  CASE kind = "u" -> IsDecText(t, FALSE) /\ UFits(t, n)
    [] kind = "i" -> IsDecText(t, TRUE) /\ SFits(t, n)
    [] kind = "b" -> IsHexText(t) /\ StrLen(t) * 4 = n
    [] kind = "a" -> /\ StrLen(t) >= 66 /\ SubStr(t, StrLen(t) - 64, StrLen(t) - 64) = ":"
                     /\ IsDecText(AddrSplit(t).w, TRUE) /\ SFits(AddrSplit(t).w, 32) /\ IsHexText(AddrSplit(t).h)
    [] OTHER -> FALSE
KeyTextBits(kind, n, t) ==
  CASE kind = "u" -> UBits(t, n)
    [] kind = "i" -> SBits(t, n)
    [] kind = "b" -> BytesToBits(HexToBytes(t))
    [] kind = "a" -> SBits(AddrSplit(t).w, 32) \o BytesToBits(HexToBytes(AddrSplit(t).h))
=============================================================================
