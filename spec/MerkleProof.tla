----------------------------- MODULE MerkleProof -----------------------------
(* Merkle proofs over cell trees (C18).  Written from the TVM / TON documents: *)
(*   * a Merkle-proof cell is the exotic cell  03 || Hash_0(X) || Depth_0(X)    *)
(*     (280 data bits) with exactly one reference, the "virtual root" X';        *)
(*     its level mask is mask(X') >> 1 and it is valid iff Hash_0(X') and        *)
(*     Depth_0(X') are the stored values (Cells!WellFormedCell);                 *)
(*   * X' is X with some sub-trees replaced by pruned-branch cells               *)
(*     01 || mask || Hash_0(sub-tree) || Depth_0(sub-tree)  (mask = 1, no refs   *)
(*     when the replaced sub-tree has level 0); the level mask of every ordinary  *)
(*     ancestor is the OR of its children's masks;                               *)
(*   * level-0 hashes "see through" pruned branches, so Hash_0(X') = Hash(X).    *)
(* Nothing here is taken from the Go code.                                        *)
(*                                                                               *)
(* DOMAIN.  The source of a prover (table T, root row R) is a level-0 tree of     *)
(* ordinary cells, or a PARTIAL VIEW of one: the tree under an earlier proof,     *)
(* i.e. ordinary cells and pruned-branch cells 01 01 || hash || depth of level 1   *)
(* with well-formed masks (SourceOK).  Everything below is stated with the        *)
(* LEVEL-0 hash / depth of Cells!InfoTable (h[1], d[1]): a pruned branch answers   *)
(* at level 0 with the hash / depth it stores, an ordinary cell above it "sees     *)
(* through" it, so the level-0 hash / depth of any node of a partial view are      *)
(* those of the ORIGINAL sub-tree it stands for.  Hence, for a partial source:     *)
(* the Merkle-proof cell stores the hash / depth of the original root; pruning a   *)
(* position that already holds a pruned branch yields that same pruned branch;      *)
(* pruning above one stores the original sub-tree's hash / depth; a pruned branch   *)
(* that is kept stays a level-1 pruned branch and every ancestor's mask has bit 0.  *)
(*                                                                               *)
(* MERKLE CELLS BELOW THE ROOT.  A source may also hold Merkle-proof / Merkle-     *)
(* update cells below its root (a stored block proof, say): ExoticSourceOK.  A     *)
(* Merkle cell hashes its children ONE LEVEL UP (Cells!CellInfo), so a position    *)
(* with k Merkle cells strictly above it is pruned by a pruned branch of level      *)
(* k + 1 that answers the levels 0..k with the hashes / depths of the replaced      *)
(* sub-tree (PrunedCellK; k = 0 is the ordinary 01 01 || hash || depth).  A level-1 *)
(* pruned branch beneath a Merkle cell answers, at the level the Merkle cell asks    *)
(* for, with its OWN hash: the level-0 hash of the pruned tree is then no longer     *)
(* the hash the proof carries - not a proof.  Proof(T, R, PS) is defined for these   *)
(* sources with that level arithmetic.  A prover need not support them:            *)
(*   CreateProof may REFUSE (error, no bag) iff a Merkle cell of the source is      *)
(*   REACHED by the prune set: it occurs at a position no proper prefix of which    *)
(*   is in PS (the prover would have to copy it, or prune it as a whole)            *)
(*   (MerkleReached).  A Merkle cell strictly below a pruned position is never      *)
(*   looked at: no refusal.  Whenever CreateProof does not refuse, the bag is       *)
(*   judged as always: a proof that does not hash, at level zero, to the carried    *)
(*   root hash is a violation, whatever lies beneath an exotic cell.                *)
(*                                                                               *)
(* PROVER AND SESSIONS.  A prover is the immutable pair (T, R).  Every Cursor()    *)
(* (and every ProveKeyInHashmap) opens a session whose prune set is EMPTY; only   *)
(* the Prunes made through cursors of that session count for its proof, however    *)
(* many proofs the prover made before or makes concurrently (section a').          *)
(*                                                                               *)
(* NODES ARE OCCURRENCES.  A cursor position is a PATH: the sequence of          *)
(* reference positions (1-based) followed from the root.  A cell that occurs     *)
(* several times in the DAG (shared sub-tree, or two structurally identical      *)
(* children) is several nodes.  Prune adds the PATH of the cursor to the prune   *)
(* set; Proof(T, R, PS) prunes exactly the occurrences in PS.                    *)
(* What the specification says about a sub-tree that occurs several times:       *)
(*   - Cells are values: a table cannot distinguish "the same cell twice" from   *)
(*     "two equal cells", and neither can a bag of cells.  A prover that, asked   *)
(*     to prune one occurrence, also prunes other occurrences OF THE SAME CELL    *)
(*     VALUE still produces a proof that commits to the root and whose pruned     *)
(*     cells are right; the cursor judgement (WalkReason) therefore accepts any   *)
(*     produced prune set PS' with  PS covered by PS'  and  every path of PS'     *)
(*     leading to a cell equal to one the cursor pruned (PS <= PS' <= Closure).   *)
(*   - The dictionary judgement (ProofOK) does not look at prune sets at all:     *)
(*     it demands that the commitment is right AND that the value of the proven   *)
(*     key can be read from the proof.  Over-pruning is thus acceptable only if   *)
(*     the proven path survives.  A prover that prunes the sibling of the path    *)
(*     "by cell value" and thereby prunes the path itself (the two children of a  *)
(*     fork are equal cells) violates ProofOK: the value is gone.                 *)
EXTENDS Dict, Boc

\* ------------------------------------------------------------------- paths
PathPrefix(p, q) == Len(p) <= Len(q) /\ SubSeq(q, 1, Len(p)) = p
RECURSIVE NodeAt(_, _, _)
NodeAt(T, j, p) == IF Len(p) = 0 THEN j ELSE NodeAt(T, T[j].r[p[1]], Tail(p))
LevelZero(T) == \A i \in 1..Len(T) : T[i].x = Ordinary /\ T[i].m = 0
\* a prover source: level-0 tree or partial view of one (pruned branches of level 1 with one stored hash / depth)
IsPrunedL1(c) == c.x = Pruned /\ c.m = 1 /\ Len(c.b) = 288 /\ Len(c.r) = 0
SourceOK(T)  == (\A i \in 1..Len(T) : (T[i].x = Ordinary /\ T[i].m \in {0, 1}) \/ IsPrunedL1(T[i])) /\ WellFormed(T)
MerkleCell(c) == c.x \in {MerkleProof, MerkleUpdate}
HasMerkle(T) == \E i \in 1..Len(T) : MerkleCell(T[i])
\* a level-0 tree of ordinary cells with well-formed Merkle-proof / Merkle-update cells below the root (and, beneath those,
\* whatever a well-formed Merkle cell may hold: pruned branches of the level its Merkle depth allows)
ExoticSourceOK(T, R) == /\ \A i \in 1..Len(T) : T[i].x \in {Ordinary, Pruned, MerkleProof, MerkleUpdate}
                        /\ T[R].x = Ordinary /\ T[R].m = 0 /\ HasMerkle(T) /\ WellFormed(T)
\* a CUT from beneath Merkle cells: the tree found under two or more nested Merkle cells of some proof, taken as a source of
\* its own.  Ordinary cells of any level and pruned branches of any well-formed mask (a branch of mask 2 or 4 answers level 0
\* with its own representation hash: Cells!InfoTable), no Merkle cell.  Proof(T, R, PS) needs no new rule: a position is
\* pruned by 01 01 || Hash_0 || Depth_0 (PrunedCellK with k = 0 stores the levels below 1 only), a kept cell's mask is the
\* OR of its children's - which now differs from their maximum (a new branch of mask 1 beside a kept one of mask 2 gives 3).
HighViewOK(T, R) == /\ \A i \in 1..Len(T) : T[i].x \in {Ordinary, Pruned}
                    /\ T[R].x = Ordinary /\ \E i \in 1..Len(T) : T[i].x = Pruned /\ T[i].m \notin {0, 1}
                    /\ WellFormed(T)
\* (sources with Merkle cells are not partial views: their pruned branches lie beneath Merkle cells, the root has level 0)
Partial(T)   == ~HasMerkle(T) /\ \E i \in 1..Len(T) : T[i].x = Pruned
\* some Merkle cell occurs at a position no proper prefix of which is in PS
RECURSIVE MerkleReachedAt(_, _, _, _)
MerkleReachedAt(T, j, path, PS) ==
  IF MerkleCell(T[j]) THEN TRUE
  ELSE IF path \in PS THEN FALSE
  ELSE \E k \in 1..Len(T[j].r) : MerkleReachedAt(T, T[j].r[k], Append(path, k), PS)
MerkleReached(T, R, PS) == MerkleReachedAt(T, R, <<>>, PS)
\* PS has a position strictly beneath a Merkle cell (only used to name findings)
RECURSIVE MerkleAbove(_, _, _)
MerkleAbove(T, j, p) == Len(p) > 0 /\ (MerkleCell(T[j]) \/ MerkleAbove(T, T[j].r[p[1]], Tail(p)))
PrunesBeneathMerkle(T, R, PS) == \E p \in PS : MerkleAbove(T, R, p)
\* the paths of PS that are not below another path of PS (the ones that become pruned-branch cells)
Minimal(PS) == {p \in PS : ~\E q \in PS : q # p /\ PathPrefix(q, p)}

\* --------------------------------------------------- (b) the proof of a prune set
\* the pruned branch that replaces a sub-tree of mask mS (hashes / depths: info) with k Merkle cells strictly above it:
\* level k + 1 (bit k), and below that the significant levels <= k of the sub-tree, whose hashes / depths it stores
PrunedCellK(mS, info, k) ==
  LET low == ApplyM(mS, k)
      m   == 2 ^ k + low
      lv  == Levels(low)
      hs  == FoldLeft(LAMBDA a, l : a \o info.h[l + 1], <<>>, lv)
      ds  == FoldLeft(LAMBDA a, l : a \o U16(info.d[l + 1]), <<>>, lv)
  IN [b |-> BytesToBits(<<1, m>> \o hs \o ds), x |-> Pruned, m |-> m, r |-> <<>>]
PrunedCell(info) == PrunedCellK(0, info, 0)              \* 01 01 || Hash_0 || Depth_0
Shift(TT, d) == [c \in 1..Len(TT) |-> [TT[c] EXCEPT !.r = [q \in 1..Len(TT[c].r) |-> TT[c].r[q] + d]]]
\* the pruned tree below node (row j reached by `path`, md Merkle cells strictly above it), as a tree-shaped table, root
\* first.  A position that already holds a pruned branch keeps it when pruned.
RECURSIVE PTree(_, _, _, _, _, _)
PTree(T, I, j, path, PS, md) ==
  IF path \in PS THEN (IF T[j].x = Pruned THEN << T[j] >> ELSE << PrunedCellK(T[j].m, I[j], md) >>)
  ELSE LET nr   == Len(T[j].r)
           ks   == [k \in 1..nr |-> k]
           md2  == IF MerkleCell(T[j]) THEN md + 1 ELSE md
           subs == FoldLeft(LAMBDA a, k : Append(a, PTree(T, I, T[j].r[k], Append(path, k), PS, md2)), <<>>, ks)
           offs == FoldLeft(LAMBDA a, k : Append(a, IF k = 1 THEN 1 ELSE a[k - 1] + Len(subs[k - 1])), <<>>, ks)
           tail == FoldLeft(LAMBDA a, k : a \o Shift(subs[k], offs[k]), <<>>, ks)
           km   == FoldLeft(LAMBDA a, k : Append(a, subs[k][1].m), <<>>, ks)
       IN << [b |-> T[j].b, x |-> T[j].x, m |-> DerivedMask(T[j], km), r |-> FoldLeft(LAMBDA a, k : Append(a, offs[k] + 1), <<>>, ks)] >> \o tail
\* the cell table a conforming prover produces: row 1 is the Merkle-proof cell
ProofI(T, I, R, PS) ==                                   \* I = InfoTable(T)
  LET body == PTree(T, I, R, <<>>, PS, 0)
  IN << [b |-> BytesToBits(<<3>> \o I[R].h[1] \o U16(I[R].d[1])), x |-> MerkleProof, m |-> body[1].m \div 2, r |-> <<2>>] >>
        \o Shift(body, 1)
Proof(T, R, PS) == ProofI(T, InfoTable(T), R, PS)
\* the tree under a proof table (row 1 = Merkle-proof cell, row 2 = its child) as a table of its own: a partial view
Body(PT) == Shift(SubSeq(PT, 2, Len(PT)), 0 - 1)

\* ------------------------------------------------ (a) the cursor state machine
\* state: [T, root, path, ps].  A cursor value is a position; every cursor obtained from one MerkleProver.Cursor()
\* shares the prune set.  Up = continue with the cursor value held before the last Ref (values are immutable).
CInit(T, R)      == [T |-> T, root |-> R, path |-> <<>>, ps |-> {}]
Here(s)          == NodeAt(s.T, s.root, s.path)
RefEnabled(s, i) == i \in 1..Len(s.T[Here(s)].r)
Ref(s, i)        == [s EXCEPT !.path = Append(@, i)]
UpEnabled(s)     == Len(s.path) > 0
Up(s)            == [s EXCEPT !.path = SubSeq(@, 1, Len(@) - 1)]
Prune(s)         == [s EXCEPT !.ps = @ \cup {s.path}]
CreateProof(s)   == Proof(s.T, s.root, s.ps)
\* recorded operations: [op |-> "ref", i |-> 0-based position] | [op |-> "up"] | [op |-> "prune"]
OpEnabled(s, o) == CASE o.op = "ref" -> RefEnabled(s, o.i + 1) [] o.op = "up" -> UpEnabled(s) [] o.op = "prune" -> TRUE [] OTHER -> FALSE
Apply(s, o)     == CASE o.op = "ref" -> Ref(s, o.i + 1) [] o.op = "up" -> Up(s) [] OTHER -> Prune(s)
RunOps(T, R, ops) == FoldLeft(LAMBDA a, o : IF a.ok /\ OpEnabled(a.s, o) THEN [ok |-> TRUE, s |-> Apply(a.s, o)] ELSE [ok |-> FALSE, s |-> a.s],
                              [ok |-> TRUE, s |-> CInit(T, R)], ops)

\* ------------------------------------------------------- reading a proof bag
\* (proof row, original row, Merkle cells strictly above) triples met when the proof's tree is laid over the original along
\* equal reference positions; descent stops at pruned-branch cells.  P is topological, so one pass over the rows in order
\* finds them all.
Pairs(P, i0, T, j0) ==
  FoldLeft(LAMBDA acc, i :
             acc \cup UNION { IF P[i].x = Pruned \/ Len(P[i].r) # Len(T[q[2]].r) THEN {}
                              ELSE {<<P[i].r[k], T[q[2]].r[k], IF MerkleCell(T[q[2]]) THEN q[3] + 1 ELSE q[3]>> : k \in 1..Len(P[i].r)}
                            : q \in {pp \in acc : pp[1] = i} },
           {<<i0, j0, 0>>}, [i \in 1..Len(P) |-> i])
\* a pruned-branch cell standing for original row j (md Merkle cells above) is the pruned branch of level md + 1 that stores
\* j's hashes / depths of the levels 0..md (md = 0: mask 1, level-0 hash and depth) - or the very pruned branch the source has
\* there; any other cell is the original cell
PairOK(P, IT, T, i, j, md) ==
  IF P[i].x = Pruned
    THEN LET pc == IF T[j].x = Pruned THEN T[j] ELSE PrunedCellK(T[j].m, IT[j], md)
         IN P[i].m = pc.m /\ Len(P[i].r) = 0 /\ DataBytes(P[i].b) = DataBytes(pc.b)
    ELSE P[i].b = T[j].b /\ P[i].x = T[j].x /\ Len(P[i].r) = Len(T[j].r)
\* the occurrences (paths) at which the proof has a pruned-branch cell
RECURSIVE PrunedPaths(_, _, _, _, _)
PrunedPaths(P, i, T, j, path) ==
  IF P[i].x = Pruned THEN {path}
  ELSE IF Len(P[i].r) # Len(T[j].r) THEN {}
  ELSE UNION {PrunedPaths(P, P[i].r[k], T, T[j].r[k], Append(path, k)) : k \in 1..Len(P[i].r)}
\* S (root RS) is a view of the tree T0 (root R0, infos I0): the same cells along equal positions, and every pruned branch
\* of S stores the level-0 hash / depth of the node of T0 at its position
ViewOf(S, RS, T0, I0, R0) == \A q \in Pairs(S, RS, T0, R0) : PairOK(S, I0, T0, q[1], q[2], q[3])

\* dictionary lookup by walking edge labels along the key; total on any table
\*   [ok |-> FALSE, why] (not a readable dictionary along this key: pruned / exotic cell, bad label, bad fork)
\*   [ok |-> TRUE, found |-> FALSE] | [ok |-> TRUE, found |-> TRUE, v |-> [b |-> value bits, r |-> value refs (rows)], forks |-> <<fork row, position taken>> of the forks passed, leaf |-> row]
RECURSIVE LookupEdge(_, _, _, _, _)
LookupEdge(T, i, n, key, forks) ==
  LET c == T[i] IN
  IF c.x # Ordinary THEN [ok |-> FALSE, why |-> IF c.x = Pruned THEN "pruned" ELSE "exotic", forks |-> forks]
  ELSE LET lb == Label(c.b, n) IN
       IF ~lb.ok THEN [ok |-> FALSE, why |-> "label", forks |-> forks]
       ELSE LET ls == Len(lb.s) IN
            IF SubSeq(key, 1, ls) # lb.s THEN [ok |-> TRUE, found |-> FALSE, forks |-> forks]
            ELSE IF ls = n THEN [ok |-> TRUE, found |-> TRUE, v |-> [b |-> SubSeq(c.b, lb.used + 1, Len(c.b)), r |-> c.r], forks |-> forks, leaf |-> i]
            ELSE IF Len(c.r) # 2 \/ lb.used # Len(c.b) THEN [ok |-> FALSE, why |-> "fork", forks |-> forks]
            ELSE LookupEdge(T, c.r[key[ls + 1] + 1], n - ls - 1, SubSeq(key, ls + 2, n), Append(forks, <<i, key[ls + 1] + 1>>))
Lookup(T, R, n, key) == LookupEdge(T, R, n, key, <<>>)
\* the path (reference positions) a lookup result followed
PathOf(lk) == [f \in 1..Len(lk.forks) |-> lk.forks[f][2]]

\* ----------------------------------------------------------- (c) judgements
\* [reason |-> "" when the bag B is a Merkle proof that commits to (T, R) with right pruned cells, else the first failing clause,
\*  psp |-> the occurrences at which the bag has pruned-branch cells ({} if it cannot be read),
\*  bad |-> for "value:pruned": the path of the pruned branch met on the way to the key]
\* k = <<>> : no dictionary clause (cursor walks).  Otherwise (n, k): the value of key k must be readable from the proof
\* and be the value the original holds.
PV(r, psp, bad) == [reason |-> r, psp |-> psp, bad |-> bad]
\* what must hold before hashes can be computed at all
ShapeOK(P) == Topological(P) /\ \A i \in 1..Len(P) : BasicOK(P[i])
\* every cell carries the level mask its type, data and children demand (Cells!DerivedMask)
MasksOK(P) == LET W == WithMasks(P) IN \A i \in 1..Len(P) : W[i].m = P[i].m
ProofVerdict(B, T, IT, R, n, k) ==
  LET pr == Parse(B) IN
  IF ~pr.ok THEN PV("parse", {}, <<>>)
  ELSE IF Len(pr.roots) # 1 THEN PV("roots", {}, <<>>)
  ELSE
  LET P == pr.T  rt == pr.roots[1] IN
  IF ~ShapeOK(P) THEN PV("well-formed", {}, <<>>)
  ELSE IF ~(P[rt].x = MerkleProof /\ Len(P[rt].r) = 1 /\ Len(P[rt].b) = 280) THEN PV("root-type", {}, <<>>)
  \* the specific clauses come first so that a finding is named by what is wrong; Cells!WellFormed (which contains them:
  \* masks, pruned-branch layout, Merkle-proof cell = level-0 hash / depth of its child) closes the list
  ELSE IF ~MasksOK(P) THEN PV("level-mask", {}, <<>>)
  ELSE IF \E i \in 1..Len(P) : ~HashableCell(P[i]) THEN PV("well-formed", {}, <<>>)
  ELSE
  LET IP   == InfoTable(P)
      ch   == P[rt].r[1]
      data == DataBytes(P[rt].b)
      prs  == Pairs(P, ch, T, R)
      reach == Reach(pr)
      psp  == PrunedPaths(P, ch, T, R, <<>>)
  IN IF SubSeq(data, 2, 33) # IT[R].h[1] THEN PV("stored-hash", {}, <<>>)
     ELSE IF <<data[34], data[35]>> # U16(IT[R].d[1]) THEN PV("stored-depth", {}, <<>>)
     ELSE IF \E q \in prs : P[q[1]].x = Pruned /\ ~PairOK(P, IT, T, q[1], q[2], q[3]) THEN PV("pruned-cell", {}, <<>>)
     \* a cell that is kept is the source's cell: same data bits, type, number of references
     ELSE IF \E q \in prs : ~PairOK(P, IT, T, q[1], q[2], q[3]) THEN PV("kept-cell", {}, <<>>)
     ELSE IF \E i \in reach : P[i].x = Pruned /\ ~\E q \in prs : q[1] = i THEN PV("pruned-cell", {}, <<>>)
     ELSE IF IP[ch].h[1] # IT[R].h[1] THEN PV("level0-hash", {}, <<>>)
     ELSE IF IP[ch].d[1] # IT[R].d[1] THEN PV("level0-depth", {}, <<>>)
     ELSE IF ~WellFormed(P) THEN PV("well-formed", {}, <<>>)
     \* cross-check with (b): the bag is exactly the proof of the prune set it exhibits
     ELSE IF ReprHash(IP[rt]) # ReprHash(InfoTable(ProofI(T, IT, R, psp))[1]) THEN PV("not-the-proof-of-its-prune-set", psp, <<>>)
     ELSE IF Len(k) = 0 THEN PV("", psp, <<>>)
     ELSE
     LET a == Lookup(P, ch, n, k)
         o == Lookup(T, R, n, k)
     IN IF ~a.ok THEN PV(StrCat("value:", a.why), psp, PathOf(a))
        ELSE IF ~a.found THEN PV("value:not-found", psp, <<>>)
        ELSE IF ~(o.ok /\ o.found) THEN PV("value:original-has-none", psp, <<>>)
        ELSE IF a.v.b # o.v.b THEN PV("value:bits", psp, <<>>)
        ELSE IF Len(a.v.r) # Len(o.v.r) THEN PV("value:refs", psp, <<>>)
        \* the value's own sub-trees must be revealed as completely as the source has them (highest-level hash = source's)
        ELSE IF \E j \in 1..Len(a.v.r) : ReprHash(IP[a.v.r[j]]) # ReprHash(IT[o.v.r[j]]) THEN PV("value:refs", psp, <<>>)
        ELSE PV("", psp, <<>>)
ProofReason(B, T, IT, R, n, k) == ProofVerdict(B, T, IT, R, n, k).reason

\* The judgement of a proof bag B for (dictionary root R of table T, key width n, key k)
ProofOK(B, T, R, n, k) == ProofReason(B, T, InfoTable(T), R, n, k) = ""

\* Cursor walks: the bag must commit to (T, R) and be the proof of a prune set PS' with PS <= PS' <= Closure(PS).
\* [reason, sem |-> which reading of Prune the prover exhibited (statistics), hash |-> proof root hash, psp |-> PS',
\*  extra |-> the paths of PS' that no Prune of THIS cursor accounts for]
WalkVerdict(B, T, IT, R, PS) ==
  LET base == ProofVerdict(B, T, IT, R, 0, <<>>) IN
  IF base.reason # "" THEN [reason |-> base.reason, sem |-> "none", hash |-> <<>>, psp |-> base.psp, extra |-> {}]
  ELSE LET pr  == Parse(B)
           PSp == base.psp
           \* pruned branches the source itself has at that position need no Prune
           New == {q \in PSp : T[NodeAt(T, R, q)].x # Pruned}
           extra == {q \in New : ~\E p \in PS : ReprHash(IT[NodeAt(T, R, q)]) = ReprHash(IT[NodeAt(T, R, p)])}
       IN [reason |-> IF \E p \in PS : ~\E q \in PSp : PathPrefix(q, p) THEN "asked-but-not-pruned"
                      ELSE IF extra # {} THEN "pruned-but-not-asked"
                      ELSE "",
           sem |-> IF New = {p \in Minimal(PS) : T[NodeAt(T, R, p)].x # Pruned} THEN "occurrence" ELSE "cell-value",
           hash |-> ReprHash(InfoTable(pr.T)[pr.roots[1]]), psp |-> PSp, extra |-> extra]
WalkReason(B, T, IT, R, PS) == WalkVerdict(B, T, IT, R, PS).reason

\* ------------------------------------------------ (a') the prover: sessions and cursor values
\* A MerkleProver is the immutable pair (T, R).  Every Cursor() opens a SESSION with an EMPTY prune set and returns a cursor
\* VALUE at the root.  Ref(i) on a cursor value returns a NEW cursor value one step further down; it does not change the
\* value it was applied to, nor any other value: a program may hold any number of cursor values of a session (take all
\* children of a node first, use them later, in any order) and each keeps denoting the position it was created for.
\* Prune through a cursor value adds ITS position to the session's prune set.  CreateProof(any cursor value of session c) is
\* Proof(T, R, ps of session c): prunes made through another session of the same prover - earlier or concurrent - have no
\* effect.  ProveKeyInHashmap opens its own session.
\* sess: session id -> [cur |-> (cursor handle -> path), ps |-> prune set, last, held]; handle 0 is the value returned by
\* Cursor(); last = the handle created most recently, held = some Ref / Prune went through a handle that was not the
\* most recent one (a cursor value that was kept while others were derived) - only used to name findings
NewSession(sess, c)  == (c :> [cur |-> (0 :> <<>>), ps |-> {}, last |-> 0, held |-> FALSE]) @@ sess
HasCursor(sess, c, h) == c \in DOMAIN sess /\ h \in DOMAIN sess[c].cur
SessRefEnabled(T, R, sess, c, h, i) == HasCursor(sess, c, h) /\ i \in 1..Len(T[NodeAt(T, R, sess[c].cur[h])].r)
\* nh := h.Ref(i): handle nh (new, or a program variable that is assigned again) now denotes the child position
SessRef(sess, c, h, nh, i) == [sess EXCEPT ![c].cur = (nh :> Append(sess[c].cur[h], i)) @@ @, ![c].last = nh, ![c].held = @ \/ h # sess[c].last]
SessPrune(sess, c, h) == [sess EXCEPT ![c].ps = @ \cup {sess[c].cur[h]}, ![c].held = @ \/ h # sess[c].last]
SessProof(T, R, sess, c) == Proof(T, R, sess[c].ps)

\* The prune set of a proof that keeps exactly the paths of the keys K1 of a dictionary: the siblings along those paths
\* that lead to no key of K1 (a "proof for some keys"; the tree under it is a partial dictionary)
KeepKeysPruneSet(T, R, n, K1) ==
  LET KP == {PathOf(Lookup(T, R, n, k)) : k \in K1}
      sibs == UNION {{Append(SubSeq(q, 1, f - 1), 3 - q[f]) : f \in 1..Len(q)} : q \in KP}
  IN {a \in sibs : ~\E q \in KP : PathPrefix(a, q)}

\* The sibling positions along the way of key k when forks are taken by the key's bits whatever the labels say (a prover
\* may have visited - and pruned - them before it finds out that the key is absent).  Only used to name findings.
RECURSIVE BlindSibs(_, _, _, _, _)
BlindSibs(T, i, n, key, path) ==
  LET c == T[i]  lb == Label(c.b, n) IN
  IF c.x # Ordinary \/ ~lb.ok THEN {}
  ELSE LET ls == Len(lb.s) IN
       IF ls >= n \/ Len(c.r) # 2 THEN {}
       ELSE LET pos == key[ls + 1] + 1 IN
            {Append(path, 3 - pos)} \cup BlindSibs(T, c.r[pos], n - ls - 1, SubSeq(key, ls + 2, n), Append(path, pos))

\* Input classes of a (dictionary, key) pair, used to name findings:
\*   "twin"     a fork on the path of k has two children that are the same cell (value)
\*   "valueref" a cell referenced by k's value is the same cell (value) as the sibling sub-tree at a fork on the path
\*   "plain"    neither
KeyClass(T, IT, R, n, k) ==
  LET o == Lookup(T, R, n, k) IN
  IF ~o.ok THEN "plain"
  ELSE LET sib(f) == T[o.forks[f][1]].r[3 - o.forks[f][2]]
           own(f) == T[o.forks[f][1]].r[o.forks[f][2]]
       IN IF \E f \in 1..Len(o.forks) : ReprHash(IT[sib(f)]) = ReprHash(IT[own(f)]) THEN "twin"
          ELSE IF o.found /\ \E f \in 1..Len(o.forks) : \E j \in 1..Len(o.v.r) : ReprHash(IT[sib(f)]) = ReprHash(IT[o.v.r[j]]) THEN "valueref"
          ELSE "plain"
TwinForkOnPath(T, IT, R, n, k) == KeyClass(T, IT, R, n, k) = "twin"
=============================================================================
