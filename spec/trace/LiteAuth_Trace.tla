--------------------------- MODULE LiteAuth_Trace ---------------------------
(* C->S for X03 (A).  Every line of trace.ndjson is one execution of the real  *)
(* liteclient.NewConnection against the scripted server: the script as it was  *)
(* played (bytes), every decrypted client->server packet of every connection   *)
(* the client opened (bytes), what NewConnection returned and when, Status(),  *)
(* and the fate of a liteServer.getTime query afterwards (and, for the         *)
(* reconnect scripts, of the queries after the server reset the connection).   *)
(* Each line is judged on its own, FROM THE BYTES: the first packet must be a   *)
(* well-formed tcp.authentificate with a fresh 32-byte nonce (or absent when   *)
(* the client has no key), every completion must be the boxed                  *)
(* tcp.authentificationComplete with the client's key and an Ed25519 signature *)
(* (Prim!EdVerify) over client nonce || a server nonce that was sent and is    *)
(* acceptable, and (verdict, nonces signed) must be an outcome the client      *)
(* machine of LiteAuth allows for the events classified from the sent bytes.   *)
(* The verdict printed is "ok" or "bad:" followed by the violated clauses.     *)
EXTENDS LiteAuth, Json, TLC

Trace == ndJsonDeserialize("trace.ndjson")
NLines == Len(Trace)
VARIABLES l, v

Bytes(hexes) == [j \in 1..Len(hexes) |-> HexToBytes(hexes[j])]
SumWaits(send) == LET RECURSIVE S(_) S(i) == IF i > Len(send) THEN 0 ELSE send[i].wait + S(i + 1) IN S(1)

\* cancellation may strike at any moment before the call has succeeded
WithCancel(O) == O \cup {[o EXCEPT !.st = "failed"] : o \in O} \cup {[st |-> "failed", sigs |-> <<>>]}

Clauses(e) ==
  LET V    == e.vec
      key  == V.key
      pub  == IF key THEN EdPubFromSeed(HexToBytes(V.cseed)) ELSE <<>>
      ns   == Len(e.sess)
      c2s(i)  == Bytes(e.sess[i].c2s)
      send(i) == IF i = 1 THEN V.send ELSE V.send2
      live == {i \in 1..ns : NonPing(c2s(i)) # <<>>}            \* connections on which the client said anything
      O1   == LET O == Outcomes(key, EventsOf(V.send)) IN IF V.cancel > 0 THEN WithCancel(O) ELSE O
      O2   == Outcomes(key, EventsOf(V.send2))
      signed(i) == SignedNonces(key, pub, c2s(i), send(i))
      okcall == e.res.ret /\ ~e.res.err
      M1   == IF ns = 0 THEN {o \in O1 : o.sigs = <<>> /\ o.st = "failed" /\ e.res.err}
              ELSE {o \in O1 : (o.st \in {"up", "lost"}) = okcall /\ o.sigs = signed(1)}
      surelyUp == M1 # {} /\ \A o \in M1 : o.st = "up"
      honest2  == \A o \in O2 : o.st = "up"
      hopeless2 == \A o \in O2 : o.st = "failed"
      lastLive == IF live = {} THEN 0 ELSE CHOOSE i \in live : \A j \in live : j <= i
      c(name, holds) == IF holds THEN <<>> ELSE <<name>>
  IN   c("returns", e.res.ret /\ e.res.panic = "")
    \o c("first-packet", /\ (key => ns >= 1 /\ 1 \in live)
                         /\ \A i \in live : FirstPacketOK(key, c2s(i)))
    \o c("fresh-nonce", key => \A i \in live : \A j \in live : i # j => ClientNonceOf(key, c2s(i)) # ClientNonceOf(key, c2s(j)))
    \o c("complete-boxed", \A i \in live : BoxedOK(key, pub, c2s(i)))
    \o c("complete-signature", \A i \in live : SignatureOK(key, pub, c2s(i), send(i)))
    \o c("outcome", e.res.ret => M1 # {})
    \o c("later-sessions", \A i \in live : i > 1 => (signed(i) = <<>> \/ \E o \in O2 : o.sigs = signed(i)))
    \o c("status", surelyUp => e.res.st = 1)
    \o c("deadline", e.res.ret => /\ e.res.ms <= 30000 + SumWaits(V.send)
                                  /\ (V.cancel > 0 /\ e.res.err => e.res.ms <= V.cancel + 5000))
    \o c("no-hang", /\ e.q.r \notin {"hang", "panic"} /\ e.q2.r \notin {"hang", "panic"}
                    /\ e.res.st # 0 - 2 /\ e.q2.st # 0 - 2)
    \o c("query", surelyUp => e.q.done /\ e.q.r = "ok" /\ e.q.now = V.now)
    \o c("reconnect", (V.drop /\ surelyUp /\ e.q.r = "ok") =>
                        /\ e.q2.done
                        /\ (honest2 => /\ e.q2.r = "ok" /\ e.q2.now = V.now /\ e.q2.st = 1
                                       /\ lastLive > 1 /\ Len(signed(lastLive)) = 1 /\ signed(lastLive)[1] # <<>>)
                        /\ (hopeless2 => e.q2.r # "ok"))
    \o c("harness-server", \A i \in 1..ns : e.sess[i].srv_auth =>
                              /\ i \in live /\ Len(signed(i)) >= 1 /\ signed(i)[1] # <<>> /\ BoxedOK(key, pub, c2s(i)))

RECURSIVE Join(_)
Join(ss) == IF Len(ss) = 0 THEN "" ELSE IF Len(ss) = 1 THEN ss[1] ELSE StrCat(StrCat(ss[1], ","), Join(Tail(ss)))
Verdict(e) ==
  IF e.k # "Auth" \/ "infra" \in DOMAIN e THEN "bad:not-a-record"
  ELSE LET bad == Clauses(e) IN IF bad = <<>> THEN "ok" ELSE StrCat("bad:", Join(bad))

Init == l \in 1..NLines /\ v = "todo"
Next == /\ v = "todo" /\ l' = l
        /\ v' = Verdict(Trace[l])
        /\ PrintT(<<"EV", l, v'>>)
Spec == Init /\ [][Next]_<<l, v>>
=============================================================================
