-------------------------- MODULE MerkleProof_Trace --------------------------
(* C->S judgement for C18.  A segment is the life of ONE boc.MerkleProver: the *)
(* Reset line is NewMerkleProver(tree); the following lines are the requests it *)
(* serves, in the order they were made.  The state of the specification is the  *)
(* prover (T, R, immutable) and its open cursor sessions; every Cursor() and     *)
(* every ProveKeyInHashmap opens a session with an EMPTY prune set (MerkleProof  *)
(* section a').  An event is accepted only if it is a step of that machine and   *)
(* the recorded proof bag - parsed with Boc!Parse and hashed with Cells          *)
(* (Prim!Sha256) by the specification itself - is the proof the specification    *)
(* requires for THIS request's prune set / key (ProofVerdict, WalkVerdict).      *)
(*  {"k":"Reset","kind":"walk"|"dict","src","mode","n":8|0,"cells":[..],"roots":[0],"orig":{"cells","roots"}?,"preread":s?,"bag":hex?,"libmade":true?} *)
(*     orig: the source is the tree under an earlier proof of the level-0 tree orig (two-step proofs)                    *)
(*  {"k":"Cursor","c":session}             handle 0 := prover.Cursor()                                                  *)
(*  {"k":"Ref","c":session,"h":handle,"nh":new handle,"i":0}   nh := h.Ref(i)   (h and all other handles stay valid)     *)
(*  {"k":"Prune","c":session,"h":handle}    h.Prune()                                                                    *)
(*  {"k":"Create","c":session,"h":handle,"err":"","panic":"","proof":"hex","exphash":hex?}   CreateProof(h)              *)
(*  {"k":"Key","key":"0101..","err":""|"e","panic":"","val":{"cells":[..],"roots":[0]},"proof":"hex","exp":{found,v}?}  *)
(* A rejected event prints <<"NOTE", line, clause, class>>; class names the     *)
(* input class: twin / valueref (see KeyClass), partial (source has pruned branches), beneath-merkle (the prune set has a position strictly beneath a Merkle cell of the source) / merkle (the source has Merkle cells below its root), held (a Prune through a cursor value kept while others were derived), leak (every pruned branch that   *)
(* this request does not account for was pruned by an EARLIER request of the     *)
(* same prover), plain.  Clauses starting with "domain:" mean the harness or the *)
(* specification is inconsistent (never a verdict on the code).                  *)
EXTENDS MerkleProof, Json

Trace == ndJsonDeserialize("trace.ndjson")
N == Len(Trace)
VARIABLES R, n, present, sess, hist, l, seg
\* The prover is (T, R).  T and IT = InfoTable(T) never change during a segment; they are kept in the TLC register N + seg
\* (set by Reset, read as T / IT below, released with the segment's last event) instead of in state variables, so that a
\* 1000-cell table and its hashes are not copied into and fingerprinted with every state.  n: key width (0: no dictionary);
\* present: the keys of the abstract dictionary T denotes; sess: open cursor sessions; hist: every occurrence pruned by
\* an earlier request of this prover (only used to name findings)
tvars == <<R, n, present, sess, hist, l, seg>>
T  == TLCGet(N + seg).T
IT == TLCGet(N + seg).IT
Starts == {i \in 1..N : Trace[i].k = "Reset"}
ASSUME \A i \in Starts : TLCSet(i, 0)
E == Trace[l]
Has(e, f) == f \in DOMAIN e
\* (the table register is released with the segment's last event)
Consume == /\ l' = l + 1 /\ seg' = seg /\ TLCSet(seg, l + 1 - seg)
           /\ ((l = N \/ Trace[IF l = N THEN l ELSE l + 1].k = "Reset") => TLCSet(N + seg, 0))
Reject(reason, class) == PrintT(<<"NOTE", l, reason, class>>) /\ FALSE

\* Heavy evaluation is kept in pure operators (XOutcome) whose result reaches the action as an operator argument:
\* TLC evaluates such an argument once, whereas a LET around primed conjuncts is re-evaluated at every use (measured:
\* 39 s instead of 0.3 s for a 750-cell dictionary).
\* A source may be a partial view (the tree under an earlier proof); then the Reset line also carries the ORIGINAL level-0
\* tree ("orig"), the source must be a view of it (same level-0 hash / depth at the root, pruned branches right), and the
\* abstract dictionary is that of the original.  "skip:" = the source handed to the prover is itself wrong (the proof it
\* came from is judged in its own segment); nothing can be said about this prover.
ResetOutcome(e) ==
  LET T0 == FromJson(e.cells)  R0 == e.roots[1] + 1 IN
  \* a level-0 tree with Merkle-proof / Merkle-update cells below the root (cursor walks only)
  IF HasMerkle(T0) THEN (IF ExoticSourceOK(T0, R0) /\ e.n = 0 /\ ~Has(e, "orig")
                           THEN [why |-> "", T |-> T0, IT |-> InfoTable(T0), R |-> R0, present |-> {}]
                           \* "libmade": the Merkle cell is an earlier proof of the library itself (judged in its own segment)
                           ELSE [why |-> IF Has(e, "libmade") THEN "skip:source-not-well-formed" ELSE "domain:tree"])
  \* a cut from beneath Merkle cells (pruned branches of masks other than 1, no Merkle cell; cursor walks only)
  ELSE IF HighViewOK(T0, R0) /\ e.n = 0 /\ ~Has(e, "orig") THEN [why |-> "", T |-> T0, IT |-> InfoTable(T0), R |-> R0, present |-> {}]
  ELSE IF ~SourceOK(T0) THEN [why |-> IF Has(e, "orig") THEN "skip:source-not-well-formed" ELSE "domain:tree"]
  ELSE IF Partial(T0) /\ ~Has(e, "orig") THEN [why |-> "domain:partial-source-without-original"]
  ELSE
  LET hasO == Has(e, "orig")
      TO == IF hasO THEN FromJson(e.orig.cells) ELSE T0
      RO == IF hasO THEN e.orig.roots[1] + 1 ELSE R0
      I0 == InfoTable(T0)
  IN IF hasO /\ ~(LevelZero(TO) /\ WellFormed(TO)) THEN [why |-> "domain:tree"]
     ELSE IF hasO /\ ~(LET IO == InfoTable(TO) IN I0[R0].h[1] = IO[RO].h[1] /\ I0[R0].d[1] = IO[RO].d[1] /\ ViewOf(T0, R0, TO, IO, RO))
       THEN [why |-> "skip:source-is-not-a-view-of-the-original"]
     ELSE LET D == IF e.n > 0 THEN DecEdge(TO, RO, e.n, <<>>) ELSE [ok |-> TRUE, items |-> <<>>] IN
          \* the abstract dictionary decides presence; Lookup (used per request) must agree with it on every item whose
          \* path the source has
          IF ~D.ok \/ \E i \in 1..Len(D.items) : LET lk == Lookup(T0, R0, e.n, D.items[i].k) IN
                                                 IF lk.ok THEN ~(lk.found /\ lk.v.b = D.items[i].v.b /\ Len(lk.v.r) = Len(D.items[i].v.r))
                                                 ELSE ~(hasO /\ lk.why = "pruned")
            THEN [why |-> "domain:not-a-dictionary"]
          ELSE [why |-> "", T |-> T0, IT |-> I0, R |-> R0, present |-> {BitsToStr(D.items[i].k) : i \in 1..Len(D.items)}]
ResetStep(o) == IF o.why # "" THEN Reject(o.why, "plain")
                ELSE /\ TLCSet(N + seg, [T |-> o.T, IT |-> o.IT]) /\ R' = o.R /\ n' = E.n
                     /\ present' = o.present /\ sess' = <<>> /\ hist' = {}
TReset == E.k = "Reset" /\ l = seg /\ ResetStep(ResetOutcome(E))

\* Cursor(): a new session, empty prune set - whatever earlier sessions pruned
TCursor == /\ E.k = "Cursor" /\ sess' = NewSession(sess, E.c) /\ UNCHANGED <<R, n, present, hist>>

\* nh := h.Ref(i) - a new cursor value; h and every other value keep their positions
TRef == /\ E.k = "Ref"
        /\ IF ~SessRefEnabled(T, R, sess, E.c, E.h, E.i + 1) THEN Reject("domain:op-not-enabled", "plain")
           ELSE sess' = SessRef(sess, E.c, E.h, E.nh, E.i + 1)
        /\ UNCHANGED <<R, n, present, hist>>
\* h.Prune(): the position cursor value h was created for
TPrune == /\ E.k = "Prune"
          /\ IF ~HasCursor(sess, E.c, E.h) THEN Reject("domain:op-not-enabled", "plain")
             ELSE sess' = SessPrune(sess, E.c, E.h)
          /\ UNCHANGED <<R, n, present, hist>>

\* CreateProof(cursor of session c) = Proof(T, R, prune set of session c).   [reason, class, sem, add (to hist)]
CreateOutcome(e, tT, tIT, tR, ss, hh) ==
  IF ~HasCursor(ss, e.c, e.h) THEN [reason |-> "domain:no-such-cursor", class |-> "plain"]
  ELSE IF e.panic # "" THEN [reason |-> "panic", class |-> "plain"]
  \* a refusal is allowed iff a Merkle cell of the source is reached by the session's prune set (MerkleProof, header)
  ELSE IF e.err # "" THEN (IF e.proof = "" /\ MerkleReached(tT, tR, ss[e.c].ps) THEN [reason |-> "", class |-> "", sem |-> "refused:merkle-cell-reached", add |-> {}]
                           ELSE [reason |-> "create-proof-error", class |-> IF HasMerkle(tT) THEN "merkle" ELSE "plain"])
  ELSE LET PS == ss[e.c].ps
           wv == WalkVerdict(HexToBytes(e.proof), tT, tIT, tR, PS)
           \* prunes of earlier requests and of the other sessions of this prover
           foreign == hh \cup UNION {ss[c2].ps : c2 \in DOMAIN ss \ {e.c}}
           leak == wv.reason = "pruned-but-not-asked" /\ wv.extra \subseteq foreign
           \* the prune set is wrong although nothing leaked, and a Prune went through a cursor value that had been held
           held == wv.reason \in {"asked-but-not-pruned", "pruned-but-not-asked"} /\ ss[e.c].held
       IN IF wv.reason # "" THEN [reason |-> wv.reason, class |-> IF leak THEN "leak" ELSE IF held THEN "held" ELSE IF Partial(tT) THEN "partial"
                                                                  ELSE IF PrunesBeneathMerkle(tT, tR, PS) THEN "beneath-merkle" ELSE IF HasMerkle(tT) THEN "merkle" ELSE "plain"]
          \* S->C: under the occurrence reading the bag is the very proof the generator computed
          ELSE IF Has(e, "exphash") /\ wv.sem = "occurrence" /\ BytesToHex(wv.hash) # e.exphash THEN [reason |-> "domain:spec-inconsistent", class |-> "plain"]
          ELSE [reason |-> "", class |-> "", sem |-> wv.sem, add |-> wv.psp \cup PS]
CreateStep(o) == IF o.reason # "" THEN Reject(o.reason, o.class) ELSE PrintT(<<"SEM", l, o.sem>>) /\ hist' = hist \cup o.add
TCreate == E.k = "Create" /\ UNCHANGED <<R, n, present, sess>> /\ CreateStep(CreateOutcome(E, T, IT, R, sess, hist))

\* ProveKeyInHashmap(prover, root, key): its own session; present key => value + ProofOK, absent key => error
KeyOutcome(e, tT, tIT, tR, nn, pres, hh) ==
  LET k  == StrToBits(e.key)
      lk == Lookup(tT, tR, nn, k)
      isPresent == e.key \in pres
      \* (hist: also what a refusing request may have pruned on its way)
      Out(r, c) == [reason |-> r, class |-> c, add |-> IF nn > 0 /\ Len(k) = nn THEN BlindSibs(tT, tR, nn, k, <<>>) ELSE {}]
      \* the input class that names a finding: equal cells at a fork explain only a hidden key / value reference
      Cls(r) == LET kc == KeyClass(tT, tIT, tR, nn, k) IN
                IF (kc = "twin" /\ r = "value:pruned") \/ (kc = "valueref" /\ r = "value:refs") THEN kc
                ELSE IF Partial(tT) THEN "partial" ELSE "plain"
  IN IF nn = 0 \/ Len(k) # nn THEN Out("domain:key-width", "plain")
     \* the key's path runs into a pruned branch of a partial source: the statement says nothing (only: no panic)
     ELSE IF ~lk.ok /\ Partial(tT) /\ lk.why = "pruned" THEN (IF e.panic # "" THEN Out("panic", "partial") ELSE Out("", ""))
     ELSE IF ~lk.ok \/ lk.found # isPresent THEN Out("domain:spec-inconsistent", "plain")
     ELSE IF Has(e, "exp") /\ (e.exp.found # isPresent \/ (isPresent /\ e.exp.v # BitsToStr(lk.v.b))) THEN Out("domain:spec-inconsistent", "plain")
     ELSE IF e.panic # "" THEN Out("panic", "plain")
     ELSE IF ~isPresent THEN (IF e.err # "" /\ e.proof = "" THEN Out("", "") ELSE Out("absent-key-proved", Cls("absent-key-proved")))
     ELSE IF e.err # "" THEN Out("present-key-error", Cls("present-key-error"))
     ELSE
     LET V  == FromJson(e.val.cells)
         IV == InfoTable(V)
         vr == e.val.roots[1] + 1
     IN \* the value returned beside the proof is the value the dictionary holds
        IF ~(V[vr].b = lk.v.b /\ Len(V[vr].r) = Len(lk.v.r)
             /\ \A j \in 1..Len(lk.v.r) : ReprHash(IV[V[vr].r[j]]) = ReprHash(tIT[lk.v.r[j]])) THEN Out("returned-value", Cls("returned-value"))
        ELSE LET pv == ProofVerdict(HexToBytes(e.proof), tT, tIT, tR, nn, k)
                 \* the pruned branch that hides the key (or part of its value) was pruned by an earlier request
                 leak == \/ pv.reason = "value:pruned" /\ pv.bad \in hh
                         \/ pv.reason = "value:refs" /\ \E q \in pv.psp \cap hh : PathPrefix(PathOf(lk), q)
             \* leak first: an earlier ACCEPTED request pruned that very occurrence, i.e. it passed the same fork on the
             \* other side and its own path survived - equal cells at that fork are not what hides the key
             IN IF pv.reason # "" THEN Out(pv.reason, IF leak THEN "leak" ELSE Cls(pv.reason))
                ELSE [reason |-> "", class |-> "", add |-> pv.psp \cup BlindSibs(tT, tR, nn, k, <<>>)]
KeyStep(o) == IF o.reason # "" THEN Reject(o.reason, o.class) ELSE hist' = hist \cup o.add
TKey == E.k = "Key" /\ UNCHANGED <<R, n, present, sess>> /\ KeyStep(KeyOutcome(E, T, IT, R, n, present, hist))

TraceInit == /\ l \in Starts /\ seg = l
             /\ R = 0 /\ n = 0 /\ present = {} /\ sess = <<>> /\ hist = {}
TraceNext == /\ l <= N /\ (l # seg => Trace[l].k # "Reset")
             /\ (TReset \/ TCursor \/ TRef \/ TPrune \/ TCreate \/ TKey)
             /\ Consume
TraceSpec == TraceInit /\ [][TraceNext]_tvars
Report == \A i \in Starts : PrintT(<<"SEG", i, TLCGet(i)>>)
=============================================================================
