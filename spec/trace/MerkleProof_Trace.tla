-------------------------- MODULE MerkleProof_Trace --------------------------
(* C->S judgement for C18.  Every line of trace.ndjson is judged on its own    *)
(* (pattern of Cells_Trace): the specification parses the recorded proof bag    *)
(* with Boc!Parse, hashes it with Cells (Prim!Sha256) and evaluates ProofOK /   *)
(* WalkReason of MerkleProof itself.  The library's own proof reader is not     *)
(* involved.                                                                    *)
(*  {"k":"Dict","src","mode","n":8,"cells":[..],"roots":[0],                    *)
(*   "q":[{"key":"0101..","err":""|"e","panic":"","val":{"cells":[..],"roots":[0]},"proof":"hex"}, ..],         *)
(*   "exp":[{"found":b,"v":"bits"}, ..]?}      exp: what the generator (S->C) said about the same keys            *)
(*  {"k":"Walk","src","mode","cells":[..],"roots":[0],"ops":[{"op":"ref","i":0},..],"err":"","panic":"","proof":"hex","exphash":hex?} *)
EXTENDS MerkleProof, Json

Trace == ndJsonDeserialize("trace.ndjson")
N == Len(Trace)
VARIABLES l, v
Has(e, f) == f \in DOMAIN e

\* ------------------------------------------------------------------- Dict
\* reason ("" = accepted) for query qi of a Dict event
QReason(e, qi, T, IT, R, D) ==
  LET q == e.q[qi]
      k == StrToBits(q.key)
      hit == {i \in 1..Len(D.items) : D.items[i].k = k}          \* the abstract dictionary decides presence
      lk == Lookup(T, R, e.n, k)
  IN IF Len(k) # e.n THEN "domain:key-width"
     ELSE IF ~lk.ok \/ (lk.found # (hit # {})) THEN "domain:spec-inconsistent"
     ELSE IF Has(e, "exp") /\ (e.exp[qi].found # (hit # {}) \/ (hit # {} /\ e.exp[qi].v # BitsToStr(lk.v.b))) THEN "domain:spec-inconsistent"
     ELSE IF q.panic # "" THEN "panic"
     ELSE IF hit = {} THEN (IF q.err # "" /\ q.proof = "" THEN "" ELSE "absent-key-proved")
     ELSE IF q.err # "" THEN "present-key-error"
     ELSE
     LET it == D.items[CHOOSE i \in hit : TRUE]
         V  == FromJson(q.val.cells)
         IV == InfoTable(V)
         vr == q.val.roots[1] + 1
     IN \* the value returned beside the proof is the value the dictionary holds
        IF ~(V[vr].b = it.v.b /\ Len(V[vr].r) = Len(it.v.r)
             /\ \A j \in 1..Len(it.v.r) : ReprHash(IV[V[vr].r[j]]) = ReprHash(IT[it.v.r[j]])) THEN "returned-value"
        ELSE ProofReason(HexToBytes(q.proof), T, IT, R, e.n, k)

JudgeDict(e) ==
  LET T  == FromJson(e.cells)
      R  == e.roots[1] + 1
      IT == InfoTable(T)
      D  == DecEdge(T, R, e.n, <<>>)
  IN IF ~(LevelZero(T) /\ WellFormed(T) /\ D.ok) THEN PrintT(<<"NOTE", l, 0, "domain:not-a-dictionary", "plain">>) /\ FALSE
     ELSE LET rs == [qi \in 1..Len(e.q) |-> QReason(e, qi, T, IT, R, D)]
              bad == {qi \in 1..Len(e.q) : rs[qi] # ""}
          IN bad = {} \/ ((\A qi \in bad : PrintT(<<"NOTE", l, qi, rs[qi], KeyClass(T, IT, R, e.n, StrToBits(e.q[qi].key))>>)) /\ FALSE)

\* ------------------------------------------------------------------- Walk
JudgeWalk(e) ==
  LET T  == FromJson(e.cells)
      R  == e.roots[1] + 1
      IT == InfoTable(T)
      run == RunOps(T, R, e.ops)
  IN IF ~(LevelZero(T) /\ WellFormed(T) /\ run.ok) THEN PrintT(<<"NOTE", l, 0, "domain:walk", "plain">>) /\ FALSE
     ELSE LET wv == IF e.panic # "" THEN [reason |-> "panic", sem |-> "none", hash |-> <<>>]
                    ELSE IF e.err # "" THEN [reason |-> "create-proof-error", sem |-> "none", hash |-> <<>>]
                    ELSE WalkVerdict(HexToBytes(e.proof), T, IT, R, run.s.ps)
              \* S->C: under the occurrence reading the bag is the very proof the generator computed
              agree == ~Has(e, "exphash") \/ wv.sem # "occurrence" \/ BytesToHex(wv.hash) = e.exphash
          IN IF wv.reason = "" /\ ~agree THEN PrintT(<<"NOTE", l, 0, "domain:spec-inconsistent", "plain">>) /\ FALSE
             ELSE IF wv.reason = "" THEN PrintT(<<"SEM", l, wv.sem>>)
             ELSE PrintT(<<"NOTE", l, 0, wv.reason, "plain">>) /\ FALSE

Judge(e) == CASE e.k = "Dict" -> JudgeDict(e)
              [] e.k = "Walk" -> JudgeWalk(e)
              [] OTHER -> FALSE          \* Panic, Crash, unknown kinds: no action

Init == l \in 1..N /\ v = "todo"
Next == /\ v = "todo" /\ l' = l
        /\ v' = (IF Judge(Trace[l]) THEN "ok" ELSE "bad")
        /\ PrintT(<<"EV", l, v'>>)
Spec == Init /\ [][Next]_<<l, v>>
=============================================================================
