-------------------------- MODULE LiteClient_Trace --------------------------
(* C->S: one execution of the real client (hook events of liteclient under build *)
(* tag verif, each with a global sequence number taken inside the critical       *)
(* section it reports) merged with the scripted server's own log (written before *)
(* the server touches the socket) must be a behaviour of LiteClient.             *)
(* trace.ndjson is a concatenation of segments (one execution each), each        *)
(* starting with a Reset event; register i (line of the segment's Reset) holds   *)
(* the longest accepted prefix of that segment.                                  *)
(*                                                                               *)
(* An event is bound to the action whose critical section / channel operation    *)
(* contains the hook.  Three hooks can only sit next to the operation they       *)
(* report, so the corresponding step is placed by TLC immediately before the     *)
(* event that needs it (never anywhere else):                                    *)
(*  - the write of Send has happened when the server logs the query, the         *)
(*    send.ok hook may come later: SendOk is taken early (send.try was seen);    *)
(*  - the rendezvous on Connection.resp is over when either side logs            *)
(*    (cr.offered / cl.recv): HandOff is taken before the first of the two;      *)
(*  - a packet goroutine blocked for ever has no hook: PktStuck is placed before *)
(*    Quiesce, where the goroutine census is compared.                           *)
(* Server events on a socket the client has already closed have no effect and    *)
(* are accepted as such.                                                          *)
(*                                                                               *)
(* Time (ms, the recorder's clock) enters only here: a call returns by its       *)
(* deadline (+Slack); a timeout is returned only at/after the deadline and only  *)
(* if the answer was not there in time although it could have been (it was not   *)
(* in the reply channel, and it was not sent in time on a socket that is still   *)
(* open); after the server closes a connection the client is back on an open     *)
(* socket within RecoverMs (two ping periods + slack; each failed dial adds the  *)
(* 1 s retry sleep).  After every accepted event OwnAnswer, ChanOwn,             *)
(* ReaderNeverBlocks, RegisteredWhileWaiting, StatusLink and NoLeak must hold.   *)
(* Connection.mu is exclusive: no Send, reconnect or setup section starts while   *)
(* a Send is between send.try and its result.  A failed dial is accepted only     *)
(* after the server has closed a connection attempt during its handshake; Hang    *)
(* (a call outlives its deadline) and srv.corrupt (the client's byte stream is    *)
(* not a sequence of valid frames) have no action, nor has conn.up.again (the     *)
(* authentication of an installed socket "completes" once more).  On             *)
(* authenticated connections SetupDone is bound to the hook in                   *)
(* handleAuthResponse; the nonce packets themselves are not modelled.            *)
(* Every call has its own limit dl (the client timeout, or the caller's earlier    *)
(* context deadline / cancellation); the deadline clauses use it.  A reader takes *)
(* the silence branch only SilenceMs after the last packet it took - pongs        *)
(* included: a connection on which packets keep arriving is not torn down.         *)
(* Quiesce closes the segment: every call returned, queries = {}, no delivery in *)
(* progress, every connection Connected on an open socket, old generations gone, *)
(* and the goroutine census of the process equals the model's.                   *)
EXTENDS LiteClient, Json, Integers

CONSTANTS Slack, RecoverMs, RetryMs, MaxCalls, SilenceMs

Trace == ndJsonDeserialize("trace.ndjson")
N     == Len(Trace)
Starts == {i \in 1..N : Trace[i].k = "Reset"}
ASSUME \A i \in Starts : TLCSet(i, 0)

Max2(a, b) == IF a >= b THEN a ELSE b
Min2(a, b) == IF a <= b THEN a ELSE b
\* Calls and NConns are fixed per TLC run by the configuration (the runner groups executions by their number of
\* connections and knows the largest number of calls); computing them from the trace would be re-done on every use.
TCalls  == 1..MaxCalls
Inf == 1000000000

VARIABLES l, seg,
  now,      \* the recorder's clock (ms)
  ncalls,   \* calls of this execution (1..ncalls)
  tmo,      \* the client's timeout (ms)
  t0,       \* t0[c]: when the harness started call c (Inf: not yet)
  dlvAt,    \* dlvAt[c]: when the answer was put into c's reply channel
  ansAt,    \* ansAt[c]: <<time, k, g>> of the server's first answer to c (<<>>: none)
  trying,   \* trying[c]: inside Send, after the status check, result not yet logged
  early,    \* early[c]: SendOk was taken when the server logged the query, the send.ok hook is still to come
  clun,     \* clun[k]: HandOff taken, the client reader's cl.recv hook is still to come
  indlv,    \* indlv[k]: the client reader is between dlv.pre and dlv.post
  recBy,    \* recBy[k]: time by which connection k must be on an open socket again (Inf: no obligation)
  crun,     \* crun[k]: generation -> packet: R has taken the packet from P (P has moved on), R's own hook is still to come
  sending,  \* sending[k]: somebody is inside Send's critical section of Connection.mu (after the status check, before the result)
  dl,       \* dl[c]: the call's own time limit (ms from its start): the client timeout, or the caller's earlier deadline / cancellation
  lastRx,   \* lastRx[k]: generation -> time its reader last took a packet (or was started): its 10 s silence timer restarts there
  refused   \* connection attempts the server has closed during their handshake and the client has not yet reported as failed dials
aux   == <<ncalls, tmo, t0, dlvAt, ansAt, trying, early, clun, indlv, recBy, crun, sending, refused, dl, lastRx>>
OtherAux == <<ncalls, tmo, t0, dlvAt, ansAt, trying, early, clun, indlv, recBy, sending, refused, dl>>     \* all but crun and lastRx
tvars == <<vars, l, seg, now, aux>>

E == Trace[l]
K == E.k
T == E.t
NoOp == UNCHANGED vars
Same(a) == UNCHANGED a

Consume == /\ l' = l + 1 /\ seg' = seg
           /\ TLCSet(seg, Max2(TLCGet(seg), l + 1 - seg))

TraceInit ==
  /\ Init
  /\ l \in Starts /\ seg = l /\ now = 0 /\ ncalls = 0 /\ tmo = 0
  /\ t0 = [c \in Calls |-> Inf] /\ dlvAt = [c \in Calls |-> Inf] /\ ansAt = [c \in Calls |-> <<>>]
  /\ trying = [c \in Calls |-> FALSE] /\ early = [c \in Calls |-> FALSE]
  /\ clun = [k \in Conns |-> FALSE] /\ indlv = [k \in Conns |-> FALSE] /\ recBy = [k \in Conns |-> Inf]
  /\ crun = [k \in Conns |-> <<>>] /\ sending = [k \in Conns |-> FALSE] /\ refused = 0
  /\ dl = [c \in Calls |-> 0] /\ lastRx = [k \in Conns |-> <<>>]

TReset == /\ K = "Reset" /\ l = seg /\ E.nconns = NConns /\ E.ncalls \in 0..Cardinality(Calls)
          /\ ncalls' = E.ncalls /\ tmo' = E.timeout
          /\ NoOp /\ UNCHANGED <<t0, dlvAt, ansAt, trying, early, clun, indlv, recBy, crun, sending, refused, dl, lastRx>>

Deadline(c) == t0[c] + dl[c]
IsCall(i) == i \in 1..ncalls

\* ------------------------------------------------------------------ callers
\* the call's own limit: the caller's context may carry a deadline (or be cancelled) earlier than the client's timeout
TCall == LET c == E.i IN
  /\ IsCall(c) /\ pc[c] = "start" /\ t0[c] = Inf
  /\ t0' = [t0 EXCEPT ![c] = T] /\ NoOp
  /\ dl' = [dl EXCEPT ![c] = IF "dl" \in DOMAIN E THEN E.dl ELSE tmo]
  /\ ("dl" \in DOMAIN E => E.dl \in 1..tmo)
  /\ UNCHANGED <<ncalls, tmo, dlvAt, ansAt, trying, early, clun, indlv, recBy, crun, sending, refused, lastRx>>

TimeoutJustified(c) ==
  /\ T >= Deadline(c) - 1
  /\ IF chans[c] = <<>> THEN TRUE ELSE dlvAt[c] + Slack >= Deadline(c)
  /\ IF ansAt[c] = <<>> THEN TRUE
     ELSE IF ansAt[c][1] + Slack >= Deadline(c) THEN TRUE
     ELSE L(ansAt[c][2], ansAt[c][3]).fin # "open"

\* Connection.mu is exclusive: nobody enters one of its critical sections while a Send is between its status check and its result
MuFree(k) == ~sending[k]
TCaller == LET c == E.i IN
  /\ IsCall(c) /\ t0[c] # Inf
  /\ CASE K = "reg"  -> Register(c) /\ Same(aux)
       [] K = "pick" -> E.c \in Conns /\ PickConn(c, E.c) /\ Same(aux)
       [] K = "send.nc"   -> conn[c] = E.c /\ MuFree(E.c) /\ SendNotConnected(c) /\ Same(aux)
       [] K = "send.try"  -> /\ pc[c] = "picked" /\ conn[c] = E.c /\ status[E.c] = "Connected" /\ ~trying[c]
                             /\ MuFree(E.c) /\ sending' = [sending EXCEPT ![E.c] = TRUE]
                             /\ trying' = [trying EXCEPT ![c] = TRUE] /\ NoOp
                             /\ UNCHANGED <<ncalls, tmo, t0, dlvAt, ansAt, early, clun, indlv, recBy, crun, refused, dl, lastRx>>
       [] K = "send.ok"   -> /\ trying[c] /\ conn[c] = E.c
                             /\ IF early[c] THEN NoOp ELSE SendOk(c)
                             /\ trying' = [trying EXCEPT ![c] = FALSE] /\ early' = [early EXCEPT ![c] = FALSE]
                             /\ sending' = [sending EXCEPT ![E.c] = FALSE]
                             /\ UNCHANGED <<ncalls, tmo, t0, dlvAt, ansAt, clun, indlv, recBy, crun, refused, dl, lastRx>>
       [] K = "send.fail" -> /\ trying[c] /\ ~early[c] /\ conn[c] = E.c /\ SendFail(c)
                             /\ trying' = [trying EXCEPT ![c] = FALSE] /\ sending' = [sending EXCEPT ![E.c] = FALSE]
                             /\ UNCHANGED <<ncalls, tmo, t0, dlvAt, ansAt, early, clun, indlv, recBy, crun, refused, dl, lastRx>>
       [] K = "ret.answer"  -> ~trying[c] /\ CallerRecv(c) /\ ret'[c] = <<"answer", E.h>> /\ Same(aux)
       [] K = "ret.timeout" -> ~trying[c] /\ TimeoutJustified(c) /\ CallerTimeout(c) /\ Same(aux)
       [] K = "ret.err"     -> pc[c] = "unreg" /\ ret[c][1] \in {"senderr", "notconnected"} /\ NoOp /\ Same(aux)
       [] K = "unreg"       -> Unregister(c) /\ Same(aux)
       [] K = "return"      -> /\ pc[c] = "done"
                               /\ (E.res = "answer") = (ret[c][1] = "answer")
                               /\ (E.res = "answer") => E.h = ret[c][2]
                               /\ T <= Deadline(c) + Slack
                               /\ NoOp /\ Same(aux)
CallerKinds == {"reg", "pick", "ret.answer", "ret.timeout", "ret.err", "unreg", "return"}
SendKinds   == {"send.nc", "send.try", "send.ok", "send.fail"}

\* the ping goroutine's Send
PingAux(k, b) == /\ sending' = [sending EXCEPT ![k] = b]
                 /\ UNCHANGED <<ncalls, tmo, t0, dlvAt, ansAt, trying, early, clun, indlv, recBy, crun, refused, dl, lastRx>>
TPing == LET k == E.c IN
  /\ k \in Conns
  /\ CASE K = "send.nc"   -> status[k] # "Connected" /\ MuFree(k) /\ NoOp /\ Same(aux)
       [] K = "send.try"  -> status[k] = "Connected" /\ MuFree(k) /\ NoOp /\ PingAux(k, TRUE)
       [] K = "send.ok"   -> /\ status[k] = "Connected" /\ WriteOk(k) /\ sending[k] /\ PingAux(k, FALSE)
                             /\ IF Cur(k).fin = "open" THEN NoOp
                                ELSE /\ SetL(k, gen[k], [Cur(k) EXCEPT !.rst = TRUE])
                                     /\ UNCHANGED <<callVars, status, gen, clr, rcq, dial, produced, drops, noise, sil>>
       [] K = "send.fail" -> /\ status[k] = "Connected" /\ Cur(k).fin = "srv" /\ sending[k] /\ PingAux(k, FALSE)
                             /\ rcq' = [rcq EXCEPT ![k] = @ + 1]
                             /\ UNCHANGED <<callVars, status, gen, link, clr, dial, produced, drops, noise, sil>>

\* ------------------------------------------------------------------- server
OnLink == E.c \in Conns /\ E.g \in Gens(E.c)
Fin    == L(E.c, E.g).fin
MarkAns(c) == IF c \in Calls /\ ansAt[c] = <<>> THEN ansAt' = [ansAt EXCEPT ![c] = <<T, E.c, E.g>>] ELSE UNCHANGED ansAt
TServer == LET k == E.c  g == E.g IN
  \* tcp.authentificationNonce (authenticated connections): consumed inside Connection.reader, first or repeated - no effect on the model
  CASE K = "srv.authnonce" -> NoOp /\ Same(aux)
    \* the server has read the handshake of a connection attempt and holds its acknowledgement back for E.ms: the recovery takes that much longer
    [] K = "srv.stall" -> /\ NoOp /\ k \in Conns
                          /\ recBy' = [recBy EXCEPT ![k] = IF @ = Inf THEN Inf ELSE @ + E.ms]
                          /\ UNCHANGED <<ncalls, tmo, t0, dlvAt, ansAt, trying, early, clun, indlv, crun, sending, refused, dl, lastRx>>
    [] K = "srv.hsdrop" -> /\ NoOp /\ refused' = refused + 1
                           /\ UNCHANGED <<ncalls, tmo, t0, dlvAt, ansAt, trying, early, clun, indlv, recBy, crun, sending, dl, lastRx>>
    [] K = "srv.up"   -> k \in Conns /\ g = gen[k] + 1 /\ DialOk(k) /\ Same(aux)
    [] K = "srv.recv" -> /\ OnLink /\ Same(aux)
                         /\ IF Fin = "open" THEN E.i \in Calls /\ SrvRecv(k, g, E.i) ELSE NoOp
    [] K = "srv.ans"  -> /\ OnLink /\ Fin \in {"open", "cli"}
                         /\ IF Fin = "open" THEN E.i \in Calls /\ SrvAnswer(k, g, E.i, E.h) /\ MarkAns(E.i)
                            ELSE NoOp /\ UNCHANGED ansAt
                         /\ UNCHANGED <<ncalls, tmo, t0, dlvAt, trying, early, clun, indlv, recBy, crun, sending, refused, dl, lastRx>>
    [] K = "srv.dup"  -> /\ OnLink /\ Fin \in {"open", "cli"} /\ Same(aux)
                         /\ IF Fin = "open" THEN E.i \in Calls /\ SrvDup(k, g, E.i, E.h) ELSE NoOp
    [] K = "srv.unk"  -> /\ OnLink /\ Fin \in {"open", "cli"} /\ Same(aux)
                         /\ IF Fin = "open" THEN SrvUnknown(k, g, E.h) ELSE NoOp
    [] K = "srv.other" -> /\ OnLink /\ Fin \in {"open", "cli"} /\ Same(aux)
                          /\ IF Fin = "open" THEN SrvOther(k, g, E.h) ELSE NoOp
    [] K = "srv.pong" -> /\ OnLink /\ Fin \in {"open", "cli"} /\ Same(aux)
                         /\ IF Fin = "open" THEN SrvNoise(k, g, "pong", "") ELSE NoOp
    [] K = "srv.drop" -> /\ OnLink /\ Fin \in {"open", "cli"}
                         /\ IF Fin = "open"
                              THEN /\ SrvDrop(k, g)
                                   /\ recBy' = [recBy EXCEPT ![k] = Min2(@, T + RecoverMs)]
                              ELSE NoOp /\ UNCHANGED recBy
                         /\ UNCHANGED <<ncalls, tmo, t0, dlvAt, ansAt, trying, early, clun, indlv, crun, sending, refused, dl, lastRx>>
ServerKinds == {"srv.authnonce", "srv.stall", "srv.hsdrop", "srv.up", "srv.recv", "srv.ans", "srv.dup", "srv.unk", "srv.other", "srv.pong", "srv.drop"}

\* -------------------------------------------------- generation g of connection c
PktMatches(p) == IF E.ty = "ans" THEN p.t = "ans" /\ p.id = E.i /\ p.v = E.h
                 ELSE p.t = "other" /\ p.v = E.h
Pending(k, g) == g \in DOMAIN crun[k]
LastRx(k, g) == IF g \in DOMAIN lastRx[k] THEN lastRx[k][g] ELSE 0
RxAt(k, g) == lastRx' = [lastRx EXCEPT ![k] = (g :> T) @@ @]
ClearPending(k, g) == /\ crun' = [crun EXCEPT ![k] = [h \in DOMAIN @ \ {g} |-> @[h]]]
                      /\ UNCHANGED OtherAux
\* the reader has taken a packet: whatever its kind (a pong is a packet), the 10 s of silence start again
Took(k, g) == RxAt(k, g) /\ UNCHANGED <<OtherAux, crun>>
TReader == LET k == E.c  g == E.g IN
  /\ OnLink
  /\ CASE K = "pkt.exit"   -> PktExit(k, g) /\ Same(aux)
       [] K = "cr.eof"     -> ConnReaderEOF(k, g) /\ Same(aux)
       [] K = "cr.pong"    -> IF Pending(k, g) THEN crun[k][g].t = "pong" /\ NoOp /\ ClearPending(k, g) /\ RxAt(k, g)
                              ELSE L(k, g).in # <<>> /\ Head(L(k, g).in).t = "pong" /\ ConnReaderRecv(k, g) /\ Took(k, g)
       [] K = "cr.offer"   -> IF Pending(k, g) THEN PktMatches(crun[k][g]) /\ NoOp /\ ClearPending(k, g) /\ RxAt(k, g)
                              ELSE L(k, g).in # <<>> /\ PktMatches(Head(L(k, g).in)) /\ ConnReaderRecv(k, g) /\ Took(k, g)
       [] K = "cr.offered" -> L(k, g).r = "run" /\ NoOp /\ Took(k, g)          \* the silent HandOff has happened
       \* the silence branch is taken only after SilenceMs without any packet on this reader
       [] K = "cr.silence" -> T + 5 >= LastRx(k, g) + SilenceMs /\ ConnReaderSilence(k, g) /\ Same(aux)
       [] K = "cr.exit"    -> L(k, g).r = "dead" /\ NoOp /\ Same(aux)
ReaderKinds == {"pkt.exit", "cr.eof", "cr.pong", "cr.offer", "cr.offered", "cr.silence", "cr.exit"}

\* ------------------------------------------------------ client reader of connection c
TClient == LET k == E.c IN
  /\ k \in Conns
  /\ CASE K = "cl.recv" ->
            /\ clun[k] /\ clr[k].st = "got" /\ PktMatches(clr[k].pkt)
            /\ clun' = [clun EXCEPT ![k] = FALSE]
            /\ IF E.ty = "ans" THEN NoOp ELSE ClientReaderLookup(k)      \* not an answer: `continue`
            /\ UNCHANGED <<ncalls, tmo, t0, dlvAt, ansAt, trying, early, indlv, recBy, crun, sending, refused, dl, lastRx>>
       [] K = "lookup" ->
            /\ ~clun[k] /\ clr[k].st = "got" /\ clr[k].pkt.t = "ans" /\ clr[k].pkt.id = E.i
            /\ ClientReaderLookup(k) /\ (E.found = 1) = (clr'[k].st = "found") /\ Same(aux)
       [] K = "dlv.pre" ->
            /\ clr[k].st = "found" /\ clr[k].pkt.id = E.i /\ ~indlv[k] /\ ClientReaderDeliver(k)
            /\ indlv' = [indlv EXCEPT ![k] = TRUE] /\ dlvAt' = [dlvAt EXCEPT ![E.i] = T]
            /\ UNCHANGED <<ncalls, tmo, t0, ansAt, trying, early, clun, recBy, crun, sending, refused, dl, lastRx>>
       [] K = "dlv.post" ->
            /\ indlv[k] /\ indlv' = [indlv EXCEPT ![k] = FALSE] /\ NoOp
            /\ UNCHANGED <<ncalls, tmo, t0, dlvAt, ansAt, trying, early, clun, recBy, crun, sending, refused, dl, lastRx>>
ClientKinds == {"cl.recv", "lookup", "dlv.pre", "dlv.post"}

\* --------------------------------------------------------------- reconnect
TReconnect == LET k == E.c IN
  /\ k \in Conns
  /\ (K # "rc.dialfail" => MuFree(k))
  /\ CASE K = "rc.begin" /\ E.who = "rc" -> status[k] = "Connected" /\ RcBegin(k) /\ Same(aux)
       [] K = "rc.skip"  /\ E.who = "rc" -> status[k] = "Connecting" /\ RcBegin(k) /\ Same(aux)
       [] K = "rc.begin" /\ E.who = "r"  -> E.g \in Gens(k) /\ status[k] = "Connected" /\ ReaderRcBegin(k, E.g) /\ Same(aux)
       [] K = "rc.skip"  /\ E.who = "r"  -> E.g \in Gens(k) /\ status[k] = "Connecting" /\ ReaderRcBegin(k, E.g) /\ Same(aux)
       \* a dial fails only because the server closed that attempt during its handshake
       [] K = "rc.dialfail" -> /\ DialFail(k) /\ refused > 0 /\ refused' = refused - 1
                               /\ recBy' = [recBy EXCEPT ![k] = IF @ = Inf THEN Inf ELSE Max2(@, T) + RetryMs + Slack]
                               /\ UNCHANGED <<ncalls, tmo, t0, dlvAt, ansAt, trying, early, clun, indlv, crun, sending, dl, lastRx>>
       [] K = "conn.up" -> /\ E.g = gen[k] + 1 /\ SetupDone(k)
                           /\ recBy' = [recBy EXCEPT ![k] = IF L(k, E.g).fin = "open" THEN Inf ELSE T + RecoverMs]
                           \* the new reader's silence timer starts with it (unless it was seen at work already)
                           /\ lastRx' = [lastRx EXCEPT ![k] = IF E.g \in DOMAIN @ THEN @ ELSE (E.g :> T) @@ @]
                           /\ UNCHANGED <<ncalls, tmo, t0, dlvAt, ansAt, trying, early, clun, indlv, crun, sending, refused, dl>>
ReconnectKinds == {"rc.begin", "rc.skip", "rc.dialfail", "conn.up"}

\* --------------------------------------------------------------- quiescence
TQuiesce ==
  /\ K = "Quiesce"
  /\ \A c \in Calls : IF IsCall(c) THEN pc[c] = "done" /\ ~trying[c] ELSE pc[c] = "start"
  /\ queries = {}
  /\ \A k \in Conns : /\ clr[k].st = "idle" /\ ~clun[k] /\ ~indlv[k]
                      /\ status[k] = "Connected" /\ Cur(k).fin = "open" /\ rcq[k] = 0 /\ ~Dialing(k)
                      /\ Cur(k).p = "run" /\ Cur(k).r = "run" /\ crun[k] = <<>>
                      /\ \A g \in Gens(k) : g # gen[k] => L(k, g).p \in {"dead", "stuck"} /\ L(k, g).r = "dead"
  /\ E.gor.ping = NConns /\ E.gor.cl = NConns /\ E.gor.rc = 0 /\ E.gor.other = 0
  /\ E.gor.pkt = SumOver(PAlive, Conns) /\ E.gor.cr = SumOver(RAlive, Conns)
  /\ NoLeakAtRest
  /\ NoOp /\ Same(aux)

\* ------------------------------------------------------------ silent steps
\* each is enabled only immediately before the event that needs it
Silent ==
  /\ l <= N /\ UNCHANGED <<l, seg, now>>
  /\ \/ /\ K = "srv.recv" /\ E.i \in Calls /\ trying[E.i] /\ ~early[E.i] /\ pc[E.i] = "picked" /\ conn[E.i] = E.c
        /\ SendOk(E.i) /\ early' = [early EXCEPT ![E.i] = TRUE]
        /\ UNCHANGED <<ncalls, tmo, t0, dlvAt, ansAt, trying, clun, indlv, recBy, crun, sending, refused, dl, lastRx>>
     \/ /\ K = "cr.offered" /\ OnLink /\ L(E.c, E.g).r = "offer" /\ ~clun[E.c]
        /\ HandOff(E.c, E.g) /\ clun' = [clun EXCEPT ![E.c] = TRUE]
        /\ UNCHANGED <<ncalls, tmo, t0, dlvAt, ansAt, trying, early, indlv, recBy, crun, sending, refused, dl, lastRx>>
     \/ /\ K = "cl.recv" /\ E.c \in Conns /\ ~clun[E.c]
        /\ \E g \in Gens(E.c) : L(E.c, g).r = "offer" /\ PktMatches(L(E.c, g).rh) /\ HandOff(E.c, g)
        /\ clun' = [clun EXCEPT ![E.c] = TRUE]
        /\ UNCHANGED <<ncalls, tmo, t0, dlvAt, ansAt, trying, early, indlv, recBy, crun, sending, refused, dl, lastRx>>
     \/ /\ K = "Quiesce" /\ \E k \in Conns : \E g \in Gens(k) : PktStuck(k, g)
        /\ Same(aux)
     \* P logs its exit: it has handed over everything it parsed, so R has taken the last packet even if R's hook comes later
     \* the goroutines of a new socket are started a moment before the hook that reports its installation (in the same critical
     \* section of mu; on authenticated connections before the authentication exchange): they may be seen at work first
     \/ /\ K \in ReaderKinds /\ OnLink /\ E.g = gen[E.c] + 1 /\ L(E.c, E.g).p = "new"
        /\ SetL(E.c, E.g, [L(E.c, E.g) EXCEPT !.p = "run", !.r = "run"])
        /\ UNCHANGED <<callVars, status, gen, clr, rcq, dial, produced, drops, noise, sil>>
        /\ RxAt(E.c, E.g) /\ UNCHANGED <<OtherAux, crun>>
     \/ /\ K = "pkt.exit" /\ OnLink /\ Len(L(E.c, E.g).in) = 1 /\ ~Pending(E.c, E.g)
        /\ crun' = [crun EXCEPT ![E.c] = (E.g :> Head(L(E.c, E.g).in)) @@ @]
        /\ ConnReaderRecv(E.c, E.g)
        /\ UNCHANGED <<ncalls, tmo, t0, dlvAt, ansAt, trying, early, clun, indlv, recBy, sending, refused, dl, lastRx>>

\* ------------------------------------------------------- what must hold after every event
InTime == /\ \A c \in Calls : (t0'[c] # Inf /\ pc'[c] # "done") => now' <= t0'[c] + dl'[c] + Slack
          /\ \A k \in Conns : now' <= recBy'[k]
Holds == OwnAnswer /\ ChanOwn /\ ReaderNeverBlocks /\ RegisteredWhileWaiting /\ StatusLink /\ NoLeak

Event ==
  /\ l <= N
  /\ (l # seg => K # "Reset")
  /\ now' = (IF K # "Reset" /\ T > now THEN T ELSE now)
  /\ CASE K = "Reset" -> TReset
       [] K = "call" -> TCall
       [] K \in CallerKinds -> TCaller
       [] K \in SendKinds -> IF E.who = "ping" THEN TPing ELSE TCaller
       [] K \in ServerKinds -> TServer
       [] K \in ReaderKinds -> TReader
       [] K \in ClientKinds -> TClient
       [] K \in ReconnectKinds -> TReconnect
       [] K = "Quiesce" -> TQuiesce
       [] OTHER -> FALSE                    \* Panic, Hang, ... are not behaviours of the client
  /\ Holds' /\ InTime
  /\ Consume

TraceNext == Event \/ Silent
TraceSpec == TraceInit /\ [][TraceNext]_tvars

Report == \A i \in Starts : PrintT(<<"SEG", i, TLCGet(i)>>)
=============================================================================
