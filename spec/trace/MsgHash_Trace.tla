---------------------------- MODULE MsgHash_Trace ----------------------------
(* C->S judgement for C16 (and judge of the concretised S->C cases).  Every   *)
(* line of trace.ndjson is judged on its own: the hashes the library reported  *)
(* are compared with what MsgHash derives from the recorded *source cells*.    *)
(*                                                                             *)
(*  Msg    one message cell (table `cells`, root = cell 0) decoded without (h, hn) and with (hc, hnc) a caching     *)
(*         hasher: h = Hash(false), hn = Hash(true); optional `case` = the abstract case it concretises.            *)
(*  Pair   two external-in message cells a, b with their normalised hashes and `exp` = the relation claimed for     *)
(*         them ("equal" | "differ" | "free"), which must be the one the specification derives from the cells.      *)
(*  Tx     one transaction cell found at position `pos` of a real block; when `full`: SourceBoc (boc, bocc), in_msg *)
(*         (im) and every out_msgs entry (om: key, hashes) as reported; the specification finds the message cells   *)
(*         inside the source table itself (first reference, HashmapE 15 walk).                                      *)
(*  Build  the library's encoder applied to a decoded message: enc / dec = "" | "e", libcells = what it wrote.           *)
(*  Decode the library refused a message cell laid out per block.tlb (never accepted).                                *)
(*  Norm   Hash(true) of a message value whose fields were assigned (from the message in `cells`) after an earlier Hash(true).*)
(*  MsgAt  one message cell found at a position of in_msg_descr / out_msg_descr (key = dictionary key).             *)
EXTENDS MsgHash, Json

Trace == ndJsonDeserialize("trace.ndjson")
N == Len(Trace)
VARIABLES l, v
Hex(h) == BytesToHex(h)

\* first failing check of a list <<name, holds>>; prints it as a NOTE
AllHold(cs) == LET bad == {i \in 1..Len(cs) : ~cs[i][2]}
               IN bad = {} \/ (PrintT(<<"NOTE", l, cs[CHOOSE i \in bad : \A j \in bad : i <= j][1]>>) /\ FALSE)

\* what Hash(true) may report for the message in cell idx of T (I = InfoTable(T))
NormOK(T, I, idx, rep) ==
  LET mp == MsgParse(T, idx) IN
  IF ~mp.ok THEN FALSE
  ELSE IF mp.info.kind # "ext_in" THEN rep = Hex(ReprHash(I[idx]))
  ELSE rep \in {Hex(x) : x \in NormSet(T, mp)}
\* observation (never a verdict): which of the admitted forms the library used for an anycast destination
AnycastNote(T, idx, rep) ==
  LET mp == MsgParse(T, idx) IN
  (mp.ok /\ mp.info.kind = "ext_in" /\ mp.info.dest.any.d > 0) =>
     LET BT == BodyTable(T, mp) IN
     CASE rep = Hex(NormHash(mp.info.dest, BT))         -> PrintT(<<"NOTE", l, StrCat("anycast-cleared:", mp.info.dest.kind)>>)
       [] rep = Hex(NormHashVerbatim(mp.info.dest, BT)) -> PrintT(<<"NOTE", l, StrCat("anycast-kept:", mp.info.dest.kind)>>)
       [] OTHER -> TRUE

\* ------------------------------------------------------------------- Msg
CaseShape(cs) == [kind |-> cs.kind, init |-> cs.init, body |-> cs.body, src |-> cs.src, dest |-> cs.dest, any |-> cs.any, fee |-> cs.fee]
JudgeMsg(e) ==
  LET T == FromJson(e.cells)  I == InfoTable(T)  mp == MsgParse(T, 1)  want == Hex(ReprHash(I[1])) IN
  AllHold(<< <<"msg-parse", mp.ok>>,
             <<"shape", ("case" \in DOMAIN e /\ mp.ok) => Shape(mp) = CaseShape(e.case)>>,
             <<"hash", e.h = want>>,
             <<"hash-cached", e.hc = want>>,
             <<"norm", NormOK(T, I, 1, e.hn)>>,
             <<"norm-cached", NormOK(T, I, 1, e.hnc)>>,
             \* the same message through a decoder that has a library resolver: still the message standing in the cell
             <<"hash-resolver", ("hr" \in DOMAIN e) => e.hr = want>>,
             <<"norm-resolver", ("hnr" \in DOMAIN e) => NormOK(T, I, 1, e.hnr)>>,
             <<"note", AnycastNote(T, 1, e.hn)>> >>)

\* ------------------------------------------------------------------ Pair
JudgePair(e) ==
  LET Ta == FromJson(e.a.cells)  Tb == FromJson(e.b.cells)
      ma == MsgParse(Ta, 1)      mb == MsgParse(Tb, 1)
      Ia == InfoTable(Ta)        Ib == InfoTable(Tb)
      extin == ma.ok /\ mb.ok /\ ma.info.kind = "ext_in" /\ mb.info.kind = "ext_in"
      rel == PairRelation(Ta, ma, Tb, mb)
  IN AllHold(<< <<"pair-parse", extin>>,
                <<"declared", extin => e.exp = rel>>,
                <<"norm-a", NormOK(Ta, Ia, 1, e.a.hn) /\ NormOK(Ta, Ia, 1, e.a.hnc)>>,
                <<"norm-b", NormOK(Tb, Ib, 1, e.b.hn) /\ NormOK(Tb, Ib, 1, e.b.hnc)>>,
                <<"pair-equal", (extin /\ rel = "equal") => (e.a.hn = e.b.hn /\ e.a.hnc = e.b.hnc /\ e.a.hn = e.a.hnc)>>,
                <<"pair-differ", (extin /\ rel = "differ") => (e.a.hn # e.b.hn /\ e.a.hnc # e.b.hnc)>> >>)

\* -------------------------------------------------------------------- Tx
BocOK(hexboc, want) ==
  LET P == Parse(HexToBytes(hexboc)) IN
  /\ P.ok
  /\ Len(P.roots) = 1
  /\ \A i \in 1..Len(P.T) : HashableCell(P.T[i])
  /\ RootHashes(P) = <<want>>
JudgeTx(e) ==
  LET T == FromJson(e.cells)  I == InfoTable(T)  tp == TxParse(T, 1)  want == ReprHash(I[1])
      om == OutMsgs(T, tp)
      keys == {x[1] : x \in om.s}
      cellOf == [k \in keys |-> (CHOOSE x \in om.s : x[1] = k)[2]]
      CellOf(k) == cellOf[k]
      Known(k) == k \in keys
      \* a record taken out of a Merkle proof with pruned descendants: its identity is still the representation hash of the cell
      \* standing there (clause 1); the normalised hash of a partly pruned message is outside the statement and not judged
      partial == "proof" \in DOMAIN e
  IN AllHold(<< <<"tx-parse", tp.ok>>,
        <<"tx-binding", tp.ok => (tp.acc = BytesToBits(HexToBytes(e.acc)) /\ tp.lt = BitsM!UBits(e.lt, 64))>>,
        <<"tx-hash", e.h = Hex(want)>>,
        <<"tx-hash-cached", e.hc = Hex(want)>>,
        \* the same cell decoded a second time by the same caching decoder (its hash is then a cache hit)
        <<"tx-hash-cached-again", ("hc2" \in DOMAIN e) => e.hc2 = Hex(want)>>,
        <<"boc", e.full => (e.bocerr = "" /\ BocOK(e.boc, want))>>,
        <<"boc-cached", e.full => BocOK(e.bocc, want)>>,
        \* SourceBoc asked again after the caller overwrote the bytes it was given the first time
        <<"boc-again", (e.full /\ "boc2" \in DOMAIN e) => BocOK(e.boc2, want)>>,
        <<"boc-cached-again", (e.full /\ "bocc2" \in DOMAIN e) => BocOK(e.bocc2, want)>>,
        <<"in-present", (e.full /\ tp.ok) => (e.im.p = tp.hasIn /\ e.im.pc = tp.hasIn)>>,
        <<"in-hash", (e.full /\ tp.ok /\ tp.hasIn /\ e.im.p /\ e.im.pc) =>
                        e.im.h = Hex(ReprHash(I[tp.inIdx]))>>,
        <<"in-hash-cached", (e.full /\ tp.ok /\ tp.hasIn /\ e.im.p /\ e.im.pc) =>
                        e.im.hc = Hex(ReprHash(I[tp.inIdx]))>>,
        <<"in-norm", (e.full /\ tp.ok /\ tp.hasIn /\ e.im.p /\ e.im.pc /\ ~partial) =>
                        (NormOK(T, I, tp.inIdx, e.im.hn) /\ NormOK(T, I, tp.inIdx, e.im.hnc))>>,
        <<"out-dict", (e.full /\ tp.ok) => om.ok>>,
        <<"out-count", (e.full /\ tp.ok /\ om.ok) => (e.nout = Cardinality(om.s) /\ e.noutc = e.nout /\ Len(e.om) = e.nout)>>,
        <<"out-keys", (e.full /\ tp.ok /\ om.ok) => ((\A j \in 1..Len(e.om) : Known(e.om[j].key))
                                                      /\ Cardinality({e.om[n].key : n \in 1..Len(e.om)}) = Len(e.om))>>,
        <<"out-hash", (e.full /\ tp.ok /\ om.ok) => \A j \in 1..Len(e.om) : Known(e.om[j].key) =>
                        e.om[j].h = Hex(ReprHash(I[CellOf(e.om[j].key)]))>>,
        <<"out-hash-cached", (e.full /\ tp.ok /\ om.ok) => \A j \in 1..Len(e.om) : Known(e.om[j].key) =>
                        e.om[j].hc = Hex(ReprHash(I[CellOf(e.om[j].key)]))>>,
        <<"out-norm", (e.full /\ tp.ok /\ om.ok /\ ~partial) => \A j \in 1..Len(e.om) : Known(e.om[j].key) =>
                        (NormOK(T, I, CellOf(e.om[j].key), e.om[j].hn) /\ NormOK(T, I, CellOf(e.om[j].key), e.om[j].hnc))>> >>)

\* ----------------------------------------------------------------- MsgAt
\* in_msg_descr / out_msg_descr are keyed by the hash of the message (block.tlb / the block layout document)
JudgeMsgAt(e) ==
  LET T == FromJson(e.cells)  I == InfoTable(T)  mp == MsgParse(T, 1)  want == Hex(ReprHash(I[1])) IN
  AllHold(<< <<"msg-parse", mp.ok>>,
             <<"descr-key", e.key = want>>,
             <<"hash", e.h = want>>,
             <<"hash-cached", e.hc = want>>,
             <<"norm", NormOK(T, I, 1, e.hn)>>,
             <<"norm-cached", NormOK(T, I, 1, e.hnc)>> >>)

\* ------------------------------------------------------------- Build / Decode
\* Build: the library's own encoder applied to the message it decoded from `cells` (a cell laid out per block.tlb):
\*   it must encode, what it wrote must decode again, and -- when the source holds ordinary cells only -- be the source cell.
JudgeBuild(e) ==
  LET T == FromJson(e.cells) IN
  AllHold(<< <<"msg-parse", MsgParse(T, 1).ok>>,
             <<"encode", e.enc = "">>,
             <<"decode-own-encoding", e.dec = "">>,
             <<"reencode", (e.enc = "" /\ \A i \in 1..Len(T) : T[i].x = Ordinary) =>
                              ReprHash(InfoTable(FromJson(e.libcells))[1]) = ReprHash(InfoTable(T)[1])>> >>)
\* Decode: the library refused to decode a message cell.  There is no such step: a cell the specification reads is a message.
JudgeDecode(e) ==
  LET T == FromJson(e.cells) IN
  AllHold(<< <<"msg-parse", MsgParse(T, 1).ok>>, <<"decode-refused", FALSE>> >>)

\* ------------------------------------------------------------------ Norm
\* a message VALUE that was given the info / init / body of the message in `cells` after an earlier Hash(true):
\* its normalised hash is a function of the destination and body it holds now
JudgeNorm(e) ==
  LET T == FromJson(e.cells)  I == InfoTable(T)  mp == MsgParse(T, 1) IN
  AllHold(<< <<"msg-parse", mp.ok>>, <<"norm-after-assign", NormOK(T, I, 1, e.hn)>> >>)

Judge(e) == CASE e.k = "Msg"   -> JudgeMsg(e)
              [] e.k = "Norm"  -> JudgeNorm(e)
              [] e.k = "Build"  -> JudgeBuild(e)
              [] e.k = "Decode" -> JudgeDecode(e)
              [] e.k = "Pair"  -> JudgePair(e)
              [] e.k = "Tx"    -> JudgeTx(e)
              [] e.k = "MsgAt" -> JudgeMsgAt(e)
              [] OTHER -> FALSE          \* Panic, unknown kinds: no action

Init == l \in 1..N /\ v = "todo"
Next == /\ v = "todo" /\ l' = l
        /\ v' = (IF Judge(Trace[l]) THEN "ok" ELSE "bad")
        /\ PrintT(<<"EV", l, v'>>)
Spec == Init /\ [][Next]_<<l, v>>
=============================================================================
