-------------------------- MODULE WalletSend_Trace --------------------------
(* C->S judgement for C15.  Every line of trace.ndjson is judged on its own    *)
(* (Init picks a line, the single step evaluates WalletSend's operators on the  *)
(* recorded input and compares with the recorded output):                       *)
(*   Code         the code cell the library attaches is the published one       *)
(*   Addr         an address (or state-init) an API yielded = Hash(StateInit)   *)
(*   Unsupported  a version without wallet: no address exists (observation only) *)
(*   Seed         DefaultWalletFromSeed = the V4R2 wallet of the derived key    *)
(*   Distinct     over all recorded addresses: different inputs, different      *)
(*                addresses                                                     *)
(*   Run          a recorded send is a behaviour of WalletSend!Step (the        *)
(*                external message is decoded here, from its bag of cells)      *)
EXTENDS WalletSend, TLC

Trace == ndJsonDeserialize("trace.ndjson")
N == Len(Trace)
VARIABLES l, v
Note(kind, what) == PrintT(<<"NOTE", l, kind, what>>)

\* -------------------------------------------------------------------- Code
JudgeCode(e) ==
  /\ e.err = ""
  /\ e.ver \in Versions
  /\ LET P == Parse(HexToBytes(e.boc)) IN
       /\ P.ok /\ Len(P.roots) = 1
       /\ LET I == InfoTable(P.T)  h == BytesToHex(ReprHash(I[P.roots[1]])) IN
            /\ h = e.hash                                   \* what the library reports is the representation hash
            /\ h = PublishedCodeHash(e.ver)                 \* and the published code
            /\ e.ver = "V5Beta" => /\ P.T[P.roots[1]].x = Library
                                   /\ BytesToHex(BitsToBytes(SubSeq(P.T[P.roots[1]].b, 9, 264))) = V5BetaLibraryHash

\* -------------------------------------------------------------------- Addr
PubOf(e)  == BytesToBits(HexToBytes(e.pub))
WcOf(e)   == IF e.wc_set THEN e.wc ELSE 0
WantHash(e) == AddressHash(e.ver, PubOf(e), WcOf(e), EffSub(e.ver, WcOf(e), e.sub), EffNet(e.has_net, e.net))
JudgeAddr(e) ==
  IF ~(e.ver \in Versions /\ InDomain(e.ver, e.sub)) THEN Note("addr", "outside-domain")
  ELSE LET want == WantHash(e) IN
       /\ e.err = ""
       /\ e.awc = WcOf(e)
       /\ e.addr = BytesToHex(want)
       \* APIs that yield the initial state itself: the cells they return hash (by Cells!ReprHash) to the address
       /\ Len(e.cells) > 0 => LET T == FromJson(e.cells) IN
                                /\ Topological(T) /\ Len(e.roots) = 1
                                /\ ReprHash(InfoTable(T)[e.roots[1] + 1]) = want

\* a version without a wallet has no address: the statement says nothing. An API that does not refuse is an observation.
JudgeUnsupported(e) == e.ver \notin Versions /\ (e.err = "" => Note("obs", "unsupported-version-not-refused"))

\* -------------------------------------------------------------------- Seed
\* the key pair is consistent (RFC 8032 key generation) and the default wallet is V4R2, workchain 0, default sub-wallet
JudgeSeed(e) ==
  /\ e.err = ""
  /\ BytesToHex(EdPubFromSeed(HexToBytes(e.priv))) = e.pub
  /\ e.awc = 0
  /\ e.addr = BytesToHex(AddressHash("V4R2", BytesToBits(HexToBytes(e.pub)), 0, DefaultSubBits("V4R2", 0), S(MainnetId, 32)))

\* ---------------------------------------------------------------- Distinct
\* {"k":"Distinct","rows":[{ver,pub,wc_set,wc,sub,has_net,net,awc,addr}]}: the parameters a version's initial
\* state holds -> the address; different parameters must give different addresses
EffKey(r) == <<r.ver, r.pub, WcOf(r),
               IF TakesSub(r.ver) THEN EffSub(r.ver, WcOf(r), r.sub) ELSE <<>>,
               IF HasNet(r.ver) THEN EffNet(r.has_net, r.net) ELSE <<>>>>
JudgeDistinct(e) ==
  LET rows == {e.rows[i] : i \in 1..Len(e.rows)}
      F    == {<<EffKey(r), <<r.awc, r.addr>>>> : r \in rows}
      keys == {x[1] : x \in F}
      adrs == {x[2] : x \in F}
  IN IF Cardinality(keys) = Cardinality(adrs) /\ Cardinality(F) = Cardinality(keys) THEN TRUE
     ELSE LET shared == {a \in adrs : Cardinality({x \in F : x[2] = a}) > 1}
              a0 == CHOOSE a \in shared : TRUE
              ks == {x[1] : x \in {y \in F : y[2] = a0}}
          IN IF shared = {} THEN Note("distinct", "same-inputs-different-address") /\ FALSE
             ELSE Note("distinct", ToJson([addr |-> a0[2], wc |-> a0[1],
                        inputs |-> SetToSeq({[ver |-> k[1], pub |-> k[2], wc |-> k[3], sub |-> IF k[4] = <<>> THEN "" ELSE BitsToDec(k[4]), net |-> BitsToStr(k[5])] : k \in ks})])) /\ FALSE

\* --------------------------------------------------------------------- Run
\* {"k":"Run","ver","entry","confirm","wc","seed","rawseq","rawinit","W":ms,"addr","awc","setup":"",
\*  "steps":[{"k":"GetState","st","n"},{"k":"Send","boc":hex,"r"},{"k":"Poll","r","v","us"},{"k":"Return","res","us"}]}
RunP(e) == [ver |-> e.ver, entry |-> e.entry, confirm |-> e.confirm, rawseq |-> e.rawseq, rawinit |-> e.rawinit]
\* time-dependent judgements get a slack of one poll interval (a tenth of the window)
DeadlineUs(e) == e.W * 1000 - e.W * 100

\* public keys of the key seeds used by the runs, derived once (RFC 8032 key generation, Prim!EdPubFromSeed)
SeedSeq  == SetToSeq({Trace[i].seed : i \in {j \in 1..N : Trace[j].k = "Run"}})
SeedPubs == FoldLeft(LAMBDA acc, sd : Append(acc, KeyPub(sd)), <<>>, SeedSeq)
PubOfSeed(sd) == SeedPubs[CHOOSE i \in 1..Len(SeedSeq) : SeedSeq[i] = sd]

SendEvent(e, oa, x) ==
  LET P == Parse(HexToBytes(x.boc)) IN
  IF ~P.ok \/ Len(P.roots) # 1 THEN [k |-> "Send", srcNone |-> FALSE, destOK |-> FALSE, seq |-> "", init |-> FALSE, initOK |-> FALSE, r |-> x.r, why |-> "not-a-bag"]
  ELSE
  LET T == P.T
      M == MsgParse(T, P.roots[1])
      pub == PubOfSeed(e.seed)
      sub == DefaultSubBits(e.ver, e.wc)
      net == S(MainnetId, 32)
  IN IF ~M.ok THEN [k |-> "Send", srcNone |-> M.why # "src", destOK |-> FALSE, seq |-> "", init |-> FALSE, initOK |-> FALSE, r |-> x.r, why |-> M.why]
     ELSE LET I == InfoTable(T) IN
          [k |-> "Send", srcNone |-> TRUE,
           destOK |-> M.wc = S(e.wc, 8) /\ BytesToHex(BitsToBytes(M.addr)) = oa,
           seq  |-> BodySeqno(e.ver, M.body),
           init |-> M.hasInit,
           initOK |-> M.hasInit /\ M.init.plain
                      /\ BytesToHex(ReprHash(I[M.init.code])) = Code(e.ver).hash
                      /\ ReprHash(I[M.init.data]) = InitialDataHash(e.ver, pub, e.wc, sub, net),
           r |-> x.r, why |-> ""]

\* one recorded step -> the specification's events (Build is what the message shows the wallet decided;
\* Deadline is inserted when the clock has passed the window)
OwnAddr(e) == BytesToHex(AddressHash(e.ver, PubOfSeed(e.seed), e.wc, DefaultSubBits(e.ver, e.wc), S(MainnetId, 32)))
Feed(e, oa, p, s, x) ==
  LET s1 == IF x.k \in {"Poll", "Return"} /\ s.pc = "sent" /\ p.confirm /\ ~s.late /\ ~s.adv /\ x.us >= DeadlineUs(e)
            THEN Step(p, s, [k |-> "Deadline"]) ELSE s
      own == x.awc = e.wc /\ x.for = oa
  IN CASE x.k = "GetState" -> Step(p, s1, [k |-> "GetState", st |-> x.st, n |-> x.n, own |-> own])
       [] x.k = "Send" -> LET se == SendEvent(e, oa, x) IN
                          Step(p, Step(p, s1, [k |-> "Build", seq |-> se.seq, init |-> se.init]), se)
       [] x.k = "Poll" -> Step(p, s1, [k |-> "Poll", r |-> x.r, v |-> x.v, own |-> own])
       [] x.k = "Return" ->
            \* an error may not come late either: the call has to give up at the deadline (one more poll interval and generous
            \* scheduling slack allowed)
            IF x.res = "err" /\ s1.pc = "sent" /\ p.confirm /\ x.us > 2 * e.W * 1000 + 2000000 THEN Bad(s1, "Return:long-after-deadline")
            ELSE Step(p, s1, [k |-> "Return", res |-> x.res])
       [] OTHER -> Bad(s1, x.k)                          \* Panic, Timeout
RunFinal(e, oa) == FoldLeft(LAMBDA s, x : Feed(e, oa, RunP(e), s, x), S0, e.steps)
JudgeRun(e) ==
  IF e.setup # "" THEN Note("run", "setup") /\ FALSE
  ELSE LET oa == OwnAddr(e)
           f  == RunFinal(e, oa) IN
       IF e.addr # oa \/ e.awc # e.wc THEN Note("run", "GetAddress") /\ FALSE     \* the wallet object itself reports another address
       ELSE IF f.pc = "done" THEN TRUE
       ELSE Note("run", IF f.pc = "bad" THEN f.why ELSE "no-return") /\ FALSE

Judge(e) == CASE e.k = "Code"        -> JudgeCode(e)
              [] e.k = "Addr"        -> JudgeAddr(e)
              [] e.k = "Unsupported" -> JudgeUnsupported(e)
              [] e.k = "Seed"        -> JudgeSeed(e)
              [] e.k = "Distinct"    -> JudgeDistinct(e)
              [] e.k = "Run"         -> JudgeRun(e)
              [] OTHER -> FALSE                    \* Panic and unknown kinds: no action

Init == l \in 1..N /\ v = "todo"
Next == /\ v = "todo" /\ l' = l
        /\ v' = (IF Judge(Trace[l]) THEN "ok" ELSE "bad")
        /\ PrintT(<<"EV", l, v'>>)
Spec == Init /\ [][Next]_<<l, v>>
=============================================================================
