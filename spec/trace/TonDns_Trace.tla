----------------------------- MODULE TonDns_Trace -----------------------------
(* C->S for X06 (DNS).  trace.ndjson is a concatenation of segments, one per     *)
(* call of dns.DNS.Resolve on the real code with a scripted executor:            *)
(*  {"k":"Reset","name":hex,"root":"wc:hex"}                                     *)
(*  {"k":"Call","res":"wc:hex","method":int,"nargs":int,"top","below":kinds of   *)
(*   the two stack entries,"d":hex,"dbits","drefs":int,"cat":"dec",               *)
(*   "ans":{"fail":bool,"exit":int,"shape":str,"bits":"dec","cell":str}}          *)
(*      one line per RunSmcMethodByID the library made, with the answer the      *)
(*      script gave it (the environment's move)                                  *)
(*  {"k":"Ret","err":""|"e","panic":str,"recs":"label,label.."}                   *)
(* Every segment is its own initial state; a line is accepted only if it is the  *)
(* step TonDns allows in the current state: the first call goes to the root      *)
(* with an internal representation of the name, every later call goes to the     *)
(* resolver the previous answer named with exactly the rest of the bytes, and    *)
(* the return is what TonDns!Decide says about the last answer.  Register seg    *)
(* holds the number of lines of the segment accepted so far.                     *)
EXTENDS TonDns, Json, TLC

Trace == ndJsonDeserialize("trace.ndjson")
N     == Len(Trace)
VARIABLES l, seg, st
tvars == <<l, seg, st>>
Starts == {i \in 1..N : Trace[i].k = "Reset"}
ASSUME \A i \in Starts : TLCSet(i, 0)
E == Trace[l]
H(x) == HexToBytes(x)
Blank == [ph |-> "none", res |-> "", d |-> <<>>, name |-> <<>>, out |-> [do |-> "none"], lenient |-> FALSE]

RecSet(s) == LET c == StrToCodes(s) IN IF c = <<>> THEN {} ELSE {SplitAt(c, 44)[i] : i \in 1..Len(SplitAt(c, 44))}

TReset == /\ E.k = "Reset" /\ l = seg
          /\ PrintT(<<"NOTE", l, NameClass(H(E.name))>>)
          /\ st' = [Blank EXCEPT !.ph = "open", !.res = E.root, !.name = H(E.name)]
\* the outcome of a call, computed once
Outcome(e) == Decide(e.ans, H(e.d))
Advance(dec, len) == IF dec.do = "call" THEN [st EXCEPT !.ph = "call", !.res = dec.res, !.d = dec.d, !.lenient = len]
                     ELSE [st EXCEPT !.ph = "ret", !.out = dec, !.lenient = len]
FirstNote(d) == LET n == st.name IN
                IF d = Encode(n) THEN "as-is" ELSE IF d = <<0>> \o Encode(n) THEN "leading-zero"
                ELSE IF d = Encode(Lower(n)) THEN "lower-cased" ELSE IF d = <<0>> THEN "one-zero" ELSE "other"
TCall ==
  /\ E.k = "Call" /\ st.ph \in {"open", "call"}
  /\ E.method = DnsResolveMethod
  \* dnsresolve(subdomain, category): two arguments, the category (0 = all records) on top of the stack, the subdomain a
  \* slice of whole bytes without references
  /\ E.nargs = 2 /\ E.top \in {"VmStkInt", "VmStkTinyInt"} /\ E.cat = "0" /\ E.below = "VmStkSlice"
  /\ E.dbits = 8 * Len(H(E.d)) /\ E.drefs = 0
  /\ E.res = st.res
  /\ IF st.ph = "open"
     THEN LET cl == NameClass(st.name) IN
          /\ PrintT(<<"NOTE", l, StrCat("first:", FirstNote(H(E.d)))>>)
          /\ cl = "lax" \/ H(E.d) \in FirstSubdomains(st.name)
     ELSE H(E.d) = st.d
  /\ st' = Advance(Outcome(E), Lenient(E.ans))
TRet ==
  /\ E.k = "Ret" /\ E.panic = ""
  /\ CASE st.ph = "ret"  -> (CASE st.out.do = "ok"   -> (E.err = "" /\ RecSet(E.recs) = RecSet(st.out.recs)) \/ (E.err # "" /\ st.lenient)
                               [] st.out.do = "err"  -> E.err # ""
                               [] st.out.do = "free" -> TRUE)
       [] st.ph = "open" -> E.err # "" /\ NameClass(st.name) # "ok"          \* refused without a lookup: never a well-formed name
       [] st.ph = "call" -> E.err # "" /\ st.lenient                          \* a call was due
       [] OTHER -> FALSE
  /\ st' = [st EXCEPT !.ph = "done"]

Consume == /\ l' = l + 1 /\ seg' = seg
           /\ TLCSet(seg, l + 1 - seg)
TraceInit == l \in Starts /\ seg = l /\ st = Blank
TraceNext == /\ l <= N
             /\ (l # seg => Trace[l].k # "Reset")
             /\ (TReset \/ TCall \/ TRet)
             /\ Consume
TraceSpec == TraceInit /\ [][TraceNext]_tvars
TypeOK == l \in 1..(N + 1) /\ seg \in Starts
Report == \A i \in Starts : PrintT(<<"SEG", i, TLCGet(i)>>)
=============================================================================
