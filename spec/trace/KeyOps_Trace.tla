---------------------------- MODULE KeyOps_Trace ----------------------------
(* C->S judgement for the key operations of C05.  Every line of trace.ndjson   *)
(* is judged on its own against KeyOps.tla:                                     *)
(*  Key      one Go key type `type` of kind / n, two keys built from the bit    *)
(*           strings a, b with the library's codec (rem = bits the decoder left *)
(*           unread, ea / eb = what the encoder writes for the built values),   *)
(*           and what the three methods report in both directions:              *)
(*           fs = FixedSize(); eq, req = a.Equal(b), b.Equal(a);                *)
(*           (cmp, ok), (rcmp, rok) = a.Compare(b), b.Compare(a).               *)
(*  Foreign  a key of `type` against a key of ANOTHER key type `other` holding  *)
(*           the same bits: never equal, not comparable.                        *)
(*  Size     a fixed-width type that is not key-capable (no Equal / Compare):   *)
(*           fs = FixedSize(), w = number of bits its codec writes.             *)
(* Nothing else is accepted (KeyFail = the codec refused an n-bit string).      *)
EXTENDS KeyOps, Json

Trace == ndJsonDeserialize("trace.ndjson")
N == Len(Trace)
VARIABLES l, v

\* first failing check of a list <<name, holds>>; prints it as a NOTE
AllHold(cs) == LET bad == {i \in 1..Len(cs) : ~cs[i][2]}
               IN bad = {} \/ (PrintT(<<"NOTE", l, cs[CHOOSE i \in bad : \A j \in bad : i <= j][1]>>) /\ FALSE)

JudgeKey(e, a, b) ==
  AllHold(<< <<"input", e.kind \in KeyKinds /\ Len(a) = e.n /\ Len(b) = e.n>>,
             <<"codec", e.rem = 0 /\ e.ea = e.a /\ e.eb = e.b>>,                         \* the type reads and writes exactly the n bits
             <<"FixedSize", e.fs = KeyFixedSize(e.kind, e.n)>>,
             <<"Equal", e.eq = KeyEqual(a, b) /\ e.req = KeyEqual(b, a)>>,
             <<"Compare-ok", e.ok /\ e.rok>>,
             <<"Compare-zero", (Sgn(e.cmp) = 0) = KeyEqual(a, b) /\ (Sgn(e.rcmp) = 0) = KeyEqual(a, b)>>,   \* consistent with Equal
             <<"Compare-antisymmetric", Sgn(e.cmp) = 0 - Sgn(e.rcmp)>>,
             <<"Compare", Sgn(e.cmp) \in KeySigns(e.kind, a, b) /\ Sgn(e.rcmp) \in KeySigns(e.kind, b, a)>> >>)
JudgeForeign(e) ==
  AllHold(<< <<"Equal-foreign", ~e.eq /\ ~e.req>>,
             <<"Compare-foreign", ~e.ok /\ ~e.rok>> >>)
JudgeSize(e) ==
  AllHold(<< <<"FixedSize", e.fs = KeyFixedSize(e.kind, e.n)>>,
             <<"codec", e.w = e.n>> >>)

Judge(e) == CASE e.k = "Key"     -> JudgeKey(e, StrToBits(e.a), StrToBits(e.b))
              [] e.k = "Foreign" -> JudgeForeign(e)
              [] e.k = "Size"    -> JudgeSize(e)
              [] OTHER           -> FALSE
Init == l \in 1..N /\ v = "todo"
Next == /\ v = "todo" /\ l' = l
        /\ v' = IF Judge(Trace[l]) THEN "ok" ELSE "bad"
        /\ PrintT(<<"EV", l, v'>>)
Spec == Init /\ [][Next]_<<l, v>>
=============================================================================
