---------------------------- MODULE TlSem_Trace ----------------------------
(* C->S for C10 and the TL half of C09: every recorded call of a generated /  *)
(* hand-written TL codec must be what TlSem says about the same schema.       *)
(* trace.ndjson is a concatenation of segments; each starts with a Reset      *)
(* event that carries the schema AST (DESIGN.md A.5) of the segment.  The     *)
(* codecs are pure functions, so a segment has no state besides its position: *)
(* event i is accepted iff TlSem's operator applied to the logged input gives *)
(* the logged output.  Register i (line of the segment's Reset) counts the    *)
(* lines accepted.                                                             *)
(*   Marshal    ty op v hex err         hex = Enc/EncBare(S, ty, v)            *)
(*   Unmarshal  ty op hex [v] rest err  Dec(S, ty, hex) = v with `rest` bytes  *)
(*                                       left unread, or both sides fail       *)
(*   ReqDecode  hex tag name [v]        LiteapiRequestDecoder = DecAnyFn       *)
(*   Call       fn v frame payload ans [res] [errv] err                        *)
(*              payload = adnl.message.query(q, liteServer.query(Enc(fn, v))), *)
(*              result  = Dec(result type of fn, answer)                       *)
EXTENDS TlSem, Json

Trace == ndJsonDeserialize("trace.ndjson")
N     == Len(Trace)
VARIABLES l, seg
tvars == <<l, seg>>

Starts == {i \in 1..N : Trace[i].k = "Reset"}
ASSUME \A i \in Starts : TLCSet(i, 0)

E  == Trace[l]
S  == Trace[seg].schema
HasE(f) == f \in DOMAIN E

\* the wrapper every lite-server request travels in (lite_api.tl, commented declaration):
\*   liteServer.query data:bytes = Object
QueryDecl   == [ctor |-> "liteServer.query", id |-> "798c06df", result |-> "Object",
                fields |-> <<[name |-> "data", ty |-> "bytes"]>>]
FrameSchema == [types |-> <<>>, functions |-> <<QueryDecl>>]
ASSUME ConstructorId(QueryDecl) = QueryDecl.id
LsQuery(data) == Enc(FrameSchema, "liteServer.query", [_ |-> "liteServer.query", data |-> BytesToHex(data)])

KnownTy(op, ty) == IF op = "EncBare" THEN IsCtor(S, ty) \/ IsFn(S, ty)
                   ELSE ty \in Builtins \/ IsCtor(S, ty) \/ IsResult(S, ty) \/ IsFn(S, ty)
EncOf(op, ty, v) == IF op = "EncBare" THEN EncBare(S, ty, v) ELSE Enc(S, ty, v)
DecOf(op, ty, b) == IF op = "EncBare" THEN DecBare(S, ty, b) ELSE Dec(S, ty, b)
\* a value outside the type's domain is the harness's mistake, not the code's: flagged, never matched
InDomain(ty, v) == IF Valid(S, ty, v) THEN TRUE ELSE PrintT(<<"DOMAIN", l>>) /\ FALSE

TMarshal ==
  /\ E.k = "Marshal" /\ E.op \in {"Enc", "EncBare"} /\ KnownTy(E.op, E.ty)
  /\ InDomain(E.ty, E.v)
  /\ E.err = ""
  /\ HexToBytes(E.hex) = EncOf(E.op, E.ty, E.v)

TUnmarshal ==
  /\ E.k = "Unmarshal" /\ E.op \in {"Enc", "EncBare"} /\ KnownTy(E.op, E.ty)
  /\ LET d == DecOf(E.op, E.ty, HexToBytes(E.hex)) IN
       IF d.ok THEN E.err = "" /\ HasE("v") /\ E.v = d.value /\ E.rest = Len(d.rest)
       ELSE E.err # ""

TReqDecode ==
  /\ E.k = "ReqDecode"
  /\ LET b == HexToBytes(E.hex)  d == DecAnyFn(S, b) IN
       IF Len(b) < 4 THEN E.err # ""
       ELSE /\ E.tag = BitsToDec(LEToBits(SubSeq(b, 1, 4)))
            /\ E.err = ""
            /\ IF d.ok THEN E.name = d.value["_"] /\ HasE("v") /\ E.v = d.value
               ELSE E.name = "Unknown" /\ ~HasE("v")

TCall ==
  /\ E.k = "Call" /\ IsFn(S, E.fn) /\ InDomain(E.fn, E.v)
  /\ LET P     == HexToBytes(E.payload)
         inner == Enc(S, E.fn, E.v)
         fd    == FnDecl(S, E.fn)
     IN
     IF E.frame = "none" THEN
       \* the bytes handed to liteServerRequest; the answer is what it returns
       /\ P = inner
       /\ LET body == HexToBytes(E.ans)
              R  == Dec(S, fd.result, body)
              Er == Dec(S, "liteServer.Error", body) IN
          IF Er.ok THEN E.err # "" /\ HasE("errv") /\ E.errv = Er.value
          ELSE IF R.ok THEN E.err = "" /\ HasE("res") /\ E.res = R.value
          ELSE E.err # ""
     ELSE
       /\ E.frame = "adnl" /\ Len(P) >= 36
       /\ LET qid == BytesToHex(SubSeq(P, 5, 36))
              A   == Dec(S, "adnl.Message", HexToBytes(E.ans)) IN
          /\ P = Enc(S, "adnl.Message", [_ |-> "adnl.message.query", query_id |-> qid, query |-> BytesToHex(LsQuery(inner))])
          \* the scripted answer is well formed and addressed to this query (harness consistency)
          /\ A.ok /\ A.value["_"] = "adnl.message.answer" /\ A.value.query_id = qid
          /\ LET body == HexToBytes(A.value.answer)
                 R  == Dec(S, fd.result, body)
                 Er == Dec(S, "liteServer.Error", body) IN
             IF Er.ok THEN E.err # "" /\ HasE("errv") /\ E.errv = Er.value
             ELSE IF R.ok THEN E.err = "" /\ HasE("res") /\ E.res = R.value
             ELSE E.err # ""

Consume == /\ l' = l + 1 /\ seg' = seg
           /\ TLCSet(seg, l + 1 - seg)

TraceInit == l \in Starts /\ seg = l
TReset    == E.k = "Reset" /\ l = seg /\ IdsWellFormed(S)

TraceNext == /\ l <= N
             /\ (l # seg => Trace[l].k # "Reset")
             /\ (TReset \/ TMarshal \/ TUnmarshal \/ TReqDecode \/ TCall)
             /\ Consume
TraceSpec == TraceInit /\ [][TraceNext]_tvars

Report == \A i \in Starts : PrintT(<<"SEG", i, TLCGet(i)>>)
=============================================================================
