---------------------------- MODULE Decode_Trace ----------------------------
(* C->S judgement for C08.  Every line of trace.ndjson is one call of a decoder *)
(* on untrusted input, recorded by the drivers; it is judged on its own (see    *)
(* Cells_Trace for the pattern).  A line is accepted iff it is a RETURN the     *)
(* specification (spec/Decode.tla) allows:                                      *)
(*   Decode    tlb.Unmarshal / Decoder.Unmarshal of one cell tree into one type *)
(*   TlDecode  UnmarshalTL / tl.Unmarshal of one byte string into one TL type   *)
(*   Helper    one call of a helper that sits on network / chain data           *)
(*   Tuple     a spec-built TVM tuple (VmTuple_Gen) through the decoders that can  *)
(*             meet one                                                          *)
(*   Bag       a spec-written bag the library's reader did not turn into one    *)
(*             root (refused, no root, several roots): only the return matters  *)
(* Panic, Timeout, Crash and anything else have no action.                      *)
(* asts.json: type name -> reflection schema (complete ones only).              *)
(* schema.json: the TL schema AST of lite_api.tl.                               *)
(* Where the driver also recorded `ds` (the returned value as canonical text in   *)
(* the shape of the specification's total decoder; thorough tier / opt-in) and   *)
(* the input holds only ordinary cells, TlbDec!DecLax decodes the input under    *)
(* the same schema: if it yields a value, the library's value must be that very  *)
(* value (stronger than "a reading of a prefix"); if it refuses the input the     *)
(* library was merely more tolerant (not a question of totality) and the prefix  *)
(* relation above decides alone.  <<"JD", line, "dec" | "dec-refuses">> counts.   *)
EXTENDS Decode, TlbDec, Json

Trace  == ndJsonDeserialize("trace.ndjson")
ASTs   == JsonDeserialize("asts.json")
Schema == JsonDeserialize("schema.json")
N == Len(Trace)
VARIABLES l, v

Note(tag) == PrintT(<<"NOTE", l, tag>>) /\ FALSE
First(cs) == LET bad == {i \in 1..Len(cs) : ~cs[i][2]} IN
             bad = {} \/ Note(cs[CHOOSE i \in bad : \A j \in bad : i <= j][1])

\* ---------------------------------------------------------------- TL-B
ValueOK(e) ==
  LET ty  == ASTs[e.type]
      inp == TreeOfJson(e.tree) IN
  IF Ambiguous(ty) THEN Reads(ty, e.v, inp)
  ELSE LET a == EncPrefix(ty, e.v, inp)
           b == Reads(ty, e.v, inp) IN
       IF a = b THEN a ELSE PrintT(<<"NOTE", l, "spec-disagree">>) /\ FALSE
RECURSIVE AllOrdinary(_)
AllOrdinary(t) == t.x = 0 /\ \A k \in 1..Len(t.r) : AllOrdinary(t.r[k])
DecSame(e) ==
  IF ~("ds" \in DOMAIN e) THEN TRUE
  ELSE LET inp == TreeOfJson(e.tree) IN
       IF ~AllOrdinary(inp) THEN TRUE
       ELSE LET t == DecLaxText(<<>>, ASTs[e.type], inp) IN
            IF StrLen(t) >= 1 /\ SubStr(t, 1, 1) = "!" THEN PrintT(<<"JD", l, "dec-refuses">>)
            ELSE t = e.ds /\ PrintT(<<"JD", l, "dec">>)
JudgeDecode(e) ==
  LET size == TreeSize(e.cells, e.bits) IN
  First(<< <<"alloc", e.capped \/ e.alloc_kb <= AllocBudgetKb(size)>>,
           <<"time",  e.capped \/ e.ms <= TimeBudgetMs(size)>>,
           \* "a value" means a usable value: the accessors a caller uses next on what was returned (e.use: "" or the
           \* first panic met while calling them) are part of the call
           <<"use",   e.res = "ok" => e.use = "">>,
           <<"value", (e.res = "ok" /\ e.val) => ValueOK(e)>>,
           <<"value-differs-from-Dec", (e.res = "ok" /\ e.val) => DecSame(e)>> >>)

\* ------------------------------------------------------------------ TL
DecOf(op, ty, b) == IF op = "EncBare" THEN TL!DecBare(Schema, ty, b) ELSE TL!Dec(Schema, ty, b)
TlValueOK(e) == LET d == DecOf(e.op, e.ty, HexToBytes(e.hex)) IN
                d.ok /\ e.v = d.value /\ (e.rest = -1 \/ e.rest = Len(d.rest))
JudgeTl(e) ==
  First(<< <<"alloc", e.alloc_kb <= AllocBudgetKb(e.size)>>,
           <<"time",  e.ms <= TimeBudgetMs(e.size)>>,
           \* a returned value must be usable: re-encoding it and reading it (e.use: "" or the first panic) are part of the call
           <<"use",   e.res = "ok" => e.use = "">>,
           <<"value", (e.res = "ok" /\ e.val) => TlValueOK(e)>> >>)

\* -------------------------------------------------------------- helpers
Ok(e) == e.res = "ok"
OneRoot(e, k) == e.bags[k].nroots = 1
Rel(e) ==
  CASE e.site = "VmStack.UnmarshalTL" ->
         \* a stack travels as a bag with a root; the empty byte string is the empty stack
         (Ok(e) /\ e.wire_ok) => (e.bags[1].len = 0 \/ e.bags[1].nroots >= 1)
    [] e.site = "code.ParseContractMethods" -> Ok(e) => e.bags[1].nroots >= 1
    [] e.site = "liteapi.GetTransactions" ->
         \* ids and transactions are parallel lists: one block id per root of the bag
         (Ok(e) /\ e.wire_ok) => \/ e.bags[1].len = 0 /\ e.nres = 0
                                 \/ e.bags[1].nroots >= 0 /\ e.nres = e.bags[1].nroots /\ e.bags[1].nroots <= e.nids
    [] e.site = "liteapi.GetAccountState" ->
         \* bags[1] = proof (shard state proof is its second root), bags[2] = state
         (Ok(e) /\ e.wire_ok) => (e.bags[2].len = 0 \/ (OneRoot(e, 2) /\ e.bags[1].nroots >= 2))
    [] e.site \in {"liteapi.GetBlockHeader", "liteapi.LookupBlock", "liteapi.RunSmcMethod", "liteapi.GetOneTransactionFromBlock",
                   "liteapi.GetBlock", "liteapi.GetAllShardsInfo", "liteapi.GetConfigAll"} ->
         (Ok(e) /\ e.wire_ok) => OneRoot(e, 1)
    [] e.site = "liteapi.GetLibraries" -> (Ok(e) /\ e.wire_ok) => \A k \in 1..Len(e.bags) : OneRoot(e, k)
    [] e.site = "liteclient.decodeLength" ->
         LET p == LenPrefix(HexToBytes(e.hex)) IN
         Ok(e) => (p.ok /\ e.n = p.n /\ e.restlen = Len(HexToBytes(e.hex)) - p.h)
    [] e.site = "liteclient.processQueryAnswer" ->
         LET a == AnswerOf(HexToBytes(e.hex)) IN
         Ok(e) => (e.known /\ a.ok /\ e.delivered = BytesToHex(a.data))
    [] e.site = "liteclient.ParsePacket" ->
         LET f == FrameOf(HexToBytes(e.hex)) IN
         Ok(e) => (f.ok /\ e.payload = BytesToHex(f.payload))
    [] OTHER -> TRUE          \* abi decoders, answer framing on a live connection: returning is all that is asked
\* an error answer of the server is never a value
ErrAnswer(e) == ("errans" \in DOMAIN e /\ e.errans) => ~Ok(e)
HelperSize(e) == IF "cells" \in DOMAIN e THEN TreeSize(e.cells, e.bits) ELSE e.size
HelperAlloc(e) == IF e.site = "liteclient.ParsePacket" THEN FrameAllocBudgetKb(e.size, FrameLen(HexToBytes(e.hex)))
                  ELSE AllocBudgetKb(HelperSize(e))
Capped(e) == "capped" \in DOMAIN e /\ e.capped
JudgeHelper(e) ==
  First(<< <<"alloc", Capped(e) \/ e.alloc_kb <= HelperAlloc(e)>>,
           <<"time",  Capped(e) \/ e.ms <= TimeBudgetMs(HelperSize(e))>>,
           <<"value", Rel(e) /\ ErrAnswer(e)>> >>)

\* Tuple: a vector of VmTuple_Gen (spec-built encodings of a type the library cannot encode) decoded as a
\* VmStackValue, as the only entry of a VmStack, or through VmStack.UnmarshalTL. Well-formed vectors must decode, and to
\* exactly the entries the specification built them from (vals: the value as text, entries in schema order);
\* ill-formed neighbours are free to be refused or read, but like every call they must return within budget.
JudgeTuple(e) ==
  LET size == TreeSize(e.cells, e.bits) IN
  First(<< <<"alloc", e.alloc_kb <= AllocBudgetKb(size)>>,
           <<"time",  e.ms <= TimeBudgetMs(size)>>,
           <<"value", e.wf => (e.res = "ok" /\ e.got = e.vals)>> >>)

JudgeBag(e) == First(<< <<"alloc", e.alloc_kb <= AllocBudgetKb(e.size)>>, <<"time", e.ms <= TimeBudgetMs(e.size)>> >>)

Judge(e) == CASE e.k = "Decode"   -> JudgeDecode(e)
              [] e.k = "TlDecode" -> JudgeTl(e)
              [] e.k = "Helper"   -> JudgeHelper(e)
              [] e.k = "Bag"      -> JudgeBag(e)
              [] e.k = "Tuple"    -> JudgeTuple(e)
              [] OTHER -> FALSE          \* Panic, Timeout, Crash: not steps of the specification

Init == l \in 1..N /\ v = "todo"
Next == /\ v = "todo" /\ l' = l
        /\ v' = (IF Judge(Trace[l]) THEN "ok" ELSE "bad")
        /\ PrintT(<<"EV", l, v'>>)
Spec == Init /\ [][Next]_<<l, v>>
=============================================================================
