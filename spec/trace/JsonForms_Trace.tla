-------------------------- MODULE JsonForms_Trace --------------------------
(* C->S: every recorded run of the real encoders / decoders must be a run of   *)
(* the abstract machine of JsonForms that satisfies the property.              *)
(*   RT     one complete run  v --Marshal--> text --Unmarshal--> v'            *)
(*          (Pick; Marshal; Unmarshal; Forget taken as one step): accepted iff *)
(*          RoundTripOK - the text is well-formed JSON by the recogniser of    *)
(*          JsonForms, no error, and v' = v (or v is in the excluded class).   *)
(*   Dec    json.Unmarshal of a document the encoder did not produce (mutated, *)
(*          truncated, wrong kind, out of range): accepted iff DecodeOK (error, *)
(*          or ok on a well-formed document) and, when the document is exactly *)
(*          the encoder's text for a value (field encof), EncoderTextOK.  An    *)
(*          accepted document that encodes no value is only printed as OBS.    *)
(*   Direct UnmarshalJSON called directly on such a document: any result but a *)
(*          panic.                                                             *)
(*   Seq    one step of a sequence of documents decoded into ONE reused target  *)
(*          (a variable, or the reused elements of a slice): accepted iff the  *)
(*          full state of the target afterwards is Denote(document) - what a   *)
(*          fresh decode gives - whatever the target held before (ReuseOK).    *)
(*   Ins    the encoder's string text of a value with garbage inserted after   *)
(*          the opening quote / in the middle / before the closing quote:      *)
(*          accepted iff error or a value other than the original (InsertOK).  *)
(*   Panic  has no action.                                                     *)
(* The events are independent, so a rejected event does not stop the segment:  *)
(* it is printed as <<"REJ", line>> and not counted as accepted.  Register i   *)
(* (the line of the segment's Reset) holds the number of accepted lines.       *)
(* Two diagnostics that are never verdicts: <<"OOD", line>> - the harness      *)
(* logged a value outside the domain of its type; <<"WFDIFF", line>> - the     *)
(* recogniser and encoding/json's json.Valid disagree on a document.           *)
EXTENDS JsonForms, Json

Trace == ndJsonDeserialize("trace.ndjson")
N     == Len(Trace)
VARIABLES l, seg
tvars == <<m, tgt, l, seg>>

Starts == {i \in 1..N : Trace[i].k = "Reset"}
ASSUME \A i \in Starts : TLCSet(i, 0)

E == Trace[l]
Has(f) == f \in DOMAIN E

\* the finished run of the machine that the event describes
RunOf(e) == [phase |-> "done", ty |-> e.ty, v |-> e.val, text |-> HexToBytes(e.text), back |-> e.back,
             mok |-> e.err # "marshal", uok |-> e.err = ""]

JudgeRT ==
  IF ~InDomain(E.ty, E.val) THEN PrintT(<<"OOD", l>>)
  ELSE /\ RoundTripOK(RunOf(E))
       /\ Has("canon") => E.canon = E.val          \* S->C: the harness built exactly the cell the specification enumerated

JudgeDec ==
  LET doc == HexToBytes(E.doc) IN
  /\ (WF(doc) = (E.gowf = 1)) \/ PrintT(<<"WFDIFF", l>>)
  /\ DecodeStrict(E.ty, doc, E.res, E.back) \/ PrintT(<<"OBS", l>>)       \* observation, not a verdict
  /\ DecodeOK(E.ty, doc, E.res, E.back)
  /\ Has("encof") => EncoderTextOK(E.ty, E.encof, E.res, E.back)        \* doc = the encoder's text for E.encof

\* one step of a sequence of documents decoded into ONE reused target (JsonForms 4b): E.fresh / E.freshres is
\* Denote(doc), E.after the full state of the reused target after the step, E.before its state before
JudgeSeq ==
  /\ (E.how = "var" /\ E.step > 1) => (E.before = tgt \/ PrintT(<<"SEQBROKEN", l>>))     \* recorder consistency, not a verdict
  /\ ReuseOK(E.freshres = "ok", E.fresh, E.res = "ok", E.after)

\* garbage inserted into the encoder's string text of E.val (JsonForms 5b)
JudgeIns ==
  LET doc == HexToBytes(E.doc) IN
  /\ (WF(doc) = (E.gowf = 1)) \/ PrintT(<<"WFDIFF", l>>)
  /\ IF ~InDomain(E.ty, E.val) THEN PrintT(<<"OOD", l>>) ELSE InsertOK(E.ty, E.val, doc, E.res, E.back)

Judge == CASE E.k = "Reset"  -> l = seg
           [] E.k = "Ins"    -> JudgeIns
           [] E.k = "Seq"    -> JudgeSeq
           [] E.k = "RT"     -> JudgeRT
           [] E.k = "Dec"    -> JudgeDec
           [] E.k = "Direct" -> E.res \in {"ok", "err"}
           [] OTHER          -> FALSE                \* Panic, or anything unknown

TraceInit == l \in Starts /\ seg = l /\ m = M0 /\ tgt = FreshTarget
TraceNext == /\ l <= N
             /\ (l # seg => Trace[l].k # "Reset")      \* a segment ends at the next Reset
             /\ IF Judge THEN TLCSet(seg, TLCGet(seg) + 1) ELSE PrintT(<<"REJ", l>>)
             /\ tgt' = (IF E.k = "Seq" THEN E.after ELSE IF E.k = "Reset" THEN FreshTarget ELSE tgt)
             /\ l' = l + 1 /\ UNCHANGED <<seg, m>>
TraceSpec == TraceInit /\ [][TraceNext]_tvars

Report == \A i \in Starts : PrintT(<<"SEG", i, TLCGet(i)>>)
=============================================================================
