---------------------------- MODULE NetConfig_Trace ----------------------------
(* C->S for X06 (configuration file).  Every line is one call of                 *)
(* config.ParseConfig / ParseConfigFile on the real code:                        *)
(*  {"k":"Cfg","via":"reader"|"file","variant":str,"servers":[[ip,port,type,key]] *)
(*   ,"json":hex,"err":""|"e","panic":"","out":[[host,key]]}                      *)
(* For variant "canon" the judge re-assembles the JSON text from the abstract    *)
(* server list and requires the recorded text to be exactly that (so the list    *)
(* is what the library was given); then the recorded result must be a reading    *)
(* NetConfig admits.                                                             *)
EXTENDS NetConfig, Json, TLC

Trace == ndJsonDeserialize("trace.ndjson")
N == Len(Trace)
VARIABLES l, v
Cat(seq) == FoldLeft(LAMBDA a, x : StrCat(a, x), "", seq)
RECURSIVE JoinWith(_, _)
JoinWith(seq, sep) == IF Len(seq) = 0 THEN "" ELSE IF Len(seq) = 1 THEN seq[1] ELSE StrCat(seq[1], StrCat(sep, JoinWith(Tail(seq), sep)))
CanonServer(s) == Cat(<<"{\"ip\":", s.ip, ",\"port\":", s.port, ",\"id\":{\"@type\":\"", s.type, "\",\"key\":\"", s.key, "\"}}">>)
CanonFile(servers) == Cat(<<"{\"liteservers\":[", JoinWith([i \in 1..Len(servers) |-> CanonServer(servers[i])], ","), "]}">>)

JudgeCfg(e) ==
  LET servers == [i \in 1..Len(e.servers) |-> [ip |-> e.servers[i][1], port |-> e.servers[i][2], type |-> e.servers[i][3], key |-> e.servers[i][4]]]
      out == [i \in 1..Len(e.out) |-> [host |-> e.out[i][1], key |-> e.out[i][2]]]
      cls == Classes(servers) IN
  /\ PrintT(<<"NOTE", l, IF "lax" \in cls THEN "lax" ELSE IF "free" \in cls THEN "free" ELSE IF "ok" \in cls THEN "ok" ELSE "none",
              IF e.err = "" THEN Len(out) ELSE -1>>)
  /\ e.panic = ""
  /\ e.variant = "canon" => HexToBytes(e.json) = StrToCodes(CanonFile(servers))
  /\ Admitted(servers, e.err, out)

Judge(e) == CASE e.k = "Cfg" -> JudgeCfg(e)
              [] OTHER -> FALSE
Init == l \in 1..N /\ v = "todo"
Next == /\ v = "todo" /\ l' = l
        /\ v' = (IF Judge(Trace[l]) THEN "ok" ELSE "bad")
        /\ PrintT(<<"EV", l, v'>>)
Spec == Init /\ [][Next]_<<l, v>>
=============================================================================
