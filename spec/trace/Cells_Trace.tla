----------------------------- MODULE Cells_Trace -----------------------------
(* C->S judgement of recorded cell DAGs (C02), serialisations (C01) and       *)
(* parses of untrusted bytes (C07).  Every line of trace.ndjson is judged on   *)
(* its own: Init picks a line, the single step evaluates the specification's   *)
(* operators on the recorded input and compares with the recorded output.      *)
EXTENDS Boc, Json

Trace == ndJsonDeserialize("trace.ndjson")
N == Len(Trace)
VARIABLES l, v
Has(e, f) == f \in DOMAIN e
Hex(h) == BytesToHex(h)

\* ---------------------------------------------------------------- C02: Table
\* {"k":"Table","cells":[{b,x,r,l}],"roots":[..],"h":[hex],"hc":[hex],"hc2":[hex],"hr":[hex]}
\* h: fresh Hash(); hc: caching hasher, first request; hc2: the same hasher asked again; hr: Hash() after reads
\* For well-formed DAGs every cell's reported hash (fresh, cached hasher, after reads) and level must be the
\* specification's. DAGs that are not well-formed are outside the property's quantifier (NOTE printed).
BadCells(e, T, I) == {i \in 1..Len(T) :
                        \/ Hex(ReprHash(I[i])) # e.h[i]
                        \/ Hex(ReprHash(I[i])) # e.hc[i]
                        \/ Hex(ReprHash(I[i])) # e.hc2[i]
                        \/ Hex(ReprHash(I[i])) # e.hr[i]
                        \/ LevelOf(T[i].m) # e.cells[i].l}
\* (TLC evaluates an operator ARGUMENT once but a LET inside an action at every use: tables, infos and parses are handed down as arguments)
FirstOf(bad) == CHOOSE i \in bad : \A j \in bad : i <= j
JudgeTable3(bad) == bad = {} \/ (PrintT(<<"NOTE", l, "badcell", FirstOf(bad)>>) /\ FALSE)
\* A DAG that is well-formed but for the depth bound: the cells that do not exist (too deep at some level, or above such a
\* cell) must be refused by every way of asking; the others are judged as usual.
Refused(e, i) == e.h[i] = "err" /\ e.hc[i] = "err" /\ e.hc2[i] = "err" /\ e.hr[i] = "err"
JudgeDeep2(e, T, I, D) == JudgeTable3({i \in D : ~Refused(e, i)} \cup (BadCells(e, T, I) \ D))
JudgeTable4(e, T, I) == IF WellFormed2(T, I) THEN JudgeTable3(BadCells(e, T, I))
                        ELSE IF CellsShapeOK2(T, I) THEN PrintT(<<"NOTE", l, "too-deep">>) /\ JudgeDeep2(e, T, I, Doomed2(T, I))
                        ELSE PrintT(<<"NOTE", l, "not-well-formed">>)
JudgeTable2(e, T) == IF ~Topological(T) THEN PrintT(<<"NOTE", l, "not-well-formed">>) ELSE JudgeTable4(e, T, InfoTable(T))
JudgeTable(e) == JudgeTable2(e, FromJson(e.cells))

\* ------------------------------------------------------------------ C01: Ser
\* {"k":"Ser","cells":..,"roots":[0],"idx":b,"crc":b,"cache":b,"boc":hex,"boc2":hex,"back":{cells,roots},"hash":hex,"backhash":hex}
RootsOf(I, roots) == [k \in 1..Len(roots) |-> ReprHash(I[roots[k] + 1])]
SerChecks2(e, want, P, backwant) ==
     <<  <<"parse",      P.ok>>,
         <<"flags",      P.ok => (P.hasIdx = e.idx /\ P.hasCrc = e.crc /\ P.hasCache = e.cache /\ P.magic = "generic")>>,
         <<"identity",   P.ok => RootHashes(P) = want>>,
         <<"dedup",      P.ok => NoDuplicates(P)>>,
         <<"reachable",  P.ok => AllReachable(P)>>,
         <<"canonical",  e.boc = e.boc2 /\ e.boc = e.boc3>>,
         <<"roundtrip",  backwant = want>>,
         <<"hash",       e.hash = Hex(want[1]) /\ e.backhash = Hex(want[1])>>,
         \* observation outside the property (NOTE only): is the index table the one boc.tlb prescribes?
         <<"index-note", (P.ok /\ ~Parse(HexToBytes(e.boc)).ok) => PrintT(<<"NOTE", l, "own-index-nonconforming">>)>> >>
SerChecks(e) == SerChecks2(e, RootsOf(InfoTable(FromJson(e.cells)), e.roots), ParseLenient(HexToBytes(e.boc)),
                           RootsOf(InfoTable(FromJson(e.back.cells)), e.back.roots))
Failing(cs) == {i \in 1..Len(cs) : ~cs[i][2]}
JudgeChecks2(cs, bad, what) == bad = {} \/ (PrintT(<<"NOTE", l, what, cs[FirstOf(bad)][1]>>) /\ FALSE)
JudgeChecks(cs, what) == JudgeChecks2(cs, Failing(cs), what)
JudgeSer(e) == JudgeChecks(SerChecks(e), "ser")
\* serialisation refused: only legitimate for DAGs deeper than the 1024 limit
JudgeSerErr(e) == ReprDepth(InfoTable(FromJson(e.cells))[e.roots[1] + 1]) > MaxDepth

\* ---------------------------------------------------------------- C07: Parse
\* {"k":"Parse","boc":hex,"ok":b,"panic":"","cyclic":b,"cells":..,"roots":..,"post":"ok|err|panic:..","alloc_kb":n,"ms":n}
Sound(T) == Topological(T) /\ \A i \in 1..Len(T) : Len(T[i].b) <= 1023 /\ Len(T[i].r) <= 4
ParseChecks2(e, B, P) ==
     << <<"panic", e.panic = "">>,
        <<"alloc", e.alloc_kb <= (64 * Len(B)) \div 1024 + 2048>>,
        <<"time",  e.ms <= 2000 + Len(B) \div 64>>,
        <<"acyclic", e.ok => ~e.cyclic>>,
        <<"sound", (e.ok /\ ~e.cyclic) => Sound(FromJsonRaw(e.cells))>>,
        <<"post",  (e.ok /\ ~e.cyclic) => e.post \in {"ok", "err"}>>,
        \* the text / single-root entry points are the same parser: same verdict, and exactly one root where they promise one
        <<"helpers", /\ e.hpanic = ""
                     /\ e.helpers = <<e.nroots, e.nroots, IF e.nroots = 1 THEN 1 ELSE -1, IF e.nroots = 1 THEN 1 ELSE -1, IF e.nroots = 1 THEN 1 ELSE -1>> >>,
        \* where the input is a conforming bag, the cells returned are the ones it denotes
        <<"same",  (e.ok /\ ~e.cyclic /\ P.ok /\ e.post = "ok" /\ \A i \in 1..Len(P.T) : HashableCell(P.T[i])) => e.roothashes = [k \in 1..Len(P.roots) |-> Hex(RootHashes(P)[k])]>> >>
ParseChecks1(e, B) == ParseChecks2(e, B, Parse(B))
ParseChecks(e) == ParseChecks1(e, HexToBytes(e.boc))
JudgeParse(e) == JudgeChecks(ParseChecks(e), "parse")

\* ------------------------------------------------------------- C01: Foreign
\* a conforming bag written by the specification's reference writer (or a real block) must be accepted and
\* denote the intended cells: {"k":"Foreign","boc":hex,"ok":b,"roothashes":[hex],"trees":[str]?}
JudgeForeign2(e, P) == P.ok => /\ e.ok
                                /\ e.roothashes = [k \in 1..Len(P.roots) |-> Hex(RootHashes(P)[k])]
JudgeForeign(e) == JudgeForeign2(e, Parse(HexToBytes(e.boc)))

Judge(e) == CASE e.k = "Table"   -> JudgeTable(e)
              [] e.k = "Ser"     -> JudgeSer(e)
              [] e.k = "SerErr"  -> JudgeSerErr(e)
              [] e.k = "Parse"   -> JudgeParse(e)
              [] e.k = "Foreign" -> JudgeForeign(e)
              [] OTHER -> FALSE          \* Panic, Crash, Timeout, unknown kinds: no action

Init == l \in 1..N /\ v = "todo"
Next == /\ v = "todo" /\ l' = l
        /\ v' = (IF Judge(Trace[l]) THEN "ok" ELSE "bad")
        /\ PrintT(<<"EV", l, v'>>)
Spec == Init /\ [][Next]_<<l, v>>
=============================================================================
