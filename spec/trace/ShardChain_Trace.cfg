SPECIFICATION TraceSpec
CONSTANTS
  Depth = 60
  Wc = "0"
INVARIANT TraceTypeOK
POSTCONDITION Report
CHECK_DEADLOCK FALSE
