CONSTANTS
  Calls <- TCalls
  NConns = 2
  MaxCalls = 80
  Unknown = 0
  MaxDrops = 1000000
  MaxNoise = 1000000
  MaxSilence = 1000000
  StrictRst = FALSE
  Slack = 400
  RecoverMs = 7500
  RetryMs = 1000
  SilenceMs = 10000
SPECIFICATION TraceSpec
POSTCONDITION Report
CHECK_DEADLOCK FALSE
