----------------------------- MODULE Dict_Trace -----------------------------
(* C->S for C05: recorded operations on a real tlb.HashmapE are steps of the   *)
(* abstract dictionary (a finite map from n-bit keys to values).  Segments      *)
(* start with Reset; see Bits_Trace for the segment / register conventions.    *)
EXTENDS Dict, Boc, Json

Trace == ndJsonDeserialize("trace.ndjson")
N == Len(Trace)
VARIABLES map, n, l, seg      \* map: set of <<key bits string, value bits string>>
tvars == <<map, n, l, seg>>
Starts == {i \in 1..N : Trace[i].k = "Reset"}
ASSUME \A i \in Starts : TLCSet(i, 0)
E == Trace[l]
Consume == l' = l + 1 /\ seg' = seg /\ TLCSet(seg, l + 1 - seg)

Keys(m) == {p[1] : p \in m}
PutMap(m, k, v) == {p \in m : p[1] # k} \cup {<<k, v>>}
AsSet(items) == {<<items[i][1], items[i][2]>> : i \in 1..Len(items)}
StrSorted(items) == \A i \in 1..(Len(items) - 1) : BitsLess(StrToBits(items[i][1]), StrToBits(items[i + 1][1]))
WidthOK(items) == \A i \in 1..Len(items) : StrLen(items[i][1]) = n

TReset == /\ E.k = "Reset" /\ l = seg /\ map' = {} /\ n' = E.n
\* Put: the key now maps to the value, every other key is untouched; the listing has no duplicate key
TPut == /\ E.k = "Put" /\ StrLen(E.key) = n
        /\ map' = PutMap(map, E.key, E.val) /\ n' = n
        /\ E.size = Cardinality(map')
        /\ ("items" \in DOMAIN E) => (AsSet(E.items) = map' /\ Len(E.items) = Cardinality(map'))
TGet == /\ E.k = "Get" /\ UNCHANGED <<map, n>>
        /\ IF E.key \in Keys(map) THEN E.found /\ <<E.key, E.val>> \in map ELSE ~E.found
\* Enc: the cell tree is a valid dictionary denoting exactly the map (any label forms)
\* (the decoded dictionary is handed over as an ARGUMENT: TLC evaluates an argument once, a LET inside an action at every use)
EncDenotes(D, m) == /\ D.ok
                    /\ {<<BitsToStr(D.items[i].k), BitsToStr(D.items[i].v.b)>> : i \in 1..Len(D.items)} = m
                    /\ Len(D.items) = Cardinality(m)
                    /\ \A i \in 1..Len(D.items) : Len(D.items[i].v.r) = 0
                    /\ SortedByBits(D.items)
TEnc == /\ E.k = "Enc" /\ UNCHANGED <<map, n>> /\ E.err = ""
        /\ EncDenotes(DecDictE(FromJson(E.cells), E.roots[1] + 1, n), map)
\* List: the in-memory dictionary after an encoding (encoding must not disturb it); big dictionaries list their first and last 128 entries
TList == /\ E.k = "List" /\ UNCHANGED <<map, n>> /\ E.size = Cardinality(map)
         /\ IF "part" \in DOMAIN E THEN AsSet(E.items) \subseteq map /\ Cardinality(AsSet(E.items)) = Len(E.items)
            ELSE AsSet(E.items) = map /\ Len(E.items) = Cardinality(map)
\* Dec: decoding what was encoded lists exactly the map, in ascending key-bit order
TDec == /\ E.k = "Dec" /\ UNCHANGED <<map, n>> /\ E.err = ""
        /\ AsSet(E.items) = map /\ Len(E.items) = Cardinality(map) /\ StrSorted(E.items) /\ WidthOK(E.items)
\* Orders: every insertion order of the same pairs gives the same cell tree (hash computed by the specification)
TOrders == /\ E.k = "Orders" /\ UNCHANGED <<map, n>>
           /\ LET hs == {ReprHash(InfoTable(FromJson(E.tables[i].cells))[E.tables[i].roots[1] + 1]) : i \in 1..Len(E.tables)}
              IN Cardinality(hs) = 1
           /\ \A i \in 1..Len(E.tables) :
                 LET D == DecDictE(FromJson(E.tables[i].cells), E.tables[i].roots[1] + 1, n) IN
                 D.ok /\ {<<BitsToStr(D.items[j].k), BitsToStr(D.items[j].v.b)>> : j \in 1..Len(D.items)} = AsSet(E.items)

\* Subset: ConfigParams.CloneKeepingSubsetOfKeys on a decoded configuration dictionary (32-bit ids -> ^Cell; the value is
\* named by the 32 bits stored in the referenced cell): the clone maps exactly the requested ids that exist, whatever the
\* order or multiplicity of the request, lists them in ascending order, and encodes to a dictionary denoting that mapping
TSubset == /\ E.k = "Subset" /\ UNCHANGED <<map, n>> /\ n = 32 /\ E.err = ""
           /\ LET req  == {E.req[i] : i \in 1..Len(E.req)}
                  want == {p \in AsSet(E.src) : p[1] \in req}
              IN /\ AsSet(E.items) = want /\ Len(E.items) = Cardinality(want) /\ StrSorted(E.items) /\ WidthOK(E.items)
                 /\ want # {} =>
                      LET T == FromJson(E.cells)
                          D == DecEdge(T, E.roots[1] + 1, 32, <<>>)
                      IN /\ D.ok /\ Len(D.items) = Cardinality(want)
                         /\ \A i \in 1..Len(D.items) : Len(D.items[i].v.b) = 0 /\ Len(D.items[i].v.r) = 1
                         /\ {<<BitsToStr(D.items[i].k), BitsToStr(T[D.items[i].v.r[1]].b)>> : i \in 1..Len(D.items)} = want

\* Load: a dictionary written by another implementation (any label forms) decodes to the map it denotes,
\* listed in ascending key-bit order
TLoad == /\ E.k = "Load" /\ E.err = "" /\ n' = n
         /\ LET P == Parse(HexToBytes(E.boc)) IN
              /\ P.ok
              /\ LET D == DecDictE(P.T, P.roots[1], n) IN
                   /\ D.ok
                   /\ map' = {<<BitsToStr(D.items[i].k), BitsToStr(D.items[i].v.b)>> : i \in 1..Len(D.items)}
                   /\ E.items = [i \in 1..Len(D.items) |-> <<BitsToStr(D.items[i].k), BitsToStr(D.items[i].v.b)>>]

TraceInit == l \in Starts /\ seg = l /\ map = {} /\ n = 0
TraceNext == /\ l <= N /\ (l # seg => Trace[l].k # "Reset")
             /\ (TReset \/ TPut \/ TGet \/ TEnc \/ TList \/ TDec \/ TOrders \/ TLoad \/ TSubset)
             /\ Consume
TraceSpec == TraceInit /\ [][TraceNext]_tvars
Report == \A i \in Starts : PrintT(<<"SEG", i, TLCGet(i)>>)
=============================================================================
