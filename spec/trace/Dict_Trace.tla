----------------------------- MODULE Dict_Trace -----------------------------
(* C->S for C05: recorded operations on a real tlb.HashmapE are steps of the   *)
(* abstract dictionary (a finite map from n-bit keys to values).  Segments      *)
(* start with Reset; see Bits_Trace for the segment / register conventions.    *)
EXTENDS Dict, Boc, Json, KeyOps, ShardAccounts

Trace == ndJsonDeserialize("trace.ndjson")
N == Len(Trace)
VARIABLES map, n, l, seg      \* map: set of <<key bits string, value bits string>>
tvars == <<map, n, l, seg>>
Starts == {i \in 1..N : Trace[i].k = "Reset"}
ASSUME \A i \in Starts : TLCSet(i, 0)
E == Trace[l]
Consume == l' = l + 1 /\ seg' = seg /\ TLCSet(seg, l + 1 - seg)

Keys(m) == {p[1] : p \in m}
PutMap(m, k, v) == {p \in m : p[1] # k} \cup {<<k, v>>}
AsSet(items) == {<<items[i][1], items[i][2]>> : i \in 1..Len(items)}
StrSorted(items) == \A i \in 1..(Len(items) - 1) : BitsLess(StrToBits(items[i][1]), StrToBits(items[i + 1][1]))
WidthOK(items) == \A i \in 1..Len(items) : StrLen(items[i][1]) = n

TReset == /\ E.k = "Reset" /\ l = seg /\ map' = {} /\ n' = E.n
\* Put: the key now maps to the value, every other key is untouched; the listing has no duplicate key
TPut == /\ E.k = "Put" /\ StrLen(E.key) = n
        /\ map' = PutMap(map, E.key, E.val) /\ n' = n
        /\ E.size = Cardinality(map')
        /\ ("items" \in DOMAIN E) => (AsSet(E.items) = map' /\ Len(E.items) = Cardinality(map'))
TGet == /\ E.k = "Get" /\ UNCHANGED <<map, n>>
        /\ IF E.key \in Keys(map) THEN E.found /\ <<E.key, E.val>> \in map ELSE ~E.found
\* Enc: the cell tree is a valid dictionary denoting exactly the map (any label forms)
\* (the decoded dictionary is handed over as an ARGUMENT: TLC evaluates an argument once, a LET inside an action at every use)
EncDenotes(D, m) == /\ D.ok
                    /\ {<<BitsToStr(D.items[i].k), BitsToStr(D.items[i].v.b)>> : i \in 1..Len(D.items)} = m
                    /\ Len(D.items) = Cardinality(m)
                    /\ \A i \in 1..Len(D.items) : Len(D.items[i].v.r) = 0
                    /\ SortedByBits(D.items)
TEnc == /\ E.k = "Enc" /\ UNCHANGED <<map, n>> /\ E.err = ""
        /\ EncDenotes(DecDictE(FromJson(E.cells), E.roots[1] + 1, n), map)
\* List: the in-memory dictionary after an encoding (encoding must not disturb it); big dictionaries list their first and last 128 entries
TList == /\ E.k = "List" /\ UNCHANGED <<map, n>> /\ E.size = Cardinality(map)
         /\ IF "part" \in DOMAIN E THEN AsSet(E.items) \subseteq map /\ Cardinality(AsSet(E.items)) = Len(E.items)
            ELSE AsSet(E.items) = map /\ Len(E.items) = Cardinality(map)
\* Dec: decoding what was encoded lists exactly the map, in ascending key-bit order
TDec == /\ E.k = "Dec" /\ UNCHANGED <<map, n>> /\ E.err = ""
        /\ AsSet(E.items) = map /\ Len(E.items) = Cardinality(map) /\ StrSorted(E.items) /\ WidthOK(E.items)
\* Orders: every insertion order of the same pairs gives the same cell tree (hash computed by the specification)
TOrders == /\ E.k = "Orders" /\ UNCHANGED <<map, n>>
           /\ LET hs == {ReprHash(InfoTable(FromJson(E.tables[i].cells))[E.tables[i].roots[1] + 1]) : i \in 1..Len(E.tables)}
              IN Cardinality(hs) = 1
           /\ \A i \in 1..Len(E.tables) :
                 LET D == DecDictE(FromJson(E.tables[i].cells), E.tables[i].roots[1] + 1, n) IN
                 D.ok /\ {<<BitsToStr(D.items[j].k), BitsToStr(D.items[j].v.b)>> : j \in 1..Len(D.items)} = AsSet(E.items)

\* Subset: ConfigParams.CloneKeepingSubsetOfKeys on a decoded configuration dictionary (32-bit ids -> ^Cell; the value is
\* named by the 32 bits stored in the referenced cell): the clone maps exactly the requested ids that exist, whatever the
\* order or multiplicity of the request, lists them in ascending order, and encodes to a dictionary denoting that mapping
TSubset == /\ E.k = "Subset" /\ UNCHANGED <<map, n>> /\ n = 32 /\ E.err = ""
           /\ LET req  == {E.req[i] : i \in 1..Len(E.req)}
                  want == {p \in AsSet(E.src) : p[1] \in req}
              IN /\ AsSet(E.items) = want /\ Len(E.items) = Cardinality(want) /\ StrSorted(E.items) /\ WidthOK(E.items)
                 /\ want # {} =>
                      LET T == FromJson(E.cells)
                          D == DecEdge(T, E.roots[1] + 1, 32, <<>>)
                      IN /\ D.ok /\ Len(D.items) = Cardinality(want)
                         /\ \A i \in 1..Len(D.items) : Len(D.items[i].v.b) = 0 /\ Len(D.items[i].v.r) = 1
                         /\ {<<BitsToStr(D.items[i].k), BitsToStr(T[D.items[i].v.r[1]].b)>> : i \in 1..Len(D.items)} = want

\* ------------------------------------------------------------ observations of a dictionary that add no step of their own
\* An observation is made on the dictionary in memory (api "HashmapE") or on a second, plain Hashmap decoded from the
\* hashmap cell of the latest encoding (api "Hashmap").  Between a decode and the next Put the dictionary in memory is
\* "fresh": listed in ascending key-bit order; a plain Hashmap decoded from an encoding always is.
ObsKinds == {"Get", "Enc", "List", "Values", "Count", "Json", "Balances", "Orders"}
RECURSIVE Fresh(_)
Fresh(i) == i > 1 /\ (Trace[i - 1].k \in {"Dec", "Load"} \/ (Trace[i - 1].k \in ObsKinds /\ Fresh(i - 1)))
\* the latest encoding (Enc of the dictionary in memory, or the bag given to Load) is of the current map
RECURSIVE Encoded(_)
Encoded(i) == i > 1 /\ (Trace[i - 1].k \in {"Enc", "Load"} \/ (Trace[i - 1].k \in (ObsKinds \cup {"Dec"}) /\ Encoded(i - 1)))

\* Values: Keys() and Values() are the two columns of Items(): same length, same order; together exactly the map.
\* A fresh / plain dictionary lists in ascending key-bit order, which fixes the order of Items() too (Dec / Load judge it),
\* so `items` (Items() at the same moment) is recorded only for a dictionary that was updated since it was decoded.
ZipCols(ks, vs) == [i \in 1..Len(ks) |-> <<ks[i], vs[i]>>]
ValuesOK(cols, sorted) == /\ AsSet(cols) = map /\ Len(cols) = Cardinality(map) /\ WidthOK(cols)
                          /\ (sorted => StrSorted(cols))
TValues == /\ E.k = "Values" /\ UNCHANGED <<map, n>>
           /\ Len(E.keys) = Len(E.vals)
           /\ (E.api = "Hashmap" => Encoded(l))
           /\ IF "items" \in DOMAIN E THEN E.items = ZipCols(E.keys, E.vals) ELSE (E.api = "Hashmap" \/ Fresh(l))
           /\ ValuesOK(ZipCols(E.keys, E.vals), E.api = "Hashmap" \/ Fresh(l))
\* Count: the number of entries of the encoded dictionary, counted without decoding it (BlockExtra.InMsgDescrLength /
\* OutMsgDescrLength walk the labels of a 256-bit-keyed dictionary cell): the size of the map
TCount == /\ E.k = "Count" /\ UNCHANGED <<map, n>> /\ n = 256 /\ Encoded(l)
          /\ E.err = "" /\ E.count = Cardinality(map)
\* Json: the JSON form of a dictionary is an object with one member per entry, named by the key's text form (KeyOps:
\* decimal numeral / hex bytes / workchain:hex) and holding the value (here a 32-bit number); `pairs` are the members in
\* document order.  Their order is not part of the statement.
ValTextOK(t) == IsDecText(t, FALSE) /\ UFits(t, 32)
JsonDenotes(kind, pairs, m) ==
  /\ Len(pairs) = Cardinality(m)
  /\ \A i \in 1..Len(pairs) : KeyTextOK(kind, n, pairs[i][1]) /\ ValTextOK(pairs[i][2])
  /\ {<<BitsToStr(KeyTextBits(kind, n, pairs[i][1])), BitsToStr(UBits(pairs[i][2], 32))>> : i \in 1..Len(pairs)} = m
TJson == /\ E.k = "Json" /\ UNCHANGED <<map, n>> /\ E.err = ""
         /\ (E.api = "Hashmap" => Encoded(l))
         /\ JsonDenotes(E.kind, E.pairs, map)
\* Balances: ShardState.AccountBalances() of a shard state (unsplit: one account dictionary; split: the left and the right
\* one) whose account dictionaries are the cells recorded: every existing account is reported once with the Grams of its
\* balance; an entry holding account_none may be left out or reported with balance 0; nothing else is reported.  The
\* driver derives the accounts from the current map (id = key, account exists iff the value's last bit is 1, balance = the
\* value read as a number), so the report is also judged against the abstract map.  `counts`: what the label-walking entry
\* counter (BlockExtra.InMsgDescrLength) reports for each account dictionary cell - an augmented dictionary, whose edges
\* carry an extra value after the label: the number of its entries.  `avals`: Values() of a plain HashmapAug decoded from
\* the root edge of each account dictionary (balance, or "none" for account_none), in ascending key order.
BalOutcome(T, roots) ==
  LET Ds == [j \in 1..Len(roots) |-> Balances(T, roots[j] + 1)]
      ok == \A j \in 1..Len(roots) : Ds[j].ok /\ \A q \in 1..Len(Ds[j].items) : Ds[j].items[q].ok
      all == IF ok THEN UNION {{Ds[j].items[q] : q \in 1..Len(Ds[j].items)} : j \in 1..Len(roots)} ELSE {}
  IN [ok |-> ok, n |-> IF ok THEN Cardinality({x.k : x \in all}) ELSE 0,
      lens |-> [j \in 1..Len(roots) |-> IF Ds[j].ok THEN Len(Ds[j].items) ELSE 0 - 1],
      cols |-> [j \in 1..Len(roots) |-> IF ~ok THEN <<>> ELSE
                 [q \in 1..Len(Ds[j].items) |-> IF Ds[j].items[q].exists THEN BitsToDec(Ds[j].items[q].v) ELSE "none"]],
      tot |-> IF ok THEN Cardinality(all) ELSE 0,
      must |-> {<<BitsToStr(x.k), BitsToDec(x.v)>> : x \in {y \in all : y.exists}},
      may  |-> {<<BitsToStr(x.k), "0">> : x \in {y \in all : ~y.exists}},
      abs  |-> {<<BitsToStr(x.k), x.exists, IF x.exists THEN BitsToDec(x.v) ELSE "0">> : x \in all}]
\* the driver's part: the recorded cells are account dictionaries (per ShardAccounts.tla) holding exactly the accounts derived
\* from the map; a failure here is the harness's, not the library's (NOTE "balances-input")
BalInputOK(o, m) ==
  /\ o.ok /\ o.n = o.tot                                                            \* no account id twice in the state
  /\ o.abs = {<<p[1], StrToBits(p[2])[32] = 1, IF StrToBits(p[2])[32] = 1 THEN BitsToDec(StrToBits(p[2])) ELSE "0">> : p \in m}
BalAccepts(o, items, extras, counts, avals, m) ==
  /\ IF BalInputOK(o, m) THEN TRUE ELSE PrintT(<<"NOTE", l, "balances-input">>) /\ FALSE     \* (IF, not \/: both sides of an action-level \/ are evaluated)
  /\ o.must \subseteq AsSet(items) /\ AsSet(items) \subseteq (o.must \cup o.may)
  /\ Cardinality({items[i][1] : i \in 1..Len(items)}) = Len(items)
  /\ extras = 0
  /\ counts = o.lens                     \* the label-walking entry counter on each (augmented) account dictionary cell
  /\ avals = o.cols                      \* HashmapAug.Values(): the values in ascending key order
TBalances == /\ E.k = "Balances" /\ UNCHANGED <<map, n>> /\ n = 256 /\ E.err = ""
             /\ BalAccepts(BalOutcome(FromJson(E.cells), E.roots), E.items, E.extras, E.counts, E.avals, map)

\* Load: a dictionary written by another implementation (any label forms) decodes to the map it denotes,
\* listed in ascending key-bit order
TLoad == /\ E.k = "Load" /\ E.err = "" /\ n' = n
         /\ LET P == Parse(HexToBytes(E.boc)) IN
              /\ P.ok
              /\ LET D == DecDictE(P.T, P.roots[1], n) IN
                   /\ D.ok
                   /\ map' = {<<BitsToStr(D.items[i].k), BitsToStr(D.items[i].v.b)>> : i \in 1..Len(D.items)}
                   /\ E.items = [i \in 1..Len(D.items) |-> <<BitsToStr(D.items[i].k), BitsToStr(D.items[i].v.b)>>]

TraceInit == l \in Starts /\ seg = l /\ map = {} /\ n = 0
TraceNext == /\ l <= N /\ (l # seg => Trace[l].k # "Reset")
             /\ (TReset \/ TPut \/ TGet \/ TEnc \/ TList \/ TDec \/ TOrders \/ TLoad \/ TSubset
                 \/ TValues \/ TCount \/ TJson \/ TBalances)
             /\ Consume
TraceSpec == TraceInit /\ [][TraceNext]_tvars
Report == \A i \in Starts : PrintT(<<"SEG", i, TLCGet(i)>>)
=============================================================================
