-------------------------- MODULE ShardChain_Trace --------------------------
(* C->S for X08.  A file of segments; each starts with                            *)
(*   {"k":"Reset","wc":W,"shards":[{"pfx","seqno","root","file"}..]}              *)
(* (the shard configuration the driver starts from) and continues with calls of   *)
(* the real code.  Events that extend the chain are judged against the STATE of   *)
(* the ShardChain machine kept in sh (prefix -> last block):                      *)
(*   Blk  a block header was written as a BlockInfo cell (fields in the event),   *)
(*        decoded with tlb.Unmarshal and given to ton.GetParents: the block must  *)
(*        be a NewBlock / Split half / Merge step enabled in sh, its seq_no must  *)
(*        follow the rule, and the previous blocks the library reports must be    *)
(*        the last blocks of the shards the step consumes (shard ids included,    *)
(*        in the order prev1 = left, prev2 = right);                              *)
(*   Mc   a McBlockExtra cell was written from the driver's configuration,        *)
(*        decoded, and given to ton.ShardIDs: the BinTree cells in the event must *)
(*        hold exactly the configuration in sh, and the answer must list, per     *)
(*        workchain, the leaves from left to right with the shard id of the PATH. *)
(* The other events are judged on their own (inputs are in the event):            *)
(*   Parents (GetParents on free-standing / adversarial headers), ShardIDs (other *)
(*   trees), ToBlockId, Parse / MatchAcc / MatchBlk (ShardID), IdText / ParseId.  *)
(* Where the TON rules do not decide (invalid headers that decode, seq_no 0       *)
(* leaves, next_validator_shard different from the path, ids deeper than 60)      *)
(* any answer without a panic is admitted and the class is printed as a NOTE.     *)
(* The order of workchains in a ShardIDs answer is not promised by anything:      *)
(* answers are compared per workchain.                                            *)
EXTENDS ShardChain, Json

Trace == ndJsonDeserialize("trace.ndjson")
N     == Len(Trace)
VARIABLES l, seg
tvars == <<l, seg, sh, mc, fresh, hist, cnt>>
Starts == {i \in 1..N : Trace[i].k = "Reset"}
ASSUME \A i \in Starts : TLCSet(i, 0)
E == Trace[l]
Rej(why) == [ok |-> FALSE, note |-> why]
Acc(note, s) == [ok |-> TRUE, note |-> note, sh |-> s]

\* ------------------------------------------------------------- GetParents
LowZero(e) == e.pfxbits <= 63 /\ AllZero(SubSeq(StrToBits(e.prefix), e.pfxbits + 1, W))
ParentsClass(e) ==
  IF e.src = "cell" /\ e.pfxbits > MaxPfx THEN "pfx-bits>60:decode"          \* #<= 60: not a ShardIdent
  ELSE IF e.ctor # e.am THEN "constructor-mismatch"                          \* prev_ref:^(BlkPrevInfo after_merge)
  ELSE IF e.pfxbits > MaxPfx THEN "free:pfx-bits>60:struct"
  ELSE IF e.am = 1 /\ e.as = 1 THEN "free:after-merge+after-split"
  ELSE IF ~LowZero(e) THEN "free:prefix-bits-below-tag"
  ELSE IF e.as = 1 /\ e.pfxbits = 0 THEN "free:after-split-of-root"
  ELSE IF e.am = 1 /\ e.pfxbits = MaxPfx THEN "free:after-merge-at-depth-60"
  ELSE "valid"
Fine(e) == e.dec = "" /\ e.err = "" /\ e.panic = ""
ParentsJudge(e) ==
  LET cl == ParentsClass(e) IN
  IF e.panic # "" THEN Rej(cl)
  ELSE IF cl = "pfx-bits>60:decode" THEN (IF e.dec # "" THEN Acc(cl, sh) ELSE Rej(cl))
  ELSE IF cl = "constructor-mismatch" THEN (IF (e.src = "cell" /\ e.dec # "") \/ (e.src = "struct" /\ e.err # "") THEN Acc(cl, sh) ELSE Rej(cl))
  ELSE IF cl = "valid"
       THEN (IF Fine(e) /\ e.parents = ParentsA(e.wc, IdentId(e.pfxbits, StrToBits(e.prefix)), e.am, e.as, e.prevs) THEN Acc(cl, sh) ELSE Rej(cl))
  ELSE Acc(cl, sh)

\* ------------------------------------------------------------ chain steps
T3(t) == [seqno |-> t.seqno, root |-> t.root, file |-> t.file]
Born(t) == [seqno |-> t.seqno, root |-> t.root, file |-> t.file, born |-> TRUE]
Unborn(t) == [seqno |-> t.seqno, root |-> t.root, file |-> t.file, born |-> FALSE]
Live(s, p) == p \in DOMAIN s /\ s[p].born
BlkJudge(s, e) ==
  LET p == SubSeq(StrToBits(e.prefix), 1, e.pfxbits)
      own == Born(e)
      kind == IF e.am = 1 THEN "merge" ELSE IF e.as = 1 THEN "split" ELSE "new"
  IN
  IF ParentsClass(e) # "valid" \/ ~Fine(e) THEN Rej(kind)
  ELSE IF kind = "new" THEN
    IF Live(s, p) /\ e.prevs = <<T3(s[p])>> /\ e.seqno = s[p].seqno + 1 /\ e.parents = NewParents(e.wc, p, s[p])
    THEN Acc(kind, [s EXCEPT ![p] = own]) ELSE Rej(kind)
  ELSE IF kind = "split" THEN
    IF Len(p) >= 1 /\ Live(s, Front(p)) THEN          \* the first half: the parent shard ends, the other half is due
      LET par == s[Front(p)]  sib == Front(p) \o <<1 - p[Len(p)]>> IN
      IF e.prevs = <<T3(par)>> /\ e.seqno = par.seqno + 1 /\ e.parents = SplitParents(e.wc, p, par)
      THEN Acc(kind, (p :> own) @@ (sib :> Unborn(par)) @@ RestrictTo(s, DOMAIN s \ {Front(p)})) ELSE Rej(kind)
    ELSE IF p \in DOMAIN s /\ ~s[p].born THEN         \* the second half
      IF e.prevs = <<T3(s[p])>> /\ e.seqno = s[p].seqno + 1 /\ e.parents = SplitParents(e.wc, p, s[p])
      THEN Acc(kind, [s EXCEPT ![p] = own]) ELSE Rej(kind)
    ELSE Rej(kind)
  ELSE
    LET lp == p \o <<0>>  rp == p \o <<1>> IN
    IF Live(s, lp) /\ Live(s, rp) /\ e.prevs = <<T3(s[lp]), T3(s[rp])>> /\ e.seqno = MergeSeqno(s[lp], s[rp])
       /\ e.parents = MergeParents(e.wc, p, s[lp], s[rp])
    THEN Acc(kind, (p :> own) @@ RestrictTo(s, DOMAIN s \ {lp, rp})) ELSE Rej(kind)

\* ------------------------------------------------------ ShardHashes / ShardIDs
Rows(cells) == [i \in 1..Len(cells) |-> [b |-> StrToBits(cells[i].b), r |-> [j \in 1..Len(cells[i].r) |-> cells[i].r[j] + 1]]]
\* the leaves of a BinTree from left to right: [st = "leaf", path, b, nr] or [st = "bad"] / [st = "lax"]
RECURSIVE Walk(_, _, _)
Walk(T, i, path) ==
  LET c == T[i] IN
  IF Len(c.b) < 1 \/ Len(path) > 62 THEN <<[st |-> "bad"]>>
  ELSE IF c.b[1] = 0 THEN <<[st |-> "leaf", path |-> path, b |-> Tail(c.b), nr |-> Len(c.r)]>>
  ELSE IF Len(c.r) < 2 THEN <<[st |-> "bad"]>>
  ELSE (IF Len(c.b) > 1 \/ Len(c.r) > 2 THEN <<[st |-> "lax"]>> ELSE <<>>)
       \o Walk(T, c.r[1], path \o <<0>>) \o Walk(T, c.r[2], path \o <<1>>)
\* shard_descr: tag 4, seq_no 32, reg_mc_seqno 32, start_lt 64, end_lt 64, root_hash 256, file_hash 256, 5 flags, flags 3,
\* next_catchain_seqno 32, next_validator_shard 64, min_ref_mc_seqno 32, gen_utime 32, split_merge_at >= 1
DescrMin == 877
TagB == <<1, 0, 1, 1>>
TagA == <<1, 0, 1, 0>>
LeafState(x) == IF x.st # "leaf" THEN x.st
                ELSE IF Len(x.b) < 4 \/ SubSeq(x.b, 1, 4) \notin {TagA, TagB} \/ Len(x.b) < DescrMin THEN "bad"
                ELSE IF SubSeq(x.b, 1, 4) = TagA /\ x.nr < 1 THEN "bad"
                ELSE "leaf"
Num32(b) == IF b[1] = 0 THEN BitsNum(Tail(b)) ELSE BitsToDec(b)
HexOf(b) == CodesToStr(BitsHexDigits(b))
DescrId(wc, shard, b) == [wc |-> wc, shard |-> BitsToStr(shard), seqno |-> Num32(SubSeq(b, 5, 36)), root |-> HexOf(SubSeq(b, 197, 452)),
                          file |-> HexOf(SubSeq(b, 453, 708))]
Nvs(b) == SubSeq(b, 749, 812)
\* one workchain: does the projection `got` of the answer fit the leaves `ls` (all LeafState = "leaf")?
FitsLeaves(wc, ls, got) ==
  LET want(keep0) == SelectSeq(ls, LAMBDA x : keep0 \/ ~AllZero(SubSeq(x.b, 5, 36)))
      fit(w) == /\ Len(w) = Len(got)
                /\ \A i \in 1..Len(w) : \/ got[i] = DescrId(wc, Id(w[i].path), w[i].b)
                                        \/ (Nvs(w[i].b) # Id(w[i].path) /\ got[i] = DescrId(wc, Nvs(w[i].b), w[i].b))
  IN fit(want(TRUE)) \/ fit(want(FALSE))
TreeLeaves(w) == Walk(Rows(w.tree), 1, <<>>)
ShardIDsClass(e) ==
  LET all == [i \in 1..Len(e.wcs) |-> TreeLeaves(e.wcs[i])]
      sts == UNION {{LeafState(all[i][j]) : j \in 1..Len(all[i])} : i \in 1..Len(all)}
      odd == \E i \in 1..Len(all) : \E j \in 1..Len(all[i]) :
                LeafState(all[i][j]) = "leaf" /\ (AllZero(SubSeq(all[i][j].b, 5, 36)) \/ Nvs(all[i][j].b) # Id(all[i][j].path) \/ Len(all[i][j].path) > MaxPfx)
  IN IF "bad" \in sts THEN "malformed" ELSE IF "lax" \in sts THEN "free:fork-with-extra-data"
     ELSE IF odd THEN "wellformed:seqno0-or-nvs-or-depth" ELSE "wellformed"
ShardIDsJudge(e) ==
  LET cl == ShardIDsClass(e) IN
  IF e.panic # "" THEN Rej(cl)
  ELSE IF cl = "malformed" THEN (IF e.dec # "" THEN Acc(cl, sh) ELSE Rej(cl))
  ELSE IF cl = "free:fork-with-extra-data" THEN Acc(cl, sh)
  ELSE IF /\ e.dec = ""
          /\ \A i \in 1..Len(e.ids) : \E j \in 1..Len(e.wcs) : e.wcs[j].wc = e.ids[i].wc
          /\ \A j \in 1..Len(e.wcs) : FitsLeaves(e.wcs[j].wc, TreeLeaves(e.wcs[j]), SelectSeq(e.ids, LAMBDA x : x.wc = e.wcs[j].wc))
       THEN Acc(cl, sh) ELSE Rej(cl)
\* the configuration in the cells of workchain e.wc is the configuration of the state
Recorded(s, e) ==
  LET mine == SelectSeq(e.wcs, LAMBDA w : w.wc = e.wc) IN
  /\ Len(mine) = 1
  /\ LET ls == TreeLeaves(mine[1])  order == Leaves(s) IN
     /\ \A p \in DOMAIN s : s[p].born
     /\ Len(ls) = Len(order)
     /\ \A i \in 1..Len(ls) : /\ LeafState(ls[i]) = "leaf" /\ ls[i].path = order[i]
                              /\ DescrId(e.wc, Id(order[i]), ls[i].b) = Parent(e.wc, Id(order[i]), s[order[i]])
                              /\ Nvs(ls[i].b) = Id(order[i])
McJudge(s, e) == LET j == ShardIDsJudge(e) IN
                 IF ~j.ok THEN j ELSE IF Recorded(s, e) /\ e.seqno = mc.tip.seqno + 1 THEN Acc("mc", s) ELSE Rej("mc:not-the-configuration")
ToBlockIdJudge(e) ==
  LET b == StrToBits(e.leaf) IN
  IF e.panic = "" /\ Len(b) >= DescrMin /\ e.out = DescrId(e.wc, Nvs(b), b) THEN Acc("descr", sh) ELSE Rej("descr")

\* ------------------------------------------------------------------ ShardID
ParseJudge(e) ==
  LET s == StrToBits(e.id) IN
  IF e.panic # "" THEN Rej("panic")
  ELSE IF ~HasTag(s) THEN (IF e.err # "" THEN Acc("no-tag-bit", sh) ELSE Rej("no-tag-bit"))
  ELSE IF Len(PfxOf(s)) <= MaxPfx THEN (IF e.err = "" /\ e.enc = e.id THEN Acc("valid", sh) ELSE Rej("valid"))
  ELSE (IF e.err # "" \/ e.enc = e.id THEN Acc("free:deeper-than-60", sh) ELSE Rej("deeper-than-60:encode"))
MatchAccJudge(e) ==
  LET s == StrToBits(e.id)  a == StrToBits(e.acc) IN
  IF e.panic = "" /\ HasTag(s) /\ e.out = ShardContainsA(s, a) /\ e.out = IsPrefix(PfxOf(s), a)
  THEN Acc(IF e.out THEN "in" ELSE "out", sh) ELSE Rej("account")
MatchBlkJudge(e) ==
  LET s == StrToBits(e.id)  b == StrToBits(e.blk) IN
  IF e.panic # "" \/ ~HasTag(s) THEN Rej("block")
  ELSE IF ~HasTag(b) THEN Acc("free:block-without-tag-bit", sh)
  ELSE IF e.out = ShardIntersectsA(s, b) /\ e.out = Comparable(PfxOf(s), PfxOf(b)) THEN Acc(IF e.out THEN "in" ELSE "out", sh) ELSE Rej("block")
\* text forms of BlockID (TextForms): String() writes the form (with or without the leading zeros of the shard), ParseBlockID reads it back
IdTextJudge(e) ==
  LET id == [wc |-> e.wc, shard |-> StrToBits(e.shard), seqno |-> e.seqno] IN
  IF e.panic = "" /\ e.text \in {BlockIdText(id), BlockIdTextMin(id)} /\ e.err = "" /\ e.back = [wc |-> e.wc, shard |-> e.shard, seqno |-> e.seqno]
  THEN Acc("text", sh) ELSE Rej("text")
ParseIdJudge(e) ==
  LET rd == BlockIdRead(StrToCodes(e.text)) IN
  IF e.panic # "" THEN Rej("panic")
  ELSE IF rd.cls = "ok" THEN (IF e.err = "" /\ e.id = [wc |-> rd.id.wc, shard |-> BitsToStr(rd.id.shard), seqno |-> rd.id.seqno] THEN Acc("ok", sh) ELSE Rej("ok"))
  ELSE IF rd.cls = "bad" THEN (IF e.err # "" THEN Acc("bad", sh) ELSE Rej("bad"))
  ELSE Acc("free", sh)

\* -------------------------------------------------------------------- steps
Judge(s, e) == CASE e.k = "Blk"       -> BlkJudge(s, e)
                 [] e.k = "Mc"        -> McJudge(s, e)
                 [] e.k = "Parents"   -> ParentsJudge(e)
                 [] e.k = "ShardIDs"  -> ShardIDsJudge(e)
                 [] e.k = "ToBlockId" -> ToBlockIdJudge(e)
                 [] e.k = "Parse"     -> ParseJudge(e)
                 [] e.k = "MatchAcc"  -> MatchAccJudge(e)
                 [] e.k = "MatchBlk"  -> MatchBlkJudge(e)
                 [] e.k = "IdText"    -> IdTextJudge(e)
                 [] e.k = "ParseId"   -> ParseIdJudge(e)
                 [] OTHER             -> Rej("unknown event")
Start(e) == [p \in {StrToBits(e.shards[i].pfx) : i \in 1..Len(e.shards)} |->
               Born(e.shards[CHOOSE i \in 1..Len(e.shards) : StrToBits(e.shards[i].pfx) = p])]
\* the initial configuration must be a partition (checked by measure on the deepest prefix length present)
StartOK(s) == LET d == FoldSet(LAMBDA p, a : Max2(a, Len(p)), 0, DOMAIN s) IN
              /\ d <= 28 /\ FoldSet(LAMBDA p, a : a + 2 ^ (d - Len(p)), 0, DOMAIN s) = 2 ^ d
              /\ \A p, q \in DOMAIN s : p # q => ~Comparable(p, q)
Apply(o) == /\ PrintT(<<"NOTE", l, E.k, o.note, IF o.ok THEN "ok" ELSE "rejected">>)
            /\ o.ok
            /\ sh' = o.sh
            /\ mc' = IF E.k = "Mc" THEN [mc EXCEPT !.tip.seqno = E.seqno] ELSE mc
TReset == /\ E.k = "Reset" /\ l = seg
          /\ sh' = Start(E) /\ StartOK(sh')
          /\ mc' = [tip |-> [seqno |-> E.mcseqno], cfg |-> <<>>]
TEvent == E.k # "Reset" /\ Apply(Judge(sh, E))
TraceInit == /\ l \in Starts /\ seg = l /\ sh = <<>> /\ mc = [tip |-> [seqno |-> 0], cfg |-> <<>>]
             /\ fresh = 0 /\ hist = <<>> /\ cnt = [new |-> 0, split |-> 0, merge |-> 0, mcs |-> 0]
TraceNext == /\ l <= N
             /\ (l # seg => Trace[l].k # "Reset")
             /\ (TReset \/ TEvent)
             /\ l' = l + 1 /\ seg' = seg /\ UNCHANGED <<fresh, hist, cnt>>
             /\ TLCSet(seg, l + 1 - seg)
TraceSpec == TraceInit /\ [][TraceNext]_tvars
TraceTypeOK == l \in 1..(N + 1) /\ seg \in Starts
Report == \A i \in Starts : PrintT(<<"SEG", i, TLCGet(i)>>)
=============================================================================
