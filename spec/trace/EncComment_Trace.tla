-------------------------- MODULE EncComment_Trace --------------------------
(* C->S for X04.  Every line of trace.ndjson is one call of toncrypto.Encrypt   *)
(* on the real code with everything it was given and everything it returned:    *)
(*  {"k":"Enc","src","sseed":hex,"spriv":hex,"rseed":hex|"","rpub":hex,          *)
(*   "msg":hex,"salt":hex,"out":hex,"err":""|"e","panic":"",                      *)
(*   "spriv_after","rpub_after","msg_after","salt_after":hex}                     *)
(* Each line is judged on its own.  The prefix bytes are random and unknown to   *)
(* the judge: the ciphertext is accepted iff both parties, decrypting as the     *)
(* documentation says, read exactly the comment, and the visible fields have     *)
(* the documented layout (EncComment!Conforms).  Arguments must not be changed.  *)
(*   rseed # "": an honest receiver key (the judge recomputes it) -- the call    *)
(*               must succeed                                                    *)
(*   rseed = "": an arbitrary 32-byte string as receiver key -- may be refused;  *)
(*               if accepted the result must decrypt with the sender's view      *)
(*   a key of the wrong size must be refused.                                    *)
EXTENDS EncComment, Json, TLC

Trace == ndJsonDeserialize("trace.ndjson")
N == Len(Trace)
VARIABLES l, v
H(x) == HexToBytes(x)

JudgeEnc(e) ==
  LET seedS == H(e.sseed)  priv == H(e.spriv)  pub == H(e.rpub)  msg == H(e.msg)  salt == H(e.salt)  out == H(e.out)
      sized == Len(priv) = 64 /\ Len(pub) = 32
      cls   == IF ~sized THEN "keysize" ELSE IF e.rseed # "" THEN "honest" ELSE IF NoMontImage(pub) THEN "neutral" ELSE "rawpub"
  IN /\ PrintT(<<"NOTE", l, cls, Len(msg), e.err>>)
     /\ e.panic = ""
     /\ e.spriv_after = e.spriv /\ e.rpub_after = e.rpub /\ e.msg_after = e.msg /\ e.salt_after = e.salt
     /\ CASE cls = "keysize" -> e.err # ""
          [] cls = "honest"  -> /\ Len(seedS) = 32 /\ priv = seedS \o PubOf(seedS)            \* the recorder's own well-formedness
                                /\ Len(H(e.rseed)) = 32 /\ pub = PubOf(H(e.rseed))
                                /\ e.err = ""
                                /\ Conforms(seedS, H(e.rseed), msg, salt, out)
          [] cls = "rawpub"  -> /\ Len(seedS) = 32 /\ priv = seedS \o PubOf(seedS)
                                /\ e.err # "" \/ ConformsPub(seedS, pub, msg, salt, out)
          [] cls = "neutral" -> TRUE

Judge(e) == CASE e.k = "Enc" -> JudgeEnc(e)
              [] OTHER -> FALSE          \* Panic, Begin without result, unknown kinds: no action

Init == l \in 1..N /\ v = "todo"
Next == /\ v = "todo" /\ l' = l
        /\ v' = (IF Judge(Trace[l]) THEN "ok" ELSE "bad")
        /\ PrintT(<<"EV", l, v'>>)
Spec == Init /\ [][Next]_<<l, v>>
=============================================================================
