--------------------------- MODULE GenHist_Trace ---------------------------
(* C->S for GenHist: one segment per process.  The Reset event carries `ref`:   *)
(* for each call of the history, the output of that call when it is the only    *)
(* call of a fresh process -- the function Pure restricted to the history.  A   *)
(* Gen event is accepted iff it is the step GenHist!HGen allows: its output is  *)
(* Pure[call], whatever was called before.                                       *)
(*   Reset ref hist      Gen call out err                                        *)
EXTENDS GenHist, TLC, Json

Trace == ndJsonDeserialize("trace.ndjson")
N     == Len(Trace)
VARIABLES l, seg, hist
tvars == <<l, seg, hist>>
Starts == {i \in 1..N : Trace[i].k = "Reset"}
ASSUME \A i \in Starts : TLCSet(i, 0)
E == Trace[l]
Pure == Trace[seg].ref

TReset == E.k = "Reset" /\ l = seg /\ hist' = <<>>
TGen   == E.k = "Gen" /\ HGen(Pure, hist, hist', E.call, E.out)

Consume == l' = l + 1 /\ seg' = seg /\ TLCSet(seg, l + 1 - seg)
TraceInit == l \in Starts /\ seg = l /\ HInit(hist)
TraceNext == /\ l <= N /\ (l # seg => Trace[l].k # "Reset") /\ (TReset \/ TGen) /\ Consume
TraceSpec == TraceInit /\ [][TraceNext]_tvars
Report == \A i \in Starts : PrintT(<<"SEG", i, TLCGet(i)>>)
=============================================================================
