CONSTANTS
  NC = 4
  Waiters = {1, 2, 3, 4, 5, 6, 7, 8}
  None = 0
  RunP = 99
  MaxSeq = 1000000
  Steps = {1}
  Wants = {1}
  Timeouts = {1}
  UpdCap = 10
  MaxTime = 0
  Strategy = "first-working"
  Rtt0 <- TRtt
  MaxFlips = 0
  FixNotify = TRUE
  FixTimer = TRUE
  FixSetHead = TRUE
  Slack = 250
SPECIFICATION TraceSpec
POSTCONDITION Report
CHECK_DEADLOCK FALSE
