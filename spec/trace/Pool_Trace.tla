----------------------------- MODULE Pool_Trace -----------------------------
(* C->S: an execution of the real pool, recorded through the hooks of           *)
(* liteapi/pool (build tag verif: one event per hook, global sequence number    *)
(* taken inside the critical section the hook sits in), must be a behaviour of  *)
(* Pool.  trace.ndjson is a concatenation of segments (one pool instance each), *)
(* each starting with a Reset event; register i (line of the segment's Reset)   *)
(* holds the longest accepted prefix of that segment.                            *)
(*                                                                              *)
(* An event is bound to the action of Pool whose critical section contains the  *)
(* hook.  Channel operations are not atomic with their hooks (the hook is       *)
(* before / after the operation), so SmhSend, RunRecv, RunSend, WRecv and the   *)
(* lock-free return of SetMasterHead are silent steps that TLC places between   *)
(* the two hooks; a writer's Announce is placed immediately before its Acquire  *)
(* (the pending state is not observable).  Time: `now` is the recorder's clock  *)
(* in ms; a timeout branch is accepted only at/after the caller's deadline, and *)
(* every accepted event must leave OkJustified, ErrJustified (no timeout before  *)
(* registration + timeout) and ByDeadline (nobody inside the call later than     *)
(* first-select + timeout + Slack ms) true.  Hang events (the driver's           *)
(* watchdog found goroutines that never returned) have no action.               *)
(*                                                                              *)
(* The instance is the protocol the code implements (FixNotify = FixTimer =      *)
(* FixSetHead = TRUE): a send into a full slot replaces the unread head (a send  *)
(* into an empty slot is the same action for either notify discipline), the      *)
(* timer is created once, the connection lock is released before the head is     *)
(* published.  Unobservable channel operations are placed only next to the       *)
(* events they conflict with or that confirm them (see SilentConn), which keeps  *)
(* the search linear in the length of the trace.  updateBest reads the heads one *)
(* by one while connections may advance: any head vector between the values at  *)
(* lock time and at unlock time is accepted as the snapshot.                    *)
EXTENDS Pool, Json, Integers

CONSTANTS Slack
TRtt  == <<0, 0, 0, 0>>
Trace == ndJsonDeserialize("trace.ndjson")
N     == Len(Trace)

VARIABLES l, seg,      \* next line to consume; line of this segment's Reset
          strat,       \* strategy of this segment's pool
          hlo,         \* heads when updateBest took the lock
          precv,       \* precv[w]: head taken from w's channel, its wait.recv event still to come (-1: none)
          rcur,        \* waiter the run loop announced it sends to (ntf.send seen, ntf.sent not yet), else 0
          armed,       \* armed[w]: w has entered its select at least once
          hsl          \* hsl[w]: head of the best connection when w took the write lock in subscribe
tvars == <<vars, l, seg, strat, hlo, precv, rcur, armed, hsl>>
aux   == <<strat, hlo, precv, rcur, armed, hsl>>

Starts == {i \in 1..N : Trace[i].k = "Reset"}
ASSUME \A i \in Starts : TLCSet(i, 0)
ASSUME NC = 4

E == Trace[l]
K == E.k
Max2(a, b) == IF a >= b THEN a ELSE b
Consume == /\ l' = l + 1 /\ seg' = seg
           /\ TLCSet(seg, Max2(TLCGet(seg), l + 1 - seg))
NoOp == UNCHANGED <<vars, aux>>

\* ------------------------------------------------------------------ segment
TraceInit ==
  /\ l \in Starts /\ seg = l
  /\ head = [k \in Conns |-> 0] /\ alive = [k \in Conns |-> FALSE] /\ rtt = [k \in Conns |-> 0]
  /\ clk = [k \in Conns |-> FALSE] /\ updCh = <<>>
  /\ cpc = [k \in Conns |-> "idle"] /\ cnew = [k \in Conns |-> 0]
  /\ rw = [w |-> None, pend |-> None, r |-> {}] /\ best = 1
  /\ reg = [w \in Waiters |-> FALSE] /\ ch = [w \in Waiters |-> <<>>]
  /\ wpc = [w \in Waiters |-> "idle"] /\ want = [w \in Waiters |-> 0] /\ tmo = [w \in Waiters |-> 0]
  /\ hread = [w \in Waiters |-> 0]
  /\ timer = [w \in Waiters |-> Inf] /\ orig = [w \in Waiters |-> Inf]
  /\ cancelled = [w \in Waiters |-> FALSE] /\ result = [w \in Waiters |-> "none"]
  /\ okby = [w \in Waiters |-> <<0, 0, 0>>] /\ rett = [w \in Waiters |-> 0]
  /\ rpc = "idle" /\ rupd = <<0, 0>> /\ rtodo = {} /\ now = 0 /\ flips = 0
  /\ strat = "" /\ hlo = [k \in Conns |-> 0] /\ precv = [w \in Waiters |-> -1] /\ rcur = 0
  /\ armed = [w \in Waiters |-> FALSE] /\ hsl = [w \in Waiters |-> 0]

\* the Reset line: which connections exist (the others stay dead with head 0), their rtt, the strategy
TReset == /\ K = "Reset" /\ l = seg
          /\ alive' = [k \in Conns |-> k <= E.nc /\ E.alive[k]]
          /\ rtt' = [k \in Conns |-> IF k <= E.nc THEN E.rtt[k] ELSE 0]
          /\ strat' = E.strategy
          /\ UNCHANGED <<head, clk, updCh, cpc, cnew, poolVars, waitVars, runVars, now, flips, hlo, precv, rcur, armed, hsl>>

\* ------------------------------------------------------------- connections
TConn ==
  LET k == E.i IN
  CASE K \in {"sethead", "smh.enter"} -> NoOp
    [] K = "smh.locked" -> SmhLock(k, E.b) /\ UNCHANGED aux
    [] K = "smh.send"   -> cnew[k] > head[k] /\ E.b = cnew[k] /\ SmhSet(k) /\ UNCHANGED aux
    [] K = "smh.sent"   -> cpc[k] = "idle" /\ NoOp          \* the silent SmhSend has happened
    [] K = "smh.ret"    -> cpc[k] = "idle" /\ NoOp
ConnKinds == {"sethead", "smh.enter", "smh.locked", "smh.send", "smh.sent", "smh.ret"}
\* Silent steps are demand driven: a step that is not bound to an event is taken only immediately before an event
\* that confirms it or that it conflicts with (anywhere else it commutes with everything, so "as late as possible"
\* loses no behaviour).  This keeps the search linear in the length of the trace instead of exponential in the
\* number of pending channel operations.
\*   SmhSend(k)   conflicts with other sends and with RunRecv (order / room in the update channel); confirmed by smh.sent
\*   RunRecv      conflicts with the sends; confirmed by run.recv
\*   RunSend(w)   conflicts with WRecv(w) (the slot of w's channel); confirmed by ntf.sent, needed by wait.recv of w
\*   WRecv(w)     conflicts with RunSend(w); confirmed by wait.recv of w
\*   SmhSet(k) without update (just releases the connection lock): confirmed by smh.ret of k
SilentConn == \E k \in Conns : \/ K \in {"smh.sent", "run.recv"} /\ SmhSend(k) /\ UNCHANGED aux
                               \/ K = "smh.ret" /\ E.i = k /\ cpc[k] = "locked" /\ cnew[k] <= head[k] /\ SmhSet(k) /\ UNCHANGED aux

\* ---------------------------------------------------------------- run loop
ConnAt(h) == [k \in Conns |-> [alive |-> alive[k], seqno |-> h[k], rtt |-> rtt[k]]]
TRun ==
  CASE K \in {"run.tick", "upd.enter"} -> NoOp
    [] K = "upd.locked" -> E.best = best /\ E.nreg = Cardinality({w \in Waiters : reg[w]}) /\ RunUpdAcq /\ hlo' = head /\ UNCHANGED <<strat, precv, rcur, armed, hsl>>
    [] K = "upd.done" ->
         /\ rpc = "upd_in" /\ E.nreg = Cardinality({w \in Waiters : reg[w]})
         /\ \E h1 \in hlo[1]..head[1], h2 \in hlo[2]..head[2], h3 \in hlo[3]..head[3], h4 \in hlo[4]..head[4] :
               E.best \in Choices(strat, ConnAt(<<h1, h2, h3, h4>>), best)
         /\ best' = E.best /\ WUnlock /\ rpc' = "idle"
         /\ UNCHANGED <<connVars, reg, ch, waitVars, rupd, rtodo, now, flips, aux>>
    [] K = "run.recv" -> rpc = "rlock" /\ rupd = <<E.a, E.b>> /\ NoOp      \* the silent RunRecv took exactly this update
    [] K = "ntf.rlocked" -> /\ E.best = best /\ E.nreg = Cardinality({w \in Waiters : reg[w]})
                            /\ RunRLock /\ UNCHANGED aux
    [] K = "ntf.send" -> rpc = "send" /\ E.w \in rtodo /\ rcur = 0 /\ rcur' = E.w
                         /\ UNCHANGED <<vars, strat, hlo, precv, armed, hsl>>
    [] K = "ntf.sent" -> rcur = 0 /\ E.w \notin rtodo /\ rpc \in {"send", "exit"} /\ NoOp
    [] K = "ntf.exit" -> RunRUnlock /\ UNCHANGED aux
RunKinds == {"run.tick", "upd.enter", "upd.locked", "upd.done", "run.recv", "ntf.rlocked", "ntf.send", "ntf.sent", "ntf.exit"}
SilentRun == \/ K \in {"run.recv", "smh.sent"} /\ RunRecv /\ UNCHANGED aux
             \/ rcur # 0 /\ (K = "ntf.sent" \/ (K = "wait.recv" /\ E.i = rcur))
                 /\ RunSend(rcur) /\ rcur' = 0 /\ UNCHANGED <<strat, hlo, precv, armed, hsl>>
             \/ K = "upd.locked" /\ RunTick /\ UNCHANGED aux        \* Announce just before Acquire

\* ----------------------------------------------------------------- callers
TStart(w) ==      \* a call begins in slot w (slots are reused once the previous call has returned)
  /\ wpc[w] \in {"idle", "done"} /\ ~reg[w]
  /\ want' = [want EXCEPT ![w] = E.a]
  /\ tmo' = [tmo EXCEPT ![w] = IF E.kind = "bmc" THEN Inf ELSE E.b]
  /\ wpc' = [wpc EXCEPT ![w] = "sub"] /\ ch' = [ch EXCEPT ![w] = <<>>]
  /\ timer' = [timer EXCEPT ![w] = Inf] /\ orig' = [orig EXCEPT ![w] = Inf]
  /\ cancelled' = [cancelled EXCEPT ![w] = FALSE] /\ result' = [result EXCEPT ![w] = "none"]
  /\ okby' = [okby EXCEPT ![w] = <<0, 0, 0>>] /\ rett' = [rett EXCEPT ![w] = 0]
  /\ precv' = [precv EXCEPT ![w] = -1] /\ armed' = [armed EXCEPT ![w] = FALSE]
  /\ UNCHANGED <<connVars, rw, best, reg, hread, runVars, now, flips, strat, hlo, rcur, hsl>>
\* The caller's timer is started somewhere between the return of subscribe and the first entry into the select
\* (the implementation arms it in the select; a repaired one creates it once before the loop).  timer[w], set by
\* WSubBody to (time of registration + timeout), is therefore the earliest moment a timeout may be reported;
\* orig[w] = (first entry into the select + timeout) is the latest moment the timer can fire, from which lateness counts.
TArm(w) ==
  IF armed[w] \/ tmo[w] = Inf THEN NoOp
  ELSE /\ orig' = [orig EXCEPT ![w] = now + tmo[w]]
       /\ armed' = [armed EXCEPT ![w] = TRUE]
       /\ UNCHANGED <<connVars, poolVars, wpc, want, tmo, hread, timer, cancelled, result, okby, rett, runVars, now, flips, strat, hlo, precv, rcur, hsl>>
TWaiter ==
  LET w == E.i IN
  CASE K = "call" -> TStart(w)
    [] K \in {"sub.enter", "unsub.enter"} -> NoOp
    [] K = "sub.locked" -> WSubAcq(w) /\ hsl' = [hsl EXCEPT ![w] = head[best]] /\ UNCHANGED <<strat, hlo, precv, rcur, armed>>
    [] K = "sub.read" ->    \* the value was read somewhere between taking the lock and this hook
         /\ wpc[w] = "sub_in" /\ hsl[w] <= E.b /\ E.b <= head[best]
         /\ hread' = [hread EXCEPT ![w] = E.b] /\ wpc' = [wpc EXCEPT ![w] = "sub_rd"]
         /\ UNCHANGED <<connVars, poolVars, want, tmo, timer, orig, cancelled, result, okby, rett, runVars, now, flips, aux>>
    [] K \in {"sub.imm", "sub.reg"} ->
         /\ (K = "sub.imm") = (hread[w] >= want[w]) /\ E.b = hread[w] /\ E.best = best
         /\ WSubBody(w) /\ UNCHANGED aux
         /\ E.nreg = Cardinality({x \in Waiters : reg'[x]})
    [] K = "wait.select" -> wpc[w] = "waiting" /\ TArm(w)
    [] K = "wait.recv" -> precv[w] = E.b /\ precv' = [precv EXCEPT ![w] = -1]
                          /\ UNCHANGED <<vars, strat, hlo, rcur, armed, hsl>>
    [] K = "wait.timeout" -> WTimeout(w) /\ UNCHANGED aux
    [] K = "cancel" -> cancelled' = [cancelled EXCEPT ![w] = TRUE]
                       /\ UNCHANGED <<connVars, poolVars, wpc, want, tmo, hread, timer, orig, result, okby, rett, runVars, now, flips, aux>>
    [] K = "wait.cancel" -> WCancelRet(w) /\ UNCHANGED aux
    [] K = "unsub.locked" -> WUnsubAcq(w) /\ UNCHANGED aux
    [] K = "unsub.done" -> WUnsubBody(w) /\ UNCHANGED aux
    [] K = "ret" -> wpc[w] = "done" /\ (E.res = "ok") = (result[w] = "ok") /\ NoOp
WaiterKinds == {"call", "sub.enter", "sub.locked", "sub.read", "sub.imm", "sub.reg", "wait.select", "wait.recv", "wait.timeout",
                "cancel", "wait.cancel", "unsub.enter", "unsub.locked", "unsub.done", "ret"}
SilentWaiter ==
  \/ \E w \in Waiters : /\ (K = "wait.recv" /\ E.i = w) \/ (K = "ntf.sent" /\ rcur = w)
                        /\ precv[w] = -1 /\ ch[w] # <<>> /\ WRecv(w) /\ precv' = [precv EXCEPT ![w] = Head(ch[w])[1]]
                        /\ UNCHANGED <<strat, hlo, rcur, armed, hsl>>
  \/ K = "sub.locked" /\ WSubAnn(E.i) /\ UNCHANGED aux
  \/ K = "unsub.locked" /\ WUnsubAnn(E.i) /\ UNCHANGED aux

TEnv == K = "flip" /\ alive' = [alive EXCEPT ![E.a] = E.alive]
        /\ UNCHANGED <<head, rtt, clk, updCh, cpc, cnew, poolVars, waitVars, runVars, now, flips, aux>>

\* the clock follows the recorder's time stamps (sequence numbers order the events; stamps may lag by a hair)
Advance == /\ l <= N /\ K # "Reset" /\ E.t > now /\ now' = E.t
           /\ UNCHANGED <<connVars, poolVars, waitVars, runVars, flips, aux, l, seg>>

\* what must hold after every accepted event
LateT(w) == wpc[w] \notin {"idle", "sub", "sub_acq", "sub_in", "sub_rd", "done"} /\ orig[w] # Inf /\ now > orig[w] + Slack
ErrJustifiedT == \A w \in Waiters : /\ result[w] = "timeout" => (tmo[w] # Inf /\ rett[w] >= timer[w])
                                    /\ result[w] = "cancel" => cancelled[w]
Holds == OkJustified /\ ErrJustifiedT /\ \A w \in Waiters : ~LateT(w)

Event == /\ l <= N
         /\ (l # seg => K # "Reset")
         /\ (K # "Reset" => E.t <= now)
         /\ CASE K = "Reset" -> TReset
              [] K \in ConnKinds -> TConn
              [] K \in RunKinds -> TRun
              [] K \in WaiterKinds -> TWaiter
              [] K = "flip" -> TEnv
              [] OTHER -> FALSE                 \* Hang, Panic, ... are not behaviours of the pool
         /\ Holds'
         /\ Consume
\* silent steps belong to the event that is next: only once the clock has caught up with it, never past the end
Silent == /\ l <= N /\ K # "Reset" /\ E.t <= now
          /\ (SilentConn \/ SilentRun \/ SilentWaiter) /\ UNCHANGED <<l, seg>>
TraceNext == Event \/ Advance \/ Silent
TraceSpec == TraceInit /\ [][TraceNext]_tvars

Report == \A i \in Starts : PrintT(<<"SEG", i, TLCGet(i)>>)
=============================================================================
