---------------------------- MODULE Tep64_Trace ----------------------------
(* C->S for X02.  Every line of trace.ndjson is one run of the real code with   *)
(* its input; it is judged on its own (pattern of MerkleProof_Trace /            *)
(* TonConnect_Trace).                                                            *)
(*  {"k":"Dec","src","cls","boc":hex,"go":R,"go2":R,"conv":R[,"vec","want"]}     *)
(*      go   = tep64.DecodeFullContentFromCell(root of the bag)                   *)
(*      go2  = tlb.Unmarshal into tlb.FullContent, then tep64.DecodeFullContent   *)
(*      go3  = a second tep64.DecodeFullContent on the same tlb.FullContent value *)
(*      conv = tep64.ConvertOnchainData of the same tlb.FullContent (ran = FALSE  *)
(*             when tlb.Unmarshal refused or the content is not on-chain)         *)
(*      R = [ran, ok, err, panic, layout, url, has_meta, fields, img_nil, data,   *)
(*           json_ok, json]   (hex strings; see Tep64!ResultEq)                   *)
(*    The bag is parsed with Boc!Parse, the expected result is recomputed from    *)
(*    the CELLS with Tep64!Verdict -- never from the harness's label -- and the   *)
(*    three recorded results must match it.                                       *)
(*    "in" (contents handed to the library's own encoder, tlb.Marshal): the cells    *)
(*    must be a conforming encoding of exactly that content.                       *)
(*  {"k":"Text","src","boc":hex,"in":hex|"-","go":[ok,err,panic,val]}              *)
(*      tlb.Text (text#_ data:(SnakeData ~n)) read from the root of the bag; "in"  *)
(*      = the string handed to tlb.Marshal when the library wrote the cells.       *)
(*  {"k":"Merge","a":M,"b_nil":bool,"b":M,"r":M,"b_after":M,"panic":""}           *)
(*      M = [f |-> attribute -> hex, img_nil]; judged with Tep64!MergeAllowed.    *)
(* NOTE lines carry the derived verdict and the shape of the content for the     *)
(* runner (vacuity guards, comparison with the generator's expectation).         *)
EXTENDS Tep64, Json

Trace == ndJsonDeserialize("trace.ndjson")
N == Len(Trace)
VARIABLES l, v

Count(s, x) == Len(SelectSeq(s, LAMBDA y : y = x))
JudgeDec(e) ==
  LET pr == Parse(HexToBytes(e.boc)) IN
  IF ~pr.ok \/ Len(pr.roots) # 1 THEN PrintT(<<"NOTE", l, "domain:bag", "none", 0, 0, 0, 0, 0>>) /\ FALSE
  ELSE LET V  == Verdict(pr.T, pr.roots[1])
           sh == V.d.shapes
           Exp == [layout |-> V.d.layout, url |-> BytesToHex(V.d.url), fields |-> [a \in AttrSet |-> BytesToHex(V.d.fields[a])], shapes |-> V.d.ashape,
                   pad |-> "................................................................................"]
       IN /\ PrintT(<<"NOTE", l, V.v, V.d.layout, V.d.nknown, V.d.nunknown, Count(sh, "snake1"), Count(sh, "snakeN"), Count(sh, "chunks")>>)
          \* for the runner's report of a rejected line: what the specification reads from the cells
          /\ (Matches(e.go, V) /\ Matches(e.go2, V) /\ (e.go3.ran => Matches(e.go3, V)) /\ (e.conv.ran => ConvMatches(e.conv, V)))
               \/ PrintT(<<"EXP", l, ToJson(Exp)>>)
          /\ Matches(e.go, V)
          /\ Matches(e.go2, V)
          /\ e.go3.ran => Matches(e.go3, V)
          /\ e.conv.ran => ConvMatches(e.conv, V)
          \* a readable on-chain dictionary always reaches ConvertOnchainData
          /\ (V.v = "ok" /\ V.d.layout # "offchain") => e.conv.ran
          \* the library's encoder wrote what it was given, in a conforming way
          /\ "in" \in DOMAIN e =>
                /\ V.v = "ok" /\ V.d.layout = e.in.layout /\ BytesToHex(V.d.url) = e.in.url
                /\ \A a \in AttrSet : BytesToHex(V.d.fields[a]) = e.in.fields[a]

JudgeText(e) ==
  LET pr == Parse(HexToBytes(e.boc)) IN
  IF ~pr.ok \/ Len(pr.roots) # 1 THEN PrintT(<<"NOTE", l, "domain:bag", "none", 0, 0, 0, 0, 0>>) /\ FALSE
  ELSE LET exo   == HasExotic(pr.T, pr.roots[1])
           s     == SnakeBits(pr.T, pr.roots[1], 0)
           whole == Len(s.bits) % 8 = 0
           bytes == IF whole THEN BitsToBytes(s.bits) ELSE <<>>
           \* a text is a string: bytes that are not ASCII may be refused (the documents do not fix the charset check)
           vd    == IF exo THEN "any" ELSE IF ~whole THEN "err" ELSE IF s.strict /\ Ascii(bytes) THEN "ok" ELSE "free"
           dec   == e.go.ok /\ e.go.err = "" /\ HexToBytes(e.go.val) = bytes
       IN /\ PrintT(<<"NOTE", l, vd, "text", s.cells, 0, 0, 0, 0>>)
          /\ e.go.panic = ""
          /\ CASE vd = "ok" -> dec [] vd = "err" -> Refused(e.go) [] vd = "free" -> dec \/ Refused(e.go) [] OTHER -> TRUE
          /\ e.in # "-" => (~exo /\ whole /\ s.strict /\ bytes = HexToBytes(e.in))

MetaOf(m) == [f |-> [a \in AttrSet |-> HexToBytes(m.f[a])], img_nil |-> m.img_nil]
JudgeMerge(e) ==
  LET a == MetaOf(e.a)  b == MetaOf(e.b)  r == MetaOf(e.r) IN
  /\ PrintT(<<"NOTE", l, "merge", IF e.b_nil THEN "nil" ELSE IF b.img_nil THEN "img-nil" ELSE IF b.f["image_data"] = <<>> THEN "img-empty" ELSE "img-set",
              0, 0, 0, 0, 0>>)
  /\ e.panic = ""
  /\ MergeAllowed(a, e.b_nil, b, r)
  /\ e.b_after = e.b                                   \* the argument is not changed

Judge(e) == CASE e.k = "Dec"   -> JudgeDec(e)
              [] e.k = "Merge" -> JudgeMerge(e)
              [] e.k = "Text"  -> JudgeText(e)
              [] OTHER -> FALSE          \* Panic, Crash, unknown kinds: no action

Init == l \in 1..N /\ v = "todo"
Next == /\ v = "todo" /\ l' = l
        /\ v' = (IF Judge(Trace[l]) THEN "ok" ELSE "bad")
        /\ PrintT(<<"EV", l, v'>>)
Spec == Init /\ [][Next]_<<l, v>>
=============================================================================
