---------------------------- MODULE Tep64_Trace ----------------------------
(* C->S for X02.  Every line of trace.ndjson is one run of the real code with   *)
(* its input; it is judged on its own (pattern of MerkleProof_Trace /            *)
(* TonConnect_Trace).                                                            *)
(*  {"k":"Dec","src","cls","boc":hex,"go":R,"go2":R,"conv":R[,"vec","want"]}     *)
(*      go   = tep64.DecodeFullContentFromCell(root of the bag)                   *)
(*      go2  = tlb.Unmarshal into tlb.FullContent, then tep64.DecodeFullContent   *)
(*      conv = tep64.ConvertOnchainData of the same tlb.FullContent (ran = FALSE  *)
(*             when tlb.Unmarshal refused or the content is not on-chain)         *)
(*      R = [ran, ok, err, panic, layout, url, has_meta, fields, img_nil, data,   *)
(*           json_ok, json]   (hex strings; see Tep64!ResultEq)                   *)
(*    The bag is parsed with Boc!Parse, the expected result is recomputed from    *)
(*    the CELLS with Tep64!Verdict -- never from the harness's label -- and the   *)
(*    three recorded results must match it.                                       *)
(*  {"k":"Merge","a":M,"b_nil":bool,"b":M,"r":M,"b_after":M,"panic":""}           *)
(*      M = [f |-> attribute -> hex, img_nil]; judged with Tep64!MergeAllowed.    *)
(* NOTE lines carry the derived verdict and the shape of the content for the     *)
(* runner (vacuity guards, comparison with the generator's expectation).         *)
EXTENDS Tep64, Json

Trace == ndJsonDeserialize("trace.ndjson")
N == Len(Trace)
VARIABLES l, v

Count(s, x) == Len(SelectSeq(s, LAMBDA y : y = x))
JudgeDec(e) ==
  LET pr == Parse(HexToBytes(e.boc)) IN
  IF ~pr.ok \/ Len(pr.roots) # 1 THEN PrintT(<<"NOTE", l, "domain:bag", "none", 0, 0, 0, 0, 0>>) /\ FALSE
  ELSE LET V  == Verdict(pr.T, pr.roots[1])
           sh == V.d.shapes
       IN /\ PrintT(<<"NOTE", l, V.v, V.d.layout, V.d.nknown, V.d.nunknown, Count(sh, "snake1"), Count(sh, "snakeN"), Count(sh, "chunks")>>)
          /\ Matches(e.go, V)
          /\ Matches(e.go2, V)
          /\ e.conv.ran => ConvMatches(e.conv, V)
          \* a readable on-chain dictionary always reaches ConvertOnchainData
          /\ (V.v = "ok" /\ V.d.layout # "offchain") => e.conv.ran

MetaOf(m) == [f |-> [a \in AttrSet |-> HexToBytes(m.f[a])], img_nil |-> m.img_nil]
JudgeMerge(e) ==
  LET a == MetaOf(e.a)  b == MetaOf(e.b)  r == MetaOf(e.r) IN
  /\ PrintT(<<"NOTE", l, "merge", IF e.b_nil THEN "nil" ELSE IF b.img_nil THEN "img-nil" ELSE IF b.f["image_data"] = <<>> THEN "img-empty" ELSE "img-set",
              0, 0, 0, 0, 0>>)
  /\ e.panic = ""
  /\ MergeAllowed(a, e.b_nil, b, r)
  /\ e.b_after = e.b                                   \* the argument is not changed

Judge(e) == CASE e.k = "Dec"   -> JudgeDec(e)
              [] e.k = "Merge" -> JudgeMerge(e)
              [] OTHER -> FALSE          \* Panic, Crash, unknown kinds: no action

Init == l \in 1..N /\ v = "todo"
Next == /\ v = "todo" /\ l' = l
        /\ v' = (IF Judge(Trace[l]) THEN "ok" ELSE "bad")
        /\ PrintT(<<"EV", l, v'>>)
Spec == Init /\ [][Next]_<<l, v>>
=============================================================================
