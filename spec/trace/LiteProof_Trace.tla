--------------------------- MODULE LiteProof_Trace ---------------------------
(* C->S for X01.  Every line of trace.ndjson is one call of the real client     *)
(* against the scripted lite server, with the request the server saw, the       *)
(* answer it sent (all bags as hex) and what the client returned.  Each line is  *)
(* judged on its own (pattern of MerkleProof_Trace): the bags are parsed with    *)
(* Boc!Parse, hashed with Cells (Prim!Sha256), the reason / value class / verdict*)
(* are derived from the BYTES by LiteProof, never from the harness's label.      *)
(*  {"k":"Acct","policy":"fast"|"unsafe","via":..,"req":{"id":ID,"wc":0,"addr":hex},                           *)
(*   "ans":{"id":ID,"shardblk":ID,"shard_proof":hex,"proof":hex,"state":hex},                                  *)
(*   "go":{"ok":b,"err":"","panic":"","status":"Account"|"AccountNone","acc":hex,"lt":bits64,"hash":hex}}      *)
(*  {"k":"Block", .. "req":{"id":ID},"ans":{"id":ID,"data":hex},"go":{..,"gid":bits32,"seqno":bits32,"utime":bits32}} *)
(*  {"k":"Header","kind":"header"|"lookup", .. "ans":{"id":ID,"header_proof":hex},"go":{..,"seqno","utime","start_lt","end_lt","rid":ID}} *)
(*  {"k":"Config", .. "ans":{"id":ID,"state_proof":hex,"config_proof":hex},"go":{..,"addr":hex}}               *)
(*  ID = {"wc":-1,"shard":"8000000000000000","seqno":n,"root":hex,"file":hex}                                  *)
(* The derived reason, value class and verdict are printed as NOTE so that the   *)
(* runner can hold them against the decision-table row the case was made from.   *)
EXTENDS LiteProof, Json

Trace == ndJsonDeserialize("trace.ndjson")
N == Len(Trace)
VARIABLES l, v

IdOf(j) == [wc |-> j.wc, shard |-> BytesToBits(HexToBytes(j.shard)), seqno |-> j.seqno, root |-> HexToBytes(j.root), file |-> HexToBytes(j.file)]

Pad == "................................................................"
Note(kind, reason, cls, want) == PrintT(<<"NOTE", l, ToJson([kind |-> kind, reason |-> reason, cls |-> cls, want |-> want, pad |-> Pad])>>)

Result(g, want, valueOK) ==
  /\ g.panic = ""
  /\ \/ want \in {"accept", "free"} /\ g.ok /\ g.err = "" /\ valueOK
     \/ want \in {"reject", "free"} /\ ~g.ok /\ g.err # ""

JudgeAcct(e) ==
  LET req == [id |-> IdOf(e.req.id), wc |-> e.req.wc, addr |-> HexToBytes(e.req.addr)]
      ans == [id |-> IdOf(e.ans.id), shardblk |-> IdOf(e.ans.shardblk), shard_proof |-> HexToBytes(e.ans.shard_proof),
              proof |-> HexToBytes(e.ans.proof), state |-> HexToBytes(e.ans.state)]
      reason == AccountReason(req, ans)
      val == AccountValue(req, ans)
      want == Decide(e.policy, reason, val.cls)
      g == e.go
      valueOK == CASE val.cls = "none"  -> g.status = "AccountNone"
                   [] val.cls = "value" -> g.status = "Account" /\ g.acc = BytesToHex(val.acc) /\ StrToBits(g.lt) = val.lt /\ g.hash = BytesToHex(val.hash)
                   [] OTHER -> TRUE
  IN Note("acct", reason, val.cls, want) /\ Result(g, want, valueOK)

JudgeBlock(e) ==
  LET req == [id |-> IdOf(e.req.id)]
      ans == [data |-> HexToBytes(e.ans.data)]
      reason == BlockReason(req, ans)
      val == BlockValue(ans)
      want == Decide(e.policy, reason, val.cls)
      g == e.go
      valueOK == val.cls = "value" => (StrToBits(g.gid) = val.gid /\ StrToBits(g.seqno) = val.seqno /\ StrToBits(g.utime) = val.genUtime)
  IN Note("block", reason, val.cls, want) /\ Result(g, want, valueOK)

JudgeHeader(e) ==
  LET req == [id |-> IdOf(e.req.id)]
      ans == [id |-> IdOf(e.ans.id), header_proof |-> HexToBytes(e.ans.header_proof)]
      reason == HeaderReason(e.kind, req, ans)
      val == HeaderValue(ans)
      want == Decide(e.policy, reason, val.cls)
      g == e.go
      valueOK == /\ val.cls = "value" => (StrToBits(g.seqno) = val.seqno /\ StrToBits(g.utime) = val.genUtime
                                           /\ StrToBits(g.start_lt) = val.startLt /\ StrToBits(g.end_lt) = val.endLt)
                 /\ e.kind = "lookup" => IdEq(IdOf(g.rid), ans.id)
  IN Note(e.kind, reason, val.cls, want) /\ Result(g, want, valueOK)

JudgeConfig(e) ==
  LET req == [id |-> IdOf(e.req.id)]
      ans == [id |-> IdOf(e.ans.id), state_proof |-> HexToBytes(e.ans.state_proof), config_proof |-> HexToBytes(e.ans.config_proof)]
      reason == ConfigReason(req, ans)
      val == ConfigValue(ans)
      want == Decide(e.policy, reason, val.cls)
      g == e.go
      valueOK == val.cls = "value" => g.addr = BytesToHex(val.addr)
  IN Note("config", reason, val.cls, want) /\ Result(g, want, valueOK)

Judge(e) == CASE e.k = "Acct"   -> JudgeAcct(e)
              [] e.k = "Block"  -> JudgeBlock(e)
              [] e.k = "Header" -> JudgeHeader(e)
              [] e.k = "Config" -> JudgeConfig(e)
              [] OTHER -> FALSE          \* Begin without result, Panic, Crash, unknown kinds: no action

Init == l \in 1..N /\ v = "todo"
Next == /\ v = "todo" /\ l' = l
        /\ v' = (IF Judge(Trace[l]) THEN "ok" ELSE "bad")
        /\ PrintT(<<"EV", l, v'>>)
Spec == Init /\ [][Next]_<<l, v>>
=============================================================================
