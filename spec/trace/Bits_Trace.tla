----------------------------- MODULE Bits_Trace -----------------------------
(* C->S: every recorded call on a real boc.BitString / boc.Cell must be a step *)
(* of Bits.  trace.ndjson is a concatenation of segments, each starting with a *)
(* Reset event; every segment is its own initial state, so a rejected segment  *)
(* does not hide the others.  Register i (i = line of the segment's Reset)     *)
(* holds the number of lines of that segment accepted so far.                  *)
EXTENDS Bits, Json, TLC

Trace == ndJsonDeserialize("trace.ndjson")
N     == Len(Trace)
VARIABLES l, seg          \* next line to consume; line of this segment's Reset
tvars == <<s, r, cap, nrefs, rr, l, seg>>

Starts == {i \in 1..N : Trace[i].k = "Reset"}
ASSUME \A i \in Starts : TLCSet(i, 0)

E == Trace[l]
Ok == E.err = ""
Has(f) == f \in DOMAIN E

\* bind the logged post-state, count the accepted line
\* the recorder logs "bin" (the whole bit string) only when it differs from the previous event's
Post == /\ s' = (IF Has("bin") THEN StrToBits(E.bin) ELSE s)
        /\ r' = Len(s') - E.avail
        /\ nrefs' = E.refs
        /\ rr' = E.refs - E.ravail
        /\ cap' = cap
Consume == /\ l' = l + 1 /\ seg' = seg
           /\ TLCSet(seg, l + 1 - seg)

\* width of a (#<= n) field: the length of n in bits; the bound arrives as decimal text (it may exceed a TLC integer)
LimW == Len(Mag(E.ns))
WriteBitsOf ==
  CASE E.k = "WriteBit"       -> <<E.b>>
    [] E.k = "WriteUint"      -> UBits(E.v, E.w)
    [] E.k = "WriteInt"       -> SBits(E.v, E.w)
    [] E.k = "WriteBigUint"   -> UBits(E.v, E.w)
    [] E.k = "WriteBigInt"    -> SBits(E.v, E.w)
    [] E.k = "WriteByte"      -> UBits(E.v, 8)
    [] E.k = "WriteBytes"     -> BytesToBits(HexToBytes(E.hex))
    [] E.k = "WriteUnary"     -> UnaryBits(E.n)
    [] E.k = "WriteLimUint"   -> UBits(E.v, LimW)
    [] E.k = "WriteBitString" -> StrToBits(E.bits)
WriteKinds == {"WriteBit","WriteUint","WriteInt","WriteBigUint","WriteBigInt","WriteByte",
               "WriteBytes","WriteUnary","WriteLimUint","WriteBitString"}
\* the harness stays inside each operation's domain; the spec re-checks it so that an
\* out-of-domain event is an infrastructure error (never matched), not a verdict
InDomain ==
  CASE E.k \in {"WriteUint","WriteBigUint"} -> UFits(E.v, E.w)
    [] E.k \in {"WriteInt","WriteBigInt"}   -> E.w >= 1 /\ SFits(E.v, E.w)
    [] E.k = "WriteByte"                    -> UFits(E.v, 8)
    [] E.k = "WriteLimUint"                 -> UFits(E.v, LimW)
    [] OTHER -> TRUE

TWrite == /\ E.k \in WriteKinds /\ InDomain /\ Post /\ Write(WriteBitsOf, Ok)
\* Append: the recorded state but for the capacity, which the action says
TAppend == /\ E.k = "Append" /\ Ok
           /\ s' = (IF Has("bin") THEN StrToBits(E.bin) ELSE s) /\ r' = Len(s') - E.avail /\ nrefs' = E.refs /\ rr' = E.refs - E.ravail
           /\ AppendGrow(StrToBits(E.bits))

\* width and advance of a read event
ReadW == CASE E.k \in {"ReadBit"} -> 1
           [] E.k \in {"ReadUint","PickUint","ReadInt","ReadBigUint","ReadBigInt"} -> E.w
           [] E.k = "ReadByte" -> 8
           [] E.k = "ReadBytes" -> 8 * E.n
           [] E.k \in {"ReadBits","Skip"} -> E.n
           [] E.k = "ReadRemainingBits" -> Avail
           [] E.k = "ReadLimUint" -> LimW
ReadKinds == {"ReadBit","ReadUint","PickUint","ReadInt","ReadBigUint","ReadBigInt","ReadByte",
              "ReadBytes","ReadBits","Skip","ReadRemainingBits","ReadLimUint"}
OutMatches ==
  LET w == ReadW IN
  CASE E.k = "ReadBit"  -> StrToBits(E.out) = Window(1)
    [] E.k \in {"ReadUint","PickUint","ReadBigUint","ReadByte","ReadLimUint"}
                        -> UFits(E.out, w) /\ UBits(E.out, w) = Window(w)
    [] E.k \in {"ReadInt","ReadBigInt"}
                        -> SFits(E.out, w) /\ SBits(E.out, w) = Window(w)
    [] E.k = "ReadBytes" -> BytesToBits(HexToBytes(E.out)) = Window(w)
    [] E.k \in {"ReadBits","ReadRemainingBits"} -> StrToBits(E.out) = Window(w)
    [] E.k = "Skip" -> TRUE
TRead == /\ E.k \in ReadKinds
         /\ Post
         /\ Read(ReadW, IF E.k = "PickUint" THEN 0 ELSE ReadW, Ok)
         /\ Ok => OutMatches

TReadUnary == /\ E.k = "ReadUnary" /\ Post /\ ReadUnaryAct(Ok)
              /\ Ok => E.out = ReadUnaryOut
TResetCounter == E.k = "ResetCounter" /\ Post /\ ResetCounter
TAddRef  == E.k = "AddRef"  /\ Post /\ AddRef(Ok)
TNextRef == E.k = "NextRef" /\ Post /\ NextRef(Ok) /\ ((Ok /\ Has("id")) => E.id = rr + 1)
TSetBit  == E.k \in {"On", "Off"} /\ Post /\ SetBit(E.n, IF E.k = "On" THEN 1 ELSE 0, Ok)
\* bits appended to a by-value copy of the object's bit string
TAlias   == E.k = "AliasWrite" /\ Post /\ Alias
\* NextRef names the reference it returned, CopyRemaining its bits and references
TCopyRem == /\ E.k = "CopyRemaining" /\ Post /\ UNCHANGED bvars
            /\ StrToBits(E.out) = CopyRemainingOut.bits /\ E.outrefs = CopyRemainingOut.refs
\* byte form: GetTopUppedArray gives TopUpBytes(s); SetTopUppedArray of those bytes (told whether they are whole bytes) gives s back
\* (when the completion tag does not fit below the CAPACITY - a 1022- or 1023-bit cell, a full 12-bit string - the library refuses;
\* the property's clauses do not speak about this form, so that corner is left free: observation, patches/0005)
TTopUp == /\ E.k = "TopUp" /\ Post /\ UNCHANGED bvars
          /\ IF Len(s) % 8 # 0 /\ cap - Len(s) < 8 - (Len(s) % 8)
               THEN Ok => (HexToBytes(E.out) = TopUpBytes(s) /\ StrToBits(E.back) = s)
               ELSE Ok /\ HexToBytes(E.out) = TopUpBytes(s) /\ StrToBits(E.back) = s
\* text form: the canonical Fift hex of s, and parsing it gives s back
TFift == /\ E.k = "FiftHex" /\ Post /\ UNCHANGED bvars
         /\ E.out = FiftHex(s) /\ Ok /\ StrToBits(E.back) = s

TraceInit == /\ l \in Starts /\ seg = l
             /\ s = <<>> /\ r = 0 /\ cap = 0 /\ nrefs = 0 /\ rr = 0
TReset == /\ E.k = "Reset" /\ l = seg /\ New(E.cap)
          /\ E.bin = "" /\ E.avail = 0 /\ E.refs = 0

TraceNext == /\ l <= N
             /\ (l # seg => Trace[l].k # "Reset")      \* a segment ends at the next Reset
             /\ (TReset \/ TWrite \/ TAppend \/ TRead \/ TReadUnary \/ TResetCounter \/ TAddRef \/ TNextRef \/ TFift \/ TSetBit \/ TAlias \/ TCopyRem \/ TTopUp)
             /\ Consume
TraceSpec == TraceInit /\ [][TraceNext]_tvars

Report == \A i \in Starts : PrintT(<<"SEG", i, TLCGet(i)>>)
=============================================================================
