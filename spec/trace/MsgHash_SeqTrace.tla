--------------------------- MODULE MsgHash_SeqTrace ---------------------------
(* C->S for the multi-step part of C16: a recording is a concatenation of      *)
(* segments; each starts with a Reset that names the source cells (tables) and *)
(* the kind of record, then lists the operations the harness performed on ONE  *)
(* set of cells and destination values:                                        *)
(*   Decode  c, d, dec, err      the library decoded cell c into value d       *)
(*   Obs     d, ...              what the observers of value d reported        *)
(* A segment is accepted line by line as a behaviour of MsgHashSeq; an Obs     *)
(* line is a stuttering step that is enabled only if every reported value is   *)
(* the one MsgHash derives from the cell d holds now.                          *)
EXTENDS MsgHashSeq, Json
Trace == ndJsonDeserialize("trace.ndjson")
N     == Len(Trace)
VARIABLES l, seg, kind, facts
tvars == <<holds, reads, l, seg, kind, facts>>
Starts == {i \in 1..N : Trace[i].k = "Reset"}
ASSUME \A i \in Starts : TLCSet(i, 0)
E == Trace[l]
Consume == l' = l + 1 /\ seg' = seg /\ TLCSet(seg, l + 1 - seg)
Note(n) == PrintT(<<"NOTE", l, n>>)
\* first failing check of a list <<name, holds>>  (IF, not \/: inside an action TLC would explore both disjuncts)
AllHold(cs) == LET bad == {i \in 1..Len(cs) : ~cs[i][2]}
               IN IF bad = {} THEN TRUE ELSE Note(cs[CHOOSE i \in bad : \A j \in bad : i <= j][1]) /\ FALSE

TReset == /\ E.k = "Reset" /\ l = seg
          /\ kind' = E.kind
          /\ facts' = [c \in DOMAIN E.cells |-> IF E.kind = "msg" THEN MsgFacts(FromJson(E.cells[c])) ELSE TxFacts(FromJson(E.cells[c]))]
          /\ holds' = [d \in 1..E.nd |-> "none"] /\ reads' = [c \in DOMAIN E.cells |-> 0]
          /\ Consume
TDecode == /\ E.k = "Decode"
           /\ (IF E.err = "" THEN TRUE ELSE Note("decode-refused") /\ FALSE)
           /\ Decode(E.c, E.d, E.err = "")
           /\ UNCHANGED <<kind, facts>> /\ Consume
SrcOK(hexboc, want) == LET P == Parse(HexToBytes(hexboc)) IN P.ok /\ Len(P.roots) = 1 /\ RootHashes(P) = <<want>>
TObs == /\ E.k = "Obs" /\ Observable(E.d)
        /\ LET f == facts[holds[E.d]] IN
           IF kind = "msg"
             THEN AllHold(<< <<"source-readable", f.ok>>,
                             <<"obs-hash", E.h = f.h>>,
                             <<"obs-norm", E.hn \in f.norm>>,
                             <<"obs-fields", E.sum = f.kind /\ E.right = (f.body = "ref")>> >>)
             ELSE AllHold(<< <<"source-readable", f.ok>>,
                             <<"obs-hash", E.h = f.h>>,
                             <<"obs-fields", E.acc = f.acc /\ E.lt = f.lt /\ E.inp = f.hasIn>>,
                             <<"obs-in-msg-hash", E.inh = f.inh>>,
                             <<"obs-source-boc", E.srcerr = "" /\ SrcOK(E.src, f.raw)>> >>)
        /\ UNCHANGED <<svars, kind, facts>> /\ Consume

TraceInit == l \in Starts /\ seg = l /\ kind = "" /\ facts = <<>> /\ holds = <<>> /\ reads = <<>>
TraceNext == /\ l <= N
             /\ (l # seg => Trace[l].k # "Reset")
             /\ (TReset \/ TDecode \/ TObs)
TraceSpec == TraceInit /\ [][TraceNext]_tvars
Report == \A i \in Starts : PrintT(<<"SEG", i, TLCGet(i)>>)
=============================================================================
