-------------------------- MODULE VmStackApi_Trace --------------------------
(* Judgement of the VM stack API events (C03 phase "vmstack").  Every line of     *)
(* trace.ndjson is one case of VmStackApi_Gen as the harness ran it against the   *)
(* real API (harness/internal/c03/vmstack*.go); it is judged on its own: the       *)
(* expectation is recomputed here from the case description the event echoes      *)
(* (never taken from the generator's output), and the first clause that fails      *)
(* is reported as <<"NOTE", line, api>> - the API whose answer is not the one      *)
(* spec/VmStackApi.tla requires.  (All clauses of an event are evaluated: each     *)
(* guards its own field accesses.)                                                 *)
(*   VmStack      puts, list (the Go slice after the Puts), enc / tree (MarshalTLB),*)
(*                rt (UnmarshalTLB of that cell), mtl (MarshalTL) / rttl            *)
(*                (UnmarshalTL of those bytes), stree / sdec (the specification's   *)
(*                cell and what UnmarshalTLB reads from it), stl / sdectl (the      *)
(*                specification's TL bytes and what UnmarshalTL reads), emptytl     *)
(*   VmValue      v, mode (decode | direct), vctext, dec, text, is, i64, u64, i257, *)
(*                cell, cslice, rts (RecursiveToSlice), trs (VmTuple.RecursiveToSlice), bodydec*)
(*   VmUnmarshal  v, dest, vctext, dec, text, um (VmStackValue.Unmarshal),          *)
(*                tum (VmStkTuple.Unmarshal), stack / sum (VmStack.Unmarshal of the  *)
(*                tuple's entries as a result stack)                                *)
(*   VmStruct     s, tocell, toslice, backcell, backslice, backslice2, viastack     *)
(* An outcome is [res |-> "ok" | "err" | "panic" | "na", ...].  Anything else      *)
(* (a Panic record of the driver) has no action.                                   *)
EXTENDS VmStackApi, Boc, Json

TL == INSTANCE TlSem
Trace == ndJsonDeserialize("trace.ndjson")
N == Len(Trace)
VARIABLES l, v

Note(tag) == PrintT(<<"NOTE", l, tag>>) /\ FALSE
First(cs) == LET bad == {i \in 1..Len(cs) : ~cs[i][2]} IN
             bad = {} \/ Note(cs[CHOOSE i \in bad : \A j \in bad : i <= j][1])
Returned(o) == o.res \in {"ok", "err"}

\* TL bytes (hex) holding a bag of cells with exactly one root, which unfolds to the tree whose text is wtxt
BagHolds(hex, wtxt) ==
  LET b == HexToBytes(hex)
      d == TL!DecBytes(b, 0) IN
  /\ d.ok /\ d.p = Len(b)
  /\ LET pr == ParseLenient(HexToBytes(d.v)) IN pr.ok /\ Len(pr.roots) = 1 /\ TreeStr(pr.T, pr.roots[1]) = wtxt

AllOf(S, P(_)) == \A i \in 1..Len(S) : P(S[i])
ListOK(o, S)   == o.res = "ok" /\ o.list = Texts(ResList(S))

JudgeStack(e) ==
  LET S    == e.puts                                  \* the values in the order they were Put: bottom first
      wtxt == TreeText(EncStack(S))
      enc  == AllOf(S, Encodable)
      dec  == AllOf(S, Decodable) IN
  First(<< <<"input", e.stree = wtxt /\ BagHolds(e.stl, wtxt)>>,
           <<"Put", e.list = Texts(ArgList(S))>>,
           <<"MarshalTLB", IF e.enc = "ok" THEN e.tree = wtxt ELSE (~enc /\ e.enc = "err")>>,
           <<"UnmarshalTLB", (e.enc = "ok" /\ dec) => ListOK(e.rt, S)>>,
           <<"MarshalTL", IF e.mtl.res = "ok" THEN BagHolds(e.mtl.hex, wtxt) ELSE (~enc /\ e.mtl.res = "err")>>,
           <<"UnmarshalTL", (e.mtl.res = "ok" /\ dec) => ListOK(e.rttl, S)>>,
           <<"UnmarshalTLB", IF dec THEN ListOK(e.sdec, S) ELSE (e.sdec.res = "err" \/ ListOK(e.sdec, S))>>,
           <<"UnmarshalTL", IF dec THEN ListOK(e.sdectl, S) ELSE (e.sdectl.res = "err" \/ ListOK(e.sdectl, S))>>,
           <<"UnmarshalTL", e.emptytl.res = "ok" /\ Len(e.emptytl.list) = 0>> >>)

JudgeValue(e) ==
  LET x   == e.v
      f   == IsFlags(x)
      got == e.dec = "ok"
      tup == got /\ x.t = "tuple" IN
  First(<< <<"input", e.vctext = TreeText(ValueCell(x))>>,
           <<"UnmarshalTLB", IF got THEN e.text = Text(x) ELSE (~Decodable(x) /\ e.dec = "err")>>,
           <<"IsNull", got => FlagOK(f.null, e.is.nul)>>,
           <<"IsInt", got => FlagOK(f.int, e.is.int)>>,
           <<"IsCell", got => FlagOK(f.cell, e.is.cell)>>,
           <<"IsCellSlice", got => FlagOK(f.slice, e.is.slice)>>,
           <<"IsTuple", got => FlagOK(f.tuple, e.is.tuple)>>,
           <<"Int64", got => Int64OK(x, e.i64)>>,
           <<"Uint64", got => Uint64OK(x, e.u64)>>,
           <<"Int257", got => Int257OK(x, e.i257)>>,
           <<"Cell", got => CellOK(x, e.cell)>>,
           <<"CellSlice", got => CellSliceOK(x, e.cslice)>>,
           <<"VmStkTuple.RecursiveToSlice", tup => ToSliceOK(x, e.rts)>>,
           <<"VmTuple.RecursiveToSlice", (tup /\ e.trs.res # "na") => BodyToSliceOK(x, e.trs)>>,
           \* VmTuple is the body of a tuple, parametrised by its length: it has no codec of its own; asking for one must return
           <<"VmTuple.UnmarshalTLB", tup => Returned(e.bodydec)>> >>)

JudgeUnmarshal(e) ==
  IF e.v.t = "illformed"
    \* an ill-formed neighbour of a tuple: the decoder may refuse or read it (its totality is C08's business); whatever
    \* it returned is read into the destination, and that must return
    THEN First(<< <<"UnmarshalTLB", e.dec \in {"ok", "err"}>>,
                  <<"VmStkTuple.Unmarshal", e.dec = "ok" => (e.tum.res \in {"ok", "err", "na"})>>,
                  <<"VmStkTuple.RecursiveToSlice", e.dec = "ok" => (e.rts.res \in {"ok", "err", "na"})>>,
                  <<"VmStackValue.Unmarshal", e.dec = "ok" => Returned(e.um)>> >>)
  ELSE
  LET x    == e.v
      D    == Dest(e.dest)
      want == MapTo(D, x)
      got  == e.dec = "ok" IN
  First(<< <<"input", e.vctext = TreeText(ValueCell(x))>>,
           <<"UnmarshalTLB", IF got THEN e.text = Text(x) ELSE (~Decodable(x) /\ e.dec = "err")>>,
           \* the tuple's own reader takes the destination itself (a pointer to the struct / slice); pointer FIELDS are the caller's
           <<"VmStkTuple.Unmarshal", (got /\ x.t = "tuple") => MapOK(IF D.d = "ptr" THEN FreeO ELSE want, e.tum)>>,
           <<"VmStackValue.Unmarshal", got => MapOK(want, e.um)>>,
           <<"VmStack.Unmarshal", (got /\ e.stack) => MapOK(StackMapTo(D, x.es), e.sum)>> >>)

JudgeStruct(e) ==
  LET s   == e.s
      c   == StructCell(s)
      txt == StructText(s)
      vc  == StructAsCell(s)
      vs  == StructAsSlice(s)
      Back(o) == o.res = "ok" /\ o.text = txt IN
  First(<< <<"input", c.ok>>,
           <<"TlbStructToVmCell", e.tocell.res = "ok" /\ e.tocell.text = Text(vc)>>,
           <<"TlbStructToVmCellSlice", e.toslice.res = "ok" /\ e.toslice.text = Text(vs)>>,
           <<"VmStackValue.Unmarshal", Back(e.backcell)>>,
           <<"VmStackValue.Unmarshal", Back(e.backslice)>>,
           <<"UnmarshalToTlbStruct", Back(e.backslice2)>>,
           <<"MarshalTLB", e.viastack.res = "ok" /\ e.viastack.tree = TreeText(EncStack(<<vc, vs>>))>>,
           <<"UnmarshalTLB", e.viastack.res = "ok" => e.viastack.list = Texts(<<vc, vs>>)>>,
           <<"VmStackValue.Unmarshal", e.viastack.res = "ok" => e.viastack.back = <<txt, txt>> >> >>)

Judge(e) == CASE e.k = "VmStack"     -> JudgeStack(e)
              [] e.k = "VmValue"     -> JudgeValue(e)
              [] e.k = "VmUnmarshal" -> JudgeUnmarshal(e)
              [] e.k = "VmStruct"    -> JudgeStruct(e)
              [] OTHER -> FALSE

Init == l \in 1..N /\ v = "todo"
Next == /\ v = "todo" /\ l' = l
        /\ v' = (IF Judge(Trace[l]) THEN "ok" ELSE "bad")
        /\ PrintT(<<"EV", l, v'>>)
Spec == Init /\ [][Next]_<<l, v>>
=============================================================================
