------------------------- MODULE TokenTransfer_Trace -------------------------
(* C->S for X07.  Every line is one call of jetton.TransferMessage.ToInternal or *)
(* nft.ItemTransferMessage.ToInternal on the real code:                          *)
(*  {"k":"Xfer","kind":"jetton"|"nft","amount","fwdTon","attached":"decimal",     *)
(*   "dest","resp","to":"wc:hex"|"none","custom","fwd":[cell rows]|[],             *)
(*   "err","panic","mode":int,"msg":{"dest","value","bounce","init"},             *)
(*   "body":[cell rows]}                                                          *)
(* The body cell is read field by field against TEP-74 / TEP-62 (either form of  *)
(* forward_payload is accepted, query_id is free) and the envelope is checked.   *)
EXTENDS TokenTransfer, Json, TLC

Trace == ndJsonDeserialize("trace.ndjson")
N == Len(Trace)
VARIABLES l, v
Rows(x) == IF Len(x) = 0 THEN <<>> ELSE BocM!FromJson(x)

LastBit(e) == IF Len(e.body) = 0 THEN "" ELSE LET b == e.body[1].b IN IF StrLen(b) = 0 THEN "" ELSE SubStr(b, StrLen(b), StrLen(b))
JudgeXfer(e) ==
  LET t == [kind |-> e.kind, amount |-> e.amount, dest |-> e.dest, resp |-> e.resp, custom |-> Rows(e.custom), fwdTon |-> e.fwdTon,
            fwd |-> Rows(e.fwd), to |-> e.to, attached |-> e.attached]
      fits == FitsVarUInt16(e.fwdTon) /\ (e.kind = "jetton" => FitsVarUInt16(e.amount))
  IN /\ PrintT(<<"NOTE", l, e.kind, IF ~fits THEN "amount>=2^120" ELSE IF Len(DecToBits(e.fwdTon)) >= 64 THEN "forward-amount>=2^63" ELSE IF e.err # "" THEN "refused"
                                     ELSE IF LastBit(e) = "1" THEN "fwd-in-ref" ELSE "fwd-inline">>)
     /\ e.panic = ""
     /\ IF ~fits THEN e.err # ""                       \* an amount that does not fit VarUInteger 16 cannot be written
        ELSE /\ e.err = ""
             /\ Reads(BocM!FromJson(e.body), t)
             /\ Envelope(t, [dest |-> e.msg.dest, value |-> e.msg.value, bounce |-> e.msg.bounce, mode |-> e.mode])

Judge(e) == CASE e.k = "Xfer" -> JudgeXfer(e)
              [] OTHER -> FALSE
Init == l \in 1..N /\ v = "todo"
Next == /\ v = "todo" /\ l' = l
        /\ v' = (IF Judge(Trace[l]) THEN "ok" ELSE "bad")
        /\ PrintT(<<"EV", l, v'>>)
Spec == Init /\ [][Next]_<<l, v>>
=============================================================================
