----------------------------- MODULE Addr_Trace -----------------------------
(* C->S for C17: every recorded call of an address / shard conversion must be  *)
(* what Addr requires for its logged input: an encoder's output equals the     *)
(* specification's form, every parse-back is the identity, a parser's verdict  *)
(* on an arbitrary text agrees with the specification's decoder for it.        *)
(* trace.ndjson is a concatenation of segments, each opened by a Reset record; *)
(* every segment is its own initial state.  Register i (line of the Reset)     *)
(* holds the number of lines of that segment accepted so far.                  *)
(* The functions are pure, so the only state is the position in the file.      *)
EXTENDS Addr, Json, TLC, FiniteSets

Trace == ndJsonDeserialize("trace.ndjson")
N     == Len(Trace)
VARIABLES l, seg
tvars == <<l, seg>>

Starts == {i \in 1..N : Trace[i].k = "Reset"}
ASSUME \A i \in Starts : TLCSet(i, 0)

E == Trace[l]
Has(f) == f \in DOMAIN E
H(x) == HexToBytes(x)

\* a parser's result (err class, wc, hash) against a decoder verdict of the specification
Same(d, r)  == r.err = "" /\ r.wc = d.wc /\ H(r.hash) = d.hash
Judge(d, r) == CASE d.cls = "ok"   -> Same(d, r)
                 [] d.cls = "bad"  -> r.err # ""
                 [] d.cls = "free" -> r.err # "" \/ Same(d, r)
                 [] d.cls \in {"lax", "any"} -> TRUE      \* the statement does not decide these

\* ------------------------------------------------------------------ Enc
BackFns(i8) == {"raw:raw", "any:raw", "must:raw", "json:raw", "root:raw", "json:json", "tl:tl", "tlg:tl",
                "tl-one:tl", "tl-half:tl", "tl-dataerr:tl", "tl-bufio16:tl"}        \* TL bytes under every delivery
               \cup (IF i8 THEN {"b64:url", "any:url", "must:url", "json:url", "root:url",
                                 "b64:std", "any:std", "must:std", "json:std", "root:std", "tlb:tlb"} ELSE {})
TEnc ==
  /\ E.k = "Enc" /\ E.err = ""
  /\ DecSyntax(StrToCodes(E.wc)) = "canon" /\ InInt32(E.wc)            \* the recorder's own well-formedness
  /\ LET wc == E.wc  h == H(E.hash)  i8 == InInt8(E.wc) IN
     /\ Len(h) = 32
     /\ E.raw = RawText(wc, h) /\ E.str = E.raw
     /\ H(E.json) = StrToCodes(JsonText(wc, h))                        \* JSON text logged as hex bytes
     /\ E.tl = BytesToHex(TlBytes(wc, h))
     /\ i8 <=> Has("human")
     /\ i8 => /\ E.human = Friendly(wc, h, E.bounce, E.testnet, B64Url)
              /\ E.std = Friendly(wc, h, E.bounce, E.testnet, B64Std)
              /\ E.tlb = BitsToStr(TlbBits(NoAnycast, wc, h))
     \* every parse-back is the identity, and none was left out
     /\ {E.backs[i].fn : i \in 1..Len(E.backs)} = BackFns(i8)
     /\ \A i \in 1..Len(E.backs) : E.backs[i].err = "" /\ E.backs[i].wc = wc /\ E.backs[i].hash = E.hash

\* ---------------------------------------------------------------- Parse
DecoderOf(fn, s) == CASE fn = "raw"  -> RawDecode(s)
                      [] fn = "b64"  -> FriendlyDecode(s)
                      [] fn \in {"any", "must", "root"} -> ParseAny(s)
                      [] fn = "json" -> JsonDecode(s)
TParse == /\ E.k = "Parse" /\ E.fn \in {"raw", "b64", "any", "must", "root", "json"}
          /\ Judge(DecoderOf(E.fn, IF E.fn = "json" THEN CodesToStr(H(E.sx)) ELSE E.s), E)

\* two successive decodes from ONE stream holding E.bytes, delivered as E.rd says (cut after E.cuts for "split"):
\* the results are those of the byte sequence, whatever the delivery
TTlDec == /\ E.k = "TlDec" /\ Len(E.outs) = 2
          /\ LET by == H(E.bytes)  r == TlStreamDecode(by, 2) IN
             /\ E.rd = "split" => FlattenSeq(Chunks(by, E.cuts)) = by
             /\ \A i \in 1..2 : Judge(r[i], E.outs[i])

\* ----------------------------------------------------------------- TL-B
TTlbEnc == /\ E.k = "TlbEnc" /\ E.err = ""
           /\ E.d \in 0..30 /\ StrLen(E.pfx) = E.d /\ InInt8(E.wc8)
           /\ E.bits = BitsToStr(TlbBits([d |-> E.d, p |-> StrToBits(E.pfx)], E.wc8, H(E.addr)))
TTlbDec == /\ E.k = "TlbDec"
           /\ LET r == TlbDecode(StrToBits(E.bits)) IN
              CASE r.cls = "ok"  -> /\ Same(r, E)
                                    /\ E.d = r.d /\ E.pfx = BitsToStr(r.p) /\ E.wc8 = r.wc8 /\ H(E.addr) = r.addr
                [] OTHER         -> TRUE                                \* lax / any

\* --------------------------------------------------------------- shards
IsId(s) == StrLen(s) = 64
TShard == /\ E.k = "Shard" /\ IsId(E.id)
          /\ LET id == StrToBits(E.id) IN
             IF ShardValid(id) THEN E.err = "" /\ E.enc = E.id ELSE E.err # ""
TMatch == /\ E.k = "Match" /\ IsId(E.id) /\ ShardValid(StrToBits(E.id))
          /\ E.out = Matches(StrToBits(E.id), H(E.hash))
TMatchBlk == /\ E.k = "MatchBlk" /\ IsId(E.id) /\ IsId(E.blk) /\ ShardValid(StrToBits(E.id))
             /\ E.out = (ShardValid(StrToBits(E.blk)) /\ Intersects(StrToBits(E.id), StrToBits(E.blk)))
\* ton.GetParents of a block whose ShardIdent is (n, ident): the previous block's shard(s)
IdentOK == E.n \in 0..60 /\ IsId(E.ident) /\ AllZero(SubSeq(StrToBits(E.ident), E.n + 1, 64))
TParents == /\ E.k = "Parents" /\ IdentOK /\ E.err = ""
            /\ LET id == IdentShard(E.n, StrToBits(E.ident))  out == [i \in 1..Len(E.out) |-> StrToBits(E.out[i])] IN
               CASE E.mode = "same"  -> out = <<id>>
                 [] E.mode = "split" -> E.n >= 1 /\ out = <<Parent(id)>>
                 [] E.mode = "merge" -> out = <<Child(id, TRUE), Child(id, FALSE)>>
\* in-package: convertShardIdent, shardChild, shardParent called directly
TIdent == E.k = "Ident" /\ IdentOK /\ StrToBits(E.out) = IdentShard(E.n, StrToBits(E.ident))
TFamily == /\ E.k = "Family" /\ IsId(E.id) /\ ShardValid(StrToBits(E.id))
           /\ LET id == StrToBits(E.id)  n == Len(ShardPrefix(id)) IN
              /\ n <= 60
              /\ StrToBits(E.l) = Child(id, TRUE) /\ StrToBits(E.r) = Child(id, FALSE)
              /\ E.pl = E.id /\ E.pr = E.id                                  \* Parent(Child(s, b)) = s
              /\ n >= 1 => /\ StrToBits(E.par) = Parent(id)
                           /\ (IF ShardPrefix(id)[n] = 0 THEN E.cp0 ELSE E.cp1) = E.id   \* Child(Parent(s), last bit) = s

\* ----------------------------------------------------------------- ADNL
TAdnl == /\ E.k = "Adnl" /\ E.err = ""
         /\ E.text = AdnlText(H(E.addr)) /\ E.back = E.addr
TAdnlParse == /\ E.k = "AdnlParse"
              /\ LET r == AdnlDecode(E.s) IN r.cls = "ok" => E.err = "" /\ H(E.addr) = r.addr   \* other texts: not quantified over

\* --------------------------------------------------------------- driver
Consume == /\ l' = l + 1 /\ seg' = seg
           /\ TLCSet(seg, l + 1 - seg)
TraceInit == l \in Starts /\ seg = l
TReset == E.k = "Reset" /\ l = seg
TraceNext == /\ l <= N
             /\ (l # seg => Trace[l].k # "Reset")      \* a segment ends at the next Reset
             /\ (TReset \/ TEnc \/ TParse \/ TTlDec \/ TTlbEnc \/ TTlbDec \/ TShard \/ TMatch \/ TMatchBlk
                 \/ TParents \/ TIdent \/ TFamily \/ TAdnl \/ TAdnlParse)
             /\ Consume
TraceSpec == TraceInit /\ [][TraceNext]_tvars
TypeOK == l \in 1..(N + 1) /\ seg \in Starts
Report == \A i \in Starts : PrintT(<<"SEG", i, TLCGet(i)>>)
=============================================================================
