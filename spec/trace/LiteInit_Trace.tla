--------------------------- MODULE LiteInit_Trace ---------------------------
(* C->S for X03 (B).  Every line of trace.ndjson is one execution of the real  *)
(* liteapi.NewClient over a list of scripted servers: the configuration, did   *)
(* the call return / with an error / after how many ms, the pool status at     *)
(* return and after every attempt has ended (server indices in the order the   *)
(* pool reports them), what GetMasterchainInfo / GetTime through the client    *)
(* did, the CPU the process burnt afterwards, and what each server saw         *)
(* (connections accepted, handshakes, getMasterchainInfo queries, connections  *)
(* the client still holds open).  Each line is judged on its own against the   *)
(* relation of LiteInit; the verdict is "ok" or "bad:" + the violated clauses  *)
(* (clause/detail, the detail naming the class of input the clause failed on). *)
EXTENDS LiteInit, Prim, Json, TLC

Trace == ndJsonDeserialize("trace.ndjson")
NLines == Len(Trace)
VARIABLES l, v

Plus1(p) == [i \in 1..Len(p) |-> p[i] + 1]          \* the harness counts servers from 0
BusyLimit == 12                                      \* percent of one core; an idle process uses well under 5

Clauses(e) ==
  LET cfg   == [servers |-> e.vec.servers, maxc |-> e.vec.maxc, sync |-> e.vec.sync, t |-> e.vec.t, ctx |-> e.vec.ctx]
      n     == Len(cfg.servers)
      cls(i) == cfg.servers[i].c
      has(c) == \E i \in 1..n : cls(i) = c
      ret   == e.res.ret /\ e.res.panic = ""
      err   == e.res.err
      haveClient == ret /\ ~e.res.nilc
      pool  == Plus1(e.pool)
      pool0 == Plus1(e.pool0)
      inPool(i) == \E k \in 1..Len(pool) : pool[k] = i
      wantOpen(i) == IF haveClient /\ inPool(i) THEN 1 ELSE 0
      leaking == {i \in 1..n : e.srv[i].open # wantOpen(i)}
      \* surplus: a usable server that is not in the pool; pending: an attempt nothing ever ends; failed: an attempt that failed
      leakKind(i) == IF i \in Yes(cfg) \cup Maybe(cfg) THEN "surplus" ELSE IF cls(i) = "blackhole" THEN "pending" ELSE "failed"
      ctxs  == IF cfg.ctx > 0 THEN "+ctx" ELSE ""
      c(name, holds) == IF holds THEN <<>> ELSE <<name>>
  IN   c(StrCat("returns/", StrCat(IF has("blackhole") THEN "blackhole" ELSE "other", ctxs)), ret)
    \o c("empty-list", cfg.servers = <<>> /\ ret => err /\ e.res.nilc)
    \o c(StrCat("result/", IF cfg.sync THEN "sync" ELSE "async"), ret => ResultOK(cfg, err) /\ (err <=> e.res.nilc))
    \o c("elapsed", ret => ElapsedOK(cfg, e.res.ms))
    \o c("pool", haveClient => /\ PoolOK(cfg, pool)
                               /\ \A k \in 1..Len(e.connected) : e.connected[k]
                               /\ Len(e.connected) = Len(pool))
    \o c("early-pool", (haveClient /\ cfg.sync) => EarlyPoolOK(cfg, pool0))
    \o c("served", haveClient => \A k \in 1..Len(pool) : pool[k] \in 1..n /\ e.srv[pool[k]].mc >= 1)
    \o c("leak/surplus", ret => \A i \in leaking : leakKind(i) # "surplus")
    \o c("leak/failed",  ret => \A i \in leaking : leakKind(i) # "failed")
    \o c("leak/pending", ret => \A i \in leaking : leakKind(i) # "pending")
    \o c(StrCat("idle/", IF cfg.ctx > 0 THEN "ctx" ELSE "noctx"), e.busy < BusyLimit)
    \o c(StrCat("probe/", IF e.pool = <<>> THEN "empty-pool" ELSE "pool"),
         haveClient => IF pool = <<>> THEN e.probe.mc = "err" /\ e.probe.tm = "err"
                       ELSE /\ e.probe.mc = "ok" /\ inPool(e.probe.seq - 100 + 1)
                            /\ e.probe.tm = "ok" /\ inPool(e.probe.now - 100 + 1))
    \o c("harness", /\ Len(e.srv) = n
                    /\ \A i \in 1..n : /\ (~Reachable(cls(i)) => e.srv[i].mc = 0 /\ e.srv[i].hs = 0)
                                       /\ (cls(i) = "dead" => e.srv[i].conns = 0))

RECURSIVE Join(_)
Join(ss) == IF Len(ss) = 0 THEN "" ELSE IF Len(ss) = 1 THEN ss[1] ELSE StrCat(StrCat(ss[1], ","), Join(Tail(ss)))
Verdict(e) ==
  IF e.k # "Init" \/ "infra" \in DOMAIN e THEN "bad:not-a-record"
  ELSE LET bad == Clauses(e) IN IF bad = <<>> THEN "ok" ELSE StrCat("bad:", Join(bad))

Init == l \in 1..NLines /\ v = "todo"
Next == /\ v = "todo" /\ l' = l
        /\ v' = Verdict(Trace[l])
        /\ PrintT(<<"EV", l, v'>>)
Spec == Init /\ [][Next]_<<l, v>>
=============================================================================
