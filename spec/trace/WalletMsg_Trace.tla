--------------------------- MODULE WalletMsg_Trace ---------------------------
(* C->S judgement of recorded wallet message constructions (C14).  Every line  *)
(* of trace.ndjson is judged on its own (same pattern as Cells_Trace): Init     *)
(* picks a line, the single step evaluates WalletMsg's operators on what the    *)
(* real code produced and compares with the request that is part of the event. *)
(* A rejected line prints <<"NOTE", l, "clauses", "a,b">> naming every failed   *)
(* clause, so that the runner can key a violation by input class and clause.    *)
(*                                                                             *)
(* Message order.  The statement's "decoding returns the requested messages in  *)
(* the same order" is decided on the library's decoders (clauses lib:decode /   *)
(* lib:extract: exactly the requested order).  The independently extracted      *)
(* list must carry the same (mode, message) pairs in the requested order; for   *)
(* wallet v5 the block.tlb OutList order may also be the exact reverse of the    *)
(* request (the library lists the outermost action first, and the repository's  *)
(* tests fix that listing) - this is recorded as an observation                 *)
(* <<"NOTE", l, "v5-outlist-reversed", n>>, never as a rejection.  Any other     *)
(* permutation, or a mode detached from its message, is rejected everywhere.    *)
(*                                                                             *)
(* Event kinds                                                                 *)
(*  Body    Wallet.CreateMessageBody(seqno, valid_until, sendables..): the      *)
(*          returned body cell table; request = message *fields*                *)
(*  Send    Wallet.RawSend(seqno, valid_until, raw messages, init) with a       *)
(*          recording blockchain: the payload bytes handed to SendMessage, the  *)
(*          library's own VerifySignature / Decode* / ExtractRawMessages view   *)
(*          of that payload; request = raw message cells + modes. Also used     *)
(*          for the TLC-generated cases (field exp = required outcome).         *)
(*  Flips   one-bit changes of a signed body with the library's verdict         *)
(*  Fixture a captured real wallet message from the repository's tests          *)
EXTENDS WalletMsg, Boc, Json

Trace == ndJsonDeserialize("trace.ndjson")
N == Len(Trace)
VARIABLES l, v
Hex(h) == BytesToHex(h)
Has(e, f) == f \in DOMAIN e

Table(js) == IF Len(js.cells) = 0 THEN <<>> ELSE FromJson(js.cells)
Failed(cs) == {i \in 1..Len(cs) : ~cs[i][2]}
Names(cs) == FoldLeft(LAMBDA a, i : IF cs[i][2] THEN a ELSE IF a = "" THEN cs[i][1] ELSE StrCat(StrCat(a, ","), cs[i][1]), "", [i \in 1..Len(cs) |-> i])
Verdict(cs) == Failed(cs) = {} \/ (PrintT(<<"NOTE", l, "clauses", Names(cs)>>) /\ FALSE)

KeysOK(e) == /\ HexToBytes(e.pk)  = EdPubFromSeed(HexToBytes(e.seed))      \* the public key, derived independently
             /\ HexToBytes(e.pk2) = EdPubFromSeed(HexToBytes(e.seed2))
             /\ e.pk # e.pk2

\* requested extended actions (wallet v5r1, events built through CreateSignedMsgBodyCell) in the shape Extract returns
XAct(x) == IF x.kind = "sigauth" THEN [kind |-> "sigauth", wc |-> <<>>, addr |-> <<>>, allowed |-> IF x.allowed THEN 1 ELSE 0]
           ELSE [kind |-> x.kind, wc |-> SDec(ToString(x.wc), 8), addr |-> HexBits(x.addr), allowed |-> 0]
XActs(xs) == [i \in 1..Len(xs) |-> XAct(xs[i])]
XReq(e) == IF Has(e, "xreq") THEN XActs(e.xreq) ELSE <<>>
MsgTypeOf(e) == IF Has(e, "mt") THEN e.mt ELSE "ext"

\* --------------------------------------------------- requested message vs message found
\* request by fields (Body events); RT / RI = table and infos of the cells mentioned by the request (0-based rows)
FieldsMatch(T, I, m, rq, RT, RI) ==
  LET im == IntMessage(T, m.c) IN
  /\ im.ok
  /\ (rq.kind # "deploy" => m.mode = rq.mode /\ im.bounce = rq.bounce)
  /\ im.wc = SDec(ToString(rq.wc), 8)
  /\ (IF rq.kind = "deploy" THEN im.addr = BytesToBits(PlainStateInitHash(RI[rq.code + 1], RI[rq.data + 1]))
                            ELSE im.addr = HexBits(rq.addr))
  /\ im.amount = WB!Mag(rq.amount)
  /\ ~im.extra
  /\ (IF rq.code >= 0
        THEN /\ im.init.present /\ im.init.plain /\ im.init.hasCode /\ im.init.hasData
             /\ ReprHash(I[im.init.code]) = ReprHash(RI[rq.code + 1])
             /\ ReprHash(I[im.init.data]) = ReprHash(RI[rq.data + 1])
        ELSE ~im.init.present)
  /\ (CASE rq.comment # "" -> LET cm == CommentOf(T, im.body) IN cm.ok /\ cm.text = HexToBytes(rq.comment)
        [] rq.body >= 0    -> SliceHash(T, I, im.body) = ReprHash(RI[rq.body + 1])
        [] OTHER           -> EmptySlice(im.body))
\* request by cell (Send events)
RawMatch(I, m, mode, row, RI) == m.mode = mode /\ ReprHash(I[m.c]) = ReprHash(RI[row + 1])

\* --------------------------------------------------------------------- Body
BodyChecks(e) ==
  IF e.n > MaxMsgs(e.ver) THEN << <<"quantifier", FALSE>> >>           \* CreateMessageBody is not a send: never recorded beyond the limit
  ELSE IF e.err # "" THEN << <<"built", FALSE>> >>
  ELSE
  LET ver == e.ver
      T  == Table(e.body)
      I  == InfoTable(T)
      sl == SliceOf(T, 1)
      ex == Extract(ver, T, sl)
      RT == Table(e.rc)
      RI == InfoTable(RT)
      n  == Len(e.req)
      straight == ex.ok /\ Len(ex.msgs) = n /\ \A i \in 1..n : FieldsMatch(T, I, ex.msgs[i], e.req[i], RT, RI)
      reversed == ex.ok /\ Len(ex.msgs) = n /\ \A i \in 1..n : FieldsMatch(T, I, ex.msgs[i], e.req[n + 1 - i], RT, RI)
      opw == IF e.mt = "int" THEN OpSignedInternal ELSE OpSignedExternal
      \* the specification's two formulations agree (BodyLayoutOK / SignedPart on the whole table vs the clause-wise reading)
      prm == [wid |-> WalletIdBits(ver, e.opts), vu |-> e.vu, seqno |-> e.seqno, op |-> opw, msgs |-> IF ex.ok THEN MsgsOf(I, ex) ELSE <<>>,
              ext |-> XReq(e)]
      clausewise == /\ ex.ok /\ ex.wid = prm.wid /\ ex.vu = UDec(e.vu, 32)
                    /\ (Family(ver) # "highload" => ex.seqno = UDec(e.seqno, 32)) /\ (IsV5(ver) => ex.op = opw)
                    /\ Len(ex.msgs) <= MaxMsgs(ver) /\ ex.ext = XReq(e)
      self == (Len(T) <= 80 /\ HasSignature(sl)) =>
                 /\ ReprHash(InfoTable(SignedPart(ver, T))[1]) = SignedHash(ver, T, I, sl)
                 /\ BodyLayoutOK(ver, T, prm) = clausewise
  IN << <<"key",      KeysOK(e)>>,
        <<"spec:self", self>>,
        <<"extract",  ex.ok>>,
        <<"wid",      ex.ok => ex.wid = WalletIdBits(ver, e.opts)>>,
        <<"expiry",   ex.ok => ex.vu = UDec(e.vu, 32)>>,
        <<"seqno",    (ex.ok /\ Family(ver) # "highload") => ex.seqno = UDec(e.seqno, 32)>>,
        <<"op",       (ex.ok /\ IsV5(ver)) => ex.op = opw>>,
        <<"xact",     ex.ok => ex.ext = XReq(e)>>,
        <<"msgs",     ex.ok => (straight \/ reversed)>>,
        <<"order",    ex.ok => (straight \/ ~reversed \/ (IsV5(ver) /\ PrintT(<<"NOTE", l, "v5-outlist-reversed", n>>)))>>,
        <<"verify",   Verifies(ver, T, I, sl, HexToBytes(e.pk))>>,
        <<"otherkey", ~Verifies(ver, T, I, sl, HexToBytes(e.pk2))>> >>

\* --------------------------------------------------------------------- Send
\* Wallet.Send chooses the expiry itself (now + message lifetime): the event then carries the window [vu, vu_hi] the harness
\* measured around the call instead of one requested value
BitsLeq(a, b) == a = b \/ \E i \in 1..Len(a) : a[i] < b[i] /\ SubSeq(a, 1, i - 1) = SubSeq(b, 1, i - 1)
ExpiryOK(e, bits) == IF Has(e, "vu_hi") THEN BitsLeq(UDec(e.vu, 32), bits) /\ BitsLeq(bits, UDec(e.vu_hi, 32)) ELSE bits = UDec(e.vu, 32)
\* (mode, hash) pairs of messages the library returned as rows of the harness's table of the payload; a cell that is not
\* part of the payload (row -1) has no hash
Pairs(md, rw, EI) == [i \in 1..Len(md) |-> <<md[i], IF i <= Len(rw) /\ rw[i] >= 0 /\ rw[i] < Len(EI) THEN ReprHash(EI[rw[i] + 1]) ELSE <<>> >>]
SeqOK(sq, EI, want) == \A i \in 1..Len(sq) : /\ sq[i].res = "ok"
                                              /\ (sq[i].op # "verify" => Pairs(sq[i].modes, sq[i].rows, EI) = want)
LibWid(ver, w) == IF Family(ver) = "v5beta" THEN HexBits(w) ELSE UDec(w, 32)
SendChecks(e) ==
  LET ver == e.ver
      expOK == (Has(e, "exp") /\ e.exp # "") => ((e.exp = "ok") <=> (e.n <= MaxMsgs(ver)))
  IN
  IF e.n > MaxMsgs(ver) THEN << <<"exp", expOK>>, <<"refused", e.err # "" /\ e.sent = 0>> >>
  ELSE IF e.err # "" \/ e.sent # 1 THEN << <<"exp", expOK>>, <<"sent", FALSE>> >>
  ELSE
  LET P == Parse(HexToBytes(e.boc)) IN
  IF ~P.ok \/ Len(P.roots) # 1 THEN << <<"boc", FALSE>> >>
  ELSE
  LET T  == P.T
      rt == P.roots[1]
      I  == InfoTable(T)
      X  == ExtMessage(T, rt)
  IN IF ~X.ok THEN << <<"ext", FALSE>> >>
  ELSE
  LET sl == X.body
      ex == Extract(ver, T, sl)
      RT == Table(e.rc)
      RI == InfoTable(RT)
      n  == Len(e.modes)
      straight == ex.ok /\ Len(ex.msgs) = n /\ \A i \in 1..n : RawMatch(I, ex.msgs[i], e.modes[i], e.rows[i], RI)
      reversed == ex.ok /\ Len(ex.msgs) = n /\ \A i \in 1..n : RawMatch(I, ex.msgs[i], e.modes[n + 1 - i], e.rows[n + 1 - i], RI)
      ET == Table(e.ext)
      EI == InfoTable(ET)
      lb == e.lib
      want == [i \in 1..n |-> <<e.modes[i], ReprHash(RI[e.rows[i] + 1])>>]
      v5 == IsV5(ver)
  IN << <<"exp",      expOK>>,
        <<"key",      KeysOK(e)>>,
        <<"ext",      /\ X.srcNone /\ X.wc = SDec(ToString(e.addr.wc), 8) /\ X.addr = HexBits(e.addr.hash)
                      /\ (X.init.present <=> e.withinit)>>,
        <<"extract",  ex.ok>>,
        <<"wid",      ex.ok => ex.wid = WalletIdBits(ver, e.opts)>>,
        <<"expiry",   ex.ok => ExpiryOK(e, ex.vu)>>,
        <<"seqno",    (ex.ok /\ Family(ver) # "highload") => ex.seqno = UDec(e.seqno, 32)>>,
        <<"op",       (ex.ok /\ v5) => ex.op = (IF MsgTypeOf(e) = "int" THEN OpSignedInternal ELSE OpSignedExternal)>>,
        <<"xact",     ex.ok => ex.ext = XReq(e)>>,
        <<"msgs",     ex.ok => (straight \/ reversed)>>,
        <<"order",    ex.ok => (straight \/ ~reversed \/ (IsV5(ver) /\ PrintT(<<"NOTE", l, "v5-outlist-reversed", n>>)))>>,
        <<"verify",   Verifies(ver, T, I, sl, HexToBytes(e.pk))>>,
        <<"otherkey", ~Verifies(ver, T, I, sl, HexToBytes(e.pk2))>>,
        \* ---- the library's own view of the payload it sent
        <<"lib:table",    Len(ET) > 0 /\ ReprHash(EI[1]) = ReprHash(I[rt])>>,
        <<"lib:verify",   /\ (ver # "V5Beta" => lb.verify = "ok")          \* VerifySignature has no V5Beta branch: left free, see NOTE
                          /\ (v5 => lb.v5verify = "ok")
                          /\ (ver = "V5Beta" /\ lb.verify # "ok" => PrintT(<<"NOTE", l, "v5beta-verifysignature", lb.verify>>))>>,
        <<"lib:otherkey", lb.verify2 # "ok" /\ (v5 => lb.v5verify2 # "ok")>>,
        <<"lib:decode",   /\ lb.dec = "ok"
                          /\ LibWid(ver, lb.wid) = WalletIdBits(ver, e.opts)
                          /\ (IF Family(ver) = "highload" THEN ExpiryOK(e, SubSeq(UDec(lb.qid, 64), 1, 32))
                                                          ELSE ExpiryOK(e, UDec(lb.vu, 32)) /\ lb.seqno = e.seqno)
                          /\ (ex.ok => (IF Family(ver) = "highload" THEN SubSeq(UDec(lb.qid, 64), 1, 32) ELSE UDec(lb.vu, 32)) = ex.vu)
                          /\ (v5 => lb.st = (IF MsgTypeOf(e) = "int" THEN "SignedInternal" ELSE "SignedExternal"))
                          /\ (Has(lb, "xacts") => XActs(lb.xacts) = XReq(e))
                          /\ Len(lb.modes) = n /\ Len(lb.mrows) = n
                          /\ Pairs(lb.modes, lb.mrows, EI) = want>>,
        <<"lib:extract",  /\ lb.xerr = "" /\ Len(lb.xmodes) = n /\ Len(lb.xrows) = n
                          /\ Pairs(lb.xmodes, lb.xrows, EI) = want>>,
        \* the same operations as sequences on ONE cell object, in both orders (verify, extract, decode, verify, extract / decode,
        \* extract, verify, decode, verify): every position must succeed and return the request, as on a fresh cell
        <<"lib:seq",      Has(lb, "seq1") => (SeqOK(lb.seq1, EI, want) /\ SeqOK(lb.seq2, EI, want))>> >>

\* -------------------------------------------------------------------- Flips
\* {"k":"Flips","ver","pk","body":{cells},"orig":"ok","flips":[{"c":row,"bit":j,"lib":"rej|ok|panic","h":hex}]}
\* The specification flips the bit itself, re-hashes, decides with EdVerify that the changed body no longer verifies,
\* and requires the library to have rejected it. "h" (library hash of the changed body) only ties the harness's
\* flip to the specification's: a mismatch is a harness fault (NOTE harness), never a verdict.
FlipsChecks(e) ==
  LET ver == e.ver
      T   == Table(e.body)
      I   == InfoTable(T)
      pub == HexToBytes(e.pk)
      Bad(f) == LET idx == f.c + 1
                    T2 == FlipBit(T, idx, f.bit)
                    I2 == ReInfo(T2, I, idx)
                IN IF Hex(ReprHash(I2[1])) # f.h THEN "harness"
                   ELSE IF Verifies(ver, T2, I2, SliceOf(T2, 1), pub) THEN "flip:still-verifies"
                   ELSE IF f.lib # "rej" THEN "flip:lib-accepts"
                   ELSE ""
      res == [i \in 1..Len(e.flips) |-> Bad(e.flips[i])]
      bad == {i \in 1..Len(res) : res[i] # ""}
      first == CHOOSE i \in bad : \A j \in bad : i <= j
  IN << <<"flip:base", Verifies(ver, T, I, SliceOf(T, 1), pub) /\ e.orig = "ok">>,
        <<"harness",           \A i \in bad : res[i] # "harness">>,
        <<"flip:still-verifies", \A i \in bad : res[i] # "flip:still-verifies">>,
        <<"flip:lib-accepts",  bad = {} \/ (\A i \in bad : res[i] # "flip:lib-accepts")
                               \/ (PrintT(<<"NOTE", l, "flip", e.flips[first].c, e.flips[first].bit>>) /\ FALSE)>> >>

\* ------------------------------------------------------------------ Fixture
\* a captured message: the specification must be able to read it (cross-check of the transcription against real data)
FixtureChecks(e) ==
  LET P == Parse(HexToBytes(e.boc)) IN
  IF ~P.ok \/ Len(P.roots) # 1 THEN << <<"fixture:boc", FALSE>> >>
  ELSE LET T == P.T  I == InfoTable(T)  X == ExtMessage(T, P.roots[1]) IN
  IF ~X.ok THEN << <<"fixture:ext", FALSE>> >>
  ELSE LET vs == IF e.ver = "" THEN {"V5Beta", "V5R1"} ELSE {e.ver} IN
       << <<"fixture:layout", \E ver \in vs : Extract(ver, T, X.body).ok>>,
          <<"fixture:verify", e.pk # "" => \E ver \in vs : Verifies(ver, T, I, X.body, HexToBytes(e.pk))>>,
          <<"fixture:otherkey", (e.pk # "" /\ e.pk2 # "") => \A ver \in vs : ~Verifies(ver, T, I, X.body, HexToBytes(e.pk2))>> >>

Judge(e) == CASE e.k = "Body"    -> Verdict(BodyChecks(e))
              [] e.k = "Send"    -> Verdict(SendChecks(e))
              [] e.k = "Flips"   -> Verdict(FlipsChecks(e))
              [] e.k = "Fixture" -> Verdict(FixtureChecks(e))
              [] OTHER -> FALSE                      \* Panic and unknown kinds: no action

Init == l \in 1..N /\ v = "todo"
Next == /\ v = "todo" /\ l' = l
        /\ v' = (IF Judge(Trace[l]) THEN "ok" ELSE "bad")
        /\ PrintT(<<"EV", l, v'>>)
Spec == Init /\ [][Next]_<<l, v>>
=============================================================================
