SPECIFICATION TraceSpec
POSTCONDITION Report
CHECK_DEADLOCK FALSE
