--------------------------- MODULE TonConnect_Trace ---------------------------
(* C->S for C19.  Every line of trace.ndjson is one run of the real code with  *)
(* all of its inputs; it is judged on its own (pattern of Cells_Trace).        *)
(*   Check   Server.CheckProof: the facts are recomputed from the recorded      *)
(*           BYTES -- the message hash of the TON Connect layout, EdVerify of   *)
(*           the signature under the key the chain view / the state-init names, *)
(*           the state-init hash with Cells over the bag parsed by Boc, the     *)
(*           payload MAC with HmacSha256, the ages against the lifetimes --     *)
(*           never from the harness's label; TonConnect!Decide gives the        *)
(*           verdict and the recorded (ok, key, err, panic) must match it.      *)
(*   Payload Server.CheckPayload on a crafted text.                             *)
(*   Issued  Server.GeneratePayload, then CheckPayload after real waiting.      *)
(* The derived facts and verdict are printed as NOTE so that the runner can     *)
(* hold them against the decision-table row the case was generated from.        *)
EXTENDS TonConnect, Json

Trace == ndJsonDeserialize("trace.ndjson")
N == Len(Trace)
VARIABLES l, v
Has(e, f) == f \in DOMAIN e

Inputs(e) ==
  [secret |-> HexToBytes(e.secret), lp |-> e.lp, lpr |-> e.lpr, want_domain |-> HexToBytes(e.want_domain), now |-> e.now,
   address |-> HexToBytes(e.address), domain |-> HexToBytes(e.domain), ts |-> e.ts, sig |-> HexToBytes(e.sig),
   payload |-> HexToBytes(e.payload), state_init |-> HexToBytes(e.state_init),
   chain |-> [i \in 1..Len(e.chain) |-> [wc |-> e.chain[i].wc, addr |-> HexToBytes(e.chain[i].addr), mode |-> e.chain[i].mode,
                                         key |-> HexToBytes(e.chain[i].key)]]]

\* "yields that wallet's public key": the key the harness calls the owner's is the public key of the owner's seed
\* (evaluated where the code accepted: a scalar multiplication in BigInteger arithmetic is the dearest step of a judgement)
OwnerOK(e) == (Has(e, "owner_seed") /\ e.go.ok) => BytesToHex(EdPubFromSeed(HexToBytes(e.owner_seed))) = e.owner_pub

JudgeCheck(e) ==
  LET f == Facts(Inputs(e))
      d == Decide(f)
      own == OwnerOK(e)
  IN /\ PrintT(<<"NOTE", l, ToJson([kind |-> "check", v |-> d.v, key |-> d.key, f |-> f, owner |-> own])>>)
     /\ own
     /\ Matches(e.go, d)
     /\ (Has(e, "ps") => e.ps.panic = "")        \* ParseStateInit on the same text: whatever it answers, it does not crash

Result(g, want) == /\ g.panic = ""
                   /\ \/ want \in {"accept", "free"} /\ g.ok /\ g.err = ""
                      \/ want \in {"reject", "free"} /\ ~g.ok /\ g.err # ""
JudgePayload(e) ==
  LET d == PayloadVerdict(HexToBytes(e.secret), e.lp, Dec31(StrToCodes(e.now)), HexToBytes(e.payload))
  IN PrintT(<<"NOTE", l, ToJson([kind |-> "payload", v |-> d, pad |-> "................................................................"])>>) /\ Result(e.go, d)
JudgeIssued(e) ==
  LET d == IssuedVerdict(HexToBytes(e.secret), e.lp, Dec31(StrToCodes(e.issued)), Dec31(StrToCodes(e.now)), HexToBytes(e.payload))
  IN PrintT(<<"NOTE", l, ToJson([kind |-> "issued", v |-> d, pad |-> "................................................................"])>>)
     /\ e.gen_err = "" /\ d # "malformed" /\ Result(e.go, d)

\* {"k":"Tampered","orig":hex text of a payload GeneratePayload returned,"payload":hex text of the altered copy, "go":..}
JudgeTampered(e) ==
  LET d == TamperedVerdict(HexToBytes(e.orig), HexToBytes(e.payload))
  IN PrintT(<<"NOTE", l, ToJson([kind |-> "tampered", v |-> d, pad |-> "................................................................"])>>) /\ Result(e.go, d)

Judge(e) == CASE e.k = "Check"   -> JudgeCheck(e)
              [] e.k = "Tampered" -> JudgeTampered(e)
              [] e.k = "Payload" -> JudgePayload(e)
              [] e.k = "Issued"  -> JudgeIssued(e)
              [] OTHER -> FALSE          \* Panic, Crash, unknown kinds: no action

Init == l \in 1..N /\ v = "todo"
Next == /\ v = "todo" /\ l' = l
        /\ v' = (IF Judge(Trace[l]) THEN "ok" ELSE "bad")
        /\ PrintT(<<"EV", l, v'>>)
Spec == Init /\ [][Next]_<<l, v>>
=============================================================================
