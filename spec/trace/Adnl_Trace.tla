----------------------------- MODULE Adnl_Trace -----------------------------
(* C->S: recorded connections between the real client (liteclient.NewConnection*)
(* / Send / Responses) and the harness's reference server.  The log carries the *)
(* server's key seed, the raw bytes as they arrived in each direction, and what *)
(* the two APIs were asked to send / handed out.  TLC decrypts and verifies the *)
(* bytes itself: it recovers the session from the handshake with the server key,*)
(* runs the receivers of Adnl over the arriving ciphertext with their continuing*)
(* key streams, and accepts                                                     *)
(*    Dlv   only if the spec's receiver delivers exactly that payload now,      *)
(*    Dead  only if the spec's receiver gives up now,                           *)
(*    HsDlv only with the verdict the spec reaches on the 256 bytes,            *)
(*    Absorb only for a packet the connection may keep for itself (12-byte pong),*)
(*    Recheck only if a packet handed out earlier still holds its payload,      *)
(*    Quiesce only if nothing deliverable is left undelivered,                  *)
(* and every step only if the invariants of Adnl hold afterwards.  The same run *)
(* certifies that the reference server is a conforming peer (its frames decode  *)
(* to what it was asked to send, it accepts/rejects as the spec does).          *)
(* trace.ndjson is a concatenation of segments (one per connection) each        *)
(* starting with a Reset event; register i = lines accepted of segment i.       *)
EXTENDS Adnl, Json, TLC

Trace == ndJsonDeserialize("trace.ndjson")
N     == Len(Trace)
VARIABLES l, seg,         \* next line to consume; line of this segment's Reset
          hsdmg           \* a logged fault touched the 256 handshake bytes (only then may the server reject them)
tvars == <<hs, cp, sp, wire, buf, txoff, rxoff, sent, delivered, dead, eof, got, units, hit, l, seg, hsdmg>>

Starts == {i \in 1..N : Trace[i].k = "Reset"}
ASSUME \A i \in Starts : TLCSet(i, 0)

E    == Trace[l]
Seed == HexToBytes(Trace[seg].seed)
\* wire[d] is the shadow of the bytes in flight: their number is known from what the APIs were asked to
\* send, their content only when they arrive
Unknown(n) == [i \in 1..n |-> 0]

Good == /\ SessionAgreement /\ DeliveredIsPrefixOfSent /\ NothingFromHitFrameOn /\ AllUndamagedDelivered
Same == UNCHANGED hsdmg
Consume == /\ l' = l + 1 /\ seg' = seg
           /\ TLCSet(seg, l + 1 - seg)

TReset == /\ E.k = "Reset" /\ l = seg
          /\ UNCHANGED <<hs, cp, sp, wire, buf, txoff, rxoff, sent, delivered, dead, eof, got, units, hit>> /\ Same

\* the client starts connecting: 256 bytes are on their way
THs == /\ E.k = "Hs" /\ hs = "none"
       /\ hs' = "sent" /\ units' = [units EXCEPT !["c2s"] = <<HsLen>>]
       /\ wire' = [wire EXCEPT !["c2s"] = Unknown(HsLen)]
       /\ UNCHANGED <<cp, sp, buf, txoff, rxoff, sent, delivered, dead, eof, got, hit>> /\ Same

\* bytes arrive: no more than are in flight
TSeg == /\ E.k = "Seg"
        /\ LET d == E.d  b == HexToBytes(E.hex) IN
           /\ Len(b) >= 1 /\ Len(b) <= Len(wire[d])
           /\ buf'  = [buf  EXCEPT ![d] = @ \o b]
           /\ wire' = [wire EXCEPT ![d] = Drop(@, Len(b))]
           /\ got'  = [got  EXCEPT ![d] = @ + Len(b)]
        /\ UNCHANGED <<hs, cp, sp, txoff, rxoff, sent, delivered, dead, eof, units, hit>> /\ Same

\* the server's verdict on the handshake must be the specification's; the client's session is what decrypts;
\* a handshake that no fault touched must be accepted (the client completes the handshake with a conforming server)
THsDlv == /\ E.k = "HsDlv"
          /\ HsDeliverCore(Seed)
          /\ E.ok = (hs' = "accepted")
          /\ (hs' = "rejected" => hsdmg)
          /\ cp' = (IF hs' = "accepted" THEN sp' ELSE cp) /\ Same

\* an API was asked to send a payload: a frame of the corresponding size is in flight
TSend == /\ E.k = "Send"
         /\ LET d == E.d  pl == HexToBytes(E.hex) IN
            /\ CanSend(d) /\ (d = "s2c" /\ sent[d] = <<>> => pl = <<>>)
            \* the same packet value handed to the sender again (Resend): it is what was sent as number `again`
            /\ ("again" \in DOMAIN E /\ E.again > 0 => E.again <= Len(sent[d]) /\ pl = sent[d][E.again])
            /\ sent'  = [sent  EXCEPT ![d] = Append(@, pl)]
            /\ units' = [units EXCEPT ![d] = Append(@, FrameLen(Len(pl)))]
            /\ txoff' = [txoff EXCEPT ![d] = @ + FrameLen(Len(pl))]
            /\ wire'  = [wire  EXCEPT ![d] = @ \o Unknown(FrameLen(Len(pl)))]
         /\ UNCHANGED <<hs, cp, sp, buf, rxoff, delivered, dead, eof, got, hit>> /\ Same

\* the sender stops after four length bytes
THdr == /\ E.k = "Hdr"
        /\ LET d == E.d IN
           /\ CanSend(d) /\ (d = "s2c" => sent[d] # <<>>)
           /\ units' = [units EXCEPT ![d] = Append(@, 4)]
           /\ txoff' = [txoff EXCEPT ![d] = @ + 4]
           /\ wire'  = [wire  EXCEPT ![d] = @ \o Unknown(4)]
           /\ eof'   = [eof EXCEPT ![d] = TRUE]
           /\ Mark(d, Len(sent[d]) + 1)
        /\ UNCHANGED <<hs, cp, sp, buf, rxoff, sent, delivered, dead, got>> /\ Same

\* the channel damages the byte at 0-based stream position pos, still in flight
TCorrupt == /\ E.k = "Corrupt" /\ E.mask \in 1..255
            /\ LET i == E.pos + 1 - got[E.d] IN
               i >= 1 /\ i <= Len(wire[E.d]) /\ Corrupt(E.d, i, Xor8(wire[E.d][i], E.mask))
            /\ hsdmg' = (hsdmg \/ (E.d = "c2s" /\ E.pos < HsLen))

\* the stream is cut after what has arrived (an orderly close if nothing was in flight)
TTrunc == /\ E.k = "Trunc" /\ E.at = got[E.d] /\ Truncate(E.d)
          /\ hsdmg' = (hsdmg \/ (E.d = "c2s" /\ got["c2s"] < HsLen))

\* a receiver handed out a payload: the specification's receiver must deliver exactly it, now
TDlv == /\ E.k = "Dlv"
        /\ DeliverKind(E.d) = "pkt" /\ Look(E.d).payload = HexToBytes(E.hex)
        /\ (E.d = "s2c" => Absorbs(Look(E.d).payload) # "yes")        \* a real pong never reaches the user
        /\ Deliver(E.d) /\ Same
\* the client's connection kept a valid server->client packet for itself (its user never saw it): allowed only
\* for the packets the specification lets it keep - a 12-byte tcp.pong, or (free) an authentication nonce
TAbsorb == /\ E.k = "Absorb" /\ E.d = "s2c"
           /\ DeliverKind("s2c") = "pkt" /\ Absorbs(Look("s2c").payload) # "no"
           /\ Deliver("s2c") /\ Same
\* a receiver reported failure: the specification's receiver must give up, now
TDead == /\ E.k = "Dead"
         /\ DeliverKind(E.d) \in {"bad", "eof"}
         /\ Deliver(E.d) /\ Same

\* the receiving API's user looks again at a packet it was handed earlier (the very object, not a copy):
\* it must still hold the payload that was delivered, i.e. the one that was sent
\* (side = "tx": the sender's user looks again at a packet value it handed to Send: sending must not have altered it)
TRecheck == /\ E.k = "Recheck"
            /\ IF "side" \in DOMAIN E /\ E.side = "tx"
                 THEN E.idx >= 1 /\ E.idx <= Len(sent[E.d]) /\ HexToBytes(E.sha) = Sha256(sent[E.d][E.idx])
                 ELSE E.idx >= 1 /\ E.idx <= Len(delivered[E.d]) /\ HexToBytes(E.sha) = Sha256(delivered[E.d][E.idx])
            /\ UNCHANGED <<hs, cp, sp, wire, buf, txoff, rxoff, sent, delivered, dead, eof, got, units, hit>> /\ Same

\* time passed (possibly beyond the deadline of the context the connection was dialled under): not a fault
TWait == E.k = "Wait" /\ TimePasses /\ Same

\* end of the connection: the reported totals are the specification's and nothing deliverable is left
TQuiesce == /\ E.k = "Quiesce"
            /\ E.nd[1] = Len(delivered["c2s"]) /\ E.nd[2] = Len(delivered["s2c"])
            /\ \A d \in Dirs : DeliverKind(d) # "pkt"
            /\ HsDeliverKind = "none"
            /\ UNCHANGED <<hs, cp, sp, wire, buf, txoff, rxoff, sent, delivered, dead, eof, got, units, hit>> /\ Same

TraceInit == /\ l \in Starts /\ seg = l
             /\ AInit /\ hsdmg = FALSE
TraceNext == /\ l <= N
             /\ (l # seg => Trace[l].k # "Reset")
             /\ (TReset \/ THs \/ TSeg \/ THsDlv \/ TSend \/ THdr \/ TCorrupt \/ TTrunc \/ TDlv \/ TAbsorb \/ TDead \/ TRecheck \/ TWait \/ TQuiesce)
             /\ Good'
             /\ Consume
TraceSpec == TraceInit /\ [][TraceNext]_tvars

Report == \A i \in Starts : PrintT(<<"SEG", i, TLCGet(i)>>)
=============================================================================
