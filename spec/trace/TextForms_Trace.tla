--------------------------- MODULE TextForms_Trace ---------------------------
(* C->S for X05.  Every line of trace.ndjson is one call (or one bundle of calls *)
(* on the same value) of the real code; it is judged on its own against          *)
(* TextForms.  Texts travel as the hex of their bytes.                           *)
(*  {"k":"Crc","data":hex,"c16","c16s","mid":int,"c32":"decimal"}                *)
(*  {"k":"Coins","amount":"decimal","out":hex}                                   *)
(*  {"k":"Blk","wc","shard":hex16,"seqno","root","file","str":hex,"ext":hex,     *)
(*   "tl":hex,"back":R,"backmin":R,"back16":R,"tlback":R}   R = [err,wc,shard,   *)
(*   seqno(,root,file)]                                                          *)
(*  {"k":"BlkParse","s":hex,"err","wc","shard","seqno"}                          *)
(*  {"k":"TlDec","bytes":hex,"err",wc,shard,seqno,root,file}                     *)
(*  {"k":"H256","v":hex,"hex","b64","json":hex of text,"backs":[[fn,err,v]]}     *)
(*  {"k":"H256Parse","fn","s":hex,"err","v":hex}                                 *)
(*  {"k":"FromBytes","n":int,"err"}                                              *)
(*  {"k":"MethodTable","name":hex,"id":"decimal"}   one entry of code.Methods    *)
(* NOTE lines carry the class the specification gives the input (for the         *)
(* runner's finding keys, vacuity guards and observations).                      *)
EXTENDS TextForms, Json, TLC

Trace == ndJsonDeserialize("trace.ndjson")
N == Len(Trace)
VARIABLES l, v
H(x) == HexToBytes(x)
T(s) == StrToCodes(s)
Note(a, b) == PrintT(<<"NOTE", l, a, b>>)

JudgeCrc(e) ==
  LET d == H(e.data) IN
  /\ Note("crc", Len(d))
  /\ e.c16 = Crc16(d) /\ e.c16s = e.c16
  /\ e.c32 = Crc32Dec(d)
  /\ e.mid = MethodId(d)

JudgeCoins(e) ==
  LET neg == SubStr(e.amount, 1, 1) = "-"   txt == CodesToStr(H(e.out)) IN
  /\ Note(IF neg THEN "coins:negative" ELSE "coins", IF neg THEN (IF txt = HumanCoins(SubStr(e.amount, 2, StrLen(e.amount))) THEN "scaled" ELSE "other") ELSE "")
  /\ DecSyntax(T(e.amount)) = "canon"
  /\ CoinsDenote(txt) = e.amount
  /\ ~neg => txt = HumanCoins(e.amount)

IdOfRec(r) == [wc |-> r.wc, shard |-> HexBits(r.shard), seqno |-> r.seqno]
SameId(r, id) == r.err = "" /\ r.wc = id.wc /\ r.seqno = id.seqno /\ StrLen(r.shard) = 16 /\ HexBits(r.shard) = id.shard
JudgeBlk(e) ==
  LET id == IdOfRec(e)  root == H(e.root)  file == H(e.file)  str == H(e.str)  ext == H(e.ext) IN
  /\ DecSyntax(T(e.wc)) = "canon" /\ FitsSigned(T(e.wc), 32) /\ DecSyntax(T(e.seqno)) = "canon" /\ FitsUnsigned(T(e.seqno), 32)
  /\ Len(id.shard) = 64 /\ Len(root) = 32 /\ Len(file) = 32
  /\ Note("blk", IF str = T(BlockIdText(id)) THEN "16" ELSE IF str = T(BlockIdTextMin(id)) THEN "min" ELSE "other")
  \* String(): the reference form or the one without leading zeros
  /\ str \in {T(BlockIdText(id)), T(BlockIdTextMin(id))}
  /\ ext \in {T(BlockIdExtText(id, root, file, Hex16(id.shard))), T(BlockIdExtText(id, root, file, HexMin(id.shard)))}
  \* Parse(String(x)) = x, and both spellings of the shard are read
  /\ SameId(e.back, id) /\ SameId(e.back16, id) /\ SameId(e.backmin, id)
  \* tonNode.blockIdExt
  /\ H(e.tl) = BlockIdExtTL(id, root, file)
  /\ SameId(e.tlback, id) /\ e.tlback.root = e.root /\ e.tlback.file = e.file

JudgeBlkParse(e) ==
  LET r == BlockIdRead(H(e.s))  hasid == r.id # NoId IN
  /\ Note(StrCat("blkparse:", r.cls), IF e.err = "" THEN "accepted" ELSE "refused")
  /\ CASE r.cls = "ok"   -> SameId(e, r.id)
       [] r.cls = "bad"  -> e.err # ""
       [] r.cls = "free" -> e.err # "" \/ ~hasid \/ SameId(e, r.id)

JudgeTlDec(e) ==
  LET b == H(e.bytes) IN
  /\ Note("tldec", Len(b))
  /\ IF Len(b) # 80 THEN e.err # ""
     ELSE /\ e.err = ""
          /\ b = BlockIdExtTL(IdOfRec(e), H(e.root), H(e.file))

BackFns == {"hex", "hex0x", "b64", "url", "any:hex", "any:b64", "any:url", "parsehash:hex", "json", "json.std", "bytes"}
JudgeH256(e) ==
  LET val == H(e.v) IN
  /\ Note("h256", "")
  /\ Len(val) = 32
  /\ H(e.hex) = T(BytesToHex(val))
  /\ H(e.b64) = B64Encode(val, B64Std)
  /\ H(e.json) = <<34>> \o T(BytesToHex(val)) \o <<34>>
  /\ {e.backs[i][1] : i \in 1..Len(e.backs)} = BackFns
  /\ \A i \in 1..Len(e.backs) : e.backs[i][2] = "" /\ e.backs[i][3] = e.v

JudgeH256Parse(e) ==
  LET c == H(e.s)
      d == CASE e.fn = "hex" -> Hex32Read(c)
             [] e.fn = "b64" -> B64Read32(c, StdVal)
             [] e.fn = "url" -> B64Read32(c, UrlVal)
             [] e.fn \in {"any", "parsehash"} -> AnyRead32(c)
             [] e.fn \in {"json", "json.std"} -> Json32Read(c)
  IN /\ Note(StrCat("h256parse:", StrCat(e.fn, StrCat(":", d.cls))), IF e.err = "" THEN "accepted" ELSE "refused")
     /\ AnyReadCoherent(c)
     /\ Admits(d, e)

\* code.Methods: every key of the table is the get-method id of its name
JudgeMethodTable(e) == Note("methodtable", e.id) /\ e.id = ToString(MethodId(H(e.name)))

JudgeFromBytes(e) == Note("frombytes", e.n) /\ (e.err = "" <=> e.n = 32)

NoPanic(e) == "panic" \in DOMAIN e => e.panic = ""
Judge(e) == NoPanic(e) /\
            CASE e.k = "Crc" -> JudgeCrc(e)
              [] e.k = "Coins" -> JudgeCoins(e)
              [] e.k = "Blk" -> JudgeBlk(e)
              [] e.k = "BlkParse" -> JudgeBlkParse(e)
              [] e.k = "TlDec" -> JudgeTlDec(e)
              [] e.k = "H256" -> JudgeH256(e)
              [] e.k = "H256Parse" -> JudgeH256Parse(e)
              [] e.k = "FromBytes" -> JudgeFromBytes(e)
              [] e.k = "MethodTable" -> JudgeMethodTable(e)
              [] OTHER -> FALSE          \* Panic, unknown kinds: no action

Init == l \in 1..N /\ v = "todo"
Next == /\ v = "todo" /\ l' = l
        /\ v' = (IF Judge(Trace[l]) THEN "ok" ELSE "bad")
        /\ PrintT(<<"EV", l, v'>>)
Spec == Init /\ [][Next]_<<l, v>>
=============================================================================
