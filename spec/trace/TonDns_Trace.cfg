SPECIFICATION TraceSpec
INVARIANT TypeOK
POSTCONDITION Report
CHECK_DEADLOCK FALSE
