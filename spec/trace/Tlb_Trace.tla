------------------------------ MODULE Tlb_Trace ------------------------------
(* C->S judgement of TL-B codec events (C03, C04).  Every line is judged on    *)
(* its own (see Cells_Trace for the pattern).                                   *)
(*  RT   encode / decode / encode of one value of one Go type:                  *)
(*       no panic anywhere; if the encoder succeeded the decoder must succeed   *)
(*       and return an equal value (canonical dumps compared as strings; VM     *)
(*       stacks may come back in the documented opposite order), and encoding   *)
(*       the decoded value again must give the identical cell tree; and where   *)
(*       the schema of the type is known (AST) the cell must be exactly the one *)
(*       TlbSem!Enc prescribes for that value.                                   *)
(*  ENC  one value of a schema type from spec/schemas (block.tlb transcription): *)
(*       the cell must be exactly TlbSem!Enc(schema, type, value).               *)
(*  REENC a record decoded from real chain data and encoded again: same hash    *)
(*       wherever the encoding is unique.                                        *)
(* Besides TlbSem!Enc (value -> the one cell) the total decoder TlbDec!Dec       *)
(* (cell -> the one value) judges: RT - the recorded cell must denote exactly    *)
(* the recorded value under the reflection schema (also for values holding       *)
(* non-empty dictionaries, where Enc prescribes no unique cell); DECSRC - the    *)
(* source cell of real chain data must denote, under the schema transcribed from *)
(* block.tlb, exactly the value the library decoded (dictionaries included).     *)
(* <<"JD", line, by>> reports which of the two oracles judged the bits of a line *)
(* ("enc", "dec", "enc+dec", "none").                                             *)
EXTENDS TlbDec, Json

Trace == ndJsonDeserialize("trace.ndjson")
Schema == JsonDeserialize("schema.json")   \* name -> type AST (block.tlb transcription); {} when unused
N == Len(Trace)
VARIABLES l, v

IsPanic(s) == StrLen(s) >= 5 /\ SubStr(s, 1, 5) = "panic"
Note(tag) == PrintT(<<"NOTE", l, tag>>) /\ FALSE

JudgedBy(enc, dec) == PrintT(<<"JD", l, IF enc /\ dec THEN "enc+dec" ELSE IF enc THEN "enc" ELSE IF dec THEN "dec" ELSE "none">>)
IsRefusal(t) == StrLen(t) >= 1 /\ SubStr(t, 1, 1) = "!"
NoValueSchema(t) == t = "!dictionary without a value schema"

\* the independent decode: the cell `tj` must denote, under schema (S, ty), exactly the value whose canonical text is `ds`.
\* Result: "skip" (a dictionary whose value type has no schema: not decidable here), "ok", or the note to raise.
DecVerdict(S, ty, tj, ds) ==
  LET t == DecText(S, ty, TreeOfJson(tj)) IN
  IF NoValueSchema(t) THEN "skip"
  ELSE IF IsRefusal(t) THEN "dec-refuses-cell"
  ELSE IF t = ds THEN "ok" ELSE "dec-value-differs"

JudgeRT(e) ==
  IF IsPanic(e.enc) \/ IsPanic(e.dec) \/ IsPanic(e.enc2) THEN Note("panic")
  ELSE IF e.enc # "ok" THEN TRUE                               \* refused with an error: allowed
  ELSE IF e.dec # "ok" THEN Note("decode-failed")
  ELSE IF e.vs2 # e.vs /\ ~e.rev THEN Note("value-changed")
  ELSE IF e.enc2 # "ok" THEN Note("reencode-failed")
  ELSE IF e.tree2 # e.tree THEN Note("reencode-differs")
  ELSE IF ~e.hasast THEN TRUE
  ELSE LET r == Enc(<<>>, e.ast, e.v)
           \* no unique encoding (dictionary inside) or outside the cell limits: Enc does not judge
           encOK == ~r.ok \/ TreeText(r.c) = e.tree \/ Note("bits-differ")
           withDec == "tj" \in DOMAIN e /\ "ds" \in DOMAIN e
           dv == IF withDec THEN DecVerdict(<<>>, e.ast, e.tj, e.ds) ELSE "skip"
       IN /\ encOK
          /\ dv \in {"skip", "ok"} \/ Note(dv)
          /\ JudgedBy(r.ok, dv = "ok")

JudgeENC(e) ==
  LET r == Enc(Schema, Schema[e.type], e.v)
      withDec == e.enc = "ok" /\ "tj" \in DOMAIN e /\ "ds" \in DOMAIN e
      dv == IF withDec THEN DecVerdict(Schema, Schema[e.type], e.tj, e.ds) ELSE "skip"
      \* whatever the library encoded must, read back under the schema, be the value it was given (dictionaries included)
      decOK == (dv \in {"skip", "ok"} \/ Note(dv)) /\ JudgedBy(r.ok, dv = "ok")
  IN
  IF IsPanic(e.enc) THEN Note("panic")
  ELSE IF ~r.ok /\ r.err = "non-empty dictionary: encoding not unique" THEN decOK
  ELSE IF ~r.ok THEN (e.enc # "ok" \/ Note("encoded-out-of-domain"))
  ELSE IF e.enc # "ok" THEN Note("refused-in-domain")
  ELSE (TreeText(r.c) = e.tree \/ Note("bits-differ")) /\ decOK

JudgeREENC(e) ==
  IF IsPanic(e.dec) \/ IsPanic(e.enc) THEN Note("panic")
  ELSE IF e.dec # "ok" THEN Note("decode-failed")
  ELSE IF e.enc # "ok" THEN Note("reencode-failed")
  ELSE e.unique => (e.tree2 = e.tree \/ Note("reencode-differs"))

\* DECSRC: a record decoded from a cell of real chain data. Where the independent schema gives the decoded value a unique
\* encoding, that encoding must be the source cell itself (the decoder read the bits the schema prescribes), and the
\* library's own re-encoding must reproduce it.
\* Where Enc gives no unique cell (a non-empty dictionary inside: out-messages, extra currencies, libraries) or in addition to
\* it, the source cell is read by the specification's own decoder under the same schema and must denote the decoded value.
\* `noenc` marks record types the library decodes but declines to encode (InMsg / OutMsg descriptors ...): only the
\* reading is judged there.
JudgeDECSRC(e) ==
  IF IsPanic(e.dec) \/ IsPanic(e.enc) THEN Note("panic")
  ELSE IF e.dec # "ok" THEN Note("decode-failed")
  ELSE LET withDec == "tj" \in DOMAIN e /\ "ds" \in DOMAIN e
           t == IF withDec THEN DecText(Schema, Schema[e.type], TreeOfJson(e.tj)) ELSE "!dictionary without a value schema"
           \* a record taken from a Merkle update may lack part of its DATA (a pruned branch where fields or dictionary nodes are
           \* stored): it does not hold a value of its type, and nothing can be compared. Pruned branches in ^Cell positions are
           \* cells like any other: such a record is complete and is judged in full.
           incomplete == "exotic" \in DOMAIN e /\ e.exotic /\ t \in {"!exotic cell read as data", "!dictionary: node:exotic"}
           r == Enc(Schema, Schema[e.type], e.v)
           noenc == "noenc" \in DOMAIN e /\ e.noenc
           encOK == IF ~r.ok THEN TRUE
                    ELSE IF TreeText(r.c) # e.tree THEN Note("decoded-value-does-not-denote-source")
                    ELSE IF noenc THEN TRUE
                    ELSE IF e.enc # "ok" THEN Note("reencode-failed")
                    ELSE e.tree2 = e.tree \/ Note("reencode-differs")
           dv == IF NoValueSchema(t) THEN "skip"
                 ELSE IF IsRefusal(t) THEN "source-is-not-a-value-of-the-schema"
                 ELSE IF t = e.ds THEN "ok" ELSE "decoded-value-is-not-what-the-source-denotes"
       IN IF incomplete THEN JudgedBy(FALSE, FALSE)
          ELSE /\ encOK
               /\ dv \in {"skip", "ok"} \/ Note(dv)
               /\ JudgedBy(r.ok, dv = "ok")

Judge(e) == CASE e.k = "RT" -> JudgeRT(e)
              [] e.k = "DECSRC" -> JudgeDECSRC(e)
              [] e.k = "ENC" -> JudgeENC(e)
              [] e.k = "REENC" -> JudgeREENC(e)
              [] e.k = "TooBig" -> TRUE          \* a record the driver counted but did not write out (unfolds beyond its size bound)
              [] OTHER -> FALSE

Init == l \in 1..N /\ v = "todo"
Next == /\ v = "todo" /\ l' = l
        /\ v' = (IF Judge(Trace[l]) THEN "ok" ELSE "bad")
        /\ PrintT(<<"EV", l, v'>>)
Spec == Init /\ [][Next]_<<l, v>>
=============================================================================
