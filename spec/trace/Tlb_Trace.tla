------------------------------ MODULE Tlb_Trace ------------------------------
(* C->S judgement of TL-B codec events (C03, C04).  Every line is judged on    *)
(* its own (see Cells_Trace for the pattern).                                   *)
(*  RT   encode / decode / encode of one value of one Go type:                  *)
(*       no panic anywhere; if the encoder succeeded the decoder must succeed   *)
(*       and return an equal value (canonical dumps compared as strings; VM     *)
(*       stacks may come back in the documented opposite order), and encoding   *)
(*       the decoded value again must give the identical cell tree; and where   *)
(*       the schema of the type is known (AST) the cell must be exactly the one *)
(*       TlbSem!Enc prescribes for that value.                                   *)
(*  ENC  one value of a schema type from spec/schemas (block.tlb transcription): *)
(*       the cell must be exactly TlbSem!Enc(schema, type, value).               *)
(*  REENC a record decoded from real chain data and encoded again: same hash    *)
(*       wherever the encoding is unique.                                        *)
EXTENDS TlbSem, Json

Trace == ndJsonDeserialize("trace.ndjson")
Schema == JsonDeserialize("schema.json")   \* name -> type AST (block.tlb transcription); {} when unused
N == Len(Trace)
VARIABLES l, v

IsPanic(s) == StrLen(s) >= 5 /\ SubStr(s, 1, 5) = "panic"
Note(tag) == PrintT(<<"NOTE", l, tag>>) /\ FALSE

JudgeRT(e) ==
  IF IsPanic(e.enc) \/ IsPanic(e.dec) \/ IsPanic(e.enc2) THEN Note("panic")
  ELSE IF e.enc # "ok" THEN TRUE                               \* refused with an error: allowed
  ELSE IF e.dec # "ok" THEN Note("decode-failed")
  ELSE IF e.vs2 # e.vs /\ ~e.rev THEN Note("value-changed")
  ELSE IF e.enc2 # "ok" THEN Note("reencode-failed")
  ELSE IF e.tree2 # e.tree THEN Note("reencode-differs")
  ELSE IF ~e.hasast THEN TRUE
  ELSE LET r == Enc(<<>>, e.ast, e.v) IN
       IF ~r.ok THEN TRUE                                      \* no unique encoding (dictionary inside) or outside the cell limits
       ELSE TreeText(r.c) = e.tree \/ Note("bits-differ")

JudgeENC(e) ==
  LET r == Enc(Schema, Schema[e.type], e.v) IN
  IF IsPanic(e.enc) THEN Note("panic")
  ELSE IF ~r.ok /\ r.err = "non-empty dictionary: encoding not unique" THEN TRUE
  ELSE IF ~r.ok THEN (e.enc # "ok" \/ Note("encoded-out-of-domain"))
  ELSE IF e.enc # "ok" THEN Note("refused-in-domain")
  ELSE TreeText(r.c) = e.tree \/ Note("bits-differ")

JudgeREENC(e) ==
  IF IsPanic(e.dec) \/ IsPanic(e.enc) THEN Note("panic")
  ELSE IF e.dec # "ok" THEN Note("decode-failed")
  ELSE IF e.enc # "ok" THEN Note("reencode-failed")
  ELSE e.unique => (e.tree2 = e.tree \/ Note("reencode-differs"))

\* DECSRC: a record decoded from a cell of real chain data. Where the independent schema gives the decoded value a unique
\* encoding, that encoding must be the source cell itself (the decoder read the bits the schema prescribes), and the
\* library's own re-encoding must reproduce it.
JudgeDECSRC(e) ==
  IF IsPanic(e.dec) \/ IsPanic(e.enc) THEN Note("panic")
  ELSE IF e.dec # "ok" THEN Note("decode-failed")
  ELSE LET r == Enc(Schema, Schema[e.type], e.v) IN
       IF ~r.ok THEN TRUE
       ELSE IF TreeText(r.c) # e.tree THEN Note("decoded-value-does-not-denote-source")
       ELSE IF e.enc # "ok" THEN Note("reencode-failed")
       ELSE e.tree2 = e.tree \/ Note("reencode-differs")

Judge(e) == CASE e.k = "RT" -> JudgeRT(e)
              [] e.k = "DECSRC" -> JudgeDECSRC(e)
              [] e.k = "ENC" -> JudgeENC(e)
              [] e.k = "REENC" -> JudgeREENC(e)
              [] OTHER -> FALSE

Init == l \in 1..N /\ v = "todo"
Next == /\ v = "todo" /\ l' = l
        /\ v' = (IF Judge(Trace[l]) THEN "ok" ELSE "bad")
        /\ PrintT(<<"EV", l, v'>>)
Spec == Init /\ [][Next]_<<l, v>>
=============================================================================
