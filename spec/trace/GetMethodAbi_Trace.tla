-------------------------- MODULE GetMethodAbi_Trace --------------------------
(* C->S for X09.  Every line of trace.ndjson is one call of an exported get-method *)
(* function of package abi on the real code, made through a recording executor:    *)
(*  {"k":"Call","method","cls","args":[arguments],"exit":"decimal","xerr":bool,     *)
(*   "stack":[result values, bottom first]            the scripted answer            *)
(*   "present":bool                                   the library has the function   *)
(*   "calls":n,"gotid":n,"acct":bool,"params":[texts] what the executor was handed   *)
(*   "out":{"res":"ok"|"err"|"panic","layout","ty","fields":[texts]}                 *)
(*   "decs":[{"name","res":"ok"|"err"|"panic"|"missing","layout","ty","fields"}]}    *)
(*                                                    every DecodeXxxResult of the   *)
(*                                                    method on the same stack       *)
(* The method is looked up in the schema table (schema.ndjson, built from the XML); *)
(* the expected method id, params, the verdict of every decoder and the selected    *)
(* layout are re-derived by spec/GetMethodAbi.tla.  The disagreements are printed  *)
(* as <<"NOTE", line, method, "class@layout ;; class@- ...">>.                      *)
EXTENDS GetMethodAbi, Json

Schema == ndJsonDeserialize("schema.ndjson")
Trace  == ndJsonDeserialize("trace.ndjson")
N == Len(Trace)
VARIABLES l, v

Known(name) == \E i \in 1..Len(Schema) : Schema[i].name = name
Method(name) == Schema[CHOOSE i \in 1..Len(Schema) : Schema[i].name = name]

\* the sequence of <<layout | "-", class>> disagreements of one event, in the order they are looked for
Findings(e) ==
  LET m   == Method(e.method)
      nl  == Len(m.layouts)
      rs  == e.stack
      dv  == [j \in 1..nl |-> IF e.decs[j].res = "missing" THEN "missing-decoder"
                              ELSE IF e.decs[j].name # m.layouts[j].name THEN "decoder-order"
                              ELSE LET r == DecoderVerdict(m.layouts[j], rs, e.decs[j]) IN
                                   IF r = "ok" /\ e.decs[j].res = "ok" /\ (e.decs[j].layout # m.layouts[j].name \/ e.decs[j].ty # m.layouts[j].name)
                                     THEN "layout-name" ELSE r]
      decsOK == \A j \in 1..nl : e.decs[j].res \in {"ok", "err"} /\ e.decs[j].name = m.layouts[j].name
      called == e.calls = 1
      pre == << <<"-", IF ~e.present THEN "missing-function" ELSE "ok">>,
                <<"-", IF e.out.res = "panic" THEN "panic" ELSE "ok">>,
                <<"-", IF e.out.res = "signature" THEN "signature" ELSE "ok">>,
                <<"-", IF e.present /\ e.out.res \in {"ok", "err"} /\ ~called THEN "executor-calls" ELSE "ok">>,
                <<"-", IF called /\ e.gotid # WantId(m) THEN "method-id" ELSE "ok">>,
                <<"-", IF called /\ ~e.acct THEN "account" ELSE "ok">>,
                <<"-", IF called /\ e.params # WantParams(m, e.args) THEN "params" ELSE "ok">> >>
      ds  == [j \in 1..nl |-> <<m.layouts[j].name, dv[j]>>]
      cv  == IF e.present /\ Len(e.decs) = nl /\ decsOK /\ e.out.res \in {"ok", "err"}
               THEN LET r == IF e.xerr THEN (IF e.out.res = "err" THEN "ok" ELSE "executor-error")
                             ELSE CallVerdict(m, e.exit, rs, e.decs, e.out) IN
                    IF r = "ok" /\ e.out.res = "ok" /\ e.out.ty # e.out.layout THEN "layout-name" ELSE r
               ELSE "ok"
  IN SelectSeq(pre \o (IF Len(e.decs) = nl THEN ds ELSE << <<"-", "decoder-count">> >>) \o << <<"-", cv>> >>, LAMBDA x : x[2] # "ok")

\* the readings an accepted call performed (the classes the runner may hold to be read as required)
SelectedClasses(e) == LET m == Method(e.method)
                          j == CHOOSE q \in 1..Len(m.layouts) : m.layouts[q].name = e.out.layout IN
                      IF NF(m.layouts[j]) = 0 THEN "" ELSE LayoutClasses(m.layouts[j], e.stack)
Judge(e) == IF e.k # "Call" THEN FALSE
            ELSE IF ~Known(e.method) THEN PrintT(<<"NOTE", l, e.method, "unknown-method@-">>) /\ FALSE
            ELSE LET fs == Findings(e) IN
                 IF Len(fs) = 0 THEN (IF e.out.res = "ok" THEN PrintT(<<"CLS", l, SelectedClasses(e)>>) ELSE TRUE)
                 ELSE PrintT(<<"NOTE", l, e.method, Join([i \in 1..Len(fs) |-> StrCat(StrCat(fs[i][2], "@"), fs[i][1])], " ;; ")>>) /\ FALSE

Init == l \in 1..N /\ v = "todo"
Next == /\ v = "todo" /\ l' = l
        /\ v' = (IF Judge(Trace[l]) THEN "ok" ELSE "bad")
        /\ PrintT(<<"EV", l, v'>>)
Spec == Init /\ [][Next]_<<l, v>>
=============================================================================
