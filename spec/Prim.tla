------------------------------- MODULE Prim -------------------------------
(* Primitives supplied by the JDK through TLC module overrides (Prim.java).  *)
(* Only cryptographic primitives and representation converters live here;    *)
(* every layout (what is hashed, in which order, widths, tags, padding) is   *)
(* written in TLA+ in the modules that use them.  The bodies below are       *)
(* placeholders that are never evaluated when Prim.class is beside the spec. *)
EXTENDS Naturals, Sequences

\* --- cryptographic primitives: byte sequences (tuples of 0..255) in and out
Sha256(bytes)                 == <<>>
Sha512(bytes)                 == <<>>
HmacSha256(key, bytes)        == <<>>
Crc32c(bytes)                 == 0      \* returned as 4 bytes, big-endian value order <<b3,b2,b1,b0>>
Crc32Ieee(bytes)              == <<>>   \* 4 bytes big-endian
AesCtrXor(key, iv, skip, data) == <<>>  \* AES-256-CTR keystream starting `skip` bytes in, xor data
X25519(scalar, u)             == <<>>
EdPubToMontU(pub)             == <<>>
EdSeedToX25519Scalar(seed)    == <<>>
EdPubFromSeed(seed)           == <<>>
EdVerify(pub, msg, sig)       == FALSE

\* --- representation converters (no semantics of their own)
HexToBytes(s)   == <<>>      \* "0aff" -> <<10,255>>
BytesToHex(b)   == ""        \* inverse, lower case
StrToBits(s)    == <<>>      \* "0110" -> <<0,1,1,0>>
BitsToStr(b)    == ""        \* inverse
StrToCodes(s)   == <<>>      \* "ab" -> <<97,98>>   (UTF-8 bytes)
CodesToStr(b)   == ""        \* inverse
DecToBits(s)    == <<>>      \* "5" -> <<1,0,1>>, "0" -> <<>> ; magnitude only, minimal length, big-endian
BitsToDec(b)    == ""        \* inverse (unsigned)
BytesToBits(b)  == <<>>      \* <<160>> -> <<1,0,1,0,0,0,0,0>>
BitsToBytes(b)  == <<>>      \* inverse; Len(b) must be a multiple of 8
FileHex(path)   == ""        \* whole file as lower-case hex
StrLen(s)       == 0
SubStr(s, a, b) == ""        \* 1-based inclusive, like SubSeq
StrCat(a, b)    == ""
\* --- appended for X04 (encrypted comments): raw AES-256 block cipher over whole 16-byte blocks (ECB, no padding; the
\*     CBC chaining is written in TLA+ in EncComment.tla) and HMAC-SHA-512
HmacSha512(key, bytes)        == <<>>
AesEcbEnc(key, data)          == <<>>   \* Len(data) % 16 = 0
AesEcbDec(key, data)          == <<>>   \* inverse
=============================================================================
