------------------------------ MODULE PoolOrder ------------------------------
(* C13, the order of the pool's connection list (kept apart from PoolSelect.tla: *)
(* the proofs in spec/proofs are over that module as it stands).                *)
EXTENDS PoolSelect, Sequences

\* "Configuration order": servers are dialled concurrently and join the pool as their handshakes finish, but the
\* pool lists them (conns, Status) by their index in the configuration, whatever order they connected in.
RECURSIVE ConfigOrder(_)
ConfigOrder(ids) == IF ids = {} THEN <<>>
                    ELSE LET m == CHOOSE x \in ids : \A y \in ids : x <= y IN <<m>> \o ConfigOrder(ids \ {m})
\* a connection with configuration index id joins the pool whose list is `order`
AddConn(order, id) == ConfigOrder({order[i] : i \in DOMAIN order} \cup {id})
=============================================================================
