------------------------------- MODULE NetConfig -------------------------------
(* X06 (second half): the global network configuration file -> lite servers.     *)
(*                                                                               *)
(* Written from the format of ton-global.config.json (config.global in           *)
(* ton_api.tl: liteserver.desc id:PublicKey ip:int port:int), not from the Go    *)
(* code:                                                                         *)
(*   {"liteservers":[{"ip":<int>,"port":<int>,"id":{"@type":"pub.ed25519",        *)
(*     "key":"<base64 of 32 bytes>"}}, ..], ..other sections..}                   *)
(*   ip is the IPv4 address as a SIGNED 32-bit integer (TL int): the four        *)
(*   octets are the bytes of its two's complement, most significant first, so    *)
(*   -1 is 255.255.255.255 and 2130706433 is 127.0.0.1.                           *)
(* A server is [ip, port (decimal texts), type, key (texts)].  The reading       *)
(* keeps, in order, the servers whose id is an Ed25519 key, as host "a.b.c.d:p"  *)
(* and the key text unchanged; a file without any usable server is an error.     *)
(* Classes of a server:                                                          *)
(*   "ok"    ip in int32, port in 0..65535, type pub.ed25519: must be listed      *)
(*   "skip"  another key type: must not be listed                                *)
(*   "free"  ip in 2^31..2^32-1 (the unsigned spelling of the same 32 bits) with  *)
(*           a good port: may be skipped; if listed the host must be those bits  *)
(*   "lax"   ip or port outside these ranges: not a server of the format; what   *)
(*           a reader does with it is recorded, not judged                       *)
EXTENDS TextForms

Quad(bits32) == LET o(i) == ToString(BitsNum(SubSeq(bits32, 8 * i - 7, 8 * i))) IN
                StrCat(o(1), StrCat(".", StrCat(o(2), StrCat(".", StrCat(o(3), StrCat(".", o(4)))))))
Host(ip, port) == StrCat(Quad(IF SubStr(ip, 1, 1) = "-" \/ Len(DecToBits(ip)) <= 31 THEN TwosBits(ip, 32) ELSE LeftPad(DecToBits(ip), 32)), StrCat(":", port))
ASSUME Host("-1", "4924") = "255.255.255.255:4924" /\ Host("2130706433", "80") = "127.0.0.1:80" /\ Host("-2147483648", "1") = "128.0.0.0:1"
ASSUME Host("84478511", "19949") = "5.9.10.47:19949" /\ Host("-2018135749", "53312") = "135.181.177.59:53312"
ASSUME Host("4294967295", "1") = "255.255.255.255:1"

IsDec(s) == DecSyntax(StrToCodes(s)) = "canon"
ServerClass(s) ==
  IF ~IsDec(s.ip) \/ ~IsDec(s.port) THEN "lax"
  ELSE IF ~FitsUnsigned(StrToCodes(s.port), 16) THEN "lax"
  ELSE IF s.type # "pub.ed25519" THEN (IF FitsSigned(StrToCodes(s.ip), 32) THEN "skip" ELSE "lax")
  ELSE IF FitsSigned(StrToCodes(s.ip), 32) THEN "ok"
  ELSE IF FitsUnsigned(StrToCodes(s.ip), 32) THEN "free"
  ELSE "lax"
Entry(s) == [host |-> Host(s.ip, s.port), key |-> s.key]

\* out = [err, servers: sequence of [host, key]] is a reading of the file whose servers are `servers`
RECURSIVE Matches(_, _)
Matches(servers, out) ==      \* out: the listed entries, in order
  IF Len(servers) = 0 THEN Len(out) = 0 ELSE
  LET s == servers[1]  cl == ServerClass(s)  rest == Tail(servers) IN
  CASE cl = "ok"   -> Len(out) >= 1 /\ out[1] = Entry(s) /\ Matches(rest, Tail(out))
    [] cl = "skip" -> Matches(rest, out)
    [] cl = "free" -> Matches(rest, out) \/ (Len(out) >= 1 /\ out[1] = Entry(s) /\ Matches(rest, Tail(out)))
    [] cl = "lax"  -> Matches(rest, out) \/ (Len(out) >= 1 /\ out[1].key = s.key /\ Matches(rest, Tail(out)))
Classes(servers) == {ServerClass(servers[i]) : i \in 1..Len(servers)}
\* whole-file verdict
Admitted(servers, err, out) ==
  LET cls == Classes(servers) IN
  IF err # "" THEN "ok" \notin cls                     \* a file with a usable server is read
  ELSE Len(out) >= 1 /\ Matches(servers, out)          \* success lists at least one server
=============================================================================
