# C19: TON Connect proofs are accepted only for the key controlling the address (spec/TonConnect.tla).
import json, os, copy, base64, binascii, collections
import vlib
from vlib import Infra, log

RULE = ("S->C: TLC enumerates the decision table of TonConnect_Gen (3 key sources x 17 wallet contracts x 63 single tamperings x 5 times) "
        "into abstract cases with the verdict TonConnect!Decide requires; the harness concretises each (keys from seeds, state-inits "
        "from the wallet package, CreateSignedProof, mock executor) and runs the real Server.CheckProof under recover(); required: "
        "verdict (ok, key, error) equal to the table's, no panic. C->S: every concrete proof (table cases, random single-field "
        "substitutions / bit flips of valid proofs; the genuine state-init bag of each of the 17 contracts with every byte of header, root list, "
        "index, cell descriptors and reference indices replaced by b+1, b-1, 00, ff, every truncation at a structural boundary, and data bytes "
        "sampled 1 in 8/16 (all of them, plus crc/idx/stored-hash containers, in the thorough tier); bags written by the specification "
        "(TonConnect_BagGen: a StateInit root over exotic cells of every type and length around what the type needs) as state-init; "
        "payloads from GeneratePayload with every byte of nonce, time and tag changed, the time rewritten, an expired one revived), CheckPayload on crafted payloads and GeneratePayload + CheckPayload after real "
        "waiting is recorded with all inputs and judged by TonConnect_Trace from the bytes alone (message hash, EdVerify, state-init "
        "hash via Cells/Boc, HMAC, ages); the facts TLC derives from the bytes must also equal the facts of the table row. "
        "Non-trivial = a Check event; distinct = distinct table rows + distinct mutated proofs.")

STD = ["v1r1", "v1r2", "v1r3", "v2r1", "v2r2", "v3r1", "v3r2", "v4r1", "v4r2", "v5beta", "v5r1"]
TCLASS = {"none": "valid", "si_no_code": "no_code_or_data", "si_no_data": "no_code_or_data", "si_no_code_no_data": "no_code_or_data",
          "si_other": "state_init_of_other_key", "si_attacker": "state_init_and_signature_of_other_key", "si_unknown_code": "unknown_code", "si_short_data": "short_data",
          "si_multi_root": "multi_root_boc", "si_garbage": "garbage_boc", "si_truncated": "truncated_boc", "si_bad_b64": "bad_base64",
          "si_empty": "no_state_init"}
# one input class: the presented address differs from the signed one in the workchain only
TCLASS.update({t: "workchain_only" for t in ("workchain", "wc_plus256", "wc_minus256", "wc_plus512", "wc_plus65536", "wc_minus65536",
                                             "wc_plus16777216", "wc_int32_max", "wc_int32_min")})
# one input class: a bag with stored hashes whose stored value is not the hash of the content it labels
TCLASS.update({t: "stored_hash_not_content_hash" for t in ("sih_root_claims_victim", "sih_all_claims_victim", "sih_code_claims_wallet")})
NSHARD = max(2, min(14, vlib.NCPU - 2))


def mismatch(want, g):
    """True iff the observable result g = {ok,key,err,panic} is NOT what the verdict `want` = {v,key} allows."""
    if g["panic"]:
        return True
    acc = g["ok"] and g["err"] == "" and g["key"] == want["key"]
    rej = (not g["ok"]) and g["err"] != ""
    return not ((want["v"] != "reject" and acc) or (want["v"] != "accept" and rej))


def key_of(e, want):
    """Stable key of a violation: key source, input class, symptom class (never the error text)."""
    cs, g, ps = e.get("case", {}), e["go"], e.get("ps", {"ok": False, "key": "", "panic": ""})
    src = "get_method" if cs.get("src") == "chain" else "state_init"
    t = cs.get("tamper", "?")
    cls = "malformed_bag" if t.startswith("malformed_bag") else TCLASS.get(t, t).replace(":", "_")
    if t == "none" and cs.get("time", "fresh") != "fresh":
        cls = cs["time"]
    ver = cs.get("ver", "?")
    if ver not in STD and t in ("none", "forged_zero_key"):      # the only rows whose verdict depends on the kind of contract
        cls = ver
    if g["panic"]:
        # the state-init parser handed back neither a key nor an error
        sym = "nil_key" if (ps["panic"] == "" and ps["ok"] and ps["key"] == "") else "panic"
    elif ps.get("panic"):
        sym = "parse_state_init_panic"       # CheckProof answered, tonconnect.ParseStateInit on the same text crashed
    elif g["ok"] and g["err"]:
        sym = "ok_with_error"
    elif g["ok"]:
        if want["v"] != "reject" and g["key"] != want["key"] or want["v"] == "reject" and g["key"] and set(g["key"]) == {"0"}:
            sym = "zero_key" if set(g["key"]) == {"0"} else "wrong_key"
        else:
            sym = "accepted"
    elif not g["err"]:
        sym = "rejected_without_error"
    else:
        sym = "rejected"
    return "C19:%s:%s:%s" % (src, cls, sym)


def slim(e, n=160):
    o = {}
    for k, x in e.items():
        if isinstance(x, str) and len(x) > n:
            o[k] = x[:n] + "...(%d)" % len(x)
        elif k == "f":
            continue
        else:
            o[k] = x
    return o


def strip(path, out):
    """Drop the crash-attribution records; returns (events, last Begin without a result or None)."""
    evs, pending = [], None
    lines = open(path).read().splitlines()
    ended = False
    for l in lines:
        try:
            e = json.loads(l)
        except Exception:
            break
        k = e.get("k")
        if k == "Begin":
            pending = e
        elif k == "Retry":
            pending = None
        elif k == "End":
            ended = True
        else:
            pending = None
            evs.append(e)
    vlib.write_ndjson(out, evs + [{"k": "End", "events": len(evs)}])
    return evs, (None if ended else (pending or {"k": "?"}))


def gen_vectors(ck):
    cfg = "gen/TonConnect_Gen_full.cfg" if ck.thorough else "gen/TonConnect_Gen_quick.cfg"
    res = ck.tlc_or_infra("TonConnect_Gen", cfg, workers=4, name="gen", timeout=600)
    rows = res.vecs()
    rows.sort(key=lambda v: (v["ver"] not in STD, v["ver"] != "v4r2", v["ver"], v["src"], v["tamper"], v["time"]))
    reps = 3 if ck.thorough else 1
    vecs = []
    for rep in range(reps):
        for v in rows:
            w = dict(v)
            w.update(vec=len(vecs), rep=rep, seed=ck.seed)
            vecs.append(w)
    # bags written by the specification: an ordinary StateInit root over exotic cells of every type and length (TonConnect_BagGen)
    bcfg = "gen/TonConnect_BagGen_full.cfg" if ck.thorough else "gen/TonConnect_BagGen_quick.cfg"
    bres = ck.tlc_or_infra("TonConnect_BagGen", bcfg, workers=4, name="baggen", timeout=900)
    bags = bres.vecs()
    bags.sort(key=lambda v: (v["t"], v["im"], v["dm"], v["len"], v["nrefs"], v["place"]))
    if len(bags) < 800 or any(b["why"] == "ACCEPTABLE" for b in bags) or len({b["tamper"] for b in bags}) < 14:
        raise Infra("bag generator incomplete: %d rows" % len(bags))
    for i, b in enumerate(bags):
        w = dict(b)
        w.update(vec=len(vecs), rep=0, seed=ck.seed, src=("si", "si_exit")[i % 2], ver=STD[i % len(STD)], time="fresh")
        vecs.append(w)
    # vacuity: the table must contain every key source, contract, tampering, and all three verdict classes
    dims = {d: {v[d] for v in rows} for d in ("src", "ver", "tamper", "time")}
    if len(dims["src"]) != 3 or len(dims["ver"]) != 17 or len(dims["tamper"]) < 63 or len(dims["time"]) != 5:
        raise Infra("decision table incomplete: %s" % {k: len(x) for k, x in dims.items()})
    if {v["want"]["v"] for v in rows} != {"accept", "reject", "free"}:
        raise Infra("decision table lacks a verdict class")
    return rows + bags, vecs


FACT_FIELDS = ["plWf", "plMac", "plFresh", "addrWf", "sigB64", "sigCanon", "prFresh", "domOK", "chain", "chainJunk", "sigChain", "siGiven", "siB64",
               "siCanon", "siBoc", "siLayout", "siHash", "siCode", "siData", "siWallet", "siKeyOK", "siFull", "sigSi"]


def judge_file(ck, path, name, table=None):
    """C->S: TLC judges every event of `path`. Returns (events, notes by line, rejected lines)."""
    res, rejected = ck.validate_events("TonConnect_Trace", "trace/TonConnect_Trace.cfg", path, timeout=3000, name=name, heap_gb=3)
    notes = {}
    for t in res.notes:
        try:
            notes[t[1]] = json.loads(t[2])
        except Exception:
            pass
    return notes, rejected


def run(ck):
    ck.assumptions += ["TLC 1.8.0, CommunityModules Json", "Prim (JDK / BigInteger): Sha256, HmacSha256, EdVerify, EdPubFromSeed, converters",
                       "Cells / Boc (C01, C02, C07) for the state-init hash", "the wall clock cannot be injected: ages are built relative to the "
                       "second of the call and a case is rebuilt if the call left that second; exactly-on-the-boundary ages are left free",
                       "the payload format nonce8|time8be|hmac16 is the library's own (time = second of issue); its net lifetime is "
                       "pinned end to end by real waiting (1-3 s lifetimes)", "times below 2^31 (year 2038)",
                       "wallet contracts = the 17 published code cells (hashes recomputed by TLC from the binaries); the 6 non-simple "
                       "ones (lockup, highload) may be accepted with the key in their data or rejected, never accepted otherwise",
                       "with a key from the get-method the supplied state-init is not needed: a broken one leaves the verdict free"]
    ck.build_vh()

    # ------------------------------------------------------------------ S->C
    rows, vecs = gen_vectors(ck)
    vp = os.path.join(ck.work, "vectors.ndjson")
    vlib.write_ndjson(vp, vecs)
    rp = os.path.join(ck.work, "replay_raw.ndjson")
    p = ck.run_vh(["replay", "C19", "-in", vp, "-out", rp], check=False, timeout=1200)
    tp = os.path.join(ck.work, "table.ndjson")
    evs, crashed = strip(rp, tp)
    if p.returncode != 0 and not crashed:
        raise Infra("vh replay C19 failed:\n" + p.stdout[-3000:])
    if crashed:
        cs = crashed.get("case", {})
        if not cs:
            raise Infra("vh replay C19 died outside a case:\n" + p.stdout[-3000:])
        ck.report("C19:%s:%s:fatal" % ("get_method" if cs.get("src") == "chain" else "state_init", TCLASS.get(cs.get("tamper"), cs.get("tamper"))),
                  "the process died (unrecoverable) inside CheckProof", {"kind": "vector", "vector": vecs[crashed["vec"]], "output": p.stdout[-2000:]})
    elif len(evs) != len(vecs):
        raise Infra("replay produced %d results for %d vectors" % (len(evs), len(vecs)))
    nmatch = 0
    reported = []
    for e in evs:
        if mismatch(e["want"], e["go"]) or e.get("ps", {}).get("panic"):
            reported.append(e)
        else:
            nmatch += 1
    # the most telling manifestation first: CheckProof outcomes on the table rows
    for e in reported:
        g = e["go"]
        ck.report(key_of(e, e["want"]), "decision-table row %s: the specification requires %s, Server.CheckProof gave ok=%s key=%s err=%s panic=%s" % (
            json.dumps(e["case"]), json.dumps(e["want"]), g["ok"], g["key"] or "-", g["err"] or "-", g["panic"] or "-"),
            {"kind": "event", "direction": "S->C", "event": e})
    ck.traces_ok += nmatch
    ck.evaluations += len(evs)
    ck.extra["table_rows"] = len(rows)
    ck.extra["table_cases_run"] = len(evs)
    ck.extra["table_verdicts"] = dict(collections.Counter(v["want"]["v"] for v in rows))
    hon = [e for e in evs if e["case"]["tamper"] == "none" and e["case"]["time"] == "fresh" and e["go"]["ok"]]
    if {(e["case"]["src"], e["case"]["ver"]) for e in hon} < {(s, v) for s in ("chain", "si", "si_exit") for v in STD}:
        log("note: some honest proofs of simple wallets are not accepted (reported above)")
    ck.sample({"direction": "S->C", "vector": {k: vecs[0][k] for k in ("src", "ver", "tamper", "time", "want")}, "result": slim(evs[0], 80)})
    # canary S->C: a corrupted expectation must be flagged by the comparison
    # (built from rows of the table with the result the row requires written in: independent of what the code did)
    def conform(e):
        c = copy.deepcopy(e)
        c["go"] = ({"ok": True, "key": e["want"]["key"], "err": "", "panic": ""} if e["want"]["v"] == "accept" else {"ok": False, "key": "", "err": "e", "panic": ""})
        c["ps"] = dict(c.get("ps", {}), panic="")
        return c
    acc = conform(next(e for e in evs if e["case"] == {"src": "si", "ver": "v4r2", "tamper": "none", "time": "fresh"} and e["want"]["v"] == "accept"))
    rej = conform(next(e for e in evs if e["case"].get("tamper") == "signer" and e["want"]["v"] == "reject"))
    ck.canary("S->C: expectation accept->reject, reject->accept, other key are flagged",
              mismatch({"v": "reject", "key": ""}, acc["go"]) and mismatch({"v": "accept", "key": acc["want"]["key"]}, rej["go"])
              and mismatch({"v": "accept", "key": "00" * 32}, acc["go"]) and not mismatch(acc["want"], acc["go"]) and not mismatch(rej["want"], rej["go"]))

    # ------------------------------------------------------------------ C->S: the same concrete proofs judged from their bytes
    shards = []
    ntab = NSHARD if ck.thorough else min(8, NSHARD)      # fewer, longer TLC processes in the quick tier: JVM start-up dominates
    for i in range(ntab):
        part = evs[i::ntab]
        if part:
            sp = os.path.join(ck.work, "table_%02d.ndjson" % i)
            vlib.write_ndjson(sp, part + [{"k": "End", "events": len(part)}])
            shards.append((sp, part))
    # ---- and the recorded drivers (payload functions, real waiting, substitutions and bit flips)
    dshards = 4 if not ck.thorough else NSHARD
    def drive(i):
        raw = os.path.join(ck.work, "drive_raw_%02d.ndjson" % i)
        pr = ck.run_vh(["drive", "C19", "-out", raw, "-tier", ck.tier, "-seed", ck.seed, "-shard", i, "-shards", dshards], check=False, timeout=1800)
        out = os.path.join(ck.work, "drive_%02d.ndjson" % i)
        de, cr = strip(raw, out)
        return out, de, cr, pr
    drives = vlib.parallel(drive, range(dshards))
    jobs = list(shards)
    pooled = []
    for out, de, cr, pr in drives:
        if cr:
            cs = cr.get("case")
            if not cs:
                raise Infra("vh drive C19 died:\n" + pr.stdout[-3000:])
            ck.report("C19:%s:%s:fatal" % ("get_method" if cs.get("src") == "chain" else "state_init", cs.get("tamper", "?").replace(":", "_")),
                      "the process died (unrecoverable) inside CheckProof", {"kind": "begin", "begin": cr, "output": pr.stdout[-2000:]})
        pooled += de
    # spread the driver events over TLC processes of a few hundred events each (the bag sweep is the bulk of them)
    nsplit = max(1, min(NSHARD, (len(pooled) + 449) // 450))
    for j in range(nsplit):
        part = pooled[j::nsplit]
        if part:
            sp = os.path.join(ck.work, "drive_part_%02d.ndjson" % j)
            vlib.write_ndjson(sp, part + [{"k": "End", "events": len(part)}])
            jobs.append((sp, part))
    def val(job):
        return judge_file(ck, job[0], "trace_" + os.path.basename(job[0]).replace(".ndjson", ""))
    results = vlib.parallel(val, jobs, n=NSHARD)
    kinds = collections.Counter()
    verd = collections.Counter()
    distinct = set()
    inconsistent, sig_only, layout_broken = [], [], []
    bad_ids = set()
    for (sp, part), (notes, rejected) in zip(jobs, results):
        bad = {rj["line"] for rj in rejected}
        bad_ids |= {id(part[i - 1]) for i in bad}
        for i, e in enumerate(part, 1):
            kinds[e["k"]] += 1
            n = notes.get(i)
            if n is None:
                raise Infra("no NOTE for line %d of %s" % (i, sp))
            verd[(e["k"], n["v"])] += 1
            if e["k"] == "Check":
                distinct.add((e["address"], e["sig"], e["ts"], e["payload"], e["domain"], e["state_init"][:64], e["state_init"][-64:]))
            if e["k"] == "Check" and "vec" in e:
                # facts from the bytes (B) against the facts of the table row (A): the harness must have built what the row names
                row = vecs[e["vec"]]
                if row.get("kind") == "bag":
                    # the generator's reason for the rejection must be the one the bytes give (the harness presented that very bag)
                    fb = n["f"]
                    why = ("no_reading" if not fb["siBoc"] else "layout" if not fb["siLayout"] else "hash" if not fb["siHash"] else
                           "no_code_or_data" if not (fb["siCode"] and fb["siData"]) else "unknown_code" if fb["siWallet"] == "unknown" else
                           "no_key" if not fb["siKeyOK"] else "ACCEPTABLE")
                    if n["v"] != "reject" or why != row["why"] or fb["chain"] != "none" or not fb["sigB64"] or not fb["plMac"]:
                        inconsistent.append((e["case"], row["why"], why, n["v"]))
                        continue
                    if i in bad:
                        g = e["go"]
                        ck.report(key_of(e, {"v": "reject", "key": ""}), "state-init bag written by the specification (%s cell of %d bytes, %s): the specification requires a rejection "
                                  "with an error, Server.CheckProof gave ok=%s key=%s err=%s panic=%s, ParseStateInit panic=%s" % (row["tamper"], row["len"], row["place"], g["ok"], g["key"] or "-",
                                  g["err"] or "-", g["panic"] or "-", e["ps"]["panic"] or "-"), {"kind": "event", "direction": "C->S", "event": e})
                    continue
                fa, fb = row["f"], n["f"]
                diff = {k: (fa[k], fb[k]) for k in FACT_FIELDS if fa[k] != fb[k]}
                # the code cell the wallet package puts into a state-init of version V must be the published contract V
                if fb["siCode"] and row["tamper"] not in ("address", "si_unknown_code", "sih_code_claims_wallet") and fb["siVersion"] != row["ver"]:
                    ck.report("C19:wallet_code:%s:not_the_published_contract" % row["ver"], "the state-init the wallet package builds for %s carries a code "
                              "cell whose hash is that of %s in the list of published wallet contracts" % (row["ver"], fb["siVersion"]),
                              {"kind": "event", "direction": "C->S", "event": e})
                    continue
                wa = e["want"]
                same = n["v"] == wa["v"] and n["key"] == wa["key"] and not diff and n["owner"]
                if not same:
                    # a signature the table expects to be valid (made by CreateSignedProof) that is not valid over the message
                    # TON Connect prescribes: if the code itself accepts such a proof, signer and verifier share a wrong layout
                    # (once CreateSignedProof is known to sign another message than the prescribed one, a tampered proof may as well
                    # turn out valid over the prescribed message: signature facts of either polarity are then attributed to that)
                    sigonly = diff and set(diff) <= {"sigChain", "sigSi"}
                    lost = sigonly and all(a and not b for a, b in diff.values())
                    if lost and row["tamper"] == "none" and e["go"]["ok"]:
                        layout_broken.append(e)
                        ck.report("C19:message_layout:honest_signature_invalid_under_spec_message",
                                  "a proof made by CreateSignedProof and accepted by CheckProof does not verify (EdVerify) over the message "
                                  "TON Connect prescribes: both sides share a wrong layout", {"kind": "event", "direction": "C->S", "event": e})
                    elif sigonly:
                        sig_only.append((e["case"], wa, {"v": n["v"], "key": n["key"]}, diff, n["owner"]))
                    else:
                        inconsistent.append((e["case"], wa, {"v": n["v"], "key": n["key"]}, diff, n["owner"]))
                    continue
            if i in bad:
                if e["k"] == "Check":
                    want = {"v": n["v"], "key": n["key"]}
                    g = e["go"]
                    ck.report(key_of(e, want), "recorded proof %s: from its bytes the specification derives %s, Server.CheckProof gave ok=%s key=%s err=%s panic=%s" % (
                        json.dumps(e.get("case")), json.dumps(want), g["ok"], g["key"] or "-", g["err"] or "-", g["panic"] or "-"),
                        {"kind": "event", "direction": "C->S", "event": e})
                else:
                    g = e["go"]
                    sym = "panic" if g["panic"] else ("accepted" if g["ok"] else "rejected")
                    if e["k"] == "Issued" and n["v"] == "malformed":
                        ck.report("C19:GeneratePayload:tag_is_not_the_hmac_of_nonce_and_time", "GeneratePayload returned a payload whose last 16 bytes are not "
                                  "HMAC-SHA256(secret, first 16 bytes)[0:16] (or that is not 32 bytes of hex)", {"kind": "event", "direction": "C->S", "event": e})
                        continue
                    ck.report("C19:%s:%s:%s" % ("CheckPayload" if e["k"] in ("Payload", "Tampered") else "GeneratePayload", ("issued_" if e["k"] == "Tampered" else "") + e.get("class", "age=%d,life=%d" % (int(e["now"]) - int(e.get("issued", e["now"])), e["lp"])), sym),
                              "%s event: the specification requires %s, the code gave ok=%s err=%s panic=%s" % (e["k"], n["v"], g["ok"], g["err"] or "-", g["panic"] or "-"),
                              {"kind": "event", "direction": "C->S", "event": e})
    if not layout_broken:
        inconsistent += sig_only
    flagged = bool(ck.violations or ck.known_hit)      # guards below must not turn reported violations into "no verdict"
    if inconsistent and flagged:
        ck.notes.append("%d concrete cases do not realise their decision-table row (secondary to the violations reported)" % len(inconsistent))
    elif inconsistent:
        raise Infra("%d concrete cases do not realise their decision-table row (harness or table defect), first: %s" % (len(inconsistent), json.dumps(inconsistent[0])[:1500]))
    sweep = collections.Counter(e["case"]["tamper"] for e in pooled if e.get("k") == "Check" and "bag" in e)
    ck.extra["bag_sweep_events"] = sum(sweep.values())
    ck.extra["bag_sweep_by_region"] = dict(sweep)
    # vacuity of the garbage-state-init sweep: every contract's bag intact, and all structural regions corrupted
    if sweep["bag:intact"] < 17 or any(sweep["bag:" + r] < 17 for r in ("header", "rootlist", "d1", "d2", "ref", "data", "trunc_header", "trunc_ref", "trunc_data")):
        raise Infra("bag sweep incomplete: %s" % dict(sweep))
    ck.extra["events_by_kind"] = dict(kinds)
    ck.extra["trace_verdicts"] = {"%s:%s" % k: v for k, v in sorted(verd.items())}
    # vacuity of the C->S side
    if kinds["Payload"] < 30 or kinds["Issued"] < 12 or kinds["Tampered"] < 80 or kinds["Check"] < len(evs) + 100:
        raise Infra("driver recorded too little: %s" % dict(kinds))
    for need in (("Check", "accept"), ("Check", "reject"), ("Check", "free"), ("Payload", "accept"), ("Payload", "reject"), ("Issued", "accept"), ("Issued", "reject"),
                 ("Tampered", "reject"), ("Tampered", "free")):
        if not verd[need] and not flagged:
            raise Infra("no %s event with derived verdict %s: vacuous" % need)
    dsample = next((e for _, de, _, _ in drives for e in de if e["k"] == "Check" and e["case"]["tamper"] != "none"), None)
    if dsample:
        ck.sample({"direction": "C->S", "event": slim(dsample, 80)})
    isample = next((e for _, de, _, _ in drives for e in de if e["k"] == "Issued"), None)
    if isample:
        ck.sample({"direction": "C->S", "event": isample})

    # ------------------------------------------------------------------ canaries for C->S (TLC must reject each corrupted copy)
    base = acc
    def b64flip(hexs, pos):
        raw = bytearray(base64.b64decode(bytes.fromhex(hexs)))
        raw[pos % len(raw)] ^= 0x10
        return base64.b64encode(bytes(raw)).hex()
    c1 = copy.deepcopy(base); c1["sig"] = b64flip(c1["sig"], 5)                                  # signature no longer valid, verdict still 'accept'
    c2 = copy.deepcopy(base); c2["go"]["key"] = c2["go"]["key"][:-1] + ("0" if c2["go"]["key"][-1] != "0" else "1")   # other key logged
    c3 = copy.deepcopy(base); c3["state_init"] = b64flip(c3["state_init"], -3)                  # state-init no longer hashes to the address
    c4 = copy.deepcopy(base); c4["now"] = str(int(c4["now"]) + c4["lpr"] + 10)                  # proof expired at that time
    c5 = copy.deepcopy(base); c5["want_domain"] = c5["want_domain"] + "2e"                       # proof for another domain
    c6 = copy.deepcopy(base); pl = bytes.fromhex(c6["payload"]).decode(); c6["payload"] = (pl[:-1] + ("0" if pl[-1] != "0" else "1")).encode().hex()  # MAC broken
    c7 = copy.deepcopy(rej); c7["go"] = dict(acc["go"])                                          # a rejected proof logged as accepted
    c8 = copy.deepcopy(base); c8["go"] = {"ok": False, "key": "", "err": "", "panic": "boom"}    # a panic
    pev = copy.deepcopy(next(e for _, de, _, _ in drives for e in de if e["k"] == "Payload" and e.get("class") == "fresh"))
    pev["go"] = {"ok": True, "key": "", "err": "", "panic": ""}
    tev = copy.deepcopy(next(e for _, de, _, _ in drives for e in de if e["k"] == "Tampered" and e.get("class") == "time_byte"))
    tev["go"] = {"ok": True, "key": "", "err": "", "panic": ""}                                  # an altered issued payload logged as accepted
    c9 = copy.deepcopy(pev); c9["go"] = {"ok": False, "key": "", "err": "e", "panic": ""}        # valid payload logged as refused
    c10 = copy.deepcopy(pev); c10["secret"] = ("%02x" % (int(c10["secret"][:2], 16) ^ 1)) + c10["secret"][2:]                              # other secret: accepted payload is not the server's
    cp = os.path.join(ck.work, "canary.ndjson")
    # the account answers 0 to get_public_key, a degenerate signature, logged as accepted with the key 00..00
    cz = copy.deepcopy(next(e for e in evs if e["case"].get("tamper") == "ck_zero_degenerate" and e["case"]["src"] == "chain"))
    cz["go"] = {"ok": True, "key": "00" * 32, "err": "", "panic": ""}
    cans = [c1, c2, c3, c4, c5, c6, c7, c8, c9, c10, tev, cz, base, pev]
    vlib.write_ndjson(cp, cans + [{"k": "End", "events": len(cans)}])
    st = (ck.states, ck.transitions, ck.traces_ok, ck.evaluations)
    _, crej = judge_file(ck, cp, "canary")
    ck.states, ck.transitions, ck.traces_ok, ck.evaluations = st
    got = [r["line"] for r in crej]
    ck.canary("C->S: broken signature / other key / altered state-init / expired / other domain / broken MAC / reject logged as accept / panic / "
              "payload verdict flipped / other secret / altered issued payload accepted / keyless acceptance under a junk chain answer are rejected, the conforming originals accepted", got == list(range(1, 13)))
    return ck.finish(rule=RULE, distinct=len(rows) + len(distinct))


def replay(ck, path):
    """Re-execute the stored concrete event against the current tree (lifetimes extended by the time passed) and let TLC judge it again."""
    ck.build_vh()
    rp = json.load(open(path))["replay"]
    if "event" not in rp:
        print(json.dumps(rp)[:3000])
        print("no concrete event stored (fatal crash record); re-run bin/check C19")
        return 2
    ip, raw, out = os.path.join(ck.work, "in.ndjson"), os.path.join(ck.work, "raw.ndjson"), os.path.join(ck.work, "out.ndjson")
    vlib.write_ndjson(ip, [rp["event"]])
    ck.run_vh(["exec", "C19", "-in", ip, "-out", raw])
    evs, crashed = strip(raw, out)
    if crashed or len(evs) != 1:
        print("VIOLATION property=C19 replay=%s   # process died" % path)
        return 1
    notes, rejected = judge_file(ck, out, "replay")
    e, n = evs[0], notes[1]
    print(json.dumps({"case": e.get("case"), "go": e["go"], "spec": {"v": n["v"], "key": n.get("key", "")}}))
    if rejected:
        print("VIOLATION property=C19 replay=%s" % path)
        return 1
    return 0
