# C11: ADNL-over-TCP transport (spec/Adnl.tla): handshake and frames interoperate, corruption is detected.
import json, os, copy, re
import vlib
from vlib import Infra, log

RULE = ("MC: exhaustive TLC runs of the Adnl byte-level state machine (real SHA-256/AES-CTR/X25519, tiny payloads, every split "
        "point of the streams, one corrupted byte or cut anywhere) with DeliveredIsPrefixOfSent, NothingFromHitFrameOn, "
        "AllUndamagedDelivered, SessionAgreement as invariants. S->C: one TLC behaviour of Adnl_Gen per plan (fault class x sizes "
        "from {0,1,3,4,60,1000,65535} x target frame/region x segmentation) executed step by step against liteclient.NewConnection/"
        "Send/Responses over loopback TCP through the scripted reference server, and its spec-produced server->client byte stream "
        "fed to liteclient.ParsePacket; delivered payloads, counts, read sizes and failure are compared with the specification's. "
        "Payload content classes: payloads starting with the tcp.pong / tcp.ping / tcp.authentificationNonce / tcp.authentificationComplete / "
        "adnl.message.query / adnl.message.answer ids at lengths 4, 11, 12, 13, 16, 20, 64, 1000, each followed by a marker packet; Adnl.Absorbs says which "
        "valid packets the connection keeps (a 12-byte pong; free for the authentication nonce), every other one must reach Responses() once, in order "
        "(C11:packet-swallowed:<content class>; Absorb events judged by Adnl_Trace). "
        "One server identity: two complete earlier connections, the scripted one and the client's own reconnect after a drop, all in one "
        "process; every handshake is verified by the reference server and judged by Adnl_Trace (a function of server key, ephemeral key and "
        "parameters only). Dial deadline: a script dialled under context.WithTimeout(300 ms) whose whole data traffic happens after the deadline (Adnl.TimePasses: "
        "not a fault, everything must still be delivered). Resend: the same liteclient.Packet value handed to Send again on the same connection and "
        "after a first send on another connection (Adnl.Resend), the server must decode exactly the payload and the value must be unchanged after Send. "
        "Every packet object handed out by Responses()/ParsePacket is kept (not copied) and re-read after each later packet and at the end; "
        "a held payload that no longer equals the sent one is C11:payload-changed-after-delivery (Recheck events, judged by Adnl_Trace). "
        "C->S: every executed connection plus free-running echo sessions (random sizes 0..65536) is recorded (server seed, raw "
        "bytes as they arrived, API-level sends/deliveries) and Adnl_Trace decrypts and verifies it with Prim. "
        "distinct = scripts replayed (two modes each) + recorded connections accepted.")

NCLS = 51
# divergences that are hard evidence by themselves: an object handed out by the API holds bytes other than the sent
# payload while TLC verifies on the recorded stream that the server sent the right ones; no socket or timer is involved
# in what was observed, and whether the recycled buffer is hit again depends on the Go scheduler - so no re-run is demanded
HARD = ("payload-changed-after-delivery", "client-delivered-other-payload")


class Crash(Exception):
    """the code under test killed the harness process (panic in one of the client's goroutines)"""


def key_of_result(r):
    return r.get("key") or "C11:%s:%s" % (r.get("mode", "?"), r.get("cls", "?"))


def model_check(ck):
    """exhaustive instances; a violated invariant here is a defect of the model, never a verdict on the code"""
    jobs = []
    for name, subst in (("s2c", {"MaxS = 2": "MaxS = %d" % (2 if ck.thorough else 1)}),
                        ("c2s", {"MaxC = 2": "MaxC = %d" % (2 if ck.thorough else 1)})):
        cfg = open(os.path.join(vlib.SPEC, "mc/Adnl_MC_%s.cfg" % name)).read()
        for a, b in subst.items():
            if a not in cfg:
                raise Infra("mc/Adnl_MC_%s.cfg: expected '%s'" % (name, a))
            cfg = cfg.replace(a, b)
        if ck.thorough:
            cfg = cfg.replace("Deltas = {1, 128}", "Deltas = {1, 4, 128, 255}")
        p = os.path.join(ck.work, "Adnl_MC_%s.cfg" % name)
        open(p, "w").write(cfg)
        jobs.append((name, p))

    def mc(j):
        name, p = j
        res = ck.tlc_or_infra("Adnl_MC", os.path.relpath(p, vlib.SPEC), workers=4, timeout=2400, name="mc_" + name, heap_gb=6)
        if not res.completed or res.left != 0:
            raise Infra("model checking of Adnl_MC_%s did not complete" % name)
        return name, res
    return jobs, mc


def gen_vectors(ck, count, shards):
    per = (count + shards - 1) // shards
    base = open(os.path.join(vlib.SPEC, "gen/Adnl_Gen.cfg")).read()

    def gen(i):
        cfg = base.replace("First = 1", "First = %d" % (1 + i * per)).replace("Count = 40", "Count = %d" % per) \
                  .replace("Salt = 1", "Salt = %d" % (ck.seed % 60000))
        if cfg == base and (i or per != 40 or ck.seed != 1):
            raise Infra("gen/Adnl_Gen.cfg: substitution failed")
        p = os.path.join(ck.work, "Adnl_Gen_%02d.cfg" % i)
        open(p, "w").write(cfg)
        res = ck.tlc_or_infra("Adnl_Gen", os.path.relpath(p, vlib.SPEC), workers=1, timeout=2400, name="gen_%02d" % i, heap_gb=4)
        vs = res.vecs()
        if len(vs) != per:
            raise Infra("generator shard %d produced %d of %d scripts" % (i, len(vs), per))
        return vs
    return gen, per


def check_generated(ck, vecs):
    """vacuity: every fault class is present and does what its name says"""
    classes = {}
    for v in vecs:
        classes.setdefault(v["cls"], []).append(v)
        if not v["pp"]["agrees"]:
            raise Infra("generator: batch decoding and step-wise delivery disagree in script %d" % v["id"])
    if len(classes) < NCLS - 2:   # the three fault-free rows share one name
        raise Infra("generator covered only %d classes" % len(classes))
    for name, vs in classes.items():
        f, d, tgt, reg = name.split("-")
        for v in vs:
            hit = v["hit"][0 if d == "c2s" else 1]
            if f in ("flip", "trunc", "hdr") and tgt != "hs" and reg != "end" and hit != v["j"]:
                raise Infra("generator: script %d (%s) did not hit frame %d (hit=%s)" % (v["id"], name, v["j"], v["hit"]))
            if f == "none" and v["hit"] != [0, 0]:
                raise Infra("generator: fault-free script %d has a hit" % v["id"])
    for nm, want in (("pong", "yes"), ("authnonce", "free"), ("ping", "no"), ("authcomplete", "no"), ("query", "no"), ("answer", "no")):
        vs = classes.get("none-s2c-ids-" + nm, [])
        users = [s["user"] for v in vs for s in v["steps"] if s["k"] == "Dlv" and s["d"] == "s2c" and s.get("res") == "pkt" and s["idx"] % 2 == 0]
        lens = {s["size"] for v in vs for s in v["steps"] if s["k"] == "Send" and s["d"] == "s2c" and s.get("pre")}
        if not vs or lens != {4, 11, 12, 13, 16, 20, 64, 1000} or want not in users or (want == "yes" and users.count("yes") != len(vs)) \
                or (want == "no" and set(users) != {"no"}):
            raise Infra("generator: content class %s is not exercised as intended (%s, %s)" % (nm, sorted(lens), sorted(set(users))))
    for v in classes.get("none-s2c-deadline-none", []) or [None]:
        ks = [s["k"] for s in v["steps"]] if v else []
        if not v or v["steps"][0].get("dial", 0) <= 0 or "Wait" not in ks or any(k == "Send" for k in ks[:ks.index("Wait")]) \
                or v["steps"][-1]["nd"][0] < 1 or v["steps"][-1]["nd"][1] < 2:
            raise Infra("generator: no script with a dial deadline followed by traffic in both directions")
    for v in classes.get("none-c2s-resend-none", []) or [None]:
        snd = [s for s in v["steps"] if s["k"] == "Send" and s["d"] == "c2s"] if v else []
        if [s["again"] for s in snd] != [0, 1, 0, 1, 0, 5] or not snd[2]["elsewhere"] or v["steps"][-1]["nd"][0] != 6:
            raise Infra("generator: the resend script is not as intended")
    for v in classes.get("none-s2c-reuse-none", []) or [None]:
        if not v or v["steps"][0].get("prior") != 2 or v["steps"][-1].get("reconnect") is not True:
            raise Infra("generator: no script with several connections to one server identity")
    shrink = [v for v in classes.get("none-s2c-shrink-none", []) if v["steps"][-1]["nd"][1] == 5]
    if not shrink:
        raise Infra("generator: no fault-free script with non-growing server->client payloads was delivered completely")
    sizes = set()
    for v in vecs:
        for s in v["steps"]:
            if s["k"] == "Send":
                sizes.add(s["size"])
    need = {0, 1, 3, 4, 60, 1000, 65535} if ck.thorough else {0, 1, 3, 4, 60, 1000}
    if not need <= sizes:
        raise Infra("generator did not use payload sizes %s" % sorted(need - sizes))
    return classes


def run_replay(ck, i, vecs, tag="r"):
    vp = os.path.join(ck.work, "%s_vec_%02d.ndjson" % (tag, i))
    rp = os.path.join(ck.work, "%s_res_%02d.ndjson" % (tag, i))
    tp = os.path.join(ck.work, "%s_trace_%02d.ndjson" % (tag, i))
    vlib.write_ndjson(vp, vecs)
    p = ck.run_vh(["replay", "C11", "-in", vp, "-out", rp, "-seed", ck.seed * 1000 + i, tp], timeout=1800, check=False)
    if p.returncode != 0:
        if len(vecs) > 1 and re.search(r"^(panic:|fatal error:)", p.stdout, re.M):
            # the client crashed the harness process: find the script(s) that do it, one process per script
            rs, crashed = [], []
            for n, v in enumerate(vecs):
                try:
                    r1, _ = run_replay(ck, 100 * (i + 1) + n, [v], tag=tag + "_solo")
                    rs += r1
                except Crash as c:
                    crashed.append((v, c))
            if not crashed:
                raise Infra("vh replay crashed once on shard %d and not script by script:\n%s" % (i, p.stdout[-3000:]))
            for v, c in crashed:
                ck.report("C11:conn:%s:crash" % v["cls"], "the client crashes the process while executing script %d (%s): %s" % (
                    v["id"], v["cls"], str(c)[-600:]), {"kind": "vector", "mode": "conn", "vector": v})
                rs += [{"vec": v["id"], "cls": v["cls"], "mode": m_, "match": True, "crashed": True} for m_ in ("pp", "conn")]
            open(tp, "w").write(json.dumps({"k": "End", "events": 0}) + "\n")
            return rs, tp
        if len(vecs) == 1 and re.search(r"^(panic:|fatal error:)", p.stdout, re.M):
            raise Crash(p.stdout[-3000:])
        raise Infra("vh replay failed (%d):\n%s" % (p.returncode, p.stdout[-4000:]))
    rs = vlib.read_ndjson(rp)
    if not rs or rs[-1].get("k") != "End" or rs[-1]["events"] != len(vecs) or len(rs) != 2 * len(vecs) + 1:
        raise Infra("replay shard %d did not finish" % i)
    return rs[:-1], tp


def guarded(ck, f):
    """a canary judges the checker; when the run has already found violations a canary that cannot be set up
    (e.g. no healthy recording to corrupt) must not turn the verdict into an infrastructure failure"""
    try:
        f()
    except (Infra, IndexError, KeyError, StopIteration) as e:
        if not ck.violations:
            if isinstance(e, Infra):
                raise
            raise Infra("canary could not be built: %r" % e)
        ck.notes.append("canary skipped after violations were found: %s" % str(e)[:200])


def short(e, n=160):
    return {k: (v if len(str(v)) <= n else str(v)[:n] + "...") for k, v in e.items()}


def run(ck):
    ck.assumptions += ["TLC 1.8.0 + CommunityModules Json", "Prim: SHA-256, SHA-512, AES-256-CTR, X25519, Ed25519 key conversion (JDK / BigInteger)",
                       "the reference server (harness/internal/adnlsrv, stdlib only) is itself judged by Adnl_Trace on every recorded connection",
                       "length bounds 64..8 MiB as stated by the property; the 8 MiB edge is exercised header-only",
                       "a client-side receiver that stops on a damaged frame is observable only as 'nothing more delivered' (tongo closes no channel)",
                       "of the valid server->client packets the connection may keep exactly a 12-byte tcp.pong; a packet starting with the "
                       "tcp.authentificationNonce id may be kept or handed on (authentication is outside C11); every other packet must reach Responses()"]
    ck.build_vh()
    shards = 12 if ck.thorough else 2
    count = 1500 if ck.thorough else NCLS
    mc_jobs, mc = model_check(ck)
    gen, per = gen_vectors(ck, count, shards)

    # ---- model checking and generation run side by side
    def job(x):
        return mc(x[1]) if x[0] == "mc" else gen(x[1])
    items = [("mc", j) for j in mc_jobs] + [("gen", i) for i in range(shards)]
    results = vlib.parallel(job, items, n=8 if ck.thorough else 4)
    mcres = results[:len(mc_jobs)]
    shard_vecs = results[len(mc_jobs):]
    for name, res in mcres:
        ck.extra["mc_" + name] = {"distinct": res.distinct, "generated": res.generated, "wall_s": round(res.wall, 1)}
    vecs = [v for vs in shard_vecs for v in vs]
    classes = check_generated(ck, vecs)
    ck.extra["scripts"] = len(vecs)
    ck.extra["classes"] = len(classes)

    # ---- S->C: execute the scripts against the real client (also records every connection)
    rep = vlib.parallel(lambda i: run_replay(ck, i, shard_vecs[i]), range(shards), n=6)
    by_id = {v["id"]: v for v in vecs}
    nmatch = 0
    suspects = []
    for rs, _ in rep:
        for r in rs:
            if r["match"]:
                nmatch += 1
            else:
                suspects.append(r)
    # anything that involves real sockets and timers is run a second time before it is reported
    for r in suspects:
        v = by_id[r["vec"]]
        if r.get("what") in HARD:
            ck.report(key_of_result(r), "script %d (%s), mode %s, step %s: %s; specification requires %s, observed %s" % (
                r["vec"], r["cls"], r["mode"], r.get("i"),
                "a packet handed out earlier no longer holds the payload that was sent once later packets have been read"
                if r["what"] == HARD[0] else "the packet handed out does not hold the payload that was sent",
                json.dumps(short(r.get("exp", {}))), json.dumps(short(r.get("got", {})))),
                {"kind": "vector", "mode": r["mode"], "vector": v})
            continue
        try:
            rs2, _ = run_replay(ck, 90 + len(ck.violations), [v], tag="again")
        except Crash as c:
            ck.report("C11:conn:%s:crash" % v["cls"], "the client crashes the process while executing script %d: %s" % (v["id"], str(c)[-600:]),
                      {"kind": "vector", "mode": "conn", "vector": v})
            continue
        again = [x for x in rs2 if x["mode"] == r["mode"]][0]
        if again["match"]:
            raise Infra("script %d (%s, %s) diverged once (%s) and not when re-run: not reproducible" % (r["vec"], r["cls"], r["mode"], r.get("what")))
        ck.report(key_of_result(again), "script %d (%s) diverges in mode %s at step %s: specification requires %s, observed %s" % (
            r["vec"], r["cls"], r["mode"], again.get("i"), json.dumps(short(again.get("exp", {}))), json.dumps(short(again.get("got", {})))),
            {"kind": "vector", "mode": r["mode"], "vector": v})
    ck.traces_ok += nmatch
    ck.evaluations += 2 * len(vecs)
    same = [r["info"]["handshakes_same_server"] for rs, _ in rep for r in rs if r.get("info", {}).get("handshakes_same_server")]
    ck.extra["handshakes_with_one_server_identity"] = same[:8]
    if not suspects and (not same or min(same) < 4):
        raise Infra("no script completed two earlier connections, the scripted one and a reconnect with one server identity")
    stopped = [r["info"] for rs, _ in rep for r in rs if r.get("info", {}).get("receiver_stopped")]
    ck.extra["client_receiver_stopped"] = len(stopped)
    ck.extra["of_which_Status_still_Connected"] = sum(1 for x in stopped if x["status_connected"])
    v0 = next(v for v in vecs if v["cls"].startswith("flip-s2c-later"))
    ck.sample({"direction": "S->C", "script": v0["cls"], "hit": v0["hit"],
               "steps": [{k: x for k, x in s.items() if k in ("k", "d", "n", "size", "idx", "pos", "mask", "res", "ok", "nd")} for s in v0["steps"]]})

    # ---- S->C canaries: corrupted expectations (the inputs stay as generated, so the outcome does not depend on
    #      whether the code under test is right) must be flagged
    def sc_canaries():
        clean = next(v for v in vecs if v["cls"].startswith("none") and v["steps"][-1]["nd"][1] >= 2)
        c1 = copy.deepcopy(clean); c1["steps"][-1]["nd"][1] += 1
        c2 = copy.deepcopy(clean); c2["pp"]["pkts"][-1]["sha"] = "00" + c2["pp"]["pkts"][-1]["sha"][2:]
        c3 = copy.deepcopy(clean); c3["pp"]["pkts"] = c3["pp"]["pkts"][:-1]
        rs, _ = run_replay(ck, 80, [c1, c2, c3], tag="canary")
        conn_rs = [r for r in rs if r["mode"] == "conn"]
        pp_rs = [r for r in rs if r["mode"] == "pp"]
        if len(conn_rs) != 3 or len(pp_rs) != 3:
            raise Infra("canary replay incomplete")
        ck.canary("S->C: expected delivered count raised by one (conn)", sum(1 for r in conn_rs if not r["match"]) == 1)
        ck.canary("S->C: expected payload hash altered / expected packet list shortened (ParsePacket)", sum(1 for r in pp_rs if not r["match"]) == 2)
    guarded(ck, sc_canaries)

    # ---- C->S: recorded connections (scripted + echo sessions) judged by Adnl_Trace
    eshards = 8 if ck.thorough else 2

    def drive(i):
        tp = os.path.join(ck.work, "echo_%02d.ndjson" % i)
        ck.run_vh(["drive", "C11", "-out", tp, "-tier", ck.tier, "-seed", ck.seed, "-shard", i, "-shards", eshards], timeout=1800)
        return tp
    traces = [tp for _, tp in rep if os.path.getsize(tp) > 100] + vlib.parallel(drive, range(eshards), n=4)

    def val(tp):
        return ck.validate_segments("Adnl_Trace", "trace/Adnl_Trace.cfg", tp, timeout=3000, name="trace_" + os.path.basename(tp)[:-7], heap_gb=6)
    nseg = 0
    for tp, (res, rejected) in zip(traces, vlib.parallel(val, traces, n=8 if ck.thorough else 4)):
        nseg += len(res.tuples("SEG"))
        for rj in rejected:
            head = rj["segment"][0]
            e = rj["event"]
            vec = by_id.get(head.get("id")) if head.get("src") == "script" else None
            ck.report("C11:payload-changed-after-delivery" if e.get("k") == "Recheck" else
                      "C11:trace:%s:%s%s" % (head.get("cls"), e.get("k"), ("-" + e["d"]) if "d" in e else ""),
                      "recorded connection is not a behaviour of Adnl: segment at line %d (%s) accepted %d of %d events; rejected event %s" % (
                          rj["seg"], head.get("cls"), rj["accepted"], rj["length"], json.dumps(short(e))),
                      {"kind": "trace", "segment": rj["segment"], "rejected_index": rj["accepted"], "vector": vec})
    ck.extra["connections_recorded"] = nseg
    evs = vlib.read_ndjson(traces[0])
    ck.sample({"direction": "C->S", "events": [short(e, 48) for e in evs[:9]]})

    # ---- C->S canaries on one recorded echo session: one byte of a recorded stream flipped; a delivery dropped;
    #      a delivered payload altered -> each must be rejected
    def cs_canaries():
        evs = [e for e in vlib.read_ndjson(traces[-eshards]) if e.get("k") != "End"]
        starts = [i for i, e in enumerate(evs) if e["k"] == "Reset"] + [len(evs)]
        seg = None
        for a, b in zip(starts, starts[1:]):
            s = evs[a:b]
            if sum(1 for e in s if e["k"] == "Dlv" and e["d"] == "s2c" and e["hex"]) >= 1 and s[-1]["k"] == "Quiesce" and len(s[-1]) == 2 \
                    and any(e["k"] == "Recheck" for e in s):
                seg = s
                break
        if seg is None:
            raise Infra("no complete echo session to build canaries from")

        def flipped(h, pos):
            b = bytearray.fromhex(h); b[pos % len(b)] ^= 0x10
            return b.hex()
        cans = []
        i_c2s = [i for i, e in enumerate(seg) if e["k"] == "Seg" and e["d"] == "c2s"]
        i_s2c = [i for i, e in enumerate(seg) if e["k"] == "Seg" and e["d"] == "s2c"]
        i_dlv = [i for i, e in enumerate(seg) if e["k"] == "Dlv" and e["d"] == "s2c" and e["hex"]]
        for nm, idx, pos in (("one byte of the recorded handshake flipped", i_c2s[0], 7 + ck.seed % 240),
                             ("one byte of the recorded client->server frame stream flipped", i_c2s[1], 3 + ck.seed),
                             ("one byte of the recorded server->client frame stream flipped", i_s2c[1], 37 + ck.seed)):
            s = copy.deepcopy(seg); s[idx]["hex"] = flipped(s[idx]["hex"], pos)
            cans.append((nm, s, idx + 1))
        s = copy.deepcopy(seg); del s[i_dlv[0]]
        cans.append(("one delivery event dropped", s, i_dlv[0] + 1))
        s = copy.deepcopy(seg); s[i_dlv[0]]["hex"] = flipped(s[i_dlv[0]]["hex"], 0)
        cans.append(("one delivered payload altered", s, i_dlv[0] + 1))
        i_rc = [i for i, e in enumerate(seg) if e["k"] == "Recheck"]
        s = copy.deepcopy(seg); s[i_rc[-1]]["sha"] = flipped(s[i_rc[-1]]["sha"], 5)
        cans.append(("one re-read of a held packet reports other content", s, i_rc[-1] + 1))
        cp = os.path.join(ck.work, "canary_trace.ndjson")
        vlib.write_ndjson(cp, [e for _, s, _ in cans for e in s] + [{"k": "End"}])
        st, trn, ok, evn = ck.states, ck.transitions, ck.traces_ok, ck.evaluations
        _, rej = ck.validate_segments("Adnl_Trace", "trace/Adnl_Trace.cfg", cp, name="canary", heap_gb=6)
        ck.states, ck.transitions, ck.traces_ok, ck.evaluations = st, trn, ok, evn
        base = 1
        for nm, s, first_possible in cans:
            mine = [r for r in rej if r["seg"] == base]
            ck.canary("C->S: " + nm, len(mine) == 1 and mine[0]["accepted"] >= first_possible - 1 and mine[0]["accepted"] < len(s))
            base += len(s)
    guarded(ck, cs_canaries)

    # ---- C->S canaries for the deadline and resend clauses, on the recorded scripted connections
    def cs_canaries2():
        evs = [e for tp, _ in [(t, 0) for _, t in rep if os.path.getsize(t) > 100] for e in vlib.read_ndjson(tp) if e.get("k") != "End"]
        starts = [i for i, e in enumerate(evs) if e["k"] == "Reset"] + [len(evs)]
        segs = {}
        for a, b in zip(starts, starts[1:]):
            segs.setdefault(evs[a].get("cls"), evs[a:b])
        dl, rs = segs.get("none-s2c-deadline-none"), segs.get("none-c2s-resend-none")
        rc_ = [evs[a:b] for a, b in zip(starts, starts[1:]) if evs[a].get("cls") in ("again", "reconnect")]
        if len(rc_) < 3 or any(x[-1]["k"] != "Quiesce" or "gave_up" in x[-1] for x in rc_):
            raise Infra("no complete recordings of later connections to one server identity")
        if not dl or not rs or dl[-1]["k"] != "Quiesce" or rs[-1]["k"] != "Quiesce" or "gave_up" in dl[-1] or "gave_up" in rs[-1]:
            raise Infra("no complete deadline / resend recording to build canaries from")
        cans = []
        iw = [i for i, e in enumerate(dl) if e["k"] == "Wait"][0]
        after = [i for i, e in enumerate(dl) if i > iw and e["k"] == "Dlv"]
        s = copy.deepcopy(dl); del s[after[0]]
        cans.append(("a delivery after the dial deadline dropped (as if the connection had died with it)", s, after[0] + 1))
        ia = [i for i, e in enumerate(rs) if e["k"] == "Send" and e.get("again", 0) > 0]
        s = copy.deepcopy(rs); s[ia[0]]["hex"] = s[ia[0]]["hex"][:-2] + ("00" if s[ia[0]]["hex"][-2:] != "00" else "01")
        cans.append(("a re-sent packet claims another payload than the one sent before", s, ia[0] + 1))
        idl = [i for i, e in enumerate(rs) if i > ia[0] and e["k"] == "Dlv" and e["d"] == "c2s"]
        s = copy.deepcopy(rs); s[idl[0]] = {"k": "Dead", "d": "c2s", "why": "bad"}
        cans.append(("the server cannot decode the re-sent packet", s, idl[0] + 1))
        it = [i for i, e in enumerate(rs) if e["k"] == "Recheck" and e.get("side") == "tx"]
        s = copy.deepcopy(rs); s[it[-1]]["sha"] = ("0" if s[it[-1]]["sha"][0] != "0" else "1") + s[it[-1]]["sha"][1:]
        cans.append(("a packet value looks different after Send", s, it[-1] + 1))
        # every handshake with a server identity is judged, not only the first: spoil the last one (the reconnect's)
        last = rc_[-1]
        ih = [i for i, e in enumerate(last) if e["k"] == "Seg" and e["d"] == "c2s"][0]
        s = copy.deepcopy(last); b_ = bytearray.fromhex(s[ih]["hex"]); b_[100 + ck.seed % 100] ^= 0x04; s[ih]["hex"] = b_.hex()
        cans.append(("the handshake of a LATER connection to the same server identity is not the specification's", s, ih + 1))
        cp = os.path.join(ck.work, "canary_trace2.ndjson")
        vlib.write_ndjson(cp, [e for _, s, _ in cans for e in s] + [{"k": "End"}])
        st, trn, ok, evn = ck.states, ck.transitions, ck.traces_ok, ck.evaluations
        _, rej = ck.validate_segments("Adnl_Trace", "trace/Adnl_Trace.cfg", cp, name="canary2", heap_gb=6)
        ck.states, ck.transitions, ck.traces_ok, ck.evaluations = st, trn, ok, evn
        base = 1
        for nm, s, first_possible in cans:
            mine = [r for r in rej if r["seg"] == base]
            ck.canary("C->S: " + nm, len(mine) == 1 and mine[0]["accepted"] >= first_possible - 1 and mine[0]["accepted"] < len(s))
            base += len(s)
    guarded(ck, cs_canaries2)
    return ck.finish(rule=RULE, distinct=2 * len(vecs) + nseg)


def replay(ck, path):
    """Re-execute a stored script against the current tree (both modes) and re-judge the recording with TLC."""
    ck.build_vh()
    rp = json.load(open(path))["replay"]
    rc = 0
    if rp.get("vector"):
        rs, tp = run_replay(ck, 0, [rp["vector"]], tag="replay")
        for r in rs:
            print(json.dumps(short(r, 400)))
            if not r["match"]:
                rc = 1
        if os.path.exists(tp) and os.path.getsize(tp) > 0 and len(open(tp).read().splitlines()) > 1:
            _, rej = ck.validate_segments("Adnl_Trace", "trace/Adnl_Trace.cfg", tp, name="replay")
            for rj in rej:
                print("Adnl_Trace rejects the re-recorded connection at event %d: %s" % (rj["accepted"], json.dumps(short(rj["event"]))))
                rc = 1
    elif rp.get("segment"):
        tp = os.path.join(ck.work, "stored.ndjson")
        vlib.write_ndjson(tp, rp["segment"] + [{"k": "End"}])
        _, rej = ck.validate_segments("Adnl_Trace", "trace/Adnl_Trace.cfg", tp, name="replay")
        for rj in rej:
            print("Adnl_Trace rejects the stored connection at event %d: %s" % (rj["accepted"], json.dumps(short(rj["event"]))))
            rc = 1
    if rc:
        print("VIOLATION property=C11 replay=%s" % path)
    return rc
