# C08: TL-B and TL decoders, and the helpers on network data, are total on untrusted input (spec/Decode.tla).
import json, os, re, copy, resource, subprocess, sys, shutil, glob, time
import vlib, tlbcommon
from vlib import Infra, log

RULE = ("Every decoder call on untrusted input is recorded as one event (child processes, a flushed Begin record before each call, recover, "
        "a watchdog that records a Timeout and ends the process, address-space limit, allocation as TotalAlloc delta). Decode_Trace (TLC) "
        "accepts an event only if it is a RETURN - value or error - within Budget(input) of spec/Decode.tla (allocation <= 64 x size + 2 MiB, "
        "time <= 2 s + size/64 ms; size = bytes, or 4 x cells + bits/8 of the tree the cells UNFOLD to, measured with a bounded walk); Panic, "
        "Timeout and Crash are not steps. Where a value is returned and the type has a complete schema the value must be a reading of the input: "
        "TL-B: TlbSem!Enc(schema, value) is a PrefixOf the input tree (bits prefix, refs prefix, recursively; verbatim cells identical; a pruned "
        "branch in the input is a wildcard), cross-checked against the value-guided walk Reads, which alone decides schemas with VarUInteger / "
        "HashmapE (several encodings of one value); in the thorough tier (or VERIF_C08_DEC=1) the specification's total TL-B decoder TlbDec!DecLax "
        "also reads every such input that consists of ordinary cells: where it yields a value the library's value must be exactly that value "
        "(dictionaries entry by entry), where it refuses the library was merely more tolerant and the prefix relation decides alone; "
        "TL: TlSem's total decoder returns the same value and unread tail. Inputs: C->S per exported "
        "TL-B type {valid, random trees, one-mutation encodings (bit flip, truncation of root / inner cell, reference removed / duplicated, cell "
        "replaced by pruned / library / unknown exotic, extension, grafted bomb), value of another type, expansion bombs (4^9 and 2^17 unfoldings, "
        "measured in full), exotic and tiny roots}; large valid encodings laid out by the driver from the TL-B definitions (dictionaries of 24k-64k leaves "
        "for several key / value widths incl. HashmapAugE, a 32k-leaf BinTree, SnakeData chains and VmStacks 1000 cells deep; thorough: five sizes and one "
        "change far from the root) so that work growing with the square of the input breaks the budget; per TL type and function {valid, truncated at every offset, every length prefix -> ff / "
        "feffffff / fe000001, every vector count -> ffffffff / 7fffffff / 2^24 / 2^16 / +1, constructor id, bit flips, trailing, random}; helpers: "
        "VmStack.UnmarshalTL, code.ParseContractMethods, abi message decoders, ten liteapi.Client methods against a scripted lite server (parallel "
        "lists that disagree, bags with 0 / 2 roots, truncated / mistagged / error answers, malformed answer frames), and in-package decodeLength, "
        "processQueryAnswer, ParsePacket. S->C: Decode_Gen (TLC) takes valid encodings recorded by the driver and writes, with Boc!Write, bags in "
        "which each cell in turn is a pruned branch (right hash, wrong hash, three levels, too short), a library cell, an unknown exotic type, a "
        "Merkle header, and bags with no / two roots; they enter through the library's BoC reader. VmTuple_Gen (TLC) builds, from the schema, TVM tuples of 0..5 (0..8) entries - null, "
        "tinyint, nan, nested tuples - which the library cannot encode, with the value each denotes, and their ill-formed neighbours (length field over the "
        "structure of n-1 / n+1 entries, missing tail, head reference to a leaf, lengths 255 / 256 over few references); each is decoded as VmStackValue, on "
        "a VmStack and through VmStack.UnmarshalTL: well-formed ones must decode to exactly that value, all must return; they are also seeds of the mutation "
        "classes; Decode_CondGen (TLC) builds from spec/schemas/*.tlb, for every constructor with fields other fields depend on, a well-formed cell "
        "for EVERY assignment of those fields (block_info: not_master x after_merge x vert_seqno_incr x flags.0, also under a block header) - seeds too; every "
        "value a TL-B decoder returns is then handed to the accessors a caller uses next (every parameterless exported method of every library-typed part of "
        "it, VmCellSlice.UnmarshalToTlbStruct, VmStackValue / VmStkTuple / VmStack.Unmarshal, ton.AccountIDFromTlb; variant-guarded accessors only on their "
        "variant; nothing below a sum type left without constructor by a pruned branch): a panic there rejects the event; vm_stk_slice windows at / inside / "
        "beyond the bounds of the referenced cell are driven as values and on a stack; as are driver-laid-out small BinTree / HashmapAugE / ChunkedData encodings (decode-only as well). A budget breach, Timeout or Crash is re-run from "
        "its recorded input and reported only if it happens again. distinct = distinct inputs executed.")

END_RE = re.compile(r'"k":\s*"End"')
AS_LIMIT = 4 << 30      # RLIMIT_AS of every driver process: an allocation bomb kills the child, not the machine
PARTS_TL = 16


def build_vh(ck):
    """ck.build_vh, plus: when VERIF_REPO names another tree (a clone with a proposed fix) the files that differ are
    overlaid onto /repo for this build, because harness/go.mod pins the module to /repo."""
    if os.path.realpath(vlib.REPO) == "/repo":
        return ck.build_vh()
    repl = {}
    for root, dirs, files in os.walk(vlib.REPO):
        dirs[:] = [d for d in dirs if d not in (".git",)]
        for f in files:
            if not f.endswith(".go"):
                continue
            src = os.path.join(root, f)
            dst = os.path.join("/repo", os.path.relpath(src, vlib.REPO))
            try:
                same = os.path.exists(dst) and open(src, "rb").read() == open(dst, "rb").read()
            except OSError:
                same = False
            if not same and not f.endswith("_test.go") and not f.startswith("verif_"):
                repl[dst] = src
    ovp = os.path.join(ck.work, "repo_overlay.json")
    json.dump({"Replace": repl}, open(ovp, "w"), indent=1)
    log("VERIF_REPO=%s: overlaying %d file(s): %s" % (vlib.REPO, len(repl), ", ".join(sorted(os.path.relpath(k, "/repo") for k in repl))[:400]))
    shutil.copy("/repo/go.sum", os.path.join(vlib.HARNESS, "go.sum"))
    out = os.path.join(ck.work, "vh")
    p = vlib.sh(["go", "build", "-tags", "verif", "-overlay", ovp, "-o", out, "./cmd/vh"], cwd=vlib.HARNESS, env=vlib.GOENV, check=False, timeout=900)
    if p.returncode != 0:
        raise Infra("harness does not build against the overlaid tree:\n" + p.stdout[-4000:])
    ck.vh = out
    ck.extra["repo_overlay"] = sorted(os.path.relpath(k, "/repo") for k in repl)
    return out


def make_tl_schema(ck):
    sys.path.insert(0, os.path.join(vlib.VERIF, "tools"))
    import tl2json
    tlp = os.path.join(vlib.REPO, "liteclient", "lite_api.tl")
    try:
        ast = tl2json.parse(open(tlp).read())
    except tl2json.TLSyntaxError as e:
        raise Infra("tl2json cannot parse %s: %s" % (tlp, e))
    p = os.path.join(ck.work, "lite_api.json")
    open(p, "w").write(json.dumps(ast, separators=(",", ":")) + "\n")
    return ast, p


def abi_ops(ck):
    src = open(os.path.join(vlib.REPO, "abi", "messages_generated.go")).read()
    ops = [{"name": m.group(1), "op": m.group(2)} for m in re.finditer(r"^\s+(\w+?)MsgOpCode\s+MsgOpCode = 0x([0-9a-f]{8})", src, re.M)]
    if len(ops) < 50:
        raise Infra("only %d abi opcodes found in abi/messages_generated.go" % len(ops))
    p = os.path.join(ck.work, "abiops.json")
    json.dump(ops, open(p, "w"))
    return p


def why_of(out):
    for l in out.splitlines():
        if l.startswith("fatal error:") or l.startswith("runtime: out of memory") or l.startswith("panic:"):
            return l[:300]
    return out[-300:]


def crash_class(why):
    m = why.lower()
    for pat, name in (("out of memory", "oom"), ("cannot allocate", "oom"), ("stack overflow", "stack-overflow"), ("index out of range", "index-out-of-range"),
                      ("slice bounds", "slice-bounds"), ("nil pointer", "nil-pointer"), ("makeslice", "makeslice"), ("concurrent map", "concurrent-map")):
        if pat in m:
            return name
    return "other"


class Job:
    """One driver process chain: restarts after a death, attributing it to the last Begin record."""
    def __init__(self, ck, name, part, shard, shards, infile=None, rest=()):
        self.ck, self.name, self.part, self.shard, self.shards, self.infile, self.rest = ck, name, part, shard, shards, infile, list(rest)
        self.parts, self.crashes, self.trace = [], [], None

    def run(self, max_restarts=600):
        ck = self.ck
        skip = 0
        for attempt in range(max_restarts):
            part = os.path.join(ck.work, "%s.part%d.ndjson" % (self.name, attempt))
            cmd = [ck.vh, "drive", "C08", "-part", self.part, "-out", part, "-tier", ck.tier, "-seed", str(ck.seed), "-shard", str(self.shard), "-shards", str(self.shards)]
            if self.infile:
                cmd += ["-in", self.infile]
            cmd += self.rest + ["skip=%d" % skip]
            def lim():
                resource.setrlimit(resource.RLIMIT_AS, (AS_LIMIT, AS_LIMIT))
            p = subprocess.run(cmd, cwd=ck.work, env=dict(vlib.GOENV, GOMEMLIMIT="2GiB"), stdout=subprocess.PIPE, stderr=subprocess.STDOUT, text=True,
                               errors="replace", preexec_fn=lim, timeout=3000)
            self.parts.append(part)
            last = None
            if os.path.exists(part):
                with open(part, "rb") as f:
                    f.seek(0, 2)
                    size = f.tell()
                    f.seek(max(0, size - (1 << 22)))
                    tail = f.read().decode("utf-8", "replace").splitlines()
                for l in reversed(tail):
                    try:
                        last = json.loads(l)
                        break
                    except Exception:
                        continue
            if p.returncode == 0 and last and last.get("k") == "End":
                break
            if not last:
                raise Infra("C08 driver %s died before its first record (rc=%d): %s" % (self.name, p.returncode, p.stdout[-1500:]))
            if last.get("k") == "Begin":
                c = {"k": "Crash", "why": why_of(p.stdout)}
                for f in ("i", "kind", "site", "class", "type", "ty", "op", "guard"):
                    if f in last:
                        c[f] = last[f]
                self.crashes.append(c)
                skip = last["i"] + 1
            elif last.get("k") == "Timeout":
                skip = last["i"] + 1
            else:
                raise Infra("C08 driver %s stopped without End after a %s record (rc=%d): %s" % (self.name, last.get("k"), p.returncode, p.stdout[-1500:]))
        else:
            raise Infra("C08 driver %s keeps dying" % self.name)
        # merged trace: result events and crashes, no Begin records
        self.trace = os.path.join(ck.work, "%s.trace.ndjson" % self.name)
        n = 0
        with open(self.trace, "w") as out:
            for part in self.parts:
                with open(part) as f:
                    for l in f:
                        if '"k":"Begin"' in l or '"k":"End"' in l or not l.strip():
                            continue
                        out.write(l if l.endswith("\n") else l + "\n")
                        n += 1
            for c in self.crashes:
                out.write(json.dumps(c) + "\n")
                n += 1
            out.write(json.dumps({"k": "End", "events": n}) + "\n")
        self.events = n
        return self

    def begin_of(self, i):
        """the Begin record of input i (the recorded input itself)"""
        pat = '"i":%d,' % i
        for part in self.parts:
            with open(part) as f:
                for l in f:
                    if '"k":"Begin"' in l and pat in l:
                        e = json.loads(l)
                        if e.get("i") == i:
                            return e
        return None


def inpkg_job(ck):
    """decodeLength / processQueryAnswer / ParsePacket inside package liteclient (overlay test)."""
    outp = os.path.join(ck.work, "inpkg.trace.ndjson")
    src = os.path.join(vlib.HARNESS, "inpkg", "liteclient", "c08_test.go")
    p = ck.go_test_inpkg("liteclient", [src], "TestVerifC08Helpers",
                         extra_env={"VERIF_C08_OUT": outp, "VERIF_C08_SEED": str(ck.seed), "VERIF_C08_TIER": ck.tier, "GOMEMLIMIT": "2GiB"}, timeout=600)
    if not os.path.exists(outp):
        raise Infra("in-package driver of liteclient did not run:\n" + p.stdout[-3000:])
    lines = open(outp).read().splitlines()
    begins = {}
    evs = []
    for l in lines:
        e = json.loads(l)
        if e.get("k") == "Begin":
            begins[e["i"]] = e
        elif e.get("k") != "End":
            evs.append(e)
    last = json.loads(lines[-1]) if lines else {}
    if last.get("k") != "End":
        if last.get("k") == "Begin":
            c = {"k": "Crash", "why": why_of(p.stdout)}
            c.update({f: last[f] for f in ("i", "kind", "site", "class") if f in last})
            evs.append(c)
        else:
            raise Infra("in-package driver stopped early:\n" + p.stdout[-2000:])
    vlib.write_ndjson(outp, evs + [{"k": "End", "events": len(evs)}])
    class J:
        pass
    j = J()
    j.name, j.trace, j.events, j.part, j.crashes = "inpkg", outp, len(evs), "inpkg", []
    j.begin_of = lambda i: begins.get(i)
    return j


# ------------------------------------------------------------------------------------------------ keys

def helper_class(e, b):
    bags = (b or e).get("bags") or []
    if any(g.get("nroots") == 0 for g in bags):
        return "zero_roots"
    nids = (b or e).get("nids", -1)
    if e.get("site") == "liteapi.GetTransactions" and bags and nids >= 0 and bags[0].get("nroots", -1) > nids:
        return "ids_shorter_than_transactions"
    return re.sub(r"@\d+", "", re.sub(r"^specgen:", "", e.get("class", "?")))


TUPLE_SEED0 = 100000     # seed numbers of the bags made from VmTuple_Gen's well-formed tuples
COND_SEED0 = 200000      # seed numbers of the cells Decode_CondGen built from the schema
BAD_SEEDS = {}           # seed number -> key, for seeds that are rejected unchanged: their mutants show the same finding


def key_of(e, note, b=None):
    """Stable key from the input class and the call site (never from error texts)."""
    k, cls = e.get("k"), e.get("class", "?")
    kind = e.get("kind", k)
    what = {"Panic": "panic", "Timeout": "timeout", "Crash": "crash"}.get(k, note or "rejected")
    if kind == "TlDecode" and what == "use":
        m = re.match(r"panic: \*?([\w.\[\],()*]+?): ", e.get("use", ""))
        return "C08:use:%s" % (m.group(1) if m else "?")
    if kind == "TlDecode":
        # the input class is what the bytes are with respect to the type (first guard of the TL reading they fail),
        # not the mutation that happened to produce them
        guard = e.get("guard") or (b or {}).get("guard") or cls
        if guard == "vector_count" and what in ("crash", "alloc", "timeout", "time"):
            return "C08:tl.vector:count_alloc"
        if guard == "bytes_len" and what in ("crash", "alloc", "timeout", "time"):
            return "C08:tl.bytes:len_alloc"
        return "C08:tl:%s:%s:%s" % (e.get("ty"), guard, what)
    if kind == "Tuple":
        # spec-built tuples: well-formed ("wf") or the ill-formed neighbour class, whichever of the three entry points met it
        return "C08:tlb:VmStkTuple:%s:%s" % (cls.replace("tuple:", ""), what)
    if kind == "Decode" and what == "use":
        # the call site is the accessor that panicked on the returned value (innermost first: parts are used before the
        # whole); which input produced such a value is in the replay
        m = re.match(r"panic: \*?([\w.\[\],()*]+?): ", e.get("use", ""))
        return "C08:use:%s" % (m.group(1) if m else "?")
    if kind == "Decode" and e.get("seedid", -1) in BAD_SEEDS:
        return BAD_SEEDS[e["seedid"]]
    if kind == "Decode" and cls == "specgen:same" and e.get("seedid", -1) >= COND_SEED0:
        # a well-formed cell built from the schema with some combination of its conditional fields (the combination is in the replay)
        return "C08:tlb:%s:schema_built:%s" % (e.get("type"), what)
    if kind == "Decode" and cls == "specgen:same" and e.get("seedid", -1) >= TUPLE_SEED0:
        return "C08:tlb:VmStkTuple:wf:%s" % what
    if kind == "Decode" and cls.startswith("big_"):
        # large inputs: the call site is the generic codec (Hashmap, HashmapAug, BinTree, SnakeData, VmStack), whatever
        # its parameters; work out of proportion shows as allocation, processor time or a call the watchdog had to stop,
        # often all three for one cause: one key ("cost") per call site
        g = re.sub(r"\[.*$", "", e.get("type", "?")).replace("tlb.", "")
        g = {"HashmapE": "Hashmap", "HashmapAugE": "HashmapAug"}.get(g, g)
        return "C08:tlb:%s:%s" % (g, "cost" if what in ("timeout", "time", "alloc") else what)
    if kind in ("Decode", "Bag"):
        return "C08:tlb:%s:%s:%s" % (e.get("type"), re.sub(r"^(specgen|mut):", "", cls), what)
    m = re.search(r"specgen:\w+@(\d+)", cls)
    if m and int(m.group(1)) in BAD_SEEDS:     # a bag made from a seed that is rejected unchanged
        return BAD_SEEDS[int(m.group(1))]
    site = re.sub(r"^(liteapi|code|liteclient)\.", "", e.get("site", "?"))
    hc = helper_class(e, b)
    if what == "panic" and hc in ("zero_roots", "ids_shorter_than_transactions"):
        return "C08:%s:%s" % (site, hc)
    return "C08:%s:%s:%s" % (site, hc, what)


def slim(e, n=6000):
    s = json.dumps(e)
    return e if len(s) <= n else {"truncated": s[:n]}


# ------------------------------------------------------------------------------------------------ run

def validate(ck, job, asts, schema, name=None):
    return ck.validate_events("Decode_Trace", "trace/Decode_Trace.cfg", job.trace, timeout=3000, name=name or ("trace_" + job.name),
                              heap_gb=4, extra_files={"asts.json": asts, "schema.json": schema})


def notes_by_line(res):
    d = {}
    for t in res.tuples("NOTE"):
        d.setdefault(t[1], []).append(t[2])
    return d


def merged_asts(ck, paths, name):
    m = {}
    for p in paths:
        if os.path.exists(p):
            m.update(json.load(open(p)))
    out = os.path.join(ck.work, name)
    json.dump(m, open(out, "w"))
    return out, len(m)


def run(ck):
    ck.assumptions += ["TLC 1.8.0, CommunityModules Json; Prim converters and Sha256",
                       "budgets are generous linear bounds (alloc <= 64 x size + 2 MiB, time <= 2 s + size/64 ms of processor time of the calling thread; a call that has not "
                       "returned after 20 s of wall-clock time is a Timeout); the ADNL frame reader may in addition hold "
                       "one frame of the announced length (<= 8 MiB, the protocol's bound) and a copy of its payload; a breach is reported only if a second run repeats it",
                       "cell inputs are charged for the tree they unfold to (4 bytes per cell + bits/8), measured by a walk bounded at 2^21 cells; every generated input stays below that bound",
                       "value judgement only for types whose reflection schema has no opaque node, inputs of <= 300 cells and (thorough) the first 250 returned values per type; "
                       "inside HashmapE and below pruned branches nothing is compared; accepting input that TlSem/TlbSem would refuse is not by itself a violation",
                       "allocation is the process-wide TotalAlloc delta: for liteapi calls it includes the scripted server running in the same process"]
    tlbcommon.regen_types(ck)
    build_vh(ck)
    tl_ast, schema = make_tl_schema(ck)
    ops = abi_ops(ck)
    empty = os.path.join(ck.work, "empty.json")
    open(empty, "w").write("{}")

    # ---------------------------------------------------------------- S->C: spec-built encodings of a decode-only type
    tres = ck.tlc_or_infra("VmTuple_Gen", "gen/VmTuple_Gen_full.cfg" if ck.thorough else "gen/VmTuple_Gen.cfg", workers=4, timeout=900, name="vmtuple", heap_gb=3)
    tuples = tres.vecs()
    nwf = sum(1 for v in tuples if v["wf"])
    if nwf < 20 or len({v["kind"] for v in tuples}) < 5:
        raise Infra("VmTuple_Gen wrote only %d well-formed tuples / %d kinds" % (nwf, len({v["kind"] for v in tuples})))
    tvp = os.path.join(ck.work, "tuples.ndjson")
    vlib.write_ndjson(tvp, [{k: v[k] for k in ("n", "kind", "wf", "vals", "boc", "stack")} for v in tuples])
    ck.extra["spec_tuples"] = {"vectors": len(tuples), "well_formed": nwf, "kinds": sorted({v["kind"] for v in tuples})}
    ck.sample({"direction": "S->C", "tuple": {k: tuples[len(tuples) // 2][k] for k in ("n", "kind", "wf", "vals", "boc")}})

    # ---------------------------------------------------------------- S->C: spec-written bags
    seeds = os.path.join(ck.work, "seeds.ndjson")
    ck.run_vh(["drive", "C08", "-part", "seeds", "-out", seeds, "-tier", ck.tier, "-seed", ck.seed])
    srows = [l for l in open(seeds).read().splitlines() if '"k":"End"' not in l]
    # message bodies with optional references must be among the seeds with those references present, bare and behind their op code
    opt = [json.loads(l) for l in srows if '"optrefs"' in l]
    opt_types = sorted({o["type"] for o in opt})
    if len(opt_types) < 10 or "abi.JettonTransferMsgBody" not in opt_types or sum(1 for o in opt if o["type"] == "abi.InMsgBody") < 5:
        raise Infra("seeds lack abi message bodies with their optional references present: %s" % opt_types)
    ck.extra["abi_bodies_with_optional_refs"] = {"bare_types": len(opt_types) - 1, "behind_op_code": sum(1 for o in opt if o["type"] == "abi.InMsgBody")}
    # cells built from the schema with every combination of the conditional / parameter-steering fields (block_info with
    # vert_seqno_incr = 1, after_merge, master_ref, gen_software ...): combinations no recorded encoding or fixture shows
    tschema = tlbcommon.schema_file(ck)
    cres = ck.tlc_or_infra("Decode_CondGen", "gen/Decode_CondGen.cfg", files={"schema.json": tschema}, workers=4, timeout=900, name="condgen", heap_gb=3)
    conds = cres.vecs()
    bad = [c for c in conds if not c.get("ok")]
    if bad:
        raise Infra("Decode_CondGen could not encode its own value: %s" % json.dumps(bad[0])[:300])
    if not any(c["type"] == "BlockInfo" and "vert_seqno_incr" in c["on"] for c in conds) or len(conds) < 8:
        raise Infra("Decode_CondGen wrote %d vectors and no block_info with vert_seqno_incr" % len(conds))
    cond_on = {}
    for k, c in enumerate(conds):
        if ("tlb." + c["type"]) not in open(os.path.join(vlib.HARNESS, "internal", "tlbx", "zz_types.go")).read():
            continue
        cond_on[COND_SEED0 + 2 * k] = c["type"] + ":" + c["on"]
        srows.append(json.dumps({"type": "tlb." + c["type"], "seed": COND_SEED0 + 2 * k, "cells": c["cells"], "roots": [0]}))
        if c.get("hdrcells"):
            cond_on[COND_SEED0 + 2 * k + 1] = "BlockHeader:" + c["on"]
            srows.append(json.dumps({"type": "tlb.BlockHeader", "seed": COND_SEED0 + 2 * k + 1, "cells": c["hdrcells"], "roots": [0]}))
    ck.extra["schema_built_conditional_seeds"] = {"vectors": len(conds), "seeds": len(cond_on), "types": sorted({c["type"] for c in conds})}
    # the well-formed tuples are seeds of the mutation classes like recorded encodings (as a value and on a stack)
    wfs = [v for v in tuples if v["wf"] and 2 <= len(v["cells"]) <= 12]
    step = max(1, len(wfs) // (60 if ck.thorough else 16))
    for k, v in enumerate(wfs[::step]):
        srows.append(json.dumps({"type": "tlb.VmStackValue", "seed": TUPLE_SEED0 + 2 * k, "cells": v["cells"], "roots": [0]}))
        srows.append(json.dumps({"type": "tlb.VmStack", "seed": TUPLE_SEED0 + 1 + 2 * k, "cells": v["stackcells"], "roots": [0]}))
    if len(srows) < 50:
        raise Infra("only %d seed encodings" % len(srows))
    nsh = 8
    def gen(i):
        rows = srows[i::nsh]
        p = os.path.join(ck.work, "seeds_%d.ndjson" % i)
        open(p, "w").write("\n".join(rows) + "\n")
        res = ck.tlc_or_infra("Decode_Gen", "gen/Decode_Gen.cfg", files={"seeds.ndjson": p}, workers=2, timeout=1500, name="gen%d" % i, heap_gb=3)
        return res.vecs()
    muts = [v for part in vlib.parallel(gen, range(nsh), n=8) for v in part]
    classes = {}
    for m in muts:
        classes[m["class"]] = classes.get(m["class"], 0) + 1
    if len(muts) < 10 * len(srows) or len(classes) < 12:
        raise Infra("Decode_Gen wrote only %d bags in %d classes" % (len(muts), len(classes)))
    ck.extra["spec_bags"] = {"seeds": len(srows), "bags": len(muts), "classes": classes}
    optseeds = {o["seed"] for o in opt}
    nref = sum(1 for m in muts if m["seed"] in optseeds and m["class"] in ("drop_last_ref", "drop_first_ref", "drop_all_refs"))
    if nref < 3 * len(optseeds) // 2:
        raise Infra("reference-removal classes ran on only %d mutants of the %d message-body seeds" % (nref, len(optseeds)))
    ck.extra["abi_bodies_with_optional_refs"]["reference_removal_mutants"] = nref
    mp = os.path.join(ck.work, "mutants.ndjson")
    vlib.write_ndjson(mp, muts)
    ck.sample({"direction": "S->C", "bag": muts[len(muts) // 2]})

    # ---------------------------------------------------------------- drivers
    jobs = []
    for i in range(16):
        jobs.append(Job(ck, "tlb%02d" % i, "tlb", i, 16, rest=["ast=" + os.path.join(ck.work, "asts_tlb%02d.json" % i)]))
    for i in range(4):
        jobs.append(Job(ck, "bags%d" % i, "bags", i, 4, infile=mp, rest=["ast=" + os.path.join(ck.work, "asts_bags%d.json" % i)]))
    for i in range(PARTS_TL):
        jobs.append(Job(ck, "tl%02d" % i, "tl", i, PARTS_TL, rest=["schema=" + schema]))
    for i in range(3):
        jobs.append(Job(ck, "helpers%d" % i, "helpers", i, 3, infile=mp, rest=["schema=" + schema, "abiops=" + ops]))
    jobs.append(Job(ck, "big0", "big", 0, 1))
    jobs.append(Job(ck, "tuples0", "tuples", 0, 1, infile=tvp))
    t0 = time.time()
    results = vlib.parallel(lambda j: inpkg_job(ck) if j == "inpkg" else j.run(), ["inpkg"] + jobs, n=vlib.NCPU)
    jobs = results
    log("drivers done in %.1fs: %d events" % (time.time() - t0, sum(j.events for j in jobs)))
    asts_of = {}
    for j in jobs:
        if j.part == "tlb":
            asts_of[j.name] = os.path.join(ck.work, "asts_%s.json" % j.name)
        elif j.part == "bags":
            asts_of[j.name] = os.path.join(ck.work, "asts_%s.json" % j.name)
    all_asts, nast = merged_asts(ck, list(asts_of.values()), "asts_all.json")
    ck.extra["tlb_types_with_complete_schema"] = nast

    # ---------------------------------------------------------------- judgement
    # several driver traces share one TLC process (JVM start-up dominates small traces)
    def grouped(part, size):
        js = [j for j in jobs if j.part == part]
        return [js[k:k + size] for k in range(0, len(js), size)]
    groups = (grouped("tlb", 1 if ck.thorough else 2) + grouped("bags", 2) + grouped("tl", 4 if ck.thorough else 8)
              + [[j for j in jobs if j.part in ("helpers", "inpkg", "big", "tuples")]])
    t0 = time.time()
    def val(g):
        name = g[0].name if len(g) == 1 else "%s_%s" % (g[0].name, g[-1].name)
        tp = os.path.join(ck.work, "group_%s.ndjson" % name)
        origin = []
        with open(tp, "w") as out:
            for j in g:
                with open(j.trace) as f:
                    for l in f:
                        if END_RE.search(l):
                            continue
                        out.write(l)
                        origin.append(j)
            out.write(json.dumps({"k": "End", "events": len(origin)}) + "\n")
        ap, _ = merged_asts(ck, [asts_of[j.name] for j in g if j.name in asts_of], "asts_group_%s.json" % name)
        class G:
            pass
        gj = G(); gj.trace = tp; gj.name = name
        res, rejected = validate(ck, gj, ap, schema)
        for rj in rejected:
            rj["job"] = origin[rj["line"] - 1]
        return res, rejected
    verdicts = vlib.parallel(val, groups, n=8 if ck.thorough else 13)
    log("trace validation done in %.1fs (%d TLC processes)" % (time.time() - t0, len(groups)))
    stats = {"Decode": 0, "TlDecode": 0, "Helper": 0, "Bag": 0, "Tuple": 0, "Panic": 0, "Timeout": 0, "Crash": 0, "values_judged": 0, "returned_value": 0}
    types, tltypes, sites = set(), set(), {}
    cand = []       # (job, event, note)
    dec_judged = {"dec": 0, "dec-refuses": 0}
    for res, rejected in verdicts:
        for t in res.tuples("JD"):
            dec_judged[t[2]] = dec_judged.get(t[2], 0) + 1
        notes = notes_by_line(res)
        for rj in rejected:
            ns = notes.get(rj["line"], [])
            if "spec-disagree" in ns:
                raise Infra("EncPrefix and Reads disagree on event %s of %s: the specification is inconsistent" % (rj["event"].get("i"), rj["job"].name))
            cand.append((rj["job"], rj["event"], ns[0] if ns else ""))
    for j in jobs:
        with open(j.trace) as f:
            for l in f:
                e = json.loads(l)
                k = e.get("k")
                if k in stats:
                    stats[k] += 1
                if e.get("res") == "ok":
                    stats["returned_value"] += 1
                if e.get("val"):
                    stats["values_judged"] += 1
                if k == "Decode":
                    types.add(e["type"])
                elif k == "TlDecode":
                    tltypes.add(e["ty"] + "/" + e["op"])
                elif k == "Helper":
                    sites[e["site"]] = sites.get(e["site"], 0) + 1
                if e.get("undumpable") and not e.get("use"):
                    raise Infra("harness cannot describe a value returned by %s: %s" % (e.get("ty"), e["undumpable"]))
    ck.extra["events"] = stats
    # returned values compared with the specification's own decoding of the same input (thorough tier / VERIF_C08_DEC=1):
    # "dec" = TlbDec!DecLax returned a value and it is the library's; "dec-refuses" = the library was more tolerant than TL-B
    ck.extra["values_compared_with_TlbDec"] = dec_judged
    ck.extra["observations"] = [{"where": "tlb/messages.go OutMsg.MsgExportDeqShort.NextWorkchain", "go": "uint32", "block.tlb": "next_workchain:int32",
                                 "effect": "decoding never fails or differs in bits; a negative workchain is returned as a large positive number",
                                 "suggested_patch": "work/fixes_tlb/0002-outmsg-deq-short-next-workchain-int32.patch"}]
    ck.extra["tlb_types"] = len(types)
    ck.extra["tl_targets"] = len(tltypes)
    ck.extra["helper_sites"] = sites
    want_tl = len(tl_ast["types"]) + len(tl_ast["functions"])
    if len(types) < 300:
        raise Infra("only %d TL-B types were driven" % len(types))
    if len(tltypes) < 70:
        raise Infra("only %d TL targets were driven (schema has %d declarations)" % (len(tltypes), want_tl))
    need = {"VmStack.UnmarshalTL", "code.ParseContractMethods", "abi.InternalMessageDecoder", "abi.ExtInMessageDecoder", "abi.ExtOutMessageDecoder",
            "liteapi.GetTransactions", "liteapi.GetAccountState", "liteapi.GetBlockHeader", "liteapi.LookupBlock", "liteapi.RunSmcMethod", "liteclient.answer",
            "liteclient.decodeLength", "liteclient.processQueryAnswer", "liteclient.ParsePacket"}
    if need - set(sites):
        raise Infra("helper sites not driven: %s" % sorted(need - set(sites)))
    # a large valid input whose decoding stops early says nothing about proportionality
    big = [e for j in jobs if j.part == "big" for e in vlib.read_ndjson(j.trace) if e.get("k") == "Decode"]
    bigok = [e for e in big if e["class"] == "big_valid" and e["res"] == "ok" and e.get("nres") == e.get("n")]
    ck.extra["large_inputs"] = {"driven": len(big) + sum(1 for j in jobs if j.part == "big" for e in vlib.read_ndjson(j.trace) if e.get("k") in ("Timeout", "Crash", "Panic")),
                                "valid_decoded_in_full": len(bigok), "largest_cells": max([e["cells"] for e in big] or [0]),
                                "max_cpu_ms": max([e["ms"] for e in big] or [0])}
    if not any(e["type"].startswith("tlb.HashmapE[") for e in bigok) and not any(c[1].get("class", "").startswith("big_") for c in cand):
        raise Infra("no large dictionary was decoded in full: the large-input part is vacuous")
    tup_ok = sum(1 for j in jobs if j.part == "tuples" for e in vlib.read_ndjson(j.trace) if e.get("k") == "Tuple" and e.get("wf") and e.get("res") == "ok")
    ck.extra["spec_tuples"]["well_formed_decoded"] = tup_ok
    if tup_ok == 0 and not any(c[1].get("kind") == "Tuple" or c[1].get("k") == "Tuple" for c in cand):
        raise Infra("no spec-built tuple was decoded: the decode-only part is vacuous")
    same = [e for j in jobs if j.part == "bags" for e in vlib.read_ndjson(j.trace) if e.get("class") == "specgen:same"]
    ck.extra["seeds_decoded_unchanged"] = {"fed": len(same), "ok": sum(1 for e in same if e.get("res") == "ok"),
                                           "decode_only_types_ok": sorted({e["type"] for e in same if e.get("res") == "ok" and ("[" in e["type"] or e["type"] in ("tlb.ChunkedData", "tlb.VmStackValue", "tlb.VmStack"))})}
    # the schema-built conditional variants must have been decoded (every one of them is a well-formed value of its type)
    cs_ok = {e["seedid"] for e in same if e.get("seedid", -1) >= COND_SEED0 and e.get("res") == "ok"}
    cs_rej = {c[1].get("seedid") for c in cand if c[1].get("class") == "specgen:same" and c[1].get("seedid", -1) >= COND_SEED0}
    ck.extra["schema_built_conditional_seeds"]["decoded_ok"] = len(cs_ok)
    missing = sorted(set(cond_on) - cs_ok - cs_rej)
    if missing:
        raise Infra("schema-built variants were not decoded: %s" % [cond_on[m] for m in missing][:6])
    slices = [e for j in jobs if j.part == "tuples" for e in vlib.read_ndjson(j.trace) if e.get("k") == "Decode" and e.get("class", "").startswith("slice:")]
    ck.extra["stack_slice_windows"] = {"driven": len(slices), "returned_and_used": sum(1 for e in slices if e["res"] == "ok")}
    if sum(1 for e in slices if e["res"] == "ok") < 20 and not any(c[1].get("class", "").startswith("slice:") for c in cand):
        raise Infra("no stack slice was decoded and used")
    if stats["values_judged"] < 1000:
        raise Infra("only %d returned values were judged against the schema" % stats["values_judged"])

    # ---------------------------------------------------------------- second run of everything rejected (2 inputs per key), then report
    BAD_SEEDS.clear()
    for j, e, note in cand:     # a seed that is rejected before any mutation: its mutants are the same finding
        if e.get("class") == "specgen:same" and e.get("seedid", -1) >= 0:
            BAD_SEEDS[e["seedid"]] = None
    for j, e, note in cand:
        if e.get("class") == "specgen:same" and e.get("seedid", -1) >= 0:
            sid = e["seedid"]
            del BAD_SEEDS[sid]
            k = key_of(e, note)
            BAD_SEEDS[sid] = k
    bykey = {}
    for j, e, note in cand:
        b = j.begin_of(e["i"]) if "i" in e else None
        key = key_of(e, note, b)
        bykey.setdefault(key, [])
        if len(bykey[key]) < 2:
            bykey[key].append((j, e, note, b))
    ck.extra["rejected_events"] = len(cand)
    rer = []
    for key, items in bykey.items():
        for j, e, note, b in items:
            if b is not None and j.part != "inpkg":
                rer.append((key, j, e, note, b))
    second = {}
    if rer:
        bp = os.path.join(ck.work, "rerun_in.ndjson")
        vlib.write_ndjson(bp, [b for (_, _, _, _, b) in rer])
        ra = os.path.join(ck.work, "asts_rerun.json")
        rj = Job(ck, "rerun", "replay", 0, 1, infile=bp, rest=["schema=" + schema, "ast=" + ra]).run()
        res, rejected = validate(ck, rj, ra if os.path.exists(ra) else empty, schema, name="rerun")
        rnotes = notes_by_line(res)
        evs = [e for e in vlib.read_ndjson(rj.trace) if e.get("k") != "End"]
        # replay numbers its inputs 0..n-1 in file order
        for line, e in enumerate(evs, 1):
            second[e.get("i")] = (e, any(r["line"] == line for r in rejected), (rnotes.get(line) or [""])[0])
    # in-package helpers: the whole (small) driver is run a second time
    inpkg_again = None
    if any(j.part == "inpkg" for items in bykey.values() for (j, e, note, b) in items):
        j2 = inpkg_job(ck)
        _, rej2 = validate(ck, j2, empty, schema, name="inpkg_rerun")
        inpkg_again = {(r["event"].get("site"), r["event"].get("class"), r["event"].get("hex", (j2.begin_of(r["event"].get("i")) or {}).get("hex"))) for r in rej2}
    reported = 0
    for key, items in bykey.items():
        for n, (j, e, note, b) in enumerate(items):
            idx = next((x for x, t in enumerate(rer) if t[2] is e), None)
            again = second.get(idx)
            if j.part == "inpkg":
                if (e.get("site"), e.get("class"), e.get("hex", (b or {}).get("hex"))) not in inpkg_again:
                    ck.notes.append("%s: not repeated on the second run of the in-package driver - not reported" % key)
                    continue
            elif b is not None:
                if again is None:
                    raise Infra("second run lost input %s of %s" % (e.get("i"), j.name))
                e2, rej2, note2 = again
                if not rej2:
                    ck.notes.append("%s: not repeated on the second run (first: %s %s alloc_kb=%s ms=%s; second: alloc_kb=%s ms=%s) - not reported" % (
                        key, e.get("k"), note, e.get("alloc_kb"), e.get("ms"), e2.get("alloc_kb"), e2.get("ms")))
                    continue
            what = describe(e, note)
            ck.report(key, what, {"kind": "begin", "begin": b, "event": slim(e), "note": note})
            reported += 1
            break
    # ---------------------------------------------------------------- samples and canaries
    tl_ok = dec_ok = None
    for j in jobs:
        if j.part == "tlb" and dec_ok is None:
            dec_ok = next((e for e in vlib.read_ndjson(j.trace) if e.get("k") == "Decode" and e.get("val") and e["class"].startswith("mut:") and len(json.dumps(e)) < 3000), None)
            dec_job = j
        if j.part == "tl" and tl_ok is None:
            tl_ok = next((e for e in vlib.read_ndjson(j.trace) if e.get("k") == "TlDecode" and e.get("val") and 16 <= len(e["hex"]) < 600), None)
    if dec_ok is None or tl_ok is None:
        raise Infra("no sample event with a judged value")
    ck.sample({"direction": "C->S", "event": dec_ok})
    ck.sample({"direction": "C->S", "event": tl_ok})
    canaries(ck, dec_ok, asts_of[dec_job.name], tl_ok, schema)
    distinct = stats["Decode"] + stats["TlDecode"] + stats["Helper"] + stats["Bag"] + stats["Tuple"] + stats["Panic"] + stats["Timeout"] + stats["Crash"]
    return ck.finish(rule=RULE, distinct=distinct)


def describe(e, note):
    k = e.get("k")
    where = e.get("site") or "?"
    inp = "type %s" % e["type"] if "type" in e else ("TL %s" % e["ty"] if "ty" in e else "")
    if k == "Panic":
        return "%s panicked on untrusted input (%s, input class %s): %s" % (where, inp, e.get("class"), e.get("panic", "")[:300])
    if k == "Crash":
        return "the process died in %s (%s, input class %s): %s" % (where, inp, e.get("class"), e.get("why", "")[:300])
    if k == "Timeout":
        return "%s did not return within %s ms (%s, input class %s)" % (where, e.get("limit_ms"), inp, e.get("class"))
    if note == "use":
        return "%s returned a value on which an accessor then panicked (%s, input class %s): %s" % (where, inp, e.get("class"), e.get("use", "")[:300])
    if note == "value":
        return "%s returned a value that is not a reading of its input (%s, input class %s)" % (where, inp, e.get("class"))
    if note == "value-differs-from-Dec":
        return "%s returned a value other than the one the specification's decoder (TlbDec) reads from the same input (%s, input class %s)" % (where, inp, e.get("class"))
    return "%s exceeded the %s budget of its input (%s, input class %s): size=%s cells=%s alloc_kb=%s ms=%s" % (
        where, note, inp, e.get("class"), e.get("size"), e.get("cells"), e.get("alloc_kb"), e.get("ms"))


def flip_bits(s):
    i = len(s) // 2
    return s[:i] + ("1" if s[i] == "0" else "0") + s[i + 1:]


def canaries(ck, dec_ok, asts, tl_ok, schema):
    """Recorded Panic / Timeout / Crash / over budget / a value that is not a reading of the input must each be rejected."""
    c = []
    c.append({"k": "Panic", "i": 0, "kind": "Decode", "site": "tlb.Unmarshal", "class": "x", "type": dec_ok["type"], "panic": "runtime error: index out of range"})
    c.append({"k": "Timeout", "i": 0, "kind": "Decode", "site": "tlb.Unmarshal", "class": "x", "type": dec_ok["type"], "limit_ms": 20000})
    c.append({"k": "Crash", "i": 0, "kind": "TlDecode", "site": "tl.Unmarshal", "class": "x", "ty": "x", "why": "fatal error: out of memory"})
    a = copy.deepcopy(dec_ok); a["alloc_kb"] = 1 << 21
    c.append(a)
    t = copy.deepcopy(dec_ok); t["ms"] = 60000
    c.append(t)
    # the value no longer matches the input: one bit of the input's root changed / the input's root cut short
    v1 = copy.deepcopy(dec_ok)
    if not v1["tree"]["b"]:
        raise Infra("sample event has an empty root")
    v1["tree"]["b"] = flip_bits(v1["tree"]["b"])
    c.append(v1)
    v2 = copy.deepcopy(dec_ok); v2["tree"]["b"] = v2["tree"]["b"][:-1] if len(v2["tree"]["b"]) > 1 else ""
    c.append(v2)
    tv = copy.deepcopy(tl_ok); tv["hex"] = ("00" if tv["hex"][:2] != "00" else "01") + tv["hex"][2:]
    c.append(tv)
    ta = copy.deepcopy(tl_ok); ta["alloc_kb"] = 1 << 21
    c.append(ta)
    h = {"k": "Helper", "i": 0, "site": "liteapi.GetTransactions", "class": "x", "res": "ok", "alloc_kb": 1, "ms": 1, "size": 100,
         "bags": [{"len": 50, "nroots": 1}], "wire_ok": True, "nids": 0, "errans": False, "nres": 1}
    c.append(h)
    u = copy.deepcopy(dec_ok); u["use"] = "panic: tlb.VmCellSlice.Cell: not enough cell bits"
    c.append(u)
    tu = copy.deepcopy(tl_ok); tu["use"] = "panic: tl.Marshal(liteclient.X): runtime error: invalid memory address or nil pointer dereference"
    c.append(tu)
    c.append(dec_ok)
    c.append(tl_ok)
    p = os.path.join(ck.work, "canary.ndjson")
    vlib.write_ndjson(p, c + [{"k": "End"}])
    st = (ck.states, ck.transitions, ck.traces_ok, ck.evaluations)
    class J:
        pass
    j = J(); j.trace = p; j.name = "canary"
    _, rej = validate(ck, j, asts, schema, name="canary")
    ck.states, ck.transitions, ck.traces_ok, ck.evaluations = st
    got = [r["line"] for r in rej]
    ck.canary("C->S: Panic / Timeout / Crash / over allocation / over time / input bit changed under a returned value / input root truncated / TL input changed "
              "under a returned value / TL over allocation / transactions without block ids / an accessor panicking on the returned TL-B value / re-encoding panicking on the returned TL value rejected; the two originals accepted",
              got == list(range(1, 13)))


def replay(ck, path):
    """Feed the stored input to the current tree (child process) and let TLC judge the fresh event."""
    rp = json.load(open(path))["replay"]
    b = rp.get("begin")
    if not b:
        print("recorded event (in-package helper: re-run bin/check C08 to re-record it):")
        print(json.dumps(rp.get("event"))[:3000])
        return 1
    tlbcommon.regen_types(ck)
    build_vh(ck)
    _, schema = make_tl_schema(ck)
    bp = os.path.join(ck.work, "replay_in.ndjson")
    vlib.write_ndjson(bp, [b])
    # the replayer writes the reflection schema of the types it decodes into
    asts = os.path.join(ck.work, "asts_replay.json")
    j = Job(ck, "replay", "replay", 0, 1, infile=bp, rest=["schema=" + schema, "ast=" + asts]).run()
    if not os.path.exists(asts):
        open(asts, "w").write("{}")
    res, rej = validate(ck, j, asts, schema, name="replay")
    for e in vlib.read_ndjson(j.trace):
        if e.get("k") != "End":
            print(json.dumps(slim(e, 3000)))
    if rej:
        print("VIOLATION property=C08 replay=%s" % path)
        return 1
    return 0
