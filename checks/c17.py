# C17: account addresses and shard ids keep their meaning across all forms (spec/Addr.tla).
import json, os, copy, collections
import vlib
from vlib import Infra, log

RULE = ("S->C: TLC enumerates the case analysis of Addr_Gen (every int8 workchain x 4 flag combinations x both base64 alphabets x "
        "sampled 256-bit ids, int32 edge workchains for raw/JSON/TL, every single-character substitution 48 positions x 65 other "
        "characters on sampled addresses, raw-text variants, TL bytes under every delivery of the stream (all at once, one byte, half "
        "reads, data-with-EOF, buffered, a split at every position, two ids on one stream, every truncation length), addr_std with anycast depth 0..30, shard prefix lengths 0..60 x "
        "matching / one-bit-off accounts x related block shards x child/parent, ADNL base32) and prints the required result of every "
        "conversion; the Go harness replays each vector through every conversion function of ton/, tlb/, liteclient/ and the root "
        "package and compares. C->S: conversions of random accounts / texts / shard ids recorded from the real code (plus the "
        "unexported shard arithmetic recorded in-package) are accepted by Addr_Trace only if each output equals the specification's "
        "form, each parse-back is the identity and each parser verdict agrees with the specification's decoder. "
        "distinct = distinct vectors + distinct recorded events.")

PARTS = ["enc", "sub", "ext", "raw", "tl", "tlb", "shard", "adnl"]
WC32 = ["-2147483648", "-2147483647", "-65536", "-32769", "-32768", "-257", "-256", "-129", "128", "129", "255", "256", "257",
        "32767", "32768", "65535", "65536", "16777216", "2147483646", "2147483647"]


def samples(ck):
    r = ck.rng
    nh = 32 if ck.thorough else 3
    hs = ["00" * 32, "ff" * 32, "aa" * 32, "55" * 32, "00" * 31 + "01", "80" + "00" * 31, "7f" + "ff" * 31,
          "0123456789abcdef" * 4, "fbefbe" * 10 + "fbef", "00" * 16 + "%032x" % r.getrandbits(128)]
    if not ck.thorough:
        hs = hs[:5] + hs[8:9]      # quick: the full int8 x flags grid runs over fewer pattern ids
    hs += ["%064x" % r.getrandbits(256) for _ in range(nh)]
    # the last id is the tail used for the one-bit-off accounts of the shard part: keep it random
    rnd = [format(r.getrandbits(64), "064b") for _ in range(6 if ck.thorough else 2)]
    na = 48 if ck.thorough else 1
    sub = [{"wc": "-1", "hash": "ff" * 32, "b": False, "t": True, "url": False},      # many '/' digits: same-digit replacements
           {"wc": "0", "hash": "fbefbe" * 10 + "fbef", "b": True, "t": False, "url": True}]   # many '-' digits
    for i in range(na):
        sub.append({"wc": str(r.randrange(-128, 128)), "hash": "%064x" % r.getrandbits(256),
                    "b": bool(r.getrandbits(1)), "t": bool(r.getrandbits(1)), "url": bool(r.getrandbits(1))})
    return {"hashes": hs, "wc32": WC32, "rnd64": rnd, "subaddr": sub}


def gen_vectors(ck, smp):
    sp = os.path.join(ck.work, "samples.ndjson")
    vlib.write_ndjson(sp, [smp])
    base = open(os.path.join(vlib.SPEC, "gen/Addr_Gen.cfg")).read()

    def gen(part):
        p = os.path.join(ck.work, "Addr_Gen_%s.cfg" % part)
        open(p, "w").write(base.replace('Part = "enc"', 'Part = "%s"' % part))
        heavy = part in ("enc", "sub", "tlb", "shard")
        res = ck.tlc_or_infra("Addr_Gen", os.path.relpath(p, vlib.SPEC), files={"samples.ndjson": sp},
                              workers=(6 if ck.thorough else 4) if heavy else 1, timeout=1500, name="gen_" + part, heap_gb=4)
        vs = res.vecs()
        if not vs:
            raise Infra("generator part %s produced no vectors" % part)
        return vs
    vecs = []
    counts = {}
    for part, vs in zip(PARTS, vlib.parallel(gen, PARTS, n=8)):
        counts[part] = len(vs)
        vecs += vs
    for i, v in enumerate(vecs):
        v["vec"] = i
    return vecs, counts


def check_generator(vecs, smp):
    """The specification's own claims about what it generated (vacuity / coherence): exit 2 if they fail."""
    sub = [v for v in vecs if v["cl"].startswith("sub:")]
    if len(sub) != 48 * 65 * len(smp["subaddr"]):
        raise Infra("substitution part incomplete: %d vectors for %d addresses" % (len(sub), len(smp["subaddr"])))
    other = [v for v in sub if v["cl"] == "sub:other-digit"]
    same = [v for v in sub if v["cl"] == "sub:same-digit"]
    if any(v["fr"]["cls"] != "bad" or v["an"]["cls"] != "bad" for v in other):
        raise Infra("specification: a single-character substitution by a different digit passed the checksum")
    if any(v["fr"]["cls"] not in ("ok", "free") for v in same):
        raise Infra("specification: same-digit replacement changed the decoded value")
    if not same:
        raise Infra("no same-digit (other alphabet) replacement was generated")
    # every position and all 63 other digit values
    per_addr = collections.Counter(v["orig"] for v in other)
    if any(n < 48 * 63 for n in per_addr.values()):
        raise Infra("fewer than 48 x 63 different-digit substitutions for some address")
    enc8 = [v for v in vecs if v["k"] == "enc" and v["cl"] == "int8"]
    nh = len(smp["hashes"])
    if len(enc8) != 256 * 4 * nh:
        raise Infra("enc part incomplete: %d int8 vectors for %d ids" % (len(enc8), nh))
    sh = [v for v in vecs if v["k"] == "shard"]
    if set(v["n"] for v in sh) != set(range(61)):
        raise Infra("shard part does not cover prefix lengths 0..60")
    if any(not any(a["exp"] for a in v["accts"]) or (v["n"] > 0 and not any(not a["exp"] for a in v["accts"])) for v in sh):
        raise Infra("a shard vector lacks matching or non-matching accounts")
    tlv = [v for v in vecs if v["k"] == "tl"]
    full = [v for v in tlv if len(v["bytes"]) == 72 and v["n"] == 1]
    if set(v["rd"] for v in full) != {"bytes", "one", "half", "dataerr", "bufio16", "split"} or \
            set(v["at"] for v in full if v["rd"] == "split") != set(range(1, 36)):
        raise Infra("tl part does not cover every delivery / every split position 1..35 of a complete id")
    if set(len(v["bytes"]) // 2 for v in tlv if v["n"] == 1 and v["exps"][0]["cls"] == "bad") != set(range(36)):
        raise Infra("tl part does not cover every truncation length 0..35")
    if any(v["exps"][0]["cls"] != ("ok" if len(v["bytes"]) >= 72 else "bad") for v in tlv):
        raise Infra("specification: TL verdict does not follow the length of the stream")
    two = [v for v in tlv if v["n"] == 2 and len(v["bytes"]) == 144]
    if set(v["at"] for v in two if v["rd"] == "split") != set(range(1, 72)) or any(e["cls"] != "ok" for v in two for e in v["exps"]):
        raise Infra("tl part does not cover two ids on one stream split at every position")
    depths = set(v["d"] for v in vecs if v["k"] == "tlb" and v["cls"] == "ok")
    if depths != set(range(31)):
        raise Infra("tlb part does not cover anycast depths 0..30: %s" % sorted(depths))
    return len(other), len(same)


def run_replay(ck, vecs, name):
    vp, rp = os.path.join(ck.work, name + ".ndjson"), os.path.join(ck.work, name + "_out.ndjson")
    vlib.write_ndjson(vp, vecs)
    ck.run_vh(["replay", "C17", "-in", vp, "-out", rp])
    res = vlib.read_ndjson(rp)
    if not res or res[-1].get("k") != "End" or res[-1]["events"] != len(vecs):
        raise Infra("replay did not finish")
    return res[:-1]


def text_class(s):
    if ":" in s:
        return "rawlike"
    if len(s) == 48 and all(c.isalnum() or c in "+/-_" for c in s):
        return "48digits"
    return "other"


def tl_key(reader, nbytes):
    """TL decode failures by input class: how the stream was delivered, not which sample / wrapper function."""
    if nbytes < 36:
        return "C17:UnmarshalTL:tl:truncated"
    return "C17:UnmarshalTL:tl:" + ("single-read" if reader == "bytes" else "multi-read")


def vector_key(v, f):
    fn = f["fn"]
    if fn.startswith("UnmarshalTL") or fn.startswith("tl.Unmarshal"):
        if v["k"] == "tl":
            i = int(fn[fn.index("#") + 1:]) if "#" in fn else 1
            return tl_key(v["rd"], len(v["bytes"]) // 2 - 36 * (i - 1))     # bytes left for the id that was judged
        return tl_key(fn[fn.index("[") + 1:-1] if "[" in fn else "bytes", 36)
    return "C17:%s:%s" % (fn, v["cl"])


def event_key(e):
    k = e.get("k", "?")
    if k == "Parse":
        s = bytes.fromhex(e["sx"]).decode("latin1").strip('"') if "sx" in e else e.get("s", "")
        return "C17:Parse.%s:%s" % (e.get("fn"), text_class(s))
    if k == "Enc":
        wrong = [b["fn"] for b in e.get("backs", []) if b["err"] != "" or b["wc"] != e["wc"] or b["hash"] != e["hash"]]
        if wrong and all(f.startswith("tl-") for f in wrong):      # only the TL parse-backs over multi-read deliveries differ
            return tl_key("multi", 36)
        return "C17:Enc:%s" % ("int8" if "human" in e else "int32")
    if k == "TlDec":
        n = len(e.get("bytes", "")) // 2
        second_only = e["outs"][0]["err"] == "" or n < 36
        return tl_key(e.get("rd"), n - 36 if (n >= 36 and second_only and n < 72) else n)
    if k in ("TlbEnc", "TlbDec"):
        return "C17:%s:%s" % (k, "anycast" if e.get("d") else "plain")
    if k == "Parents":
        return "C17:GetParents:%s" % e.get("mode")
    return "C17:" + k


def run(ck):
    ck.assumptions += ["TLC + CommunityModules Json", "Prim converters (HexToBytes, BytesToHex, BytesToBits, BitsToBytes, StrToCodes, "
                       "CodesToStr, StrToBits, BitsToStr, DecToBits, BitsToDec, StrCat, SubStr, StrLen); CRC16, base64, base32, two's "
                       "complement and every layout are TLA+",
                       "friendly form and addr_std: workchains in int8 (ToHuman / ToMsgAddress truncate others: outside the quantifier)",
                       "only checksum failures of 48-digit texts must be rejected; other malformed texts (class lax) are observations",
                       "mixed base64 alphabets, unknown tag bytes, '+5'/'007' workchains: free (if accepted, the value must be right)",
                       "ADNL: only the round trip of well-formed texts is judged"]
    ck.build_vh()
    # ------------------------------------------------------------------ S->C
    smp = samples(ck)
    vecs, counts = gen_vectors(ck, smp)
    nother, nsame = check_generator(vecs, smp)
    res = run_replay(ck, vecs, "vectors")
    calls = 0
    observations = {}
    for r_ in res:
        calls += r_["calls"]
        v = vecs[r_["vec"]]
        for fn in r_.get("obs", []):
            observations.setdefault((fn, v["cl"]), v.get("s") or v.get("bits") or v.get("bytes"))
        if r_["match"]:
            ck.traces_ok += 1
            continue
        for f in r_["fails"]:
            ck.report(vector_key(v, f), "vector %d (%s): %s(%s): specification requires %s, code gave %s" % (
                v["vec"], v["cl"], f["fn"], f.get("in", ""), json.dumps(f["exp"]), json.dumps(f["got"])),
                {"kind": "vector", "vector": v, "fail": f})
    ck.evaluations += len(vecs)
    ck.extra["vectors"] = counts
    ck.extra["library_calls_replayed"] = calls
    ck.extra["substitutions_other_digit"] = nother
    ck.extra["substitutions_same_digit_other_alphabet"] = nsame
    for (fn, cl), s in sorted(observations.items()):
        if fn == "tongo.ParseAddress.Bounce":
            ck.notes.append("observation (not a verdict, outside C17): tongo.ParseAddress reports Bounce=true for a non-bounceable "
                            "(0x51) address, e.g. %s" % next(v["url"] for v in vecs if v["k"] == "enc" and v.get("url") and not v["bounce"]))
        else:
            ck.notes.append("observation (not a verdict): %s accepts a %s text, e.g. %s" % (fn, cl, s))
    ck.sample({"direction": "S->C", "vector": next(v for v in vecs if v["cl"] == "sub:other-digit")})
    ck.sample({"direction": "S->C", "vector": {k: v for k, v in next(x for x in vecs if x["k"] == "enc").items()}})
    # canaries for S->C: corrupt one expectation each; the replay must flag exactly that
    c1 = copy.deepcopy(next(v for v in vecs if v["k"] == "enc" and v["cl"] == "int8"))
    c1["url"] = c1["url"][:-1] + ("A" if c1["url"][-1] != "A" else "B")
    c2 = copy.deepcopy(next(v for v in vecs if v["cl"] == "sub:other-digit"))
    good = next(v for v in vecs if v["k"] == "enc" and v["cl"] == "int8")
    c2["fr"] = c2["an"] = {"cls": "ok", "wc": good["wc"], "hash": good["hash"]}
    c3 = copy.deepcopy(next(v for v in vecs if v["k"] == "shard" and v["n"] == 7))
    c3["accts"][0]["exp"] = not c3["accts"][0]["exp"]
    c4 = copy.deepcopy(next(v for v in vecs if v["k"] == "tlb" and v["cls"] == "ok" and v["d"] == 5))
    c4["hash"] = ("0" if c4["hash"][0] != "0" else "8") + c4["hash"][1:]
    c5 = copy.deepcopy(next(v for v in vecs if v["k"] == "tl" and v["rd"] == "half" and v["n"] == 2 and len(v["bytes"]) == 144))
    c5["exps"][1]["hash"] = ("0" if c5["exps"][1]["hash"][-1] != "0" else "8") + c5["exps"][1]["hash"][1:]
    c6 = copy.deepcopy(next(v for v in vecs if v["k"] == "tl" and v["rd"] == "one" and len(v["bytes"]) == 70))
    c6["exps"][0] = {"cls": "ok", "wc": good["wc"], "hash": good["hash"]}
    cres = run_replay(ck, [c1, c2, c3, c4, c5, c6], "canary_vec")
    for nm, r_ in zip(["ToHuman expectation altered", "substituted text expected to parse", "shard match expectation flipped",
                       "anycast rewrite expectation altered", "second id of a TL stream altered", "truncated TL stream expected to decode"], cres):
        ck.canary("S->C: " + nm, not r_["match"])

    # ------------------------------------------------------------------ C->S
    shards = vlib.NCPU if ck.thorough else 8      # quick: fewer, longer traces (JVM start-up dominates)

    def drive(i):
        tp = os.path.join(ck.work, "trace_%02d.ndjson" % i)
        ck.run_vh(["drive", "C17", "-out", tp, "-tier", ck.tier, "-seed", ck.seed, "-shard", i, "-shards", shards])
        return tp
    traces = vlib.parallel(drive, range(shards))
    # the unexported shard arithmetic, recorded inside package ton
    ip = os.path.join(ck.work, "trace_inpkg.ndjson")
    p = ck.go_test_inpkg("ton", [os.path.join(vlib.HARNESS, "inpkg/ton/c17_test.go")], "TestVerifC17$",
                         extra_env={"VERIF_C17_OUT": ip, "VERIF_C17_SEED": str(ck.seed), "VERIF_C17_N": str(6100 if ck.thorough else 610)})
    if p.returncode != 0 or not os.path.exists(ip):
        raise Infra("in-package recorder failed:\n" + (p.stdout or "")[-3000:])
    traces.append(ip)

    def val(tp):
        return ck.validate_segments("Addr_Trace", "trace/Addr_Trace.cfg", tp, timeout=3000, name="trace_" + os.path.basename(tp)[6:-7])
    kinds = collections.Counter()
    distinct_events = set()
    for tp, (res_, rejected) in zip(traces, vlib.parallel(val, traces)):
        for rj in rejected:
            e = rj["event"]
            ck.report(event_key(e), "recorded call is not what Addr requires: segment at line %d accepted %d of %d events; rejected event %s" % (
                rj["seg"], rj["accepted"], rj["length"], json.dumps(e)[:1500]),
                {"kind": "trace", "segment": rj["segment"], "rejected_index": rj["accepted"], "trace": os.path.basename(tp),
                 "seed": ck.seed, "tier": ck.tier})
        for l in open(tp):
            e = json.loads(l)
            if e["k"] not in ("Reset", "End"):
                kinds[e["k"]] += 1
                distinct_events.add(l)
    need = {"Enc", "Parse", "TlDec", "TlbEnc", "TlbDec", "Shard", "Match", "MatchBlk", "Parents", "Ident", "Family", "Adnl", "AdnlParse"}
    if not need <= set(kinds):
        raise Infra("recorded traces lack event kinds: %s" % sorted(need - set(kinds)))
    ck.extra["events_by_kind"] = dict(kinds)
    evs = vlib.read_ndjson(traces[0])
    ck.sample({"direction": "C->S", "events": [e for e in evs if e["k"] in ("Parse", "Match")][:3]})

    # canaries for C->S
    body = [e for e in evs if e.get("k") != "End"]
    cans = []
    i = next(i for i, e in enumerate(body) if e["k"] == "Enc" and "human" in e)
    c = copy.deepcopy(body[:i + 2]); h = c[i]["human"]; c[i]["human"] = h[:20] + ("A" if h[20] != "A" else "B") + h[21:]
    cans.append(("C->S: one character of a logged ToHuman output altered", c, i + 1))
    c = copy.deepcopy(body[:i + 2]); c[i]["backs"] = c[i]["backs"][:-1]
    cans.append(("C->S: one parse-back dropped", c, i + 1))
    c = copy.deepcopy(body[:i + 2]); c[i]["backs"][3]["hash"] = "00" + c[i]["backs"][3]["hash"][2:] if c[i]["backs"][3]["hash"][:2] != "00" else "01" + c[i]["backs"][3]["hash"][2:]
    cans.append(("C->S: one parse-back result altered", c, i + 1))
    j = next(i for i, e in enumerate(body) if e["k"] == "Match")
    c = copy.deepcopy(body[:j + 2]); c[j]["out"] = not c[j]["out"]
    cans.append(("C->S: logged MatchAccountID result flipped", c, j + 1))
    j = next(i for i, e in enumerate(body) if e["k"] == "Parse" and e["fn"] == "b64" and e["err"] != "" and text_class(e["s"]) == "48digits")
    ok = next(e for e in body if e["k"] == "Enc" and "human" in e)
    c = copy.deepcopy(body[:j + 2]); c[j]["err"] = ""; c[j]["wc"] = ok["wc"]; c[j]["hash"] = ok["hash"]
    cans.append(("C->S: rejected checksum failure logged as accepted", c, j + 1))
    j = next(i for i, e in enumerate(body) if e["k"] == "TlDec" and e["outs"][0]["err"] == "" and e["rd"] != "bytes")
    c = copy.deepcopy(body[:j + 2]); hh = c[j]["outs"][0]["hash"]; c[j]["outs"][0]["hash"] = hh[:-2] + ("00" if hh[-2:] != "00" else "01")
    cans.append(("C->S: tail of a TL-decoded id zeroed", c, j + 1))
    j = next(i for i, e in enumerate(body) if e["k"] == "Parents" and e["mode"] == "merge")
    c = copy.deepcopy(body[:j + 2]); c[j]["out"] = c[j]["out"][::-1]
    cans.append(("C->S: children swapped", c, j + 1))

    # one TLC run judges all canaries: each is its own two-line segment (Reset, the corrupted event)
    lines_, want_rej = [], {}
    for nm, c, want in cans:
        lines_ += [{"k": "Reset", "p": "C17"}, c[want - 1]]
        want_rej[len(lines_) - 1] = nm
    p_ = os.path.join(ck.work, "canaries.ndjson")
    vlib.write_ndjson(p_, lines_ + [{"k": "End"}])
    st, tr, okc, evl = ck.states, ck.transitions, ck.traces_ok, ck.evaluations
    _, rej = ck.validate_segments("Addr_Trace", "trace/Addr_Trace.cfg", p_, name="canaries")
    rej_starts = {r_["seg"] for r_ in rej}
    for seg_, nm in want_rej.items():
        ck.canary(nm, seg_ in rej_starts)
    ck.states, ck.transitions, ck.traces_ok, ck.evaluations = st, tr, okc, evl
    return ck.finish(rule=RULE, distinct=len(set(json.dumps({k: v for k, v in x.items() if k != "vec"}, sort_keys=True) for x in vecs)) + len(distinct_events))


def replay(ck, path):
    """Re-execute a stored violation against the current tree: a vector is replayed as is; for a rejected
    trace event the recorder is re-run with the stored seed/tier (it is deterministic) and the trace re-judged."""
    ck.build_vh()
    rp = json.load(open(path))["replay"]
    if rp["kind"] == "vector":
        r = run_replay(ck, [rp["vector"]], "replay")[0]
        print(json.dumps(r))
        if not r["match"]:
            print("VIOLATION property=C17 replay=%s" % path)
            return 1
        return 0
    name = rp["trace"]
    tp = os.path.join(ck.work, name)
    if name == "trace_inpkg.ndjson":
        n = 6100 if rp["tier"] == "thorough" else 610
        p = ck.go_test_inpkg("ton", [os.path.join(vlib.HARNESS, "inpkg/ton/c17_test.go")], "TestVerifC17$",
                             extra_env={"VERIF_C17_OUT": tp, "VERIF_C17_SEED": str(rp["seed"]), "VERIF_C17_N": str(n)})
        if p.returncode != 0:
            raise Infra("in-package recorder failed:\n" + (p.stdout or "")[-3000:])
    else:
        ck.run_vh(["drive", "C17", "-out", tp, "-tier", rp["tier"], "-seed", rp["seed"], "-shard", int(name[6:8]),
                   "-shards", vlib.NCPU if rp["tier"] == "thorough" else 8])
    _, rejected = ck.validate_segments("Addr_Trace", "trace/Addr_Trace.cfg", tp, timeout=3000, name="replay")
    for rj in rejected:
        print(json.dumps(rj["event"])[:2000])
    if rejected:
        print("VIOLATION property=C17 replay=%s" % path)
        return 1
    print("re-recorded trace %s (seed %s, tier %s) accepted" % (name, rp["seed"], rp["tier"]))
    return 0
