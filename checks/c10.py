# C10: the lite-server bindings speak exactly the wire format of liteclient/lite_api.tl (spec/TlSem.tla).
import copy, json, os, shutil, subprocess, sys
import vlib
from vlib import Infra, log

RULE = ("Schema = AST of the checked-in liteclient/lite_api.tl (tools/tl2json.py); ids cross-checked against TlSem!ConstructorId. "
        "S->C: TlSem_Gen (TLC) generates values of every constructor, sum type, function and request/answer pair (root flag fields walk "
        "through every combination of their used bits) and encodes them with TlSem!Enc; the bindings must UnmarshalTL the bytes to the same "
        "value and MarshalTL it back to the same bytes, LiteapiRequestDecoder must invert every request, and every (*Client).LiteServer*/"
        "LiteProxy* method, run on a recording connection (in-package, no network), must put adnl.message.query(q, liteServer.query(Enc(fn, req))) "
        "on the wire and return Dec(result type, scripted answer) (TlSem_Trace decides). C->S: schema-driven random values (all byte-string "
        "lengths 0..1100, around 2^16, 2^24-1 in thorough; vectors; nested sums) through MarshalTL / UnmarshalTL(bytes + tail, truncations) of "
        "every generated type and of tl.Int256, ton.AccountID, ton.BlockIDExt, LiteServerSignatureSet, each event judged by TlSem_Trace "
        "(bytes = Enc(AST, type, value); Dec(AST, type, bytes) = value and unread tail). Long vectors: for every vector field of the schema, lengths just below/above "
        "65536/(Go element size+1) and 65536/size (sizes reported by the driver via reflect) and 2000/14000/70000 for small elements, last field and followed by "
        "other fields, through all routes (codec both directions, LiteapiRequestDecoder, client calls incl. answers): the decoded vector must have the wire count "
        "of elements and the following fields must be intact. Precondition (not TLC): gofmt(go run generator.go) "
        "== checked-in liteclient/generated.go and tlb/integers.go. distinct = accepted events + vectors replayed.")

TL = os.path.join(vlib.REPO, "liteclient", "lite_api.tl")
SHARDS = 16


def make_ast(ck):
    sys.path.insert(0, os.path.join(vlib.VERIF, "tools"))
    import tl2json
    try:
        ast = tl2json.parse(open(TL).read())
    except tl2json.TLSyntaxError as e:
        raise Infra("tl2json cannot parse %s: %s" % (TL, e))
    p = os.path.join(ck.work, "lite_api.json")
    open(p, "w").write(json.dumps(ast, separators=(",", ":")) + "\n")
    if len(ast["types"]) < 30 or len(ast["functions"]) < 20:
        raise Infra("lite_api.tl parsed to only %d types / %d functions" % (len(ast["types"]), len(ast["functions"])))
    return ast, p


def check_ids(ck, astp, ast):
    res = ck.tlc_or_infra("TlSem_Ids", "gen/TlSem_Ids.cfg", files={"schema.json": astp}, name="ids", timeout=300)
    rows = [["ID"] + r for r in res.vecs("ID")]
    n = len(ast["types"]) + len(ast["functions"])
    if len(rows) != n:
        raise Infra("TlSem_Ids reported %d of %d declarations" % (len(rows), n))
    explicit = [r for r in rows if r[5] == "explicit"]
    ck.extra["constructor_ids"] = {"declarations": n, "crc_of_text": sum(r[5] == "plain" for r in rows),
                                   "crc_of_text_with_parentheses": sum(r[5] == "parens" for r in rows),
                                   "explicit_id_differs_from_crc": [{"ctor": r[1], "id": r[2], "crc": r[3]} for r in explicit]}
    if len(explicit) > max(2, n // 20):
        raise Infra("%d of %d explicit ids are not the CRC32 of their declaration: schema file or tl2json/DeclText is off: %s" % (
            len(explicit), n, explicit[:3]))
    for r in explicit:
        ck.notes.append("id of %s is explicit (#%s), CRC32 of the text is %s; the explicit id is used, as TL prescribes" % (r[1], r[2], r[3]))


def regen(ck):
    """Precondition of C10: checked-in generated files are what the generators produce (gofmt-normalised)."""
    d = os.path.join(ck.work, "regen")
    os.makedirs(os.path.join(d, "liteclient"))
    os.makedirs(os.path.join(d, "tlb"))
    open(os.path.join(d, "go.mod"), "w").write(
        "module regen\n\ngo 1.19\n\nrequire github.com/tonkeeper/tongo v0.0.0\n\nreplace github.com/tonkeeper/tongo => %s\n" % vlib.REPO)
    shutil.copy(os.path.join(vlib.REPO, "go.sum"), d)
    for f in ("liteclient/generator.go", "liteclient/lite_api.tl", "tlb/generator.go"):
        shutil.copy(os.path.join(vlib.REPO, f), os.path.join(d, f))
    out = {}
    for sub, gen in (("liteclient", "generated.go"), ("tlb", "integers.go")):
        p = vlib.sh(["go", "run", "generator.go"], cwd=os.path.join(d, sub), env=vlib.GOENV, timeout=600, check=False)
        if p.returncode != 0:
            raise Infra("generator of %s/%s does not run:\n%s" % (sub, gen, p.stdout[-3000:]))
        raw = open(os.path.join(d, sub, gen), "rb").read()
        fm = subprocess.run(["gofmt"], input=raw, stdout=subprocess.PIPE, stderr=subprocess.PIPE, env=vlib.GOENV)
        if fm.returncode != 0:
            ck.report("C10:regen:%s/%s" % (sub, gen), "generator output is not valid Go: " + fm.stderr.decode()[:500], {"kind": "regen", "file": sub + "/" + gen})
            continue
        have = open(os.path.join(vlib.REPO, sub, gen), "rb").read()
        out[sub + "/" + gen] = {"raw_identical": raw == have, "gofmt_identical": fm.stdout == have, "bytes": len(have)}
        if fm.stdout != have:
            a, b = fm.stdout.splitlines(), have.splitlines()
            first = next((i for i, (x, y) in enumerate(zip(a, b)) if x != y), min(len(a), len(b)))
            ck.report("C10:regen:%s/%s" % (sub, gen),
                      "checked-in %s/%s differs from gofmt(go run generator.go) from line %d: generated %r, checked in %r" % (
                          sub, gen, first + 1, a[first][:200] if first < len(a) else "<eof>", b[first][:200] if first < len(b) else "<eof>"),
                      {"kind": "regen", "file": sub + "/" + gen, "line": first + 1})
    ck.extra["regeneration"] = out
    ck.extra["regeneration_rule"] = "compared after gofmt (the checked-in files are gofmt-formatted generator output; the raw output differs only in the header comment's trailing blank and final newline)"


JOB_BASE = 1000000


def long_vector_jobs(ck, astp, ast):
    """Length classes of long vectors, from the Go element sizes the driver reports (reflect.Type.Size of the slice element):
    just below / above 65536/(size+1) and 65536/size — where a decoder that trusts a capped pre-allocation instead of the
    32-bit wire count would cut the vector — plus 2000 / 14000 / 70000 for small elements. Every vector field of the schema
    gets the first length above the cap on all its routes (codec, request decoder, client call incl. answers); the other
    classes go through the codec route (quick: one of them per field, chosen by the seed; thorough: all)."""
    vp = os.path.join(ck.work, "vecsizes.ndjson")
    ck.run_vh(["drive", "C10", "-part", "vecsizes", "-out", vp, astp])
    fields = [e for e in vlib.read_ndjson(vp) if e.get("k") == "VecSize"]
    want = sum(1 for sec in ("types", "functions") for d in ast[sec] for f in d["fields"] if isinstance(f["ty"], dict))
    if len(fields) != want or not fields:
        raise Infra("driver reported %d vector fields, the schema has %d" % (len(fields), want))
    jobs = []
    def add(ty, op, f, n, why):
        jobs.append({"ty": ty, "op": op, "decl": f["decl"], "field": f["field"], "n": n, "why": why})
    for i, f in enumerate(fields):
        s = f["size"]
        l1, l2 = 65536 // (s + 1), 65536 // s
        if f["fn"]:
            codec = (f["decl"], "EncBare")
            routes = [codec, (f["decl"], "Fn"), (f["decl"], "Call")]
        else:
            multi = sum(1 for d in ast["types"] if d["result"] == f["result"]) > 1
            codec = (f["result"] if multi else f["decl"], "Enc")
            routes = [codec] + [(fn["ctor"], "Call") for fn in ast["functions"] if fn["result"] == f["result"]]
        for ty, op in routes:
            add(ty, op, f, l1 + 1, "65536/(size+1)+1")
        extra = [(l1, "65536/(size+1)"), (l1 - 1, "65536/(size+1)-1"), (l2, "65536/size"), (l2 + 1, "65536/size+1")]
        if s <= 4:
            extra += [(14000, "fixed"), (70000, "fixed")]
        elif s <= 32:
            extra += [(2000, "fixed")]
        if not ck.thorough:
            extra = [extra[(ck.seed + i) % len(extra)]] + ([(70000, "fixed")] if s <= 4 else [])
        for n, why in extra:
            add(codec[0], codec[1], f, n, why)
        if f["fn"] and s <= 32:              # the request decoder with ~2000 hashes / 14000 ints
            add(f["decl"], "Fn", f, 2000 if s > 4 else 14000, "fixed")
    ck.extra["long_vectors"] = {"vector_fields": [{"decl": f["decl"], "field": f["field"], "go": f["go"], "elem_size": f["size"],
                                                    "cap": 65536 // (f["size"] + 1)} for f in fields], "jobs": len(jobs),
                                "max_len": max(j["n"] for j in jobs)}
    return jobs


def gen_vectors(ck, astp, ast):
    jobs = long_vector_jobs(ck, astp, ast)
    jp = os.path.join(ck.work, "longjobs.json")
    json.dump([{k: j[k] for k in ("ty", "op", "decl", "field", "n")} for j in jobs], open(jp, "w"))
    nt = len(ast["types"]) + 3 * len(ast["functions"])
    rounds = 1000 if ck.thorough else 40
    total = nt * rounds
    nsh = SHARDS if ck.thorough else 8
    per = (total + nsh - 1) // nsh
    njs = 8
    def one(i):
        if i >= nsh:                 # long-vector jobs: vectors JOB_BASE .. JOB_BASE + len(jobs) - 1, in njs shards
            per_j = (len(jobs) + njs - 1) // njs          # a contiguous range of jobs per TLC run
            lo, hi = (i - nsh) * per_j, min(len(jobs), (i - nsh + 1) * per_j) - 1
            return run_gen(i, JOB_BASE + lo, JOB_BASE + hi, "jobs%02d" % (i - nsh)) if lo <= hi else []
        lo, hi = i * per, min(total, (i + 1) * per) - 1
        if lo > hi:
            return []
        return run_gen(i, lo, hi, "gen%02d" % i)
    def run_gen(i, lo, hi, name):
        cfg = "CONSTANTS\n  Seed = %d\n  From = %d\n  To = %d\nSPECIFICATION Spec\nINVARIANT Emit\nCHECK_DEADLOCK FALSE\n" % (ck.seed, lo, hi)
        p = os.path.join(ck.work, "TlSem_Gen_%s.cfg" % name)
        open(p, "w").write(cfg)
        res = ck.tlc_or_infra("TlSem_Gen", os.path.relpath(p, vlib.SPEC), files={"schema.json": astp, "longjobs.json": jp}, name=name, timeout=1500, heap_gb=3)
        v = res.vecs()
        if len(v) != hi - lo + 1:
            raise Infra("TlSem_Gen shard %d emitted %d of %d vectors" % (i, len(v), hi - lo + 1))
        return v
    vecs = [v for part in vlib.parallel(one, range(nsh + njs), n=8) for v in part]
    vecs.sort(key=lambda v: v["vec"])
    if sum(1 for v in vecs if v["vec"] >= JOB_BASE) != len(jobs):
        raise Infra("long-vector jobs incomplete")
    return vecs


def key_of(e, note=""):
    """stable key of a rejected trace event: the segment's subject (type / function), not which of its events failed first"""
    k = e.get("k", "?")
    subject = note.split(" ")[-1].split(":")[-1] if note else (e.get("ty") or e.get("fn") or "?")
    if k in ("Marshal", "Unmarshal"):
        return "C10:codec:%s" % (e.get("ty") or subject)
    if k == "Call":
        return "C10:Call:%s" % (e.get("fn") or subject)
    return "C10:%s:%s" % (k, subject)


def judge(ck, traces, what):
    """validate trace files in parallel; report rejected events"""
    def val(tp):
        return ck.validate_segments("TlSem_Trace", "trace/TlSem_Trace.cfg", tp, timeout=2400, heap_gb=8 if ck.thorough else 3,
                                    name="trace_" + os.path.basename(tp).split(".")[0])
    for tp, (res, rejected) in zip(traces, vlib.parallel(val, traces, n=6 if ck.thorough else 8)):
        if res.tuples("DOMAIN"):
            raise Infra("%s: the harness produced a value outside the type's domain (line %s of %s)" % (what, res.tuples("DOMAIN")[0][1:], tp))
        for rj in rejected:
            e = rj["event"]
            small = {k: (v if len(json.dumps(v)) < 4000 else json.dumps(v)[:4000] + "...") for k, v in e.items() if k != "schema"}
            long = e.get("vec", 0) >= JOB_BASE or rj["segment"][0].get("note", "").startswith("long-vector")
            ck.report(key_of(e, rj["segment"][0].get("note", "")) + (":long-vector" if long else ""), "%s: recorded event is not what TlSem defines: segment at line %d accepted %d of %d events; rejected %s" % (
                what, rj["seg"], rj["accepted"], rj["length"], json.dumps(small)[:1500]),
                {"kind": "trace", "event": e, "segment_note": rj["segment"][0].get("note", "")})


def canary_traces(ck, items):
    """items: (name, events, line that must be the first rejected one); validated in parallel, not counted as coverage"""
    st, tr, ok, evs = ck.states, ck.transitions, ck.traces_ok, ck.evaluations
    def one(it):
        name, events, want = it
        p = os.path.join(ck.work, "canary_%s.ndjson" % name.split(":")[0].replace(" ", "_"))
        vlib.write_ndjson(p, events + [{"k": "End"}])
        _, rej = ck.validate_segments("TlSem_Trace", "trace/TlSem_Trace.cfg", p, name="canary_" + name.split(":")[0].replace(" ", "_"))
        return len(rej) == 1 and rej[0]["line"] == want
    res = vlib.parallel(one, items, n=8)
    ck.states, ck.transitions, ck.traces_ok, ck.evaluations = st, tr, ok, evs
    for (name, _, _), good in zip(items, res):
        ck.canary(name, good)


def flip_hex(h, pos=None):
    if not h:
        return "00"
    i = (len(h) // 2 // 2) * 2 if pos is None else pos
    c = h[i]
    return h[:i] + ("0" if c != "0" else "1") + h[i + 1:]


def run_calls(ck, astp, vecp, outp):
    tv = os.path.join(ck.work, "tlval_test.go")
    src = open(os.path.join(vlib.HARNESS, "internal", "tlval", "tlval.go")).read().replace("\npackage tlval\n", "\npackage liteclient\n", 1)
    if "package liteclient" not in src:
        raise Infra("could not retarget tlval.go")
    open(tv, "w").write(src)
    p = ck.go_test_inpkg("liteclient", [os.path.join(vlib.HARNESS, "inpkg", "liteclient", "c10_test.go"), tv], "TestVerifC10Calls",
                         extra_env={"VERIF_C10_SCHEMA": astp, "VERIF_C10_VECS": vecp, "VERIF_C10_OUT": outp}, timeout=900)
    if p.returncode != 0 or not os.path.exists(outp):
        raise Infra("in-package driver of liteclient failed:\n" + p.stdout[-4000:])
    end = vlib.read_ndjson(outp)[-1]
    if end.get("k") != "End":
        raise Infra("in-package driver died")
    return end


def run(ck):
    ck.assumptions += ["TLC + CommunityModules Json; Prim converters and Crc32Ieee (JDK)", "tools/tl2json.py (cross-checked: 73 of 74 explicit ids equal the CRC32 of the text rendered back from the AST)",
                       "value domain: byte strings shorter than 2^24 (the 3-byte length form cannot carry more; tl.EncodeLength wraps silently beyond), "
                       "optional fields present iff their bit is set, vector elements occupy at least one byte",
                       "Dec is lenient where TL leaves the reader free: padding bytes are not inspected, the long length form is accepted for short strings",
                       "liteServer.query / waitMasterchainSeqno wrappers are not declarations of lite_api.tl; liteServer.query is transcribed in TlSem_Trace (id = CRC32 checked)",
                       "harness prints Go's uint32/uint64 fields of TL int/long as int32()/int64() (bijective language conversion)"]
    ast, astp = make_ast(ck)
    check_ids(ck, astp, ast)
    ck.build_vh()
    # coverage of the Go type table against the AST
    np_ = os.path.join(ck.work, "names.ndjson")
    ck.run_vh(["drive", "C10", "-part", "names", "-out", np_, astp])
    names = [e["n"] for e in vlib.read_ndjson(np_) if e.get("k") == "Name"]
    ck.extra["go_targets"] = len(names)
    regen(ck)

    # ---------------------------------------------------------------- S->C
    vecs = gen_vectors(ck, astp, ast)
    vecp = os.path.join(ck.work, "vectors.ndjson")
    vlib.write_ndjson(vecp, vecs)
    plain = [v for v in vecs if v["op"] != "Call"]
    calls = [v for v in vecs if v["op"] == "Call"]
    ck.extra["vectors"] = {"codec": len(plain), "client_calls": len(calls)}
    rp = os.path.join(ck.work, "replay_out.ndjson")
    ck.run_vh(["replay", "C10", "-in", vecp, "-out", rp, astp], timeout=1800)
    results = vlib.read_ndjson(rp)
    if results[-1].get("k") != "End" or results[-1]["events"] != len(plain):
        raise Infra("replay did not finish")
    byvec = {v["vec"]: v for v in vecs}
    for r_ in results[:-1]:
        if r_["match"]:
            ck.traces_ok += 1
            continue
        v = byvec[r_["vec"]]
        # one key per direction and failure class: Dec = the bindings parsing the specification's bytes, Enc = the bindings
        # serialising the specification's value; sub = refused (error) | panic | differs | unread | request-decoder
        for f in r_.get("fails") or [{"stage": "Dec", "sub": "differs", "detail": ""}]:
            # a long vector that is cut shows up as unread bytes, an error or a different value depending on what follows
            # it: one key per direction and type for that class
            ck.report("C10:replay:%s:%s:%s" % (f["stage"], v["ty"], "long-vector" if v.get("cls") == "long-vector" else f["sub"]),
                      "bindings disagree with the specification (%s of an in-domain vector, %s, Go type %s): %s; vector %s" % (
                          "parsing the bytes" if f["stage"] == "Dec" else "serialising the value", f["sub"], f.get("go", "?"),
                          json.dumps({k: f[k] for k in f if k in ("detail", "got_v", "got_hex")})[:600], json.dumps(v)[:900]),
                      {"kind": "vector", "vector": v, "got": r_})
    ck.evaluations += len(plain)
    ck.sample({"direction": "S->C", "vector": plain[len(plain) // 3]})
    # canary S->C: corrupt the expected bytes of one vector
    cv = copy.deepcopy(next(v for v in plain if v["op"] == "Enc" and len(v["hex"]) >= 16))
    cv["hex"] = flip_hex(cv["hex"])
    cp, cr = os.path.join(ck.work, "canary_vec.ndjson"), os.path.join(ck.work, "canary_out.ndjson")
    vlib.write_ndjson(cp, [cv])
    ck.run_vh(["replay", "C10", "-in", cp, "-out", cr, astp])
    ck.canary("S->C: one byte of the expected encoding flipped", not vlib.read_ndjson(cr)[0]["match"])

    # (*Client) methods on a recording connection + LiteapiRequestDecoder, judged by TlSem_Trace
    callp = os.path.join(ck.work, "trace_calls.ndjson")
    end = run_calls(ck, astp, vecp, callp)
    if end.get("undriven") or end.get("methods") != len(ast["functions"]):
        raise Infra("request methods not driven: %s (driven %s of %d functions)" % (end.get("undriven"), end.get("methods"), len(ast["functions"])))
    ck.extra["client_methods_driven"] = end["methods"]
    rdp = os.path.join(ck.work, "trace_reqdecode.ndjson")
    ck.run_vh(["drive", "C10", "-part", "reqdecode", "-in", vecp, "-out", rdp, astp])

    # ---------------------------------------------------------------- C->S
    shards = 32 if ck.thorough else 8
    def drive(i):
        tp = os.path.join(ck.work, "trace_%02d.ndjson" % i)
        ck.run_vh(["drive", "C10", "-out", tp, "-tier", ck.tier, "-seed", ck.seed, "-shard", i, "-shards", shards, astp])
        return tp
    traces = vlib.parallel(drive, range(shards))
    for tp in traces + [callp, rdp]:
        for l in open(tp):
            if '"k":"Panic"' in l:
                e = json.loads(l)
                ck.report("C10:panic:%s:%s" % (e.get("op"), e.get("ty") or e.get("fn")), "binding panicked: " + l[:600], {"kind": "panic", "event": e})
    judge(ck, traces, "codec")
    judge(ck, [callp], "client method")
    judge(ck, [rdp], "LiteapiRequestDecoder")
    evs = vlib.read_ndjson(traces[0])
    ck.sample({"direction": "C->S", "events": [{k: v for k, v in e.items() if k != "schema"} for e in evs[1:3]]})
    cevs = vlib.read_ndjson(callp)
    ck.sample({"direction": "client call", "event": {k: v for k, v in cevs[1].items() if k != "schema"}})

    refl_canaries = run_reflective(ck)
    # ---------------------------------------------------------------- canaries C->S
    # each canary is a two-line trace (the Reset of the event's segment + the corrupted event), so that a genuine
    # rejection elsewhere cannot disturb it
    def pair(lst, i):
        r = max(j for j in range(i + 1) if lst[j]["k"] == "Reset")
        return copy.deepcopy([lst[r], lst[i]])
    body = [e for e in evs if e.get("k") != "End"]
    im = next(i for i, e in enumerate(body) if e["k"] == "Marshal" and len(e["hex"]) >= 8)
    c1 = pair(body, im); c1[1]["hex"] = flip_hex(c1[1]["hex"])
    iu = next(i for i, e in enumerate(body) if e["k"] == "Unmarshal" and e["err"] == "" and e["rest"] > 0)
    c2 = pair(body, iu); c2[1]["rest"] -= 4
    c3 = pair(body, iu); c3[1]["hex"] = flip_hex(c3[1]["hex"], 0)
    cb = [e for e in cevs if e.get("k") != "End"]
    ic = next(i for i, e in enumerate(cb) if e["k"] == "Call" and e["err"] == "" and "res" in e)
    c4 = pair(cb, ic); c4[1]["payload"] = flip_hex(c4[1]["payload"], len(c4[1]["payload"]) - 16)
    c5 = pair(cb, ic); c5[1]["err"] = "e"; del c5[1]["res"]
    im = iu = ic = 1
    canary_traces(ck, [("marshal: one byte of a recorded encoding flipped", c1, im + 1),
                       ("unmarshal: unread tail misreported", c2, iu + 1),
                       ("unmarshal-input: first byte of the input changed, value kept", c3, iu + 1),
                       ("call: one byte of the captured request changed", c4, ic + 1),
                       ("call-result: returned value replaced by an error", c5, ic + 1)] + refl_canaries)
    return ck.finish(rule=RULE + RULE_REFL, distinct=ck.evaluations)


# ----------------------------------------------------------------------------------- phase "reflective"
REFL_TL = os.path.join(vlib.HARNESS, "internal", "c10", "reflective.tl")
RULE_REFL = (" Phase reflective: tl.Marshal / tl.Unmarshal on plain Go structs without MarshalTL/UnmarshalTL (mirror.go; asserted by reflection), i.e. "
             "encodeBasicStruct/encodeSumType/decodeBasicStruct/decodeSumType/compareWithTag, for the fixed schema reflective.tl (record of every primitive, "
             "vector of records, nested record, 3-constructor union with an empty alternative, union inside a record and inside a vector). S->C: TlRefl_Gen "
             "(TLC) emits values with TlSem!Enc's bytes, byte strings of lengths 0/1/253/254/255/256/65536/65537, and adversarial inputs with TlSem!Dec's "
             "verdict (unknown / byte-swapped / other alternative's constructor id, every truncation of short encodings, trailing bytes); the driver requires "
             "Marshal = bytes, Unmarshal = value, and for arbitrary bytes a value exactly when Dec gives one (same value, same unread count), never a panic. "
             "C->S: random values and mutated inputs recorded and judged by TlSem_Trace. Vacuity: every constructor of the union in both directions.")


def ctor_names(v, acc):
    if isinstance(v, dict):
        if "_" in v:
            acc.add(v["_"])
        for x in v.values():
            ctor_names(x, acc)
    elif isinstance(v, list):
        for x in v:
            ctor_names(x, acc)
    return acc


def run_reflective(ck):
    sys.path.insert(0, os.path.join(vlib.VERIF, "tools"))
    import tl2json
    ast = tl2json.parse(open(REFL_TL).read())
    astp = os.path.join(ck.work, "reflective.json")
    open(astp, "w").write(json.dumps(ast, separators=(",", ":")) + "\n")
    union = sorted(d["ctor"] for d in ast["types"] if d["result"] == "r.Choice")
    if len(ast["types"]) != 9 or len(union) != 3:
        raise Infra("reflective.tl parsed to %d types, union of %d" % (len(ast["types"]), len(union)))
    # ---- S->C
    rounds = 300 if ck.thorough else 12
    cfg = "CONSTANTS\n  Seed = %d\n  Rounds = %d\nSPECIFICATION Spec\nINVARIANT Emit\nCHECK_DEADLOCK FALSE\n" % (ck.seed, rounds)
    cp_ = os.path.join(ck.work, "TlRefl_Gen.cfg")
    open(cp_, "w").write(cfg)
    res = ck.tlc_or_infra("TlRefl_Gen", os.path.relpath(cp_, vlib.SPEC), files={"schema.json": astp}, name="refl_gen", timeout=1500, heap_gb=3)
    vecs = sorted(res.vecs(), key=lambda v: v["vec"])
    if len(vecs) < 7 * rounds + 16 + 100:
        raise Infra("TlRefl_Gen emitted only %d vectors" % len(vecs))
    vp, rp = os.path.join(ck.work, "refl_vectors.ndjson"), os.path.join(ck.work, "refl_replay.ndjson")
    vlib.write_ndjson(vp, vecs)
    ck.run_vh(["replay", "C10", "-part", "reflective", "-in", vp, "-out", rp, astp])
    results = vlib.read_ndjson(rp)
    if results[-1].get("k") != "End" or results[-1]["events"] != len(vecs):
        raise Infra("reflective replay did not finish")
    byvec = {v["vec"]: v for v in vecs}
    for r_ in results[:-1]:
        if r_["match"]:
            ck.traces_ok += 1
            continue
        v = byvec[r_["vec"]]
        shape = v["ty"] if v["op"] == "Enc" else v["cls"]
        for f in r_["fails"]:
            ck.report("C10:reflective:%s:%s" % (f["stage"], shape),
                      "reflective tl codec disagrees with the specification (%s, %s, type %s, class %s): %s; vector %s" % (
                          f["stage"], f["sub"], v["ty"], v.get("cls"), json.dumps({k: f[k] for k in f if k in ("detail", "got_v", "got_hex")})[:600], json.dumps(v)[:900]),
                      {"kind": "reflective-vector", "vector": v, "got": r_})
    ck.evaluations += len(vecs)
    classes = {}
    for v in vecs:
        classes[v["op"] + ":" + v.get("cls", "")] = classes.get(v["op"] + ":" + v.get("cls", ""), 0) + 1
    seen_sc = ctor_names([v["v"] for v in vecs if v["op"] == "Enc"], set())
    seen_sc_dec = ctor_names([v["v"] for v in vecs if v["op"] == "Dec" and v["ok"]], set())
    # canary S->C: claim that refused bytes decode / that a value is refused
    cv = copy.deepcopy(next(v for v in vecs if v["op"] == "Dec" and v["cls"] == "unknown-id"))
    cv2 = copy.deepcopy(next(v for v in vecs if v["op"] == "Dec" and v["cls"] == "exact")); cv2["ok"] = False
    cv["ok"], cv["v"], cv["rest"] = True, cv2["v"], 0
    cvp, cvr = os.path.join(ck.work, "refl_canary_vec.ndjson"), os.path.join(ck.work, "refl_canary_out.ndjson")
    vlib.write_ndjson(cvp, [cv, cv2])
    ck.run_vh(["replay", "C10", "-part", "reflective", "-in", cvp, "-out", cvr, astp])
    cr = vlib.read_ndjson(cvr)
    ck.canary("reflective S->C: verdict of an unknown-id input and of an exact encoding inverted", not cr[0]["match"] and not cr[1]["match"])
    # ---- C->S
    shards = 7 if ck.thorough else 2
    def drive(i):
        tp = os.path.join(ck.work, "refl_trace_%02d.ndjson" % i)
        ck.run_vh(["drive", "C10", "-part", "reflective", "-out", tp, "-tier", ck.tier, "-seed", ck.seed, "-shard", i, "-shards", shards, astp])
        return tp
    traces = vlib.parallel(drive, range(shards))
    def val(tp):
        return ck.validate_segments("TlSem_Trace", "trace/TlSem_Trace.cfg", tp, timeout=2400, heap_gb=4, name="refl_" + os.path.basename(tp).split(".")[0][-2:])
    for tp, (res, rejected) in zip(traces, vlib.parallel(val, traces, n=7)):
        if res.tuples("DOMAIN"):
            raise Infra("reflective: the harness produced a value outside the type's domain (%s)" % tp)
        for rj in rejected:
            e = rj["event"]
            shape = rj["segment"][0].get("note", "").split(":")[-1]
            if e.get("why") in ("truncated", "truncated-every", "unknown-id", "swapped-id"):
                shape += ":" + e["why"].replace("-every", "")
            ck.report("C10:reflective:codec:%s" % shape, "reflective tl codec: recorded event is not what TlSem defines: segment at line %d accepted %d of %d; rejected %s" % (
                rj["seg"], rj["accepted"], rj["length"], json.dumps(e)[:1500]), {"kind": "trace", "event": e, "reflective": True})
    mar, unm, nev, whys = set(), set(), 0, {}
    allev = []
    for tp in traces:
        for e in vlib.read_ndjson(tp):
            if e.get("k") == "Panic":
                ck.report("C10:reflective:panic:%s" % e.get("ty"), "reflective tl codec panicked: " + json.dumps(e)[:600], {"kind": "panic", "event": e})
            if e.get("k") == "Marshal" and e["err"] == "":
                ctor_names(e["v"], mar)
            if e.get("k") == "Unmarshal":
                whys[e.get("why", "")] = whys.get(e.get("why", ""), 0) + 1
                if e["err"] == "":
                    ctor_names(e["v"], unm)
            allev.append(e)
    # vacuity: every constructor of the union in both directions, S->C and C->S
    for nm, have in (("S->C Enc vectors", seen_sc), ("S->C Dec vectors", seen_sc_dec), ("C->S Marshal events", mar), ("C->S Unmarshal events", unm)):
        if not set(union) <= have:
            raise Infra("reflective phase is vacuous: %s never show constructor(s) %s of r.Choice" % (nm, sorted(set(union) - have)))
    ck.extra["reflective"] = {"schema_types": len(ast["types"]), "vectors": classes, "trace_events": len(allev), "unmarshal_inputs": whys,
                              "union_constructors_seen": {"marshal": sorted(mar & set(union)), "unmarshal": sorted(unm & set(union))}}
    ck.sample({"direction": "reflective S->C", "vector": next(v for v in vecs if v["op"] == "Dec" and v["cls"] == "wrong-byte-order-id")})
    # ---- canaries C->S: a changed byte, a swapped constructor id, a dropped vector element
    body = [e for e in allev if e.get("k") != "End"]
    def pair(i):
        r = max(j for j in range(i + 1) if body[j]["k"] == "Reset")
        return copy.deepcopy([body[r], body[i]])
    i1 = next(i for i, e in enumerate(body) if e["k"] == "Marshal" and e["ty"] == "r.prim")
    c1 = pair(i1); c1[1]["hex"] = flip_hex(c1[1]["hex"], 1)
    i2 = next(i for i, e in enumerate(body) if e["k"] == "Marshal" and e["ty"] == "r.Choice" and e["v"]["_"] == "r.alpha")
    c2 = pair(i2); c2[1]["hex"] = "efbe3412" + c2[1]["hex"][8:]          # r.beta's id in front of r.alpha's fields
    i3 = next(i for i, e in enumerate(body) if e["k"] == "Marshal" and e["ty"] == "r.list" and len(e["v"]["items"]) >= 1)
    c3 = pair(i3); c3[1]["v"]["items"] = c3[1]["v"]["items"][1:]
    return [("reflective changed byte: one byte of a recorded encoding changed", c1, 2),
            ("reflective swapped id: another alternative's constructor id in a recorded encoding", c2, 2),
            ("reflective dropped element: one vector element removed from the recorded value", c3, 2)]


def replay(ck, path):
    """Re-execute a stored vector / event against the current tree."""
    rp = json.load(open(path))["replay"]
    if rp["kind"] == "regen":
        regen(ck)
        for v in ck.violations:
            print("VIOLATION property=C10 replay=%s   # %s" % (path, v["key"]))
        return 1 if ck.violations else 0
    ast, astp = make_ast(ck)
    ck.build_vh()
    if rp["kind"] == "reflective-vector" or rp.get("reflective"):
        sys.path.insert(0, os.path.join(vlib.VERIF, "tools"))
        import tl2json
        rast = tl2json.parse(open(REFL_TL).read())
        rastp = os.path.join(ck.work, "reflective.json")
        open(rastp, "w").write(json.dumps(rast, separators=(",", ":")) + "\n")
        if rp["kind"] == "reflective-vector":
            vp, out = os.path.join(ck.work, "v.ndjson"), os.path.join(ck.work, "o.ndjson")
            vlib.write_ndjson(vp, [rp["vector"]])
            ck.run_vh(["replay", "C10", "-part", "reflective", "-in", vp, "-out", out, rastp])
            r = vlib.read_ndjson(out)[0]
            print(json.dumps(r)[:3000])
            if not r.get("match"):
                print("VIOLATION property=C10 replay=%s" % path)
                return 1
            return 0
        # a recorded event of the reflective phase: re-judge it (re-recording: bin/check C10)
        tp = os.path.join(ck.work, "replay.ndjson")
        vlib.write_ndjson(tp, [{"k": "Reset", "schema": rast, "note": "replay"}, rp["event"], {"k": "End"}])
        _, rej = ck.validate_segments("TlSem_Trace", "trace/TlSem_Trace.cfg", tp, name="replay")
        print(json.dumps(rp["event"])[:3000])
        if rej or rp["kind"] == "panic":
            print("VIOLATION property=C10 replay=%s" % path)
            return 1
        return 0
    if rp["kind"] == "vector":
        vp, out = os.path.join(ck.work, "v.ndjson"), os.path.join(ck.work, "o.ndjson")
        vlib.write_ndjson(vp, [rp["vector"]])
        ck.run_vh(["replay", "C10", "-in", vp, "-out", out, astp])
        r = vlib.read_ndjson(out)[0]
        print(json.dumps(r)[:3000])
        if not r.get("match"):
            print("VIOLATION property=C10 replay=%s" % path)
            return 1
        return 0
    if rp["kind"] in ("trace", "panic"):
        e = rp["event"]
        tp = os.path.join(ck.work, "replay.ndjson")
        if e.get("k") in ("Marshal", "Unmarshal", "ReqDecode"):
            # re-execute the stored input against the current tree; TLC judges the fresh event
            ip = os.path.join(ck.work, "replay_in.ndjson")
            vlib.write_ndjson(ip, [e])
            ck.run_vh(["drive", "C10", "-part", "rerecord", "-in", ip, "-out", tp, astp])
            fresh = vlib.read_ndjson(tp)
            for x in fresh[1:-1]:
                print(json.dumps(x)[:3000])
            if any(x.get("k") == "Panic" for x in fresh):
                print("VIOLATION property=C10 replay=%s" % path)
                return 1
        else:
            # client calls / panics inside the in-package driver: re-judge the stored event (re-recording: bin/check C10)
            vlib.write_ndjson(tp, [{"k": "Reset", "schema": ast, "note": "replay"}, e, {"k": "End"}])
            print(json.dumps({k: v for k, v in e.items() if k != "schema"})[:3000])
        _, rej = ck.validate_segments("TlSem_Trace", "trace/TlSem_Trace.cfg", tp, name="replay")
        if rej or rp["kind"] == "panic":
            print("VIOLATION property=C10 replay=%s" % path)
            return 1
        return 0
    raise Infra("unknown replay kind %r" % rp["kind"])
