# X09 (extra check): the get-method layer (abi.GetXxx / abi.DecodeXxxResult, generated from abi/schemas/*.xml) against
# spec/GetMethodAbi.tla. The schema table the specification works on is built HERE from the XML files of the checked tree.
import json, os, re, copy, glob, collections
import xml.etree.ElementTree as ET
import vlib, xgrow
from vlib import Infra, log

RULE = ("The schema table (method -> argument records, layouts -> field records with stack type, nullable, list, type word, required value) "
        "is built from abi/schemas/*.xml of the checked tree. Model: TLC evaluates over all methods that method ids (crc16 rule) are "
        "unique and which layouts are shadowed (an earlier layout fits every stack the later one fits). S->C: GetMethodAbi_Gen writes "
        "for every method and every layout fitting result stacks (small tinyints, the same as vm_stk_int, 0, type maxima / minima, null "
        "where nullable, empty lists, -1 / 2^63 / 2^255 at single positions), stacks with one position of another kind, null at a "
        "non-nullable position, a wrong required value, too short, empty and longer stacks, exit codes 0 / 1 / 2 / 0xffffffff and an "
        "executor error, plus argument vectors; the Go driver calls every exported GetXxx by reflection with a recording executor that "
        "returns the scripted answer, and every DecodeXxxResult on the same stack. C->S: GetMethodAbi_Trace re-derives from the schema "
        "table and the scripted answer the method id, the params stack, for every decoder whether it must accept and each field value "
        "(VmStackApi reader model), and the selected layout, and rejects events where the library differs; a panic is never accepted. "
        "distinct = distinct (method, answer, arguments) cases.")
TRACE = ("GetMethodAbi_Trace", "trace/GetMethodAbi_Trace.cfg")

# reader deviations already known (patches/0007, C03 phase vmstack: observations outside the listed properties)
KNOWN_READER = {"int->u64", "int->bool", "tinyint->b256", "integer->ptr", "integer->int:out-of-range", "integer->b256:out-of-range",
                "tuple1->S1", "tuple0->S0"}

KNOWN_WORDS = {"cell", "int8", "int32", "int64", "bool", "uint8", "uint16", "uint32", "uint64", "uint128", "int256", "int257", "bits256", "any",
               "[]byte", "string", "coins", "big.int", "dnsrecord", "dns_recordset", "msgaddress", "text", "fullcontent", "stateinit",
               "int16", "uint256", "uint257"}


def camel(s):
    """The library's CamelCase rule for names (utils.ToCamelCase as documented by its tests: words are separated by _ - . and space,
    a digit ends a word)."""
    s = s.strip()
    out, cap = [], True
    for i, ch in enumerate(s):
        up, low = "A" <= ch <= "Z", "a" <= ch <= "z"
        if cap and low:
            ch = ch.upper()
        elif not cap and i == 0 and up:
            ch = ch.lower()
        if up or low:
            out.append(ch); cap = False
        elif ch.isdigit() and ch.isascii():
            out.append(ch); cap = True
        else:
            cap = ch in "_ -."
    return "".join(out)


def crc16(b):
    r = 0
    for x in b:
        r ^= x << 8
        for _ in range(8):
            r = ((r << 1) ^ 0x1021) & 0xffff if r & 0x8000 else (r << 1) & 0xffff
    return r


def record(e):
    word = (e.text or "").strip()
    ty = word.lower() if word.lower() in KNOWN_WORDS else word
    req = e.get("required_value", "")
    return {"name": e.get("name", ""), "st": e.tag, "nullable": e.get("nullable", "") == "true", "list": e.get("list", "") == "true",
            "ty": ty, "req": str(int(req, 0)) if req else "", "sub": [record(c) for c in e] if e.tag == "tuple" else []}


def build_schema(repo):
    """abi/schemas/*.xml -> the table of spec/GetMethodAbi.tla. Returns (methods sorted by name, remarks)."""
    files = sorted(glob.glob(os.path.join(repo, "abi", "schemas", "*.xml")))
    if not files:
        raise Infra("no schema files under %s/abi/schemas" % repo)
    by, remarks = collections.OrderedDict(), []
    for f in files:
        try:
            root = ET.parse(f).getroot()
        except ET.ParseError as ex:
            raise Infra("schema %s is not XML: %s" % (f, ex))
        for m in root.findall("get_method"):
            name = m.get("name")
            ins = [{"name": r.get("name", ""), "st": r.tag, "ty": record(r)["ty"]} for r in (m.find("input") if m.find("input") is not None else [])]
            outs = []
            for o in m.findall("output"):
                ver = o.get("version", "")
                outs.append({"ver": ver, "fixed": o.get("fixed_length", "") == "true", "fields": [record(r) for r in o], "file": os.path.basename(f)})
                for a in o.attrib:
                    if a not in ("version", "fixed_length"):
                        remarks.append("%s: attribute %s on <output> of %s is not part of the schema grammar (ignored)" % (os.path.basename(f), a, name))
            for a in m.attrib:
                if a not in ("name", "id"):
                    remarks.append("%s: attribute %s on <get_method name=%s> is not part of the schema grammar (ignored)" % (os.path.basename(f), a, name))
            fid = int(m.get("id", "0") or "0", 0)
            if name in by:
                if by[name]["ins"] or ins:
                    raise Infra("method %s is declared twice with arguments" % name)
                by[name]["layouts"] += outs
            else:
                by[name] = {"name": name, "go": camel(name), "fixedid": fid, "ins": ins, "layouts": outs}
    methods = [by[k] for k in sorted(by)]
    for m in methods:
        for L in m["layouts"]:
            L["name"] = m["go"] + ("_" + camel(L["ver"]) if L["ver"] else "") + "Result"
        if not m["layouts"]:
            raise Infra("method %s has no output" % m["name"])
    return methods, remarks


# ------------------------------------------------------------------------------------------------ Go table + build
def table_go(methods, missing=()):
    fs = ['\t"%s": abi.%s,' % (m["name"], m["go"]) for m in methods if "abi." + m["go"] not in missing]
    ds = ['\t"%s": abi.Decode%s,' % (L["name"], L["name"]) for m in methods for L in m["layouts"] if "abi.Decode" + L["name"] not in missing]
    return ("// generated by checks/x09.py from the names in abi/schemas/*.xml (CamelCase rule); compiled against the tree under test\n"
            "package x09\n\nimport (\n\t\"github.com/tonkeeper/tongo/abi\"\n\t\"github.com/tonkeeper/tongo/tlb\"\n)\n\n"
            "var Funcs = map[string]any{\n%s\n}\n\nvar Decoders = map[string]func(tlb.VmStack) (string, any, error){\n%s\n}\n" % ("\n".join(fs), "\n".join(ds)))


def build_vh(ck, methods):
    """The harness with the generated function table compiled in place of internal/x09/table.go (go build -overlay). Names the
    library does not have (compiler: undefined: abi.X) are left out and returned."""
    import shutil, time
    shutil.copy(os.path.join(vlib.REPO, "go.sum"), os.path.join(vlib.HARNESS, "go.sum"))
    out = os.path.join(ck.work, "vh")
    modargs = []
    if os.path.realpath(vlib.REPO) != "/repo":
        alt = os.path.join(ck.work, "go.alt.mod")
        open(alt, "w").write(open(os.path.join(vlib.HARNESS, "go.mod")).read().replace("=> /repo", "=> " + os.path.realpath(vlib.REPO)))
        shutil.copy(os.path.join(vlib.REPO, "go.sum"), os.path.join(ck.work, "go.alt.sum"))
        modargs = ["-modfile", alt]
    tp, ovp = os.path.join(ck.work, "zz_table.go"), os.path.join(ck.work, "overlay_x09.json")
    json.dump({"Replace": {os.path.join(vlib.HARNESS, "internal", "x09", "table.go"): tp}}, open(ovp, "w"))
    missing = set()
    for attempt in range(8):
        open(tp, "w").write(table_go(methods, missing))
        p = vlib.sh(["go", "build"] + modargs + ["-overlay", ovp, "-tags", "verif", "-o", out, "./cmd/vh"], cwd=vlib.HARNESS, env=vlib.GOENV, check=False, timeout=900)
        if p.returncode == 0:
            ck.vh = out
            return sorted(missing)
        undefined = set(re.findall(r"zz_table\.go:\d+:\d+: undefined: (abi\.\w+)", p.stdout))
        if undefined - missing:
            missing |= undefined       # (the compiler stops after 10 errors: loop)
            continue
        if "internal/x09/" in p.stdout or "zz_table.go" in p.stdout or "/repo/" in p.stdout or os.environ.get("VERIF_NO_RETRY"):
            break
        time.sleep(20)                 # another package of the harness may be mid-edit
    raise Infra("harness does not build against the tree under test:\n" + p.stdout[-6000:])


# ------------------------------------------------------------------------------------------------ judging
def compare(c, e):
    """S->C: the case's expectation (written by TLC) against the recorded call. None = as required."""
    w, o = c["want"], e["out"]
    if not e["present"]:
        return "missing-function"
    if o["res"] not in ("ok", "err"):
        return o["res"]
    if e["calls"] != 1:
        return "executor-calls"
    if e["gotid"] != w["id"]:
        return "method-id"
    if e["params"] != w["params"]:
        return "params"
    if w["sel"] == "err":
        return None if o["res"] == "err" else "selection"
    if "!err" in w["fields"]:
        return None                     # the selected layout cannot be read: error or a later layout, left open
    if o["res"] != "ok":
        return None if "?" in w["fields"] else "refused"
    if o["layout"] != w["sel"] or o["ty"] != w["sel"]:
        return "selection"
    if len(o["fields"]) != len(w["fields"]) or any(a != "?" and a != b for a, b in zip(w["fields"], o["fields"])):
        return "field"
    return None


def split_note(txt):
    """'class@layout ;; class@-' -> [(class, layout)]"""
    out = []
    for it in txt.split(" ;; "):
        cl, _, lay = it.rpartition("@")
        out.append((cl, lay))
    return out


def leaf_classes(cl):
    """'read:value:a+b|c' -> (kind, {a, b, c})"""
    parts = cl.split(":", 2)
    kind = parts[1] if len(parts) > 1 else ""
    rest = parts[2] if len(parts) > 2 else ""
    return kind, set(x for grp in rest.split("|") for x in grp.split("+") if x)


def slim(e, n=2500):
    s = json.dumps(e)
    return e if len(s) <= n else s[:n] + "..."


CLS_RE = re.compile(r'<<\s*"CLS",\s*(\d+),\s*"([^"]*)"\s*>>')
NOTE_RE = re.compile(r'<<\s*"NOTE",\s*(\d+),\s*"([^"]*)",\s*"([^"]*)"\s*>>')


def judge(ck, events, name, schema_path):
    """xgrow.judge, reading the NOTE tuples also where TLC's printer wrapped them over several lines."""
    p = os.path.join(ck.work, name + ".ndjson")
    vlib.write_ndjson(p, list(events) + [{"k": "End", "events": len(events)}])
    res, rejected = ck.validate_events(*TRACE, p, timeout=1500, name=name, heap_gb=3, extra_files={"schema.ndjson": schema_path})
    bad = set(r["line"] for r in rejected)
    notes = {}
    for ln, meth, txt in NOTE_RE.findall(res.out):
        notes.setdefault(int(ln) - 1, []).append([meth, txt])
    for ln, txt in CLS_RE.findall(res.out):
        CLEARED.update(x for grp in txt.split("|") for x in grp.split("+") if x)
    return [i + 1 not in bad for i in range(len(events))], notes


CLEARED = set()        # reading classes seen in accepted calls of this run


def judge_all(ck, schema_path, events, name, shards=8):
    """Run GetMethodAbi_Trace over the events in `shards` processes. Returns (verdicts, notes) aligned with events."""
    if not events:
        return [], {}
    k = max(1, min(shards, len(events) // 50 or 1))
    parts = [events[i::k] for i in range(k)]
    res = vlib.parallel(lambda t: judge(ck, t[1], "%s_%02d" % (name, t[0]), schema_path), list(enumerate(parts)), n=k)
    verd, notes = [None] * len(events), {}
    for s, (vd, nts) in enumerate(res):
        for j, ok in enumerate(vd):
            verd[s + j * k] = ok
            if j in nts:
                notes[s + j * k] = nts[j]
    return verd, notes


def classify(ck, e, note, observations, replay_obj):
    """One rejected event: every disagreement is an observation (a reader deviation already known) or a violation."""
    m = e["method"]
    items = split_note(note[0][1]) if note else [("no-note", "-")]
    if any(cl.startswith("shape:") for cl, _ in items):
        items = [(cl, lay) for cl, lay in items if not cl.startswith("selection")]      # the consequence of the decoder's acceptance
    for cl, lay in items:
        if cl in ("missing-function", "missing-decoder"):
            ck.report("X09:%s:missing-function" % m, "abi/schemas declares get method %s (layout %s) but package abi has no function for it" % (m, lay), replay_obj)
            continue
        if cl.startswith("read:"):
            kind, leaves = leaf_classes(cl)
            if leaves & KNOWN_READER:
                observations["%s (%s)" % ("+".join(sorted(leaves & KNOWN_READER)), kind)].add("%s/%s" % (m, lay))
                continue
            # a refusal names every reading of the layout: those also seen in accepted calls are not the cause
            suspects = (leaves - CLEARED) or leaves
            what = ("method %s, layout %s: a result stack that fits the layout is not read as spec/GetMethodAbi.tla (VmStackApi reader model) requires "
                    "[%s]: stack %s; decoders %s; call %s" % (m, lay, cl, json.dumps(e["stack"])[:700], json.dumps(e["decs"])[:700], json.dumps(e["out"])[:400]))
            for sc in sorted(suspects):
                ck.report("X09:read:%s:%s" % (kind, sc), what, replay_obj)
            continue
        elif cl.startswith("shape:"):
            key = "X09:%s:%s:%s" % (m, lay, cl)
            what = ("method %s: the decoder of layout %s accepted a result stack that does not fit the layout the schema declares (%s): stack %s; decoder %s"
                    % (m, lay, cl.split(":", 1)[1], json.dumps(e["stack"])[:900], json.dumps([d for d in e["decs"] if d["name"] == lay])[:600]))
        elif cl.startswith("selection"):
            key = "X09:%s:selection" % m
            what = ("method %s: the call did not return the first layout (schema order) whose shape the result stack fits [%s]: exit %s stack %s; decoders %s; call %s"
                    % (m, cl, e["exit"], json.dumps(e["stack"])[:700], json.dumps(e["decs"])[:700], json.dumps(e["out"])[:400]))
        else:
            key = "X09:%s:%s" % (m, cl)
            what = "method %s: %s: handed to the executor id %s params %s (calls %s); exit %s; call %s; decoders %s" % (
                m, cl, e["gotid"], json.dumps(e["params"])[:500], e["calls"], e["exit"], json.dumps(e["out"])[:500], json.dumps(e["decs"])[:500])
        ck.report(key, what, replay_obj)


# ------------------------------------------------------------------------------------------------ the check
def run_cases(ck, vecs, name, shards=4):
    """vh replay X09 over the method vectors (sharded by method). Returns the events, aligned with the flattened cases."""
    k = max(1, min(shards, len(vecs)))
    parts = [vecs[i::k] for i in range(k)]

    def one(t):
        i, part = t
        evs, pending, p = xgrow.run_vectors(ck, "X09", part, "%s_%02d" % (name, i))
        return evs, pending, p
    res = vlib.parallel(one, list(enumerate(parts)), n=k)
    out = {}
    for (evs, pending, p), part in zip(res, parts):
        if pending:
            # the driver died inside a call: attribute it, never a silent pass
            ck.report("X09:%s:crash" % pending.get("method", "?"), "the driver died inside case %s of method %s (%s)" % (
                pending.get("case"), pending.get("method"), p.stdout[-600:]), {"kind": "cases", "vectors": [v for v in part if v["method"] == pending.get("method")]})
            raise Infra("driver died inside a call of %s: %s" % (pending.get("method"), p.stdout[-1500:]))
        if p.returncode != 0:
            raise Infra("replay failed: " + p.stdout[-2000:])
        for e in evs:
            out[(e["method"], e["case"])] = e
    flat = []
    for v in vecs:
        for i, c in enumerate(v["cases"]):
            e = out.get((v["method"], i))
            if e is None:
                raise Infra("no event for case %d of %s" % (i, v["method"]))
            flat.append((v, i, c, e))
    return flat


def run(ck):
    ck.assumptions += ["TLC + CommunityModules Json", "the schema grammar is abi/parser/parser.go's (attributes outside it carry no meaning)",
                       "type words map to Go destinations as documented in abi/parser (coins = the library's uint64 Grams)",
                       "slices are whole-cell windows (sub-windows are C03's subject); TL-B types other than cell / any / msgaddress are read freely",
                       "reader deviations listed in patches/0007 are observations here as in C03"]
    methods, remarks = build_schema(vlib.REPO)
    sp = os.path.join(ck.work, "schema.ndjson")
    vlib.write_ndjson(sp, methods)
    nlay = sum(len(m["layouts"]) for m in methods)
    ck.extra["schema"] = {"methods": len(methods), "layouts": nlay, "methods_with_arguments": sum(1 for m in methods if m["ins"]), "remarks": remarks}
    missing = build_vh(ck, methods)
    pp = os.path.join(ck.work, "params.json")
    json.dump({"seed": ck.seed}, open(pp, "w"))
    res = ck.tlc_or_infra("GetMethodAbi_Gen", "gen/GetMethodAbi_Gen_full.cfg" if ck.thorough else "gen/GetMethodAbi_Gen.cfg",
                          files={"schema.ndjson": sp, "params.json": pp}, workers=8, timeout=1500, name="gen", heap_gb=4)
    vecs = sorted(res.vecs(), key=lambda v: v["method"])
    model = res.vecs("MODEL")
    if len(model) != 1 or [v["method"] for v in vecs] != [m["name"] for m in methods]:
        raise Infra("generator incomplete: %d methods of %d, %d model records" % (len(vecs), len(methods), len(model)))
    model = model[0]
    # ---- the model questions over all methods
    if model["ids"] != [m["fixedid"] or (0x10000 | crc16(m["name"].encode())) for m in methods]:
        raise Infra("TextForms!MethodId and the tool's crc16 disagree")
    for a, b in model["dupids"]:
        ck.report("X09:schema:method-id:%s=%s" % (a, b), "the schema declares two methods with one method id: %s and %s" % (a, b), {"kind": "schema"})
    for a, b in model["dupgo"]:
        ck.report("X09:schema:go-name:%s=%s" % (a, b), "two methods of the schema map to one Go function name: %s and %s" % (a, b), {"kind": "schema"})
    shadowed = {(s["method"], s["layout"]): s["by"] for s in model["shadowed"]}
    ck.extra["shadowed_layouts"] = ["%s: %s is never selected (every stack that fits it fits %s)" % (m, l, by) for (m, l), by in sorted(shadowed.items())]
    for s in ck.extra["shadowed_layouts"]:
        ck.notes.append("observation (not a verdict): shadowed layout: " + s)
    for r in remarks:
        ck.notes.append("observation (not a verdict): " + r)
    for nm in missing:
        short = nm.split(".", 1)[1]
        m = next((m for m in methods if m["go"] == short or any("Decode" + L["name"] == short for L in m["layouts"])), None)
        ck.report("X09:%s:missing-function" % (m["name"] if m else short),
                  "abi/schemas declares get method %s but package abi has no %s (generated code older than its schema)" % (m["name"] if m else "?", nm), {"kind": "schema"})

    # ---- S->C + C->S: every case through the real code, every event judged by TLC
    flat = run_cases(ck, vecs, "cases")
    events = [e for _, _, _, e in flat]
    verd, notes = judge_all(ck, sp, events, "trace")
    observations = collections.defaultdict(set)
    accepted = []
    classes = collections.Counter()
    for (v, i, c, e), ok in zip(flat, verd):
        classes[c["cls"].split(":", 1)[1]] += 1
        why = compare(c, e)
        idx = len(accepted) if ok else None
        if ok:
            if why:
                raise Infra("the two directions disagree on case %d of %s: the direct comparison says '%s', GetMethodAbi_Trace accepted: %s" % (i, v["method"], why, json.dumps(e)[:1500]))
            accepted.append((v, i, c, e))
            continue
        k = events.index(e) if False else None
    for n, ((v, i, c, e), ok) in enumerate(zip(flat, verd)):
        if not ok:
            classify(ck, e, notes.get(n), observations, {"kind": "cases", "vectors": [{"method": v["method"], "go": v["go"], "layouts": v["layouts"], "cases": [c]}]})
    ck.extra["cases_by_class"] = dict(classes)
    ck.extra["events"] = len(events)
    ck.extra["events_rejected_as_known_reader_deviation"] = sum(1 for ok in verd if not ok) if not ck.violations and not ck.known_hit else "see violations"
    for k_, ms in sorted(observations.items()):
        ck.notes.append("observation (not a verdict; reader deviation listed in patches/0007, as in C03): %s: %d layouts, e.g. %s" % (k_, len(ms), ", ".join(sorted(ms)[:4])))
    ck.extra["reader_observations"] = {k_: len(ms) for k_, ms in observations.items()}

    # ---- vacuity
    gone = {m["name"] for m in methods if "abi." + m["go"] in missing}
    seen = {e["method"] for _, _, _, e in accepted}
    lack = [m["name"] for m in methods if m["name"] not in seen and m["name"] not in gone]
    selected = collections.Counter(e["out"]["layout"] for _, _, _, e in accepted if e["out"]["res"] == "ok")
    unsel = [(m["name"], L["name"]) for m in methods for L in m["layouts"] if L["name"] not in selected and (m["name"], L["name"]) not in shadowed and m["name"] not in gone]
    exits = collections.Counter(e["exit"] for _, _, _, e in accepted if e["out"]["res"] == "ok")
    refused_exit = collections.Counter(e["exit"] for _, _, _, e in accepted if e["out"]["res"] == "err" and not e["xerr"])
    ck.extra["layouts_selected"] = len(selected)
    ck.extra["accepted_calls_by_exit_code"] = dict(exits)
    problems = []
    if lack:
        problems.append("methods without an accepted call: %s" % lack[:8])
    if unsel:
        problems.append("layouts never selected although not shadowed: %s" % unsel[:8])
    if exits["0"] == 0 or exits["1"] == 0 or refused_exit["2"] == 0 or refused_exit["4294967295"] == 0:
        problems.append("exit codes not covered: ok %s refused %s" % (dict(exits), dict(refused_exit)))
    if any(s in selected for (_, s) in shadowed):
        problems.append("a layout the model calls shadowed was selected: %s" % [s for (_, s) in shadowed if s in selected])
    if not any(m["ins"] and m["name"] in seen for m in methods):
        problems.append("no method with arguments was accepted")
    if problems:
        if ck.violations or ck.known_hit:
            ck.notes += ["vacuity (on a violating run): " + p for p in problems]
        else:
            raise Infra("vacuity: " + "; ".join(problems))
    if accepted:
        v, i, c, e = next(x for x in accepted if x[3]["out"]["res"] == "ok" and len(x[3]["out"]["fields"]) >= 3)
        ck.sample({"direction": "S->C / C->S", "method": v["method"], "case": c["cls"], "want": c["want"], "gotid": e["gotid"], "params": e["params"], "out": e["out"]})
        v, i, c, e = next((x for x in accepted if x[2]["args"] and x[3]["out"]["res"] == "ok"), accepted[0])
        ck.sample({"direction": "S->C / C->S", "method": v["method"], "case": c["cls"], "args": c["args"], "gotid": e["gotid"], "params": e["params"], "out": slim(e["out"], 600)})

    # ---- canaries
    canaries(ck, sp, accepted)
    return ck.finish(rule=RULE, distinct=len({json.dumps([v["method"], c["args"], c["exit"], c["xerr"], c["stack"]], sort_keys=True) for v, _, c, _ in flat}))


def canaries(ck, sp, accepted):
    cl = []

    def mut(nm, pred, f, sc=False, optional=False):
        x = next((x for x in accepted if pred(x[2], x[3])), None)
        if x is None:
            if not ck.violations and not ck.known_hit and not optional:
                raise Infra("no accepted event for canary '%s'" % nm)
            return
        c, e = copy.deepcopy(x[2]), copy.deepcopy(x[3])
        f(c, e)
        if sc:
            ck.canary("S->C: " + nm, compare(c, x[3]) is not None)
        else:
            cl.append(("C->S: " + nm, e))
    okf = lambda c, e: e["out"]["res"] == "ok" and len(e["out"]["fields"]) >= 2 and not e["out"]["fields"][0].startswith("?")
    two = lambda c, e: okf(c, e) and len(e["decs"]) >= 2
    mut("control", okf, lambda c, e: None)
    mut("wrong layout name returned by the call", two, lambda c, e: e["out"].update(layout=next(d["name"] for d in e["decs"] if d["name"] != e["out"]["layout"]),
                                                                                      ty=next(d["name"] for d in e["decs"] if d["name"] != e["out"]["layout"])))
    mut("layout name with another suffix", okf, lambda c, e: e["out"].update(layout=e["out"]["layout"] + "X", ty=e["out"]["ty"] + "X"))
    mut("a field value changed in the call's result", okf, lambda c, e: e["out"]["fields"].__setitem__(0, e["out"]["fields"][0] + "0"))

    def both(c, e):
        e["out"]["fields"][0] += "0"
        for d in e["decs"]:
            if d["name"] == e["out"]["layout"]:
                d["fields"][0] += "0"
    mut("a field value changed in the call's and the decoder's result", okf, both)
    mut("fields swapped", lambda c, e: okf(c, e) and e["out"]["fields"][0] != e["out"]["fields"][1] and not e["out"]["fields"][1].startswith("?"),
        lambda c, e: [x.update(fields=[x["fields"][1], x["fields"][0]] + x["fields"][2:]) for x in [e["out"]] + [d for d in e["decs"] if d["res"] == "ok" and d["name"] == e["out"]["layout"]]])
    mut("wrong method id", okf, lambda c, e: e.update(gotid=e["gotid"] ^ 1))
    mut("method id without the 0x10000 bit", okf, lambda c, e: e.update(gotid=e["gotid"] & 0xffff))
    mut("params in declaration order instead of stack order", lambda c, e: len(e["params"]) >= 2 and e["params"][0] != e["params"][-1], lambda c, e: e.update(params=e["params"][::-1]))
    mut("an integer argument handed over as tinyint", lambda c, e: any(p.startswith("int:") for p in e["params"]),
        lambda c, e: e.update(params=[p.replace("int:", "tiny:", 1) for p in e["params"]]))
    mut("another account", okf, lambda c, e: e.update(acct=False))
    mut("executor asked twice", okf, lambda c, e: e.update(calls=2))
    mut("exit code 2 answered with a result", okf, lambda c, e: e.update(exit="2"))
    mut("a refusal of a fitting stack", lambda c, e: okf(c, e) and "?" not in "".join(e["out"]["fields"]),
        lambda c, e: (e["out"].update(res="err", layout="", ty="", fields=[]), [d.update(res="err", layout="", ty="", fields=[]) for d in e["decs"] if d["name"] == c["want"]["sel"]]))
    mut("a decoder accepting a stack of the wrong shape", lambda c, e: e["out"]["res"] == "err" and e["exit"] in ("0", "1") and not e["xerr"] and c["cls"].endswith(("kind", "short", "empty")),
        lambda c, e: e["decs"][0].update(res="ok", layout=e["decs"][0]["name"], ty=e["decs"][0]["name"], fields=[]))
    mut("a later layout returned although the first fits", lambda c, e: two(c, e) and e["out"]["layout"] == e["decs"][0]["name"] and sum(1 for d in e["decs"] if d["res"] == "ok") >= 2,
        lambda c, e: e["out"].update(**{k_: next(d for d in e["decs"][1:] if d["res"] == "ok")[k_] for k_ in ("layout", "ty", "fields")}), optional=True)
    mut("panic logged", okf, lambda c, e: e["out"].update(res="panic"))
    mut("expected layout changed", okf, lambda c, e: c["want"].update(sel=c["want"]["sel"] + "X"), sc=True)
    mut("expected field value changed", okf, lambda c, e: c["want"]["fields"].__setitem__(0, c["want"]["fields"][0] + "1"), sc=True)
    mut("expected method id changed", okf, lambda c, e: c["want"].update(id=c["want"]["id"] + 1), sc=True)
    mut("expected params changed", lambda c, e: len(e["params"]) >= 1, lambda c, e: c["want"]["params"].__setitem__(0, "tiny:0"), sc=True)
    if cl:
        st = (ck.states, ck.transitions, ck.traces_ok, ck.evaluations)
        cverd, _ = judge(ck, [e for _, e in cl], "canaries", sp)
        ck.states, ck.transitions, ck.traces_ok, ck.evaluations = st
        for (nm, _), ok in zip(cl, cverd):
            if nm == "C->S: control":
                if not ok:
                    raise Infra("canary control line (untouched, accepted before) was rejected")
            else:
                ck.canary(nm, not ok)


def replay(ck, path):
    rp = json.load(open(path))["replay"]
    methods, _ = build_schema(vlib.REPO)
    sp = os.path.join(ck.work, "schema.ndjson")
    vlib.write_ndjson(sp, methods)
    missing = build_vh(ck, methods)
    if rp["kind"] == "schema":
        print("schema-level finding; functions of the schema the library lacks now: %s" % (missing or "none"))
        bad = bool(missing)
    else:
        flat = run_cases(ck, rp["vectors"], "replay", shards=1)
        events = [e for _, _, _, e in flat]
        verd, notes = judge_all(ck, sp, events, "replay_trace", shards=1)
        bad = False
        for n, ((v, i, c, e), ok) in enumerate(zip(flat, verd)):
            obs = collections.defaultdict(set)
            if not ok:
                before = len(ck.violations) + len(ck.known_hit)
                classify(ck, e, notes.get(n), obs, rp)
                print(json.dumps(e)[:3000], notes.get(n), "observation only" if len(ck.violations) + len(ck.known_hit) == before else "")
                bad = bad or len(ck.violations) + len(ck.known_hit) > before
    if bad:
        print("VIOLATION property=X09 replay=%s" % path)
        return 1
    print("replayed: accepted")
    return 0
