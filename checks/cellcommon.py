# shared by C01 / C02 / C07: the Cells_Gen generator run + replay, trace validation helpers
import json, os, re
import vlib
from vlib import Infra


def gen_and_replay(ck):
    """Cells_Gen: well-formed DAGs over all five cell types x header variants, written by the spec's reference
    writer; the real parser's view of each bag. Returns list of (vector, result)."""
    cfg = "gen/Cells_Gen_full.cfg" if ck.thorough else "gen/Cells_Gen_quick.cfg"
    res = ck.tlc_or_infra("Cells_Gen", cfg, workers=8, timeout=2400, name="cells_gen", heap_gb=8,
                          args=["-seed", str(ck.seed)])
    vecs = res.vecs()
    if len(vecs) < 500:
        raise Infra("Cells_Gen produced only %d vectors" % len(vecs))
    for i, v in enumerate(vecs):
        v["vec"] = i
        if not v["wf"] or not v["selfcheck"]:
            raise Infra("generator self-check failed for vector %d (%s)" % (i, v["kind"]))
    vp, rp = os.path.join(ck.work, "cellgen.ndjson"), os.path.join(ck.work, "cellgen_out.ndjson")
    vlib.write_ndjson(vp, vecs)
    ck.run_vh(["replay", "CELLGEN", "-in", vp, "-out", rp])
    out = vlib.read_ndjson(rp)
    if out[-1].get("k") != "End" or out[-1]["events"] != len(vecs):
        raise Infra("CELLGEN replay incomplete")
    return list(zip(vecs, out[:-1]))


def drive_shards(ck, pid, shards=None, extra=()):
    shards = shards or vlib.NCPU
    def drive(i):
        tp = os.path.join(ck.work, "trace_%02d.ndjson" % i)
        ck.run_vh(["drive", pid, "-out", tp, "-tier", ck.tier, "-seed", ck.seed, "-shard", i, "-shards", shards] + list(extra), timeout=1800)
        return tp
    return vlib.parallel(drive, range(shards))


def notes_by_line(res):
    d = {}
    for t in res.tuples("NOTE"):
        d.setdefault(t[1], []).append(t[2:])
    return d


def src_class(e):
    s = e.get("src", e.get("class", "?"))
    return re.sub(r"[:\d]+.*$", "", s) or s


def slim(e, maxlen=4000):
    s = json.dumps(e)
    return e if len(s) <= maxlen else {"k": e.get("k"), "src": e.get("src"), "truncated": s[:maxlen]}
