# C05: dictionaries (Hashmap / HashmapE) preserve their key->value mapping (spec/Dict.tla).
import json, os, copy
import vlib, cellcommon
from vlib import Infra

RULE = ("S->C: Dict_Gen (TLC, BFS) enumerates every insertion order of every key set (size <= 3) from an adversarial pool per key "
        "type (all-0/all-1, min/max, adjacent in the last bit, common prefixes >= 8, runs >= 8), followed by encode, decode, lookups "
        "of every key and an absent key, an overwrite and a fresh insert on the decoded dictionary, encode, decode; Dict_GenF writes "
        "foreign dictionaries with label forms short/long/same assigned per edge. Both are replayed through tlb.HashmapE and compared "
        "step by step. C->S: the replays and random maps (up to 2000 entries, 21 key types, random and clustered keys, the same pairs put in different orders by Put and through the constructor "
        "NewHashmapE = Orders events, ConfigParams.CloneKeepingSubsetOfKeys on decoded configuration dictionaries = Subset events) are "
        "validated by Dict_Trace: every Put/Get/Enc/Dec/Load is a step of the abstract map, every encoding is a valid Patricia tree "
        "denoting exactly the map (spec decoder), listings after decode ascend in key bits, all orders give one hash. "
        "Key operations (KeyOps.tla): KeyOps_Gen (TLC) emits per key type (kind, n) - integers of 1..64 bits, byte strings of 8..512 bits, the "
        "288-bit address key - boundary keys (0, 1, 2, max, max-1, signed min/max and neighbours, -1, -2, top-bit / byte-boundary patterns, "
        "seeded random keys with top-bit / low-bit neighbours) and the pairs on them; the Go side finds EVERY type of package tlb with "
        "FixedSize / Equal / Compare by reflection, builds the keys with the library's codec and calls the three methods in both "
        "directions; KeyOps_Trace judges each call (FixedSize = n = codec width, Equal iff same bits, Compare = sign of the value order: "
        "numeric, two's complement for signed kinds, byte-wise for bits; ok flags; a key of another type is never equal / comparable). "
        "14 of the key types the library never instantiates itself (3..63-bit integers, 128/320/352-bit strings) go through the "
        "dictionary generators and drivers as well. Observations recorded after Dec / Load and judged against the abstract map: "
        "Values (Keys()/Values() = columns of Items(), HashmapE and plain Hashmap), Count (entry counters walking labels only), Json (one member "
        "per entry named by the key's text form), Balances (ShardState.AccountBalances over account dictionaries written per block.tlb, decoded "
        "by ShardAccounts.tla). Non-trivial = segment with >= 2 keys; distinct = distinct segments.")


CLS = {"i": "signed_key", "u": "unsigned_key", "b": "bits_key", "a": "address_key"}


def keyops(ck):
    """S->C + C->S for the key operations: TLC generates the pairs, the Go side calls every key type found by reflection, TLC
    judges every call. Returns (findings, canary_ok, stats); runs beside the dictionary generators."""
    seedf = os.path.join(ck.work, "keyseed.ndjson")
    vlib.write_ndjson(seedf, [{"seed": str(ck.seed)}])
    res = ck.tlc_or_infra("KeyOps_Gen", "gen/KeyOps_Gen_full.cfg" if ck.thorough else "gen/KeyOps_Gen_quick.cfg", files={"keyseed.ndjson": seedf},
                          workers=2, timeout=900, name="gen_keyops", heap_gb=2)
    vecs = res.vecs()
    if len(vecs) != 193:
        raise Infra("KeyOps_Gen produced %d vectors, expected one per key type (193)" % len(vecs))
    vp, tp = os.path.join(ck.work, "keyvecs.ndjson"), os.path.join(ck.work, "keyops.ndjson")
    vlib.write_ndjson(vp, vecs)
    ck.run_vh(["replay", "C05KEYS", "-in", vp, "-out", tp])
    evs = vlib.read_ndjson(tp)
    odd = [e for e in evs if e["k"] in ("Unclassified", "NoVector")]
    if odd:
        raise Infra("key types the check cannot place: %s" % json.dumps(odd[:5]))
    # (a key type whose in-domain keys the codec refuses is a verdict of the trace specification below, not a reason to give up here)
    types = {e["type"] for e in evs if e["k"] in ("Key", "KeyFail")}
    sizes = {e["type"] for e in evs if e["k"] == "Size"}
    if len(types) < 100:
        raise Infra("only %d key-capable types were found by reflection" % len(types))
    # canaries ride at the end of the same file: a swapped sign, an Equal on unequal keys, FixedSize off by one, a signed
    # pair of different signs read as unsigned, a dropped ok flag - derived from one recorded signed pair
    body = [e for e in evs if e["k"] != "End"]
    bi = next((i for i, e in enumerate(body) if e["k"] == "Key" and e["kind"] == "i" and e["a"][0] != e["b"][0] and e["n"] >= 8), None)
    if bi is None:
        raise Infra("no signed-key pair of different signs was recorded")
    base = body[bi]
    can = [dict(base, cmp=-base["cmp"], rcmp=-base["rcmp"]), dict(base, eq=True), dict(base, fs=base["fs"] + 1), dict(base, kind="u"), dict(base, rok=False)]
    vlib.write_ndjson(tp, body + can + [{"k": "End", "events": len(body) + len(can)}])
    r, rejected = ck.validate_events("KeyOps_Trace", "trace/KeyOps_Trace.cfg", tp, name="keyops", heap_gb=3, timeout=1200)
    notes = {t[1]: t[2] for t in r.notes}
    crej = [rj["line"] - len(body) for rj in rejected if rj["line"] > len(body)]
    rejected = [rj for rj in rejected if rj["line"] <= len(body)]
    ck.evaluations -= len(can)
    canary_ok = (bi + 1) not in {rj["line"] for rj in rejected} and crej == [1, 2, 3, 4, 5] and \
        [notes.get(len(body) + i) for i in range(1, 6)] == ["Compare", "Equal", "FixedSize", "Compare", "Compare-ok"]
    findings = []
    for rj in rejected:
        e = rj["event"]
        what = notes.get(rj["line"], e.get("op", e["k"]))
        if what == "input":
            raise Infra("malformed key-operation event: %s" % json.dumps(e)[:400])
        findings.append(("C05:keyops:%s%d:%s" % (e.get("kind", "?"), e.get("n", 0), what),
                         "%s (%s key, %d bits): %s does not hold for a=%s b=%s: FixedSize=%s Equal=%s/%s Compare=(%s,%s)/(%s,%s)%s" % (
                             e.get("type"), e.get("kind"), e.get("n", 0), what, e.get("a", "")[:80], e.get("b", "")[:80], e.get("fs"), e.get("eq"), e.get("req"),
                             e.get("cmp"), e.get("ok"), e.get("rcmp"), e.get("rok"), (" error: " + e["err"]) if e.get("err") else ""),
                         {"kind": "keyops", "event": e}))
    stats = {"keyops_types": len(types), "keyops_fixed_only_types": len(sizes), "keyops_calls": sum(1 for e in evs if e["k"] in ("Key", "Foreign", "Size")),
             "keyops_sample": next(({k: e[k] for k in ("type", "a", "b", "fs", "eq", "cmp", "ok")} for e in evs if e["k"] == "Key" and e["kind"] == "i" and e["n"] == 12 and e["a"] != e["b"]), {})}
    return findings, canary_ok, stats


def fkey(seg, ev, kind):
    """finding key from the input class: key kind, what failed, and whether the dictionary had been decoded + updated before"""
    ops = [e.get("k") for e in seg]
    decoded_then_put = False
    seen_dec = False
    for e in seg:
        if e is ev:
            break
        if e.get("k") in ("Dec", "Load"):
            seen_dec = True
        elif e.get("k") == "Put" and seen_dec:
            decoded_then_put = True
    k = ev.get("k")
    cls = {"i": "signed_key", "u": "unsigned_key", "b": "bits_key", "a": "address_key"}.get(kind, kind)
    if k in ("Enc", "Dec") and decoded_then_put:
        return "C05:%s:decode-put-marshal" % cls
    if k == "Fail":
        return "C05:%s:%s-failed" % (cls, ev.get("op"))
    return "C05:%s:%s" % (cls, k)


def run(ck):
    ck.assumptions += ["TLC 1.8.0, CommunityModules", "Prim (Sha256, Crc32c, converters)", "keys are turned into Go key values by the library's own integer/bits codecs (C03/C04 judge those)",
                       "values are 32-bit inline values; label forms of the library's own output are unconstrained"]
    ck.build_vh()
    # ---- generators (parallel)
    def g1(_):
        return ck.tlc_or_infra("Dict_Gen", "gen/Dict_Gen_ops_full.cfg" if ck.thorough else "gen/Dict_Gen_ops.cfg", workers=6, timeout=2400, name="gen_ops", heap_gb=8)
    def g2(_):
        return ck.tlc_or_infra("Dict_GenF", "gen/Dict_GenF_full.cfg" if ck.thorough else "gen/Dict_GenF_quick.cfg", workers=6, timeout=2400, name="gen_foreign", heap_gb=8)
    def gk(_):
        return keyops(ck)
    r1, r2, rk = vlib.parallel(lambda f: f(0), [g1, g2, gk], n=3)
    ops, foreign = r1.vecs(), r2.vecs()
    if len(ops) < 1000 or len(foreign) < 1000:
        raise Infra("generators produced too few vectors (%d, %d)" % (len(ops), len(foreign)))
    if not {(v["kind"], v["n"]) for v in ops} >= {("u", 3), ("i", 63), ("b", 128)}:
        raise Infra("the sample of additional key types is missing from the generated behaviours")
    kfind, kcanary, kstats = rk
    for key, what, rp in kfind:
        ck.report(key, what, rp)
    ck.extra.update(kstats)
    ck.canary("key operations: swapped Compare sign / Equal on unequal keys / FixedSize off by one / signed pair read as unsigned / ok flag dropped rejected, original accepted", kcanary)
    if not all(v["selfcheck"] for v in foreign):
        raise Infra("reference dictionary writer fails its own decoder")
    ck.rng.shuffle(ops); ck.rng.shuffle(foreign)
    nq = (6000, 12000) if ck.thorough else (900, 900)
    ops, foreign = ops[:nq[0]], foreign[:nq[1]]
    # the generators spell bit strings with letters (o = 0, i = 1: Dict_Pool!Lt), and Dict_Gen names each key of a behaviour
    # once and refers to it by position: spell both out for the replayer
    tr = str.maketrans("oi", "01")
    for v in ops:
        ks = [k.translate(tr) for k in v.pop("keys")]
        for st in v["steps"]:
            st["k"] = ks[st["k"] - 1] if st["k"] else ""
            st["v"] = st["v"].translate(tr)
            st["items"] = [[ks[i - 1], val.translate(tr)] for i, val in st["items"]]
    for v in foreign:
        v["items"] = [[k.translate(tr), val.translate(tr)] for k, val in v["items"]]
    vecs = ops + foreign
    for i, v in enumerate(vecs):
        v["vec"] = i
    ck.extra["vectors_ops"] = len(ops); ck.extra["vectors_foreign"] = len(foreign)
    ck.sample({"direction": "S->C", "vector": {"kind": ops[0]["kind"], "n": ops[0]["n"], "steps": ops[0]["steps"][:4]}})
    shards = vlib.NCPU
    def replay(i):
        vp, tp = os.path.join(ck.work, "vec_%02d.ndjson" % i), os.path.join(ck.work, "rtrace_%02d.ndjson" % i)
        vlib.write_ndjson(vp, vecs[i::shards])
        ck.run_vh(["replay", "C05", "-in", vp, "-out", tp])
        return tp
    rtraces = vlib.parallel(replay, range(shards))
    dtraces = cellcommon.drive_shards(ck, "C05")
    # S->C verdicts: Mismatch events; then all traces go to the trace spec
    bykind = {v["vec"]: v for v in vecs}
    def split(tp):
        evs = vlib.read_ndjson(tp)
        mm = [e for e in evs if e.get("k") == "Mismatch"]
        keep = [e for e in evs if e.get("k") != "Mismatch"]
        vlib.write_ndjson(tp, keep)
        return mm
    nmm = 0
    for tp in rtraces:
        for m in split(tp):
            nmm += 1
            v = bykind[m["vec"]]
            cls = {"i": "signed_key", "u": "unsigned_key", "b": "bits_key", "a": "address_key"}[m["kind"]]
            what = m["what"]
            key = "C05:%s:decode-put-marshal" % cls if what == "dec-items-order" and m["step"] > 4 and "boc" not in v else "C05:%s:%s" % (cls, what)
            ck.report(key, "replayed behaviour diverges from the abstract dictionary at step %d (%s): code lists %s" % (m["step"], what, json.dumps(m["got"])[:300]),
                      {"kind": "vector", "vector": v, "mismatch": m})
    ck.evaluations += len(vecs)
    def val(tp):
        return ck.validate_segments("Dict_Trace", "trace/Dict_Trace.cfg", tp, timeout=3000, name="trace_" + os.path.basename(tp)[:9], heap_gb=3)
    nontrivial = 0
    for tp, (res, rejected) in zip(rtraces + dtraces, vlib.parallel(val, rtraces + dtraces, n=16)):
        inputs = {t[1] for t in res.tuples("NOTE") if len(t) >= 3 and t[2] == "balances-input"}
        for rj in rejected:
            seg, e = rj["segment"], rj["event"]
            if rj["line"] in inputs:
                raise Infra("the shard state built for a Balances event does not hold the accounts derived from the map (%s line %d)" % (tp, rj["line"]))
            kind = seg[0].get("kind", "?")
            ck.report(fkey(seg, e, kind), "recorded dictionary operation is not a step of Dict (%s key, n=%s, source %s): segment accepted %d of %d events; rejected %s" % (
                kind, seg[0].get("n"), seg[0].get("src"), rj["accepted"], rj["length"], json.dumps(cellcommon.slim(e, 600))),
                {"kind": "trace", "segment": [cellcommon.slim(x, 3000) for x in seg[:rj["accepted"] + 1]], "rejected_index": rj["accepted"]})
        cur = 0
        for l in open(tp):
            # (replay traces were rewritten by json.dumps: "k": "Put")
            if '"k":"Reset"' in l[:300] or '"k": "Reset"' in l[:300]:
                nontrivial += cur >= 2; cur = 0
            elif '"k":"Put"' in l or '"k":"Load"' in l or '"k": "Put"' in l or '"k": "Load"' in l:
                e = json.loads(l)
                cur = max(cur, e.get("size", len(e.get("items", []))))
        nontrivial += cur >= 2
    evs = vlib.read_ndjson(dtraces[0])
    ck.sample({"direction": "C->S", "events": [cellcommon.slim(e, 700) for e in evs[:4]]})
    # canaries
    allev = [e for tp in rtraces[:2] for e in vlib.read_ndjson(tp) if e.get("k") != "End"]
    starts = [i for i, e in enumerate(allev) if e["k"] == "Reset"] + [len(allev)]
    def complete(sg):
        return (sum(1 for e in sg if e["k"] == "Put") >= 3 and any(e["k"] == "Enc" and e["err"] == "" for e in sg)
                and any(e["k"] == "Get" and e["found"] for e in sg) and any(e["k"] == "Dec" and e["err"] == "" and len(e["items"]) >= 2 for e in sg))
    seg = next((allev[a:b] for a, b in zip(starts, starts[1:]) if complete(allev[a:b])), None)
    p = os.path.join(ck.work, "canary.ndjson")
    # (the three groups of canaries below are judged by ONE TLC run over one file: part A, part B, part C)
    if seg is None:
        if not (ck.violations or ck.known_hit):
            raise Infra("no replayed segment with three Puts, an encoding, a successful Get and a decode to derive canaries from")
        ck.notes.append("no complete replayed segment to derive the Put/Get/Enc/Dec canaries from on this (violating) run")
        partA, c1, c2, c3, c4 = [], [], [], [], []
    else:
        ienc = next(i for i, e in enumerate(seg) if e["k"] == "Enc")
        iget = next(i for i, e in enumerate(seg) if e["k"] == "Get" and e["found"])
        c1 = copy.deepcopy(seg[:ienc + 1]); lastc = c1[ienc]["cells"][-1]; lastc["b"] = lastc["b"][:-1] + ("0" if lastc["b"][-1] == "1" else "1")   # one value bit flipped in the tree
        c2 = copy.deepcopy(seg[:iget + 1]); c2[iget]["val"] = c2[iget]["val"][:-1] + ("0" if c2[iget]["val"][-1] == "1" else "1")
        c3 = copy.deepcopy(seg[:1] + seg[2:ienc + 1])      # first Put dropped
        idec = next(i for i, e in enumerate(seg) if e["k"] == "Dec")
        c4 = copy.deepcopy(seg[:idec + 1]); c4[idec]["items"] = list(reversed(c4[idec]["items"]))
        partA = c1 + c2 + c3 + c4 + copy.deepcopy(seg)
    # ConfigParams.CloneKeepingSubsetOfKeys: an id listed twice in the clone / a reversed listing must be rejected
    sub = next((e for tp in dtraces for e in vlib.read_ndjson(tp) if e.get("k") == "Subset" and e["err"] == "" and len(e["items"]) >= 2), None)
    if sub is None:
        raise Infra("no Subset event with two entries was recorded")
    rs = {"k": "Reset", "n": 32, "kind": "cfg", "src": "canary"}
    s1 = copy.deepcopy(sub); s1["items"] = s1["items"] + [s1["items"][-1]]
    s2 = copy.deepcopy(sub); s2["items"] = list(reversed(s2["items"]))
    s3 = copy.deepcopy(sub); s3["items"] = s3["items"][:-1]
    partB = [rs, s1, rs, s2, rs, s3, rs, sub]
    # observations (Values / Count / Json / Balances): one corrupted copy of each, cut off after the corrupted event
    def segments(tp):
        evs = [e for e in vlib.read_ndjson(tp) if e.get("k") != "End"]
        st = [i for i, e in enumerate(evs) if e["k"] == "Reset"] + [len(evs)]
        return [evs[a:b] for a, b in zip(st, st[1:])]
    def pick(seg, kind, good):
        return next((i for i, e in enumerate(seg) if e["k"] == kind and e.get("err", "") == "" and good(e)), None)
    oseg = None
    for tp in dtraces + rtraces:
        for sg in segments(tp):
            if sg[0].get("kind") == "b" and sg[0].get("n") == 256 and len(json.dumps(sg)) < 2000000:
                iv = pick(sg, "Values", lambda e: len(e["vals"]) >= 2 and e["vals"][0] != e["vals"][1])
                ic = pick(sg, "Count", lambda e: True)
                ij = pick(sg, "Json", lambda e: len(e["pairs"]) >= 2 and e["pairs"][0][1] != e["pairs"][1][1])
                ib = pick(sg, "Balances", lambda e: any(it[1] != "0" for it in e["items"]))
                if None not in (iv, ic, ij, ib):
                    oseg = (sg, iv, ic, ij, ib)
                    break
        if oseg:
            break
    obs = []
    if oseg is None:
        if not (ck.violations or ck.known_hit):
            raise Infra("no 256-bit-keyed segment with Values, Count, Json and Balances observations was recorded")
        ck.notes.append("no complete 256-bit-keyed segment to derive the observation canaries from on this (violating) run")
        partC = []
    else:
        sg, iv, ic, ij, ib = oseg
        o1 = copy.deepcopy(sg[:iv + 1]); o1[iv]["vals"][0], o1[iv]["vals"][1] = o1[iv]["vals"][1], o1[iv]["vals"][0]
        o2 = copy.deepcopy(sg[:ic + 1]); o2[ic]["count"] += 1
        o3 = copy.deepcopy(sg[:ij + 1]); o3[ij]["pairs"][0][1] = o3[ij]["pairs"][1][1]
        o4 = copy.deepcopy(sg[:ij + 1]); o4[ij]["pairs"] = o4[ij]["pairs"][:-1]
        o5 = copy.deepcopy(sg[:ib + 1]); it = next(x for x in o5[ib]["items"] if x[1] != "0"); it[1] = str(int(it[1]) + 1)
        o6 = copy.deepcopy(sg[:ib + 1]); o6[ib]["items"] = [x for x in o6[ib]["items"] if x[1] == "0"] + [x for x in o6[ib]["items"] if x[1] != "0"][1:]
        o7 = copy.deepcopy(sg[:iv + 1]); o7[iv]["keys"] = list(reversed(o7[iv]["keys"])); o7[iv]["vals"] = list(reversed(o7[iv]["vals"]))
        if "items" in o7[iv]:
            o7[iv]["items"] = list(reversed(o7[iv]["items"]))
        obs = [o1, o2, o3, o4, o5, o6, o7]
        partC = o1 + o2 + o3 + o4 + o5 + o6 + o7 + copy.deepcopy(sg)
    vlib.write_ndjson(p, partA + partB + partC + [{"k": "End"}])
    st = (ck.states, ck.transitions, ck.traces_ok, ck.evaluations)
    _, rej = ck.validate_segments("Dict_Trace", "trace/Dict_Trace.cfg", p, name="canary")
    ck.states, ck.transitions, ck.traces_ok, ck.evaluations = st
    lines = [r["line"] for r in rej]
    gotA = [x for x in lines if x <= len(partA)]
    gotB = [x - len(partA) for x in lines if len(partA) < x <= len(partA) + len(partB)]
    gotC = [x - len(partA) - len(partB) for x in lines if x > len(partA) + len(partB)]
    want = [len(c1), len(c1) + len(c2), None, len(c1) + len(c2) + len(c3) + len(c4)]
    if partA:
        ck.canary("C->S: flipped tree bit / flipped Get value / dropped Put / reversed decode order rejected, original accepted",
                  len(gotA) == 4 and gotA[0] == want[0] and gotA[1] == want[1] and gotA[3] == want[3])
    ck.canary("C->S: configuration subset listing an id twice / in descending order / with an id missing rejected, original accepted",
              gotB == [2, 4, 6])
    want, tot = [], 0
    for o in obs:
        tot += len(o); want.append(tot)
    if partC:
        ck.canary("C->S: Values column swapped / Count off by one / Json value moved / Json member dropped / balance changed / existing account dropped / "
                  "fresh listing reversed rejected, original accepted", gotC == want)
    return ck.finish(rule=RULE, distinct=nontrivial)


def replay(ck, path):
    ck.build_vh()
    rp = json.load(open(path))["replay"]
    if rp["kind"] == "keyops":
        # the recorded pair again through the real key type, judged again by KeyOps_Trace
        e = rp["event"]
        vp, tp = os.path.join(ck.work, "kv.ndjson"), os.path.join(ck.work, "kt.ndjson")
        vals = [e["a"], e["b"]] if "b" in e and e.get("k") != "Foreign" else [e.get("a", "0" * e["n"])]
        vlib.write_ndjson(vp, [{"kind": e["kind"], "n": e["n"], "vals": vals, "pairs": [[1, len(vals)], [1, 1]]}])
        ck.run_vh(["replay", "C05KEYS", "-in", vp, "-out", tp])
        evs = [x for x in vlib.read_ndjson(tp) if x.get("type") == e["type"] or x.get("k") == "End"]
        evs[-1] = {"k": "End", "events": len(evs) - 1}
        vlib.write_ndjson(tp, evs)
        r, rej = ck.validate_events("KeyOps_Trace", "trace/KeyOps_Trace.cfg", tp, name="replay_keyops")
        notes = {t[1]: t[2] for t in r.notes}
        for x in rej:
            print(notes.get(x["line"]), json.dumps(x["event"])[:1000])
        if rej:
            print("VIOLATION property=C05 replay=%s" % path)
            return 1
        return 0
    if rp["kind"] == "vector":
        vp, tp = os.path.join(ck.work, "v.ndjson"), os.path.join(ck.work, "t.ndjson")
        vlib.write_ndjson(vp, [rp["vector"]])
        ck.run_vh(["replay", "C05", "-in", vp, "-out", tp])
        evs = vlib.read_ndjson(tp)
        mm = [e for e in evs if e.get("k") == "Mismatch"]
        vlib.write_ndjson(tp, [e for e in evs if e.get("k") != "Mismatch"])
        _, rej = ck.validate_segments("Dict_Trace", "trace/Dict_Trace.cfg", tp, name="replay")
        for m in mm:
            print(json.dumps(m))
        for r in rej:
            print(json.dumps(cellcommon.slim(r["event"], 800)))
        if mm or rej:
            print("VIOLATION property=C05 replay=%s" % path)
            return 1
        return 0
    print("recorded segment (re-run bin/check C05 to re-record and re-judge):")
    print(json.dumps(rp["segment"][rp["rejected_index"]])[:2000])
    return 0
