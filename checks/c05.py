# C05: dictionaries (Hashmap / HashmapE) preserve their key->value mapping (spec/Dict.tla).
import json, os, copy
import vlib, cellcommon
from vlib import Infra

RULE = ("S->C: Dict_Gen (TLC, BFS) enumerates every insertion order of every key set (size <= 3) from an adversarial pool per key "
        "type (all-0/all-1, min/max, adjacent in the last bit, common prefixes >= 8, runs >= 8), followed by encode, decode, lookups "
        "of every key and an absent key, an overwrite and a fresh insert on the decoded dictionary, encode, decode; Dict_GenF writes "
        "foreign dictionaries with label forms short/long/same assigned per edge. Both are replayed through tlb.HashmapE and compared "
        "step by step. C->S: the replays and random maps (up to 2000 entries, 21 key types, random and clustered keys, the same pairs put in different orders by Put and through the constructor "
        "NewHashmapE = Orders events, ConfigParams.CloneKeepingSubsetOfKeys on decoded configuration dictionaries = Subset events) are "
        "validated by Dict_Trace: every Put/Get/Enc/Dec/Load is a step of the abstract map, every encoding is a valid Patricia tree "
        "denoting exactly the map (spec decoder), listings after decode ascend in key bits, all orders give one hash. Non-trivial = "
        "segment with >= 2 keys; distinct = distinct segments.")


def fkey(seg, ev, kind):
    """finding key from the input class: key kind, what failed, and whether the dictionary had been decoded + updated before"""
    ops = [e.get("k") for e in seg]
    decoded_then_put = False
    seen_dec = False
    for e in seg:
        if e is ev:
            break
        if e.get("k") in ("Dec", "Load"):
            seen_dec = True
        elif e.get("k") == "Put" and seen_dec:
            decoded_then_put = True
    k = ev.get("k")
    cls = {"i": "signed_key", "u": "unsigned_key", "b": "bits_key", "a": "address_key"}.get(kind, kind)
    if k in ("Enc", "Dec") and decoded_then_put:
        return "C05:%s:decode-put-marshal" % cls
    if k == "Fail":
        return "C05:%s:%s-failed" % (cls, ev.get("op"))
    return "C05:%s:%s" % (cls, k)


def run(ck):
    ck.assumptions += ["TLC 1.8.0, CommunityModules", "Prim (Sha256, Crc32c, converters)", "keys are turned into Go key values by the library's own integer/bits codecs (C03/C04 judge those)",
                       "values are 32-bit inline values; label forms of the library's own output are unconstrained"]
    ck.build_vh()
    # ---- generators (parallel)
    def g1(_):
        return ck.tlc_or_infra("Dict_Gen", "gen/Dict_Gen_ops_full.cfg" if ck.thorough else "gen/Dict_Gen_ops.cfg", workers=6, timeout=2400, name="gen_ops", heap_gb=8)
    def g2(_):
        return ck.tlc_or_infra("Dict_GenF", "gen/Dict_GenF_full.cfg" if ck.thorough else "gen/Dict_GenF_quick.cfg", workers=6, timeout=2400, name="gen_foreign", heap_gb=8)
    r1, r2 = vlib.parallel(lambda f: f(0), [g1, g2], n=2)
    ops, foreign = r1.vecs(), r2.vecs()
    if len(ops) < 1000 or len(foreign) < 1000:
        raise Infra("generators produced too few vectors (%d, %d)" % (len(ops), len(foreign)))
    if not all(v["selfcheck"] for v in foreign):
        raise Infra("reference dictionary writer fails its own decoder")
    ck.rng.shuffle(ops); ck.rng.shuffle(foreign)
    nq = (6000, 12000) if ck.thorough else (900, 900)
    ops, foreign = ops[:nq[0]], foreign[:nq[1]]
    vecs = ops + foreign
    for i, v in enumerate(vecs):
        v["vec"] = i
    ck.extra["vectors_ops"] = len(ops); ck.extra["vectors_foreign"] = len(foreign)
    ck.sample({"direction": "S->C", "vector": {"kind": ops[0]["kind"], "n": ops[0]["n"], "steps": ops[0]["steps"][:4]}})
    shards = vlib.NCPU
    def replay(i):
        vp, tp = os.path.join(ck.work, "vec_%02d.ndjson" % i), os.path.join(ck.work, "rtrace_%02d.ndjson" % i)
        vlib.write_ndjson(vp, vecs[i::shards])
        ck.run_vh(["replay", "C05", "-in", vp, "-out", tp])
        return tp
    rtraces = vlib.parallel(replay, range(shards))
    dtraces = cellcommon.drive_shards(ck, "C05")
    # S->C verdicts: Mismatch events; then all traces go to the trace spec
    bykind = {v["vec"]: v for v in vecs}
    def split(tp):
        evs = vlib.read_ndjson(tp)
        mm = [e for e in evs if e.get("k") == "Mismatch"]
        keep = [e for e in evs if e.get("k") != "Mismatch"]
        vlib.write_ndjson(tp, keep)
        return mm
    nmm = 0
    for tp in rtraces:
        for m in split(tp):
            nmm += 1
            v = bykind[m["vec"]]
            cls = {"i": "signed_key", "u": "unsigned_key", "b": "bits_key", "a": "address_key"}[m["kind"]]
            what = m["what"]
            key = "C05:%s:decode-put-marshal" % cls if what == "dec-items-order" and m["step"] > 4 and "boc" not in v else "C05:%s:%s" % (cls, what)
            ck.report(key, "replayed behaviour diverges from the abstract dictionary at step %d (%s): code lists %s" % (m["step"], what, json.dumps(m["got"])[:300]),
                      {"kind": "vector", "vector": v, "mismatch": m})
    ck.evaluations += len(vecs)
    def val(tp):
        return ck.validate_segments("Dict_Trace", "trace/Dict_Trace.cfg", tp, timeout=3000, name="trace_" + os.path.basename(tp)[:9], heap_gb=3)
    nontrivial = 0
    for tp, (res, rejected) in zip(rtraces + dtraces, vlib.parallel(val, rtraces + dtraces, n=16)):
        for rj in rejected:
            seg, e = rj["segment"], rj["event"]
            kind = seg[0].get("kind", "?")
            ck.report(fkey(seg, e, kind), "recorded dictionary operation is not a step of Dict (%s key, n=%s, source %s): segment accepted %d of %d events; rejected %s" % (
                kind, seg[0].get("n"), seg[0].get("src"), rj["accepted"], rj["length"], json.dumps(cellcommon.slim(e, 600))),
                {"kind": "trace", "segment": [cellcommon.slim(x, 3000) for x in seg[:rj["accepted"] + 1]], "rejected_index": rj["accepted"]})
        cur = 0
        for l in open(tp):
            if l.startswith('{"k":"Reset"') or '"k":"Reset"' in l[:300]:
                nontrivial += cur >= 2; cur = 0
            elif '"k":"Put"' in l or '"k":"Load"' in l:
                e = json.loads(l)
                cur = max(cur, e.get("size", len(e.get("items", []))))
        nontrivial += cur >= 2
    evs = vlib.read_ndjson(dtraces[0])
    ck.sample({"direction": "C->S", "events": [cellcommon.slim(e, 700) for e in evs[:4]]})
    # canaries
    allev = [e for tp in rtraces[:2] for e in vlib.read_ndjson(tp) if e.get("k") != "End"]
    starts = [i for i, e in enumerate(allev) if e["k"] == "Reset"] + [len(allev)]
    seg = next(allev[a:b] for a, b in zip(starts, starts[1:]) if sum(1 for e in allev[a:b] if e["k"] == "Put") >= 3 and any(e["k"] == "Enc" and e["err"] == "" for e in allev[a:b]))
    ienc = next(i for i, e in enumerate(seg) if e["k"] == "Enc")
    iget = next(i for i, e in enumerate(seg) if e["k"] == "Get" and e["found"])
    c1 = copy.deepcopy(seg[:ienc + 1]); lastc = c1[ienc]["cells"][-1]; lastc["b"] = lastc["b"][:-1] + ("0" if lastc["b"][-1] == "1" else "1")   # one value bit flipped in the tree
    c2 = copy.deepcopy(seg[:iget + 1]); c2[iget]["val"] = c2[iget]["val"][:-1] + ("0" if c2[iget]["val"][-1] == "1" else "1")
    c3 = copy.deepcopy(seg[:1] + seg[2:ienc + 1])      # first Put dropped
    idec = next(i for i, e in enumerate(seg) if e["k"] == "Dec")
    c4 = copy.deepcopy(seg[:idec + 1]); c4[idec]["items"] = list(reversed(c4[idec]["items"]))
    p = os.path.join(ck.work, "canary.ndjson")
    vlib.write_ndjson(p, c1 + c2 + c3 + c4 + copy.deepcopy(seg) + [{"k": "End"}])
    st = (ck.states, ck.transitions, ck.traces_ok, ck.evaluations)
    _, rej = ck.validate_segments("Dict_Trace", "trace/Dict_Trace.cfg", p, name="canary")
    ck.states, ck.transitions, ck.traces_ok, ck.evaluations = st
    want = [len(c1), len(c1) + len(c2), None, len(c1) + len(c2) + len(c3) + len(c4)]
    got = [r["line"] for r in rej]
    ck.canary("C->S: flipped tree bit / flipped Get value / dropped Put / reversed decode order rejected, original accepted",
              len(rej) == 4 and got[0] == want[0] and got[1] == want[1] and got[3] == want[3])
    # ConfigParams.CloneKeepingSubsetOfKeys: an id listed twice in the clone / a reversed listing must be rejected
    sub = next((e for tp in dtraces for e in vlib.read_ndjson(tp) if e.get("k") == "Subset" and e["err"] == "" and len(e["items"]) >= 2), None)
    if sub is None:
        raise Infra("no Subset event with two entries was recorded")
    rs = {"k": "Reset", "n": 32, "kind": "cfg", "src": "canary"}
    s1 = copy.deepcopy(sub); s1["items"] = s1["items"] + [s1["items"][-1]]
    s2 = copy.deepcopy(sub); s2["items"] = list(reversed(s2["items"]))
    s3 = copy.deepcopy(sub); s3["items"] = s3["items"][:-1]
    vlib.write_ndjson(p, [rs, s1, rs, s2, rs, s3, rs, sub, {"k": "End"}])
    st = (ck.states, ck.transitions, ck.traces_ok, ck.evaluations)
    _, rej = ck.validate_segments("Dict_Trace", "trace/Dict_Trace.cfg", p, name="canary_subset")
    ck.states, ck.transitions, ck.traces_ok, ck.evaluations = st
    ck.canary("C->S: configuration subset listing an id twice / in descending order / with an id missing rejected, original accepted",
              [r["line"] for r in rej] == [2, 4, 6])
    return ck.finish(rule=RULE, distinct=nontrivial)


def replay(ck, path):
    ck.build_vh()
    rp = json.load(open(path))["replay"]
    if rp["kind"] == "vector":
        vp, tp = os.path.join(ck.work, "v.ndjson"), os.path.join(ck.work, "t.ndjson")
        vlib.write_ndjson(vp, [rp["vector"]])
        ck.run_vh(["replay", "C05", "-in", vp, "-out", tp])
        evs = vlib.read_ndjson(tp)
        mm = [e for e in evs if e.get("k") == "Mismatch"]
        vlib.write_ndjson(tp, [e for e in evs if e.get("k") != "Mismatch"])
        _, rej = ck.validate_segments("Dict_Trace", "trace/Dict_Trace.cfg", tp, name="replay")
        for m in mm:
            print(json.dumps(m))
        for r in rej:
            print(json.dumps(cellcommon.slim(r["event"], 800)))
        if mm or rej:
            print("VIOLATION property=C05 replay=%s" % path)
            return 1
        return 0
    print("recorded segment (re-run bin/check C05 to re-record and re-judge):")
    print(json.dumps(rp["segment"][rp["rejected_index"]])[:2000])
    return 0
