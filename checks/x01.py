# X01 (extra check): what liteapi.Client accepts from a lite server (spec/LiteProof.tla).
import json, os, copy
from collections import Counter
import vlib
from vlib import Infra, log

RULE = ("S->C: TLC enumerates the decision table of LiteProof_Gen (call x proof policy x how the trusted block is supplied x honest "
        "answer x single tampering: 688 rows for getAccountState / getBlock / getBlockHeader / lookupBlock / getConfigAll) with the "
        "clause of LiteProof each tampering violates, the value the answer still holds and the verdict LiteProof!Decide requires; the "
        "Go harness concretises every row on a synthetic piece of blockchain written cell by cell from block.tlb (two masterchain "
        "blocks with states, shard configuration and config, two blocks per shard of workchain 0 with ShardAccounts dictionaries) "
        "or on the repository's real blocks (tlb/testdata/block-4, block-5), serves it from a scripted lite server (ADNL) and runs "
        "the real liteapi.Client call under ProofPolicyUnsafe / ProofPolicyFast, directly and through WithBlock. C->S: the same "
        "driver with freely combined tamperings. Every concrete answer is recorded with the request the server saw and what the "
        "client returned; LiteProof_Trace (TLC) parses every bag with Boc!Parse, hashes it with Cells (Prim!Sha256), walks block "
        "header -> state_update -> state -> ShardAccounts / shard_hashes / config with Dict, and derives reason, value class and "
        "verdict from the bytes alone: accepted iff the recorded outcome is the required one (accept / reject / free) and the returned "
        "value is the one the answer holds. For generated rows the runner additionally requires the derived reason / class / verdict "
        "to equal the row's. Non-trivial = a call judged; distinct = distinct (call, policy, via, derived reason, outcome).")

TRACE = ("LiteProof_Trace", "trace/LiteProof_Trace.cfg")
API = {"Acct": "acct", "Block": "block", "Config": "config"}


def api_of(e):
    return e.get("kind") if e.get("k") == "Header" else API.get(e.get("k"), "?")


def reason_class(api, reason):
    """coarse, stable input class of a violated clause (finding keys)"""
    if reason == "id":
        return "answer-about-another-block"
    if api == "acct":
        if reason == "shard" or reason.startswith("shardproof:"):
            return "shard-proof"
        if reason.startswith("account:") or reason.startswith("state:"):
            return "account-record"
        return "block-state-chain"
    if api == "block":
        return "root-hash" if reason == "block:root-hash" else "data"
    if api in ("header", "lookup"):
        return "header-proof"
    if api == "config":
        return "state-proof" if reason.startswith("stateproof:") else "config-proof"
    return "other"


def clean(path, stats):
    """drop the Begin records that have their result; a Begin without result is a crash of the driver's call"""
    evs = vlib.read_ndjson(path)
    if not evs or evs[-1].get("k") != "End":
        raise Infra("driver file %s has no End record" % path)
    done = {e["seq"] for e in evs if e.get("k") in ("Acct", "Block", "Header", "Config")}
    out, crashes = [], []
    for e in evs:
        k = e.get("k")
        if k == "Begin":
            if e["seq"] not in done:
                crashes.append(e)
        elif k == "Skipped":
            stats["rows_skipped"] += 1
        elif k != "End":
            if e.get("go", {}).get("timeout"):
                raise Infra("a client call ran into a timeout (%s): overloaded machine, not a verdict" % e["go"].get("msg"))
            out.append(e)
    return out, crashes


def slim(e, n=1500):
    s = json.dumps(e)
    return e if len(s) <= n else s[:n] + "..."


def judge(ck, files, stats, rows=None):
    """validate trace files; returns (findings, notes per file). rows: vec -> decision-table row for generated events"""
    def val(tp):
        return ck.validate_events(*TRACE, tp, timeout=1500, name="trace_" + os.path.basename(tp).split(".")[0][-12:], heap_gb=2)
    found = []
    for tp, (res, rejected) in zip(files, vlib.parallel(val, files, n=min(len(files), 8))):
        evs = [e for e in vlib.read_ndjson(tp) if e.get("k") != "End"]
        notes = {}
        for t in res.tuples("NOTE"):
            notes[t[1]] = json.loads(t[2])
        bad = {r["line"] for r in rejected}
        for i, e in enumerate(evs, 1):
            n = notes.get(i)
            if n is None:
                raise Infra("no NOTE for line %d of %s" % (i, tp))
            api, g = api_of(e), e["go"]
            out = "panic" if g["panic"] else ("accepted" if g["ok"] else "rejected")
            stats["judged:%s:%s" % (api, e["policy"])] += 1
            stats["reason:%s:%s" % (api, n["reason"] or "honest")] += 1
            ck.extra.setdefault("_distinct", set()).add((api, e["policy"], e["via"], n["reason"], out))
            if rows is not None and e.get("src") == "gen":
                r = rows[e["vec"]]
                if (n["reason"], n["cls"], n["want"]) != (r["reason"], r["cls"], r["want"]):
                    raise Infra("the harness did not build what row %s names: derived from the bytes reason=%r class=%r verdict=%r, row says %r %r %r"
                                % (e["case"], n["reason"], n["cls"], n["want"], r["reason"], r["cls"], r["want"]))
                stats["rows_confirmed"] += 1
            if i not in bad:
                continue
            if g["panic"]:
                key, what = "X01:%s:panic" % api, "the client panicked: %s" % g["panic"]
            elif n["want"] == "accept" and not g["ok"]:
                key, what = "X01:%s:honest-answer-rejected" % api, "an answer that satisfies every clause of LiteProof was refused: %s" % g.get("msg", "")
            elif n["want"] == "reject" and g["ok"]:
                cls = reason_class(api, n["reason"])
                key = "X01:%s:%s" % (api, cls)
                what = ("policy %s: the client accepted an answer that violates clause '%s' of LiteProof (value class %s)" % (e["policy"], n["reason"], n["cls"]))
            elif g["ok"]:
                key, what = "X01:%s:returned-value" % api, "the client accepted but returned something else than the answer holds (derived %s)" % json.dumps(n)
            else:
                key, what = "X01:%s:outcome" % api, "recorded outcome %s, required %s" % (out, n["want"])
            found.append({"api": api, "via": e["via"], "key": key, "reason": n["reason"], "what": what, "event": e, "size": len(json.dumps(e))})
    return found


def canaries(ck, evs):
    def pick(pred, what):
        e = next((x for x in evs if pred(x)), None)
        if e is None:
            raise Infra("no recorded event suitable for the canary: " + what)
        return copy.deepcopy(e)
    honest = lambda k, pol: (lambda x: x.get("k") == k and x.get("src") == "gen" and x["case"].endswith("/none") and x["policy"] == pol and x["go"]["ok"])
    a = pick(lambda x: honest("Acct", "fast")(x) and x["go"]["status"] == "Account" and "wc_present" in x["case"], "honest account answer")
    b = pick(honest("Block", "fast"), "honest block answer")
    h = pick(honest("Header", "fast"), "honest header answer")
    c = pick(honest("Config", "fast"), "honest config answer")
    rj = pick(lambda x: x.get("k") == "Acct" and x.get("src") == "gen" and x["case"].endswith("/proof_trunc") and not x["go"]["ok"], "refused truncated proof")
    def flip_hex(s, pos_from_end):
        i = len(s) - pos_from_end
        return s[:i] + ("0" if s[i] != "0" else "1") + s[i + 1:]
    def flipbit(s):
        return ("1" if s[0] == "0" else "0") + s[1:]
    cs = [a, b, h, c, rj]                                                        # 1..5 controls: accepted
    x = copy.deepcopy(a); x["go"]["lt"] = flipbit(x["go"]["lt"]); cs.append(x)   # 6 returned lt is not the proof's
    x = copy.deepcopy(a); x["go"]["acc"] = flip_hex(x["go"]["acc"], 3); cs.append(x)           # 7 returned account is not the served one
    x = copy.deepcopy(a); x["ans"]["state"] = flip_hex(x["ans"]["state"], 9); cs.append(x)     # 8 account data changed, client "accepted"
    x = copy.deepcopy(a); x["ans"]["proof"] = flip_hex(x["ans"]["proof"], 40); cs.append(x)    # 9 a proof cell changed
    x = copy.deepcopy(a); x["ans"]["shard_proof"] = flip_hex(x["ans"]["shard_proof"], 40); cs.append(x)   # 10 shard proof cell changed
    x = copy.deepcopy(a); x["ans"]["id"]["seqno"] += 1; cs.append(x)             # 11 answer about another block
    x = copy.deepcopy(a); x["go"].update(ok=False, err="e"); cs.append(x)        # 12 honest answer refused
    x = copy.deepcopy(rj); x["go"].update(ok=True, err=""); cs.append(x)         # 13 unreadable proof "accepted"
    x = copy.deepcopy(b); x["req"]["id"]["root"] = flip_hex(x["req"]["id"]["root"], 5); cs.append(x)      # 14 block of another hash
    x = copy.deepcopy(h); x["ans"]["header_proof"] = flip_hex(x["ans"]["header_proof"], 30); cs.append(x)  # 15
    x = copy.deepcopy(c); x["go"]["addr"] = flip_hex(x["go"]["addr"], 2); cs.append(x)                     # 16
    x = copy.deepcopy(a); x["go"]["panic"] = "boom"; cs.append(x)               # 17
    p = os.path.join(ck.work, "canary.ndjson")
    vlib.write_ndjson(p, cs + [{"k": "End"}])
    st = (ck.states, ck.transitions, ck.traces_ok, ck.evaluations)
    res, rej = ck.validate_events(*TRACE, p, name="canary", heap_gb=1)
    ck.states, ck.transitions, ck.traces_ok, ck.evaluations = st
    lines = [r["line"] for r in rej]
    notes = {t[1]: json.loads(t[2]) for t in res.tuples("NOTE")}
    ck.canary("C->S: five unmodified events accepted; rejected: returned lt / account hash / config address changed, one hex digit changed in "
              "state, proof, shard proof, header proof, requested root hash (client's 'accepted' kept), answer id changed, honest answer "
              "marked refused, unreadable proof marked accepted, a panic",
              lines == list(range(6, 18)) and notes[8]["reason"] != "" and notes[9]["reason"] != "" and notes[10]["reason"].startswith("shard")
              and notes[11]["reason"] == "id" and notes[14]["reason"] == "block:root-hash" and notes[15]["reason"] != "")


def report_all(ck, found):
    # a WithBlock-specific key only where the same (call, class) does not already fail without WithBlock
    head_keys = {f["key"] for f in found if f["via"] == "head"}
    # the replay file of a key: a row of the decision table if one fails, the smallest event otherwise
    for f in sorted(found, key=lambda f: (f["event"].get("src") != "gen", f["size"], json.dumps(f["event"], sort_keys=True))):
        key = f["key"]
        if f["via"] == "withblock" and key not in head_keys:
            parts = key.split(":")
            key = ":".join(parts[:2] + ["withblock"] + parts[2:])
        ck.report(key, "%s [%s, via %s, case %s]" % (f["what"], f["event"]["policy"], f["via"], f["event"].get("case")),
                  {"kind": "event", "event": f["event"]})


def run(ck):
    ck.assumptions += ["TLC 1.8.0, CommunityModules", "Prim (Sha256, converters)", "Cells / Boc / Dict modules (cross-checked by C01 C02 C05 C07)",
                       "domain: bags served are conforming serialisations written by the harness's own writer, truncations of them, or bytes "
                       "without a bag magic (lenient readings of non-conforming bags are C07's subject)",
                       "the trusted anchor is the block id in the request the server saw (the head the server announced, or WithBlock's)",
                       "returned account records are compared by the hash of their re-encoding (tlb.Marshal of the returned tlb.Account)"]
    ck.build_vh()
    stats = Counter()
    gen = ck.tlc_or_infra("LiteProof_Gen", "gen/LiteProof_Gen.cfg", workers=2, timeout=600, name="gen", heap_gb=2)
    vecs = sorted(gen.vecs(), key=lambda r: json.dumps(r, sort_keys=True))
    if len(vecs) < 600:
        raise Infra("LiteProof_Gen printed only %d rows" % len(vecs))
    for i, v in enumerate(vecs):
        v["vec"] = i
    rows = {v["vec"]: v for v in vecs}
    ck.extra["rows"] = len(vecs)
    ck.sample({"direction": "S->C", "row": next(v for v in vecs if v["tamper"] == "state_update_mismatch" and v["policy"] == "fast")})
    shards = 8
    def replay(i):
        vp, tp = os.path.join(ck.work, "vec_%02d.ndjson" % i), os.path.join(ck.work, "rtrace_%02d.ndjson" % i)
        vlib.write_ndjson(vp, vecs[i::shards])
        ck.run_vh(["replay", "X01", "-in", vp, "-out", tp, "-seed", ck.seed * 100 + i], timeout=900)
        return tp
    dshards = 16 if ck.thorough else 8
    def drive(i):
        tp = os.path.join(ck.work, "dtrace_%02d.ndjson" % i)
        ck.run_vh(["drive", "X01", "-out", tp, "-tier", ck.tier, "-seed", ck.seed, "-shard", i, "-shards", dshards], timeout=1500)
        return tp
    outs = vlib.parallel(lambda j: j[0](j[1]), [(replay, i) for i in range(shards)] + [(drive, i) for i in range(dshards)], n=vlib.NCPU)
    rfiles, dfiles = outs[:shards], outs[shards:]
    crashes, all_gen, files = [], [], []
    for kind, fs in (("r", rfiles), ("d", dfiles)):
        for i, f in enumerate(fs):
            evs, cr = clean(f, stats)
            crashes += cr
            if kind == "r":
                all_gen += evs
            tp = os.path.join(ck.work, "all_%s%02d.ndjson" % (kind, i))
            vlib.write_ndjson(tp, evs + [{"k": "End", "events": len(evs)}])
            files.append(tp)
            stats["events_" + ("generated" if kind == "r" else "random")] += len(evs)
    if stats["rows_skipped"] > len(vecs) // 20:
        raise Infra("%d decision-table rows could not be built in any world" % stats["rows_skipped"])
    seen_rows = {e["vec"] for e in all_gen}
    missing = [rows[v]["tamper"] for v in rows if v not in seen_rows]
    if len(seen_rows) + stats["rows_skipped"] != len(vecs):
        raise Infra("rows lost between generator and replay: %s" % missing[:5])
    if stats["events_random"] < (2000 if ck.thorough else 250):
        raise Infra("too few random calls recorded (vacuous): %d" % stats["events_random"])
    found = judge(ck, files, stats, rows)
    for cr in crashes:
        found.append({"api": API.get(cr.get("of"), "header"), "via": "head", "key": "X01:%s:crash" % API.get(cr.get("of"), "header"),
                      "reason": "", "what": "the driver died inside the client call (case %s)" % cr.get("case"), "event": cr, "size": 0})
    # vacuity: every tampering of the table was exercised and confirmed from the bytes
    if stats["rows_confirmed"] != len(seen_rows):
        raise Infra("only %d of %d generated rows were confirmed from the bytes" % (stats["rows_confirmed"], len(seen_rows)))
    for api in ("acct", "block", "header", "lookup", "config"):
        if not stats["reason:%s:honest" % api]:
            raise Infra("no honest %s answer was judged" % api)
    ev0 = next(e for e in all_gen if e["k"] == "Acct" and e["case"].endswith("wc_present/state_other") and e["policy"] == "unsafe")
    ck.sample({"direction": "C->S", "event": slim(ev0)})
    report_all(ck, found)
    try:
        canaries(ck, all_gen)
    except Infra as e:
        # canaries are made from recorded behaviour: when the code under test is broken they may not exist; the
        # violations already found stand
        if not (ck.violations or ck.known_hit):
            raise
        ck.notes.append("canaries could not be evaluated on this (violating) run: %s" % e)
    distinct = len(ck.extra.pop("_distinct"))
    ck.extra["stats"] = dict(sorted(stats.items()))
    return ck.finish(rule=RULE, distinct=distinct)


def replay(ck, path):
    """Serve the recorded answer again to a fresh client of the current tree and judge what it does now."""
    ck.build_vh()
    rp = json.load(open(path))["replay"]
    if rp.get("kind") != "event" or "ans" not in rp["event"]:
        print(json.dumps(rp)[:2000])
        return 0
    vp, tp = os.path.join(ck.work, "v.ndjson"), os.path.join(ck.work, "t.ndjson")
    vlib.write_ndjson(vp, [rp["event"]])
    ck.run_vh(["replay", "X01", "-in", vp, "-out", tp])
    evs, crashes = clean(tp, Counter())
    if crashes:
        print("the driver died inside the client call")
        print("VIOLATION property=X01 replay=%s" % path)
        return 1
    cp = os.path.join(ck.work, "t_clean.ndjson")
    vlib.write_ndjson(cp, evs + [{"k": "End", "events": len(evs)}])
    res, rej = ck.validate_events(*TRACE, cp, name="replay", heap_gb=1)
    for e in evs:
        print("%s policy=%s via=%s -> %s" % (e["k"], e["policy"], e["via"], json.dumps(e["go"])))
    for t in res.tuples("NOTE"):
        print("derived from the bytes: %s" % t[2][:200])
    if rej:
        print("VIOLATION property=X01 replay=%s" % path)
        return 1
    print("accepted by LiteProof_Trace")
    return 0
