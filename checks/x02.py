# X02: TEP-64 token data (package tep64 + tlb FullContent / ContentData / SnakeData / ChunkedData / Text) against spec/Tep64.tla.
import json, os, copy, collections
import vlib
from vlib import Infra, log

RULE = ("S->C: TLC enumerates the case analysis of Tep64_Gen -- layout (off / on / semi) x value form (snake in one cell, split inside a "
        "byte / at a byte boundary, three cells, empty tail / head cell, filled cells; chunked with 0, 1, 3 chunks, gaps and high-bit "
        "indices, an empty chunk, a chunk boundary inside a byte, a chunk that is a chain) x key set (known subsets, unknown attributes, "
        "empty dictionary) x label forms x payload size, plus 53 named malformations (unknown layout byte, truncated first byte, unknown "
        "ContentData tag, data not a whole number of bytes, missing value / chunk reference, broken labels, surplus bits / references, "
        "exotic cells) -- writes every content with the reference encoders of Tep64 through Dict!EncDictE and Boc!Write (four header "
        "variants) and states the result the specification requires; the harness feeds each bag to tep64.DecodeFullContentFromCell, to "
        "tlb.Unmarshal + tep64.DecodeFullContent and to tep64.ConvertOnchainData; the runner compares (ok / refused, layout, all ten "
        "attributes, URL). Merge vectors: 576 pairs of abstract Metadata values with Tep64!MergeSpec. C->S: contents written by the "
        "library's own encoders (tlb.Marshal of tlb.FullContent, tlb.Text), foreign encodings built cell by cell (random cuts at any "
        "bit, random chunk indices and sizes, every label form, surplus), single structural mutations of both, and Metadata.Merge calls "
        "are recorded with the bag and everything the code returned (layout, attributes, URL, Data / its JSON, error, panic); "
        "Tep64_Trace parses each bag with Boc!Parse, recomputes the verdict from the CELLS with Tep64!Verdict (attribute keys = "
        "Prim!Sha256 of the names) and accepts the line iff all three recorded results match it (and, for library-written cells, iff "
        "the cells are a conforming encoding of what was handed to the encoder). A panic is never accepted. Non-trivial = a decoding "
        "judged; distinct = distinct bags + distinct Merge inputs.")

TRACE = ("Tep64_Trace", "trace/Tep64_Trace.cfg")
ATTRS = ["uri", "name", "description", "image", "image_data", "symbol", "decimals", "amount_style", "render_type", "custom_payload_api_uri"]


# ----------------------------------------------------------------------------------------------- helpers
def strip(path, out):
    """Drop the crash-attribution records; returns (events, last Begin without a result or None)."""
    evs, pending, ended = [], None, False
    for l in open(path).read().splitlines():
        try:
            e = json.loads(l)
        except Exception:
            break
        k = e.get("k")
        if k == "Begin":
            pending = e
        elif k == "End":
            ended = True
        else:
            pending = None
            evs.append(e)
    vlib.write_ndjson(out, evs + [{"k": "End", "events": len(evs)}])
    return evs, (None if ended else (pending or {"k": "?"}))


def decoded_as(g, w):
    """the recorded result g is the decoding w = {layout, fields, url} (the comparison the trace spec makes, without Data)"""
    if not g["ok"] or g["err"]:
        return False
    lay = g["layout"] == w["layout"] or (w["layout"] == "semichain" and w["fields"]["uri"] == "" and g["layout"] == "onchain")
    if not lay or any(g["fields"][a] != w["fields"][a] for a in ATTRS):
        return False
    if w["layout"] == "offchain":
        return g["url"] == w["url"] and g["data"] == w["url"]
    if w["layout"] == "onchain":
        return g["url"] == "" and g["has_meta"]
    return g["url"] in ("", w["fields"]["uri"]) and g["has_meta"]


def mismatch(w, g):
    """None, or (clause, attribute) saying why the recorded result g is not what the expectation w = {v, layout, fields, url} allows"""
    if g["panic"]:
        return ("panic", "")
    refused = (not g["ok"]) and g["err"] != ""
    if w["v"] == "any":
        return None
    if w["v"] == "err":
        return None if refused else ("malformed_accepted", "")
    if decoded_as(g, w):
        return None
    if refused:
        return None if w["v"] == "free" else ("conforming_refused", "")
    return clause_of(g, w)


def clause_of(g, w):
    """which part of an accepted decoding differs"""
    if not g["ok"] or g["err"]:
        return ("no_result", "")
    if g["layout"] != w["layout"] and not (w["layout"] == "semichain" and w["fields"]["uri"] == "" and g["layout"] == "onchain"):
        return ("layout", "")
    for a in ATTRS:
        if g["fields"][a] != w["fields"][a]:
            return ("attribute_value", a)
    if w["layout"] == "offchain":
        return ("url", "") if g["url"] != w["url"] else ("data", "")
    if not g["has_meta"]:
        return ("metadata_missing", "")
    if g["url"] not in ("", w["fields"]["uri"]) or (w["layout"] == "onchain" and g["url"]):
        return ("url", "")
    return ("data_json", "")


LAYOUT = {"on": "onchain", "semi": "semichain", "off": "offchain"}


def family(form):
    return "snake1" if form == "s1" else ("chunks" if form.startswith("c") else "snakeN")


def class_of(e, note=None, exp=None, attr=""):
    """input class for finding keys. Generator vectors: the malformation, or layout + family of the value form. Recorded
    events: read from the cells by the trace spec (layout + form of the offending / richest value), the mutation for malformed ones."""
    cls = e.get("cls")
    if isinstance(cls, dict):
        if cls.get("mal"):
            return "mal_" + cls["mal"]
        return LAYOUT[cls["kind"]] + "_" + family(cls["form"])
    if e["k"] == "Text":
        return "text_" + e.get("src", "?")
    tag = (cls or e.get("src", "?")).replace(":", "_")
    if not note or note[0] == "err":
        return "malformed_" + tag
    if note[0] == "any":
        return "exotic_" + tag
    lay = str(note[1])
    if lay == "offchain":
        fam = ""
    elif attr and exp and exp.get("shapes", {}).get(attr, "-") != "-":
        fam = "_" + exp["shapes"][attr]
    else:
        fam = "_chunks" if note[6] else ("_snakeN" if note[5] else "_snake1")
    return ("surplus_" if note[0] == "free" else "") + lay + fam


def slim(e, n=300):
    o = {}
    for k, x in e.items():
        if isinstance(x, str) and len(x) > n:
            o[k] = x[:n] + "...(%d)" % len(x)
        elif isinstance(x, dict):
            o[k] = slim(x, n)
        else:
            o[k] = x
    return o


def brief(g):
    return "ok=%s err=%s panic=%s layout=%s url=%s attrs=%s" % (g["ok"], g.get("msg") or g["err"] or "-", g["panic"] or "-", g.get("layout"),
                                                               (g.get("url") or "-")[:60], {a: v[:40] for a, v in g.get("fields", {}).items() if v})


# ----------------------------------------------------------------------------------------------- S->C
def gen_vectors(ck):
    cfg = "gen/Tep64_Gen_full.cfg" if ck.thorough else "gen/Tep64_Gen_quick.cfg"
    res = ck.tlc_or_infra("Tep64_Gen", cfg, workers=4, name="gen", timeout=900, heap_gb=2)
    vecs = res.vecs()
    vecs.sort(key=lambda v: json.dumps([v["t"], v.get("cls"), v.get("a"), v.get("b"), v.get("b_nil")], sort_keys=True))
    for i, v in enumerate(vecs):
        v["vec"] = i
    dec = [v for v in vecs if v["t"] == "dec"]
    mer = [v for v in vecs if v["t"] == "merge"]
    bad = [v for v in vecs if not v["selfcheck"]]
    if bad:
        raise Infra("generator self-check failed (reference encoder and Tep64!Verdict disagree) for %s" % json.dumps(bad[0].get("cls", bad[0]))[:600])
    # vacuity: every case class must be there
    kinds = collections.Counter(v["cls"]["kind"] for v in dec)
    forms = {v["cls"]["form"] for v in dec if v["cls"]["kind"] in ("on", "semi")}
    need_forms = {"s1", "s2in", "s2b", "s3", "set", "seh", "c1", "c3", "cgap", "cin", "cmulti", "c0e", "fill", "fillodd", "cfill", "c0"}
    mals = {v["cls"]["mal"] for v in dec if v["cls"]["kind"] == "mal"}
    verd = collections.Counter(v["want"]["v"] for v in dec)
    if min(kinds["on"], kinds["semi"]) < 100 or kinds["off"] < 10 or len(mals) < 50 or not need_forms <= forms:
        raise Infra("case analysis incomplete: kinds %s, forms missing %s, %d malformations" % (dict(kinds), sorted(need_forms - forms), len(mals)))
    for need in ("root_tag02", "root_4bits", "cd_tag02_known", "snake_12bits_known", "off_12bits", "off_trailing_ref", "leaf_noref_known", "chunk_noref"):
        if need not in mals:
            raise Infra("malformation %s is not generated" % need)
    if set(verd) != {"ok", "err", "free", "any"}:
        raise Infra("a verdict class is missing from the case analysis: %s" % dict(verd))
    if len(mer) < 500 or not any(v["img_free"] for v in mer) or not any(v["b_nil"] for v in mer):
        raise Infra("Merge vectors incomplete (%d)" % len(mer))
    ck.extra["generated"] = {"decode_vectors": len(dec), "merge_vectors": len(mer), "kinds": dict(kinds), "value_forms": len(forms),
                             "malformations": len(mals), "verdicts": dict(verd)}
    return vecs


def merge_mismatch(e):
    if e["panic"]:
        return "panic"
    if e["b_after"] != e["b"]:
        return "argument_changed"
    w, r = e["want"], e["r"]["f"]
    for a in ATTRS:
        if r[a] != w[a] and not (a == "image_data" and e.get("img_free") and r[a] == ""):
            return "attribute_" + a
    return None


def merge_class(e):
    if e["b_nil"]:
        return "other_nil"
    b = e["b"]
    img = "img_nil" if b["img_nil"] else ("img_empty" if b["f"]["image_data"] == "" else "img_set")
    return img


# ----------------------------------------------------------------------------------------------- C->S
def judge_file(ck, path, name):
    res, rejected = ck.validate_events(*TRACE, path, timeout=3000, name=name, heap_gb=2)
    notes, exps = {}, {}
    for t in res.notes:
        notes[t[1]] = t[2:]
    for t in res.tuples("EXP"):
        try:
            exps[t[1]] = json.loads(t[2])
        except Exception:
            pass
    return notes, exps, {r["line"] for r in rejected}


def report_rejected(ck, e, note, exp):
    """one rejected line of the trace -> a finding with a stable key"""
    if note and str(note[0]).startswith("domain:"):
        raise Infra("harness / specification inconsistency (%s): %s" % (note[0], json.dumps(slim(e))[:1200]))
    if e["k"] == "Merge":
        a, b, r = (MetaBytes(e[x]) for x in ("a", "b", "r"))
        w = {x: (a[x] if e["b_nil"] or b[x] == "" else b[x]) for x in ATTRS}
        ee = dict(e, want=w, img_free=(not e["b_nil"] and not e["b"]["img_nil"] and b["image_data"] == ""))
        why = merge_mismatch(ee) or "rejected"
        ck.report("X02:merge_%s:%s" % (why, merge_class(e)), "Metadata.Merge: receiver %s, other %s -> %s (other afterwards %s, panic %s); the contract requires %s" % (
            json.dumps(e["a"]), "nil" if e["b_nil"] else json.dumps(e["b"]), json.dumps(e["r"]), json.dumps(e["b_after"]), e["panic"] or "-", json.dumps(w)),
            {"kind": "event", "direction": "C->S", "event": e})
        return
    if e["k"] == "Text":
        cls = class_of(e, note)
        g = e["go"]
        why = "panic" if g["panic"] else ({"ok": "conforming_refused" if not g["ok"] else "value", "err": "malformed_accepted"}.get(note[0] if note else "", "encoder" if e["in"] != "-" else "value"))
        ck.report("X02:text_%s:%s" % (why, cls), "tlb.Text from bag %s: the specification's verdict is %s, tlb.Unmarshal gave ok=%s err=%s panic=%s val=%s (encoder input %s)" % (
            e["boc"][:400], note[0] if note else "?", g["ok"], g.get("msg") or g["err"] or "-", g["panic"] or "-", g["val"][:200], e["in"][:200]),
            {"kind": "event", "direction": "C->S", "event": e})
        return
    v = note[0] if note else "?"
    w = dict(exp or {"layout": "none", "url": "", "fields": {a: "" for a in ATTRS}}, v=v)
    whys = [(p, mismatch(w, e[p])) for p in ("go", "go2")]
    if e["go3"]["ran"]:
        whys.append(("go3", mismatch(w, e["go3"])))
    if e["conv"]["ran"]:
        g = e["conv"]
        cm = ("panic", "") if g["panic"] else None
        if not cm and v in ("ok", "err", "free"):
            refused = (not g["ok"]) and g["err"] != ""
            diff = [a for a in ATTRS if g["fields"][a] != w["fields"][a]]
            dec = g["ok"] and not g["err"] and not diff
            if not ((v != "err" and dec) or (v != "ok" and refused)):
                cm = ("malformed_accepted", "") if v == "err" else (("conforming_refused", "") if refused else ("attribute_value", diff[0] if diff else ""))
        whys.append(("conv", cm))
    elif v == "ok" and w["layout"] != "offchain":
        whys.append(("conv", ("not_reached", "")))
    entry = {"go": "DecodeFullContentFromCell", "go2": "Unmarshal+DecodeFullContent", "go3": "second DecodeFullContent of the same value", "conv": "ConvertOnchainData"}
    bad = [(p, y) for p, y in whys if y]
    if not bad and "in" in e:
        bad = [("enc", ("encoder", ""))]
    if not bad:
        bad = [("go", ("rejected", ""))]
    p, (why, attr) = bad[0]
    cls = class_of(e, note, exp, attr)
    key = "X02:%s:%s" % (why if p in ("go", "enc") else "%s_%s" % (p, why), cls)
    ck.report(key, "%s on bag %s (source %s / %s): the specification reads verdict '%s' %s from the cells; the code returned %s%s%s" % (
        entry.get(p, "tlb.Marshal"), e["boc"][:600], e.get("src"), e.get("cls"), v, json.dumps({k: w[k] for k in ("layout", "url", "fields")})[:900] if v in ("ok", "free") else "",
        brief(e[p] if p in e else e["go"]), " (attribute %s differs)" % attr if attr else "", ("; the encoder was given %s" % json.dumps(e["in"])[:600]) if "in" in e else ""),
        {"kind": "event", "direction": "C->S", "event": e})


def MetaBytes(m):
    return dict(m["f"])


def run(ck):
    ck.assumptions += ["TLC 1.8.0, CommunityModules Json", "Prim (JDK): Sha256 (attribute keys), converters", "Cells / Boc / Dict modules (cross-checked by C01 C02 C05 C07)",
                       "the ten attributes are TEP-64's nine plus custom_payload_api_uri (documented by the package)",
                       "input that carries more than the schema asks for (surplus bits / references, a chunk that is a chain, broken values under "
                       "unknown attributes) may be refused or decoded as the schema's part says; exotic cells: anything but a panic",
                       "Merge: an empty but non-nil image_data of `other` is left free; FullContent.OffchainURL of a semi-chain content is left free "
                       "(documented for the off-chain layout only); `uri` present but empty: on-chain or semi-chain",
                       "FullContent.Data of an on-chain content is compared as a JSON object; strings that are not ASCII are only required to be present"]
    ck.build_vh()

    # ------------------------------------------------------------------ S->C
    vecs = gen_vectors(ck)
    vp, rp, tp = (os.path.join(ck.work, f) for f in ("vectors.ndjson", "replay_raw.ndjson", "table.ndjson"))
    vlib.write_ndjson(vp, [{k: x for k, x in v.items() if k != "selfcheck"} for v in vecs])
    p = ck.run_vh(["replay", "X02", "-in", vp, "-out", rp], check=False, timeout=900)
    evs, crashed = strip(rp, tp)
    if crashed:
        if "vec" not in crashed:
            raise Infra("vh replay X02 died outside a vector:\n" + p.stdout[-3000:])
        v = vecs[crashed["vec"]]
        ck.report("X02:fatal:%s" % class_of({"k": "Dec", "cls": v.get("cls")}), "the process died (unrecoverable) while decoding vector %s" % json.dumps(v.get("cls")),
                  {"kind": "vector", "vector": v, "output": p.stdout[-2000:]})
    elif p.returncode != 0:
        raise Infra("vh replay X02 failed:\n" + p.stdout[-3000:])
    elif len(evs) != len(vecs):
        raise Infra("replay produced %d results for %d vectors" % (len(evs), len(vecs)))
    nmatch = 0
    entry = {"go": "DecodeFullContentFromCell", "go2": "Unmarshal+DecodeFullContent"}
    for e in evs:
        if e["k"] == "Dec":
            bad = [(pth, mismatch(e["want"], e[pth])) for pth in ("go", "go2")]
            bad = [(pth, y) for pth, y in bad if y]
            if bad:
                pth, (why, attr) = bad[0]
                ck.report("X02:%s:%s" % (why if pth == "go" else pth + "_" + why, class_of(e)),
                          "case %s, bag %s: the specification requires %s; %s returned %s%s" % (json.dumps(e["cls"]), e["boc"][:600], json.dumps(e["want"])[:900], entry[pth], brief(e[pth]),
                                                                                             " (attribute %s differs)" % attr if attr else ""),
                          {"kind": "event", "direction": "S->C", "event": e})
            else:
                nmatch += 1
        elif e["k"] == "Merge":
            why = merge_mismatch(e)
            if why:
                ck.report("X02:merge_%s:%s" % (why, merge_class(e)), "Metadata.Merge vector: receiver %s, other %s: MergeSpec requires %s, the code left %s (panic %s)" % (
                    json.dumps(e["a"]), "nil" if e["b_nil"] else json.dumps(e["b"]), json.dumps(e["want"]), json.dumps(e["r"]), e["panic"] or "-"),
                    {"kind": "event", "direction": "S->C", "event": e})
            else:
                nmatch += 1
    ck.traces_ok += nmatch
    ck.evaluations += len(evs)
    dec_evs = [e for e in evs if e["k"] == "Dec"]
    ck.sample({"direction": "S->C", "vector": slim({k: dec_evs[0][k] for k in ("cls", "boc", "want")}, 200), "result": brief(dec_evs[0]["go"])})
    mal_ev = next((e for e in dec_evs if e["cls"]["mal"] == "snake_12bits_known"), None)
    if mal_ev:
        ck.sample({"direction": "S->C", "vector": slim({k: mal_ev[k] for k in ("cls", "boc")}, 200), "want": mal_ev["want"]["v"], "result": brief(mal_ev["go"])})
    # canary S->C: corrupted expectations are flagged by the comparison
    acc = next((e for e in dec_evs if e["want"]["v"] == "ok" and e["want"]["fields"]["name"] and e["want"]["fields"]["description"] and not mismatch(e["want"], e["go"])), None)
    rej = next((e for e in dec_evs if e["want"]["v"] == "err" and not mismatch(e["want"], e["go"])), None)
    if not acc or not rej:
        if not ck.violations:
            raise Infra("no matching accept / reject vector to build canaries from")
    else:
        w1 = copy.deepcopy(acc["want"]); w1["fields"]["name"], w1["fields"]["description"] = w1["fields"]["description"], w1["fields"]["name"]
        w2 = copy.deepcopy(acc["want"]); w2["layout"] = "offchain"
        ck.canary("S->C: expectation ok->err, err->ok, two attribute values swapped, other layout are flagged",
                  bool(mismatch(dict(acc["want"], v="err"), acc["go"]) and mismatch(dict(acc["want"], v="ok"), rej["go"]) and mismatch(w1, acc["go"]) and mismatch(w2, acc["go"])))

    # ------------------------------------------------------------------ C->S
    nshard = 16 if ck.thorough else 8
    nshard = max(2, min(nshard, vlib.NCPU))
    def drive(i):
        raw = os.path.join(ck.work, "drive_raw_%02d.ndjson" % i)
        pr = ck.run_vh(["drive", "X02", "-out", raw, "-tier", ck.tier, "-seed", ck.seed, "-shard", i, "-shards", nshard], check=False, timeout=1800)
        out = os.path.join(ck.work, "drive_%02d.ndjson" % i)
        de, cr = strip(raw, out)
        return de, cr, pr
    drives = vlib.parallel(drive, range(nshard))
    jobs = []
    for i, (de, cr, pr) in enumerate(drives):
        if cr:
            if "boc" not in cr and cr.get("src") != "merge":
                raise Infra("vh drive X02 died:\n" + pr.stdout[-3000:])
            ck.report("X02:fatal:%s" % cr.get("src", "?"), "the process died (unrecoverable) while decoding bag %s" % cr.get("boc", "")[:600],
                      {"kind": "vector", "vector": {"t": "dec", "boc": cr.get("boc", ""), "vec": 0}, "output": pr.stdout[-2000:]})
        elif pr.returncode != 0:
            raise Infra("vh drive X02 failed:\n" + pr.stdout[-3000:])
        allp = evs[i::nshard] + de              # table events are judged from their bytes too
        nsplit = 3 if ck.thorough else 1        # several TLC processes per shard keep every heap small
        for j in range(nsplit):
            part = allp[j::nsplit]
            if part:
                sp = os.path.join(ck.work, "trace_%02d_%d.ndjson" % (i, j))
                vlib.write_ndjson(sp, part + [{"k": "End", "events": len(part)}])
                jobs.append((sp, part))
    results = vlib.parallel(lambda ij: judge_file(ck, ij[1][0], "trace_%02d" % ij[0]), list(enumerate(jobs)), n=nshard)
    stats = collections.Counter()
    distinct = set()
    inconsistent = []
    accepted_ids = {}
    for (sp, part), (notes, exps, bad) in zip(jobs, results):
        for i, e in enumerate(part, 1):
            n = notes.get(i)
            if n is None:
                raise Infra("no NOTE for line %d of %s" % (i, sp))
            k = e["k"]
            stats["%s:%s:%s" % (k, e.get("src", "?") if k != "Merge" else "all", n[0])] += 1
            if k == "Dec":
                distinct.add(e["boc"])
                stats["layout:" + str(n[1])] += 1
                stats["values:snake1"] += n[4]; stats["values:snakeN"] += n[5]; stats["values:chunks"] += n[6]
                stats["attributes:unknown"] += n[3]
                if "want" in e and n[0] != e["want"]["v"]:
                    inconsistent.append((e["cls"], e["want"]["v"], n[0]))
            elif k == "Text":
                distinct.add("t" + e["boc"])
            else:
                distinct.add(json.dumps([e["a"], e["b_nil"], e["b"]], sort_keys=True))
                stats["merge:" + str(n[1])] += 1
            if i in bad:
                report_rejected(ck, e, n, exps.get(i))
            else:
                accepted_ids[id(e)] = n
    if inconsistent:
        raise Infra("the verdict Tep64_Trace derives from the bytes differs from the generator's for %d vectors, first: %s" % (len(inconsistent), json.dumps(inconsistent[0])))
    ck.extra["stats"] = dict(sorted(stats.items()))
    # vacuity of the C->S side
    need = ["Dec:lib:ok", "Dec:hand:ok", "Dec:hand:free", "Dec:mut:err", "Dec:mut:ok", "Dec:gen:ok", "Dec:gen:err", "Dec:gen:free", "Dec:gen:any",
            "Text:lib:ok", "Text:hand:ok", "Text:hand:err", "Text:lib:free", "layout:offchain", "layout:onchain", "layout:semichain",
            "values:snake1", "values:snakeN", "values:chunks", "attributes:unknown", "merge:nil", "merge:img-nil", "merge:img-empty", "merge:img-set"]
    missing = [x for x in need if not stats[x]]
    if missing and not ck.violations:
        raise Infra("vacuous: no recorded event of class %s (%s)" % (missing, dict(stats)))
    nd = sum(len(de) for de, _, _ in drives)
    if nd < (100000 if ck.thorough else 2500):
        raise Infra("driver recorded too little: %d events" % nd)
    allev = [e for _, part in jobs for e in part]
    ok_acc = lambda e: id(e) in accepted_ids
    s1 = next((e for e in allev if e["k"] == "Dec" and e.get("src") == "hand" and ok_acc(e) and accepted_ids[id(e)][0] == "ok" and accepted_ids[id(e)][6]), None)
    if s1:
        ck.sample({"direction": "C->S", "event": slim({k: s1[k] for k in ("src", "cls", "boc")}, 300), "derived": accepted_ids[id(s1)], "result": brief(s1["go"])})
    s2 = next((e for e in allev if e["k"] == "Merge" and e.get("src") == "rand" and ok_acc(e)), None)
    if s2:
        ck.sample({"direction": "C->S", "event": slim(s2, 200)})

    # ------------------------------------------------------------------ canaries for C->S (TLC must reject each corrupted copy)
    def pick(pred):
        return next((e for e in allev if ok_acc(e) and pred(e, accepted_ids[id(e)])), None)
    plain = lambda h: all(b < 128 for b in bytes.fromhex(h))
    two = lambda e: (e["go"]["fields"]["name"] and e["go"]["fields"]["description"] and e["go"]["fields"]["name"] != e["go"]["fields"]["description"]
                     and plain(e["go"]["fields"]["name"]) and plain(e["go"]["fields"]["description"]))
    base = pick(lambda e, n: e["k"] == "Dec" and n[0] == "ok" and n[1] in ("onchain", "semichain") and e["go"]["ok"] and two(e))
    off = pick(lambda e, n: e["k"] == "Dec" and n[0] == "ok" and n[1] == "offchain" and e["go"]["ok"] and len(e["go"]["url"]) > 4)
    malf = pick(lambda e, n: e["k"] == "Dec" and n[0] == "err" and not e["go"]["ok"])
    mrg = pick(lambda e, n: e["k"] == "Merge" and not e["b_nil"] and e["b"]["f"]["name"] and e["a"]["f"]["name"])
    txt = pick(lambda e, n: e["k"] == "Text" and n[0] == "ok" and e["go"]["ok"] and len(e["go"]["val"]) > 2)
    libe = pick(lambda e, n: e["k"] == "Dec" and "in" in e and e["in"]["layout"] != "offchain" and any(e["in"]["fields"].values()))
    if not all((base, off, malf, mrg, txt, libe)):
        if ck.violations:
            ck.notes.append("canaries skipped: no accepted event of every kind on this (violating) run")
            return ck.finish(rule=RULE, distinct=len(distinct))
        raise Infra("no recorded event suitable for the canaries")
    def hexflip(h):
        return h[:-1] + ("0" if h[-1] != "0" else "1")
    def both(c, f):
        for pth in ("go", "go2", "go3"):
            f(c[pth])
        return c
    def swap(g):
        g["fields"]["name"], g["fields"]["description"] = g["fields"]["description"], g["fields"]["name"]
    c1 = both(copy.deepcopy(base), swap)                                                          # two attribute values swapped
    c2 = both(copy.deepcopy(base), lambda g: g["fields"].__setitem__("name", hexflip(g["fields"]["name"])))   # one recorded attribute corrupted
    c3 = copy.deepcopy(malf); c3["go"], c3["go2"], c3["go3"] = copy.deepcopy(base["go"]), copy.deepcopy(base["go2"]), copy.deepcopy(base["go3"])     # success claimed for a malformed input
    c4 = both(copy.deepcopy(base), lambda g: g.__setitem__("layout", "offchain"))                # other layout
    c5 = both(copy.deepcopy(base), lambda g: g.update(ok=False, err="e"))                        # a conforming content logged as refused
    c6 = copy.deepcopy(base); c6["go"]["panic"] = "boom"                                          # a panic
    c7 = both(copy.deepcopy(off), lambda g: g.__setitem__("url", hexflip(g["url"])))              # other URL
    c8 = both(copy.deepcopy(base), lambda g: g["json"].__setitem__("name", hexflip(g["json"]["name"])))      # Data does not carry the attribute
    c9 = copy.deepcopy(base); c9["conv"]["fields"]["description"] = ""                            # ConvertOnchainData lost an attribute
    c10 = copy.deepcopy(mrg); c10["r"]["f"]["name"] = c10["a"]["f"]["name"]                       # Merge kept the receiver's value
    c11 = copy.deepcopy(mrg); c11["b_after"]["f"]["name"] = ""                                    # Merge changed its argument
    c12 = copy.deepcopy(txt); c12["go"]["val"] = hexflip(c12["go"]["val"])                        # other text
    c13 = copy.deepcopy(libe); a = next(a for a in ATTRS if c13["in"]["fields"][a]); c13["in"]["fields"][a] = hexflip(c13["in"]["fields"][a])   # the encoder wrote something else
    c14 = copy.deepcopy(malf); c14["k"] = "Panic"                                                 # no action for other kinds
    cans = [c1, c2, c3, c4, c5, c6, c7, c8, c9, c10, c11, c12, c13, c14, base, off, malf, mrg, txt, libe]
    cp = os.path.join(ck.work, "canary.ndjson")
    vlib.write_ndjson(cp, cans + [{"k": "End", "events": len(cans)}])
    st = (ck.states, ck.transitions, ck.traces_ok, ck.evaluations)
    res, crej = ck.validate_events(*TRACE, cp, name="canary", heap_gb=1)
    ck.states, ck.transitions, ck.traces_ok, ck.evaluations = st
    got = [r["line"] for r in crej]
    ck.canary("C->S: rejected: attribute values swapped / one attribute corrupted / success claimed for a malformed content / other layout / conforming "
              "content logged as refused / panic / other URL / Data without the attribute / ConvertOnchainData result altered / Merge result and argument "
              "altered / other text / encoder input altered / unknown event kind; the six originals accepted", got == list(range(1, 15)))
    return ck.finish(rule=RULE, distinct=len(distinct))


def replay(ck, path):
    """Re-execute the stored input against the current tree and let TLC judge the new result from the bytes."""
    ck.build_vh()
    rp = json.load(open(path))["replay"]
    if rp.get("kind") == "event":
        e = rp["event"]
        if e["k"] == "Dec":
            v = {"t": "dec", "vec": 0, "boc": e["boc"]}
            if isinstance(e.get("cls"), dict):
                v["cls"] = e["cls"]
            if "want" in e:
                v["want"] = e["want"]
        elif e["k"] == "Text":
            v = {"t": "text", "vec": 0, "boc": e["boc"], "in": "-"}
        else:
            v = {"t": "merge", "vec": 0, "a": e["a"], "b_nil": e["b_nil"], "b": e["b"], "img_free": False}
    elif rp.get("kind") == "vector":
        v = {k: x for k, x in rp["vector"].items() if k != "selfcheck"}
        v["vec"] = 0
    else:
        print(json.dumps(rp)[:3000])
        return 2
    ip, raw, out = (os.path.join(ck.work, f) for f in ("in.ndjson", "raw.ndjson", "out.ndjson"))
    vlib.write_ndjson(ip, [v])
    p = ck.run_vh(["replay", "X02", "-in", ip, "-out", raw], check=False)
    evs, crashed = strip(raw, out)
    if crashed or len(evs) != 1:
        print(p.stdout[-2000:])
        print("VIOLATION property=X02 replay=%s   # process died" % path)
        return 1
    notes, exps, bad = judge_file(ck, out, "replay")
    e = evs[0]
    if e["k"] == "Dec":
        print("bag %s" % e["boc"][:2000])
        print("specification: verdict %s %s" % (notes[1][0], json.dumps(exps.get(1, ""))[:2000]))
        for pth, nm in (("go", "DecodeFullContentFromCell"), ("go2", "Unmarshal+DecodeFullContent"), ("conv", "ConvertOnchainData")):
            print("%-28s %s" % (nm, brief(e[pth]) if e[pth].get("ran", True) else "(not reached)"))
    else:
        print(json.dumps(slim(e, 400)))
        print("specification: %s" % (notes[1],))
    if bad:
        print("VIOLATION property=X02 replay=%s" % path)
        return 1
    print("accepted by Tep64_Trace")
    return 0
