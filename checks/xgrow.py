# Helpers shared by the extra checks X04..X07 (pure-function properties: vectors from TLC, events judged by TLC).
import json, os, copy
import vlib
from vlib import Infra


def strip(path, out):
    """Drop the crash-attribution (Begin) records. Returns (events, pending) where pending is the Begin record of a call that
    never returned (the driver died inside it) or None."""
    evs, pending, ended = [], None, False
    for l in open(path).read().splitlines():
        try:
            e = json.loads(l)
        except Exception:
            break
        k = e.get("k")
        if k == "Begin":
            pending = e
        elif k == "End":
            ended = True
        else:
            pending = None
            evs.append(e)
    vlib.write_ndjson(out, evs + [{"k": "End", "events": len(evs)}])
    return evs, (None if ended else (pending or {"k": "?"}))


def judge(ck, module, cfg, events, name, timeout=900, extra_files=None, heap_gb=2):
    """Write `events`, run the trace spec over them, return (verdicts, notes): verdicts[i] True = accepted;
    notes[i] = the NOTE tuple(s) TLC printed for line i (without the tag and the line number)."""
    p = os.path.join(ck.work, name + ".ndjson")
    vlib.write_ndjson(p, list(events) + [{"k": "End", "events": len(events)}])
    res, rejected = ck.validate_events(module, cfg, p, timeout=timeout, name=name, heap_gb=heap_gb, extra_files=extra_files)
    bad = set(r["line"] for r in rejected)
    notes = {}
    for t in res.notes:
        notes.setdefault(t[1] - 1, []).append(t[2:])
    return [i + 1 not in bad for i in range(len(events))], notes


def gen(ck, module, cfg, samples, name, workers=4, timeout=900, args=()):
    """Run a generator; samples (a dict) is handed over as samples.ndjson. Returns the vectors, numbered."""
    sp = os.path.join(ck.work, name + "_samples.ndjson")
    vlib.write_ndjson(sp, [samples])
    res = ck.tlc_or_infra(module, cfg, files={"samples.ndjson": sp}, workers=workers, timeout=timeout, name=name, heap_gb=3, args=args)
    vs = res.vecs()
    if not vs:
        raise Infra("generator %s produced no vectors" % module)
    # -simulate / several workers may print a vector twice: keep the first of each
    seen, out = set(), []
    for v in vs:
        s = json.dumps(v, sort_keys=True)
        if s not in seen:
            seen.add(s)
            out.append(v)
    out.sort(key=lambda v: json.dumps(v, sort_keys=True))
    for i, v in enumerate(out):
        v["vec"] = i
    return out


def run_vectors(ck, pid, vecs, name, part=None):
    """vh replay <pid>: returns the recorded events (Begin records dropped); the driver must survive every vector."""
    vp, rp = os.path.join(ck.work, name + ".ndjson"), os.path.join(ck.work, name + "_out.ndjson")
    vlib.write_ndjson(vp, vecs)
    args = ["replay", pid, "-in", vp, "-out", rp]
    if part:
        args += ["-part", part]
    p = ck.run_vh(args, check=False)
    evs, pending = strip(rp, rp + ".s")
    return evs, pending, p


def flip_hex(h, i, mask=1):
    """hex string with byte i (0-based) xor mask"""
    b = bytearray(bytes.fromhex(h))
    b[i] ^= mask
    return b.hex()
