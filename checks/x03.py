# X03: (A) client authentication of liteclient.NewConnection (spec/LiteAuth.tla) and
#      (B) lite-API client construction over several servers (spec/LiteInit.tla).
import json, os, copy, re
import vlib
from vlib import Infra, log

RULE = ("(A) LiteAuth: byte layouts of tcp.authentificate / tcp.authentificationNonce / boxed tcp.authentificationComplete and the client's "
        "reaction to a server as a nondeterministic state machine (free exactly where the protocol leaves the client free). S->C: TLC "
        "(LiteAuth_Gen) enumerates server scripts - honest nonces at the length boundaries 1..512, refused lengths 0/513+, malformed nonce "
        "packets, nonce twice, unrelated packets before/after the nonce, silence (10 s), a nonce nobody asked for, cancellation, reconnects "
        "with honest and misbehaving second sessions - realised as bytes by the specification and checked against the machine's own invariants; "
        "a scripted conforming server on the reference ADNL server plays them against the real liteclient.NewConnection, a getTime query and, "
        "for reconnect scripts, the queries after a reset. C->S: LiteAuth_Trace judges every recorded execution from the decrypted "
        "client->server BYTES (first packet, freshness, boxed completion, EdVerify over client nonce || server nonce, outcome allowed by the "
        "machine, no hang of Status()/queries, deadlines). "
        "(B) LiteInit: the outcome relation of NewClient/InitializeConnections (result, pool = indices of usable servers, size min(max, usable), "
        "returns within 3 x timeout, nothing spins, no connection kept to a server outside the pool, client usable afterwards), model checked "
        "against an operational model of initialization for all class vectors up to 3 servers (LiteInit_MC). S->C: LiteInit_Gen enumerates "
        "configurations (0..4 servers of 9 classes x MaxConnections x sync/async x init-context deadline); the harness starts one scripted "
        "server per element and runs the real liteapi.NewClient. C->S: LiteInit_Trace judges every record against the relation. "
        "A failing record that depends on real time is executed a second time and only clauses that fail both times are reported. "
        "distinct = scripts + configurations executed and judged.")

# clauses decided by bytes alone: no second execution is needed to believe them
HARD = {"first-packet", "fresh-nonce", "complete-boxed", "complete-signature"}
AUTH_GROUPS_QUICK = {"honest", "honest-short", "refused", "malformed", "twice", "twice-after-refused", "pong-before", "noise-before",
                     "nokey", "silent", "cancel", "reconnect", "reconnect-misbehaving"}
AUTH_GROUPS_THOROUGH = AUTH_GROUPS_QUICK | {"noise-after", "late-nonce"}
INIT_CLASSES = {"good", "slow", "late", "mute", "error", "garbage", "bad_key", "blackhole", "dead"}


def short(e, n=200):
    if isinstance(e, dict):
        return {k: short(v, n) for k, v in e.items()}
    if isinstance(e, list):
        return [short(x, n) for x in e[:12]]
    return e if len(str(e)) <= n else str(e)[:n] + "..."


# ------------------------------------------------------------------------------------------------ generators
def subst_cfg(ck, src, name, repl):
    cfg = open(os.path.join(vlib.SPEC, src)).read()
    for a, b in repl.items():
        if a not in cfg:
            raise Infra("%s: expected '%s'" % (src, a))
        cfg = cfg.replace(a, b)
    p = os.path.join(ck.work, name)
    open(p, "w").write(cfg)
    return os.path.relpath(p, vlib.SPEC)


def gen_auth(ck):
    cfg = subst_cfg(ck, "gen/LiteAuth_Gen.cfg", "LiteAuth_Gen.cfg",
                    {"Salt = 1": "Salt = %d" % (ck.seed % 50000), 'Tier = "quick"': 'Tier = "%s"' % ck.tier})
    res = ck.tlc_or_infra("LiteAuth_Gen", cfg, timeout=600, name="gen_auth", heap_gb=2)
    vs = sorted(res.vecs(), key=lambda v: v["id"])
    if len(vs) < (50 if ck.thorough else 18):
        raise Infra("LiteAuth_Gen produced only %d scripts" % len(vs))
    return vs


def gen_init(ck):
    count = 320 if ck.thorough else 40
    cfg = subst_cfg(ck, "gen/LiteInit_Gen.cfg", "LiteInit_Gen.cfg",
                    {"Salt = 1": "Salt = %d" % (ck.seed % 50000), "Count = 40": "Count = %d" % count})
    res = ck.tlc_or_infra("LiteInit_Gen", cfg, timeout=600, name="gen_init", heap_gb=2)
    vs = sorted(res.vecs(), key=lambda v: v["id"])
    if len(vs) != count:
        raise Infra("LiteInit_Gen produced %d of %d configurations" % (len(vs), count))
    return vs


def mc_init(ck):
    cfg = "mc/LiteInit_MC.cfg"
    if not ck.thorough:
        cfg = subst_cfg(ck, "mc/LiteInit_MC.cfg", "LiteInit_MC.cfg", {"MaxN = 3": "MaxN = 2"})
    res = ck.tlc_or_infra("LiteInit_MC", cfg, timeout=900, name="mc_init", heap_gb=2, workers=2)
    if not res.completed or res.left != 0:
        raise Infra("model checking of LiteInit_MC did not complete")
    return res


# ------------------------------------------------------------------------------------------------ execution
def run_auth(ck, vecs, tag):
    """one process per chunk of scripts (inside a process the scripts run concurrently); returns {id: record}"""
    chunks = [vecs[i::max(1, (len(vecs) + 11) // 12)] for i in range(max(1, (len(vecs) + 11) // 12))]

    def one(args):
        i, vs = args
        vp = os.path.join(ck.work, "%s_vec_%02d.ndjson" % (tag, i))
        rp = os.path.join(ck.work, "%s_rec_%02d.ndjson" % (tag, i))
        vlib.write_ndjson(vp, vs)
        p = ck.run_vh(["replay", "X03", "-part", "auth", "-in", vp, "-out", rp], timeout=400, check=False)
        if p.returncode != 0:
            if re.search(r"^(panic:|fatal error:)", p.stdout, re.M):
                if len(vs) == 1:
                    return [{"k": "Auth", "id": vs[0]["id"], "cls": vs[0]["cls"], "vec": vs[0], "crash": p.stdout[-1500:]}]
                out = []
                for j, v in enumerate(vs):      # find the script(s) that crash the process, one process per script
                    out += one((1000 + 100 * i + j, [v]))
                return out
            raise Infra("vh replay X03 auth failed (%d):\n%s" % (p.returncode, p.stdout[-3000:]))
        rs = vlib.read_ndjson(rp)
        if not rs or rs[-1].get("k") != "End" or rs[-1]["events"] != len(vs):
            raise Infra("auth replay %s/%d did not finish" % (tag, i))
        return rs[:-1]
    out = {}
    for rs in vlib.parallel(one, list(enumerate(chunks)), n=6):
        for r in rs:
            out[r["id"]] = r
    return out


def run_init(ck, vecs, tag):
    """configurations run one after the other in a process; a process in which NewClient hung (or something keeps the CPU busy)
    stops and reports the rest as skipped: those are run again in fresh processes"""
    per = 4
    todo = [vecs[i:i + per] for i in range(0, len(vecs), per)]
    out = {}
    rnd = 0
    while todo:
        rnd += 1
        if rnd > 6:
            raise Infra("init replay does not make progress")

        def one(args):
            i, vs = args
            vp = os.path.join(ck.work, "%s_vec_%d_%03d.ndjson" % (tag, rnd, i))
            rp = os.path.join(ck.work, "%s_rec_%d_%03d.ndjson" % (tag, rnd, i))
            vlib.write_ndjson(vp, vs)
            p = ck.run_vh(["replay", "X03", "-part", "init", "-in", vp, "-out", rp], timeout=300, check=False)
            rs = vlib.read_ndjson(rp) if os.path.exists(rp) else []
            if p.returncode != 0:
                if re.search(r"^(panic:|fatal error:)", p.stdout, re.M):
                    begun = [r["id"] for r in rs if r.get("k") == "Begin"]
                    done = {r["id"] for r in rs if r.get("k") == "Init"}
                    bad = [b for b in begun if b not in done]
                    res = [r for r in rs if r.get("k") == "Init"]
                    for v in vs:
                        if v["id"] in bad:
                            res.append({"k": "Init", "id": v["id"], "cls": v["cls"], "vec": v, "crash": p.stdout[-1500:]})
                        elif v["id"] not in done:
                            res.append({"k": "Skipped", "id": v["id"]})
                    return res
                raise Infra("vh replay X03 init failed (%d):\n%s" % (p.returncode, p.stdout[-3000:]))
            if not rs or rs[-1].get("k") != "End":
                raise Infra("init replay %s/%d did not finish" % (tag, i))
            return [r for r in rs if r.get("k") in ("Init", "Skipped")]
        by_id = {v["id"]: v for vs in todo for v in vs}
        again = []
        for rs in vlib.parallel(one, list(enumerate(todo)), n=8):
            for r in rs:
                if r["k"] == "Skipped":
                    again.append(by_id[r["id"]])
                else:
                    out[r["id"]] = r
        todo = [[v] for v in again]
    return out


# ------------------------------------------------------------------------------------------------ judgement
def judge(ck, module, recs, name, count=True):
    """TLC judges the records; returns [(record, [clauses])] in input order"""
    if not recs:
        return []
    tp = os.path.join(ck.work, name + ".ndjson")
    vlib.write_ndjson(tp, recs + [{"k": "End", "events": len(recs)}])
    saved = (ck.states, ck.transitions, ck.traces_ok, ck.evaluations)
    res, _ = ck.validate_events(module, "trace/%s.cfg" % module, tp, timeout=900, name=name, heap_gb=2)
    if not count:
        ck.states, ck.transitions, ck.traces_ok, ck.evaluations = saved
    verdict = {t[1]: t[2] for t in res.tuples("EV")}
    out = []
    for i, r in enumerate(recs):
        v = verdict[i + 1]
        if v != "ok" and not v.startswith("bad:"):
            raise Infra("%s: unexpected verdict %r" % (module, v))
        out.append((r, [] if v == "ok" else v[4:].split(",")))
    return out


def auth_effective(clauses):
    """consequences of an earlier failure are not reported on their own"""
    cs = list(clauses)
    if "returns" in cs:
        return ["returns"]
    if any(c in cs for c in ("first-packet", "complete-boxed", "complete-signature")):
        # a conforming server closes the connection on a packet it cannot parse / verify: what follows is a consequence
        cs = [c for c in cs if c not in ("outcome", "later-sessions", "status", "query", "reconnect")]
    if "no-hang" in cs:
        cs = [c for c in cs if c not in ("query", "reconnect")]
    return cs


def init_effective(clauses):
    cs = list(clauses)
    if any(c.startswith("returns/") for c in cs):
        return [c for c in cs if c.startswith("returns/") or c.startswith("idle/")]
    return cs


def auth_key(clause, rec):
    return "X03:auth.%s:%s" % (clause, "any" if clause in HARD else rec["vec"]["grp"])


def init_key(clause):
    name, _, detail = clause.partition("/")
    return "X03:init.%s:%s" % (name, detail or "all")


def describe_auth(rec, clause):
    v = rec["vec"]
    if "crash" in rec:
        return "the client crashed the process while script %d (%s) was played: %s" % (v["id"], v["cls"], rec["crash"][-400:])
    sess = [[(len(p) // 2, p[:16]) for p in s["c2s"]] for s in rec.get("sess", [])]
    return ("script %d (%s): clause '%s' of LiteAuth violated. server sent %s; client packets per connection (bytes, first 8) %s; "
            "NewConnection %s; query %s; after reset %s; allowed by the machine %s" % (
                v["id"], v["cls"], clause, json.dumps(short([s["hex"] for s in v["send"]], 60)), json.dumps(sess),
                json.dumps(rec.get("res")), json.dumps(rec.get("q")), json.dumps(rec.get("q2")), json.dumps(v.get("allowed"))))


def describe_init(rec, clause):
    v = rec["vec"]
    if "crash" in rec:
        return "the code under test crashed the process on configuration %d (%s): %s" % (v["id"], v["cls"], rec["crash"][-400:])
    return ("configuration %d (%s, timeout %d ms, init-context deadline %s): clause '%s' of LiteInit violated. NewClient %s; pool at return %s, "
            "settled %s; probe %s; CPU afterwards %s%% of a core; servers saw %s; required: usable %s, pool size %s..%s" % (
                v["id"], v["cls"], v["t"], ("%d ms" % v["ctx"]) if v["ctx"] else "none", clause, json.dumps(rec.get("res")),
                rec.get("pool0"), rec.get("pool"), json.dumps(rec.get("probe")), rec.get("busy"), json.dumps(rec.get("srv")),
                v.get("yes"), v.get("min_pool"), v.get("max_pool")))


def settle(ck, part, judged, runner, module, effective, keyf, describe):
    """second execution of the failing records whose failure is not decided by bytes alone; report what fails both times"""
    first = {}
    for r, cs in judged:
        if "crash" in r:
            first[r["id"]] = (r, ["crash"])
            continue
        if "harness-server" in cs or "harness" in cs or "not-a-record" in cs:
            raise Infra("%s: the harness's own record/server is not as the specification expects (%s): %s" % (
                part, cs, json.dumps(short(r))[:1500]))
        cs = effective(cs)
        if cs:
            first[r["id"]] = (r, cs)
    soft = [r["vec"] for r, cs in first.values() if any(c.split("/")[0] not in HARD for c in cs)]
    second = {}
    if soft:
        recs2 = runner(ck, soft, part + "_again")
        crashed = [r for r in recs2.values() if "crash" in r]
        j2 = judge(ck, module, [r for r in recs2.values() if "crash" not in r], part + "_again_judge", count=False)
        for r in crashed:
            second[r["id"]] = ["crash"]
        for r, cs in j2:
            second[r["id"]] = effective(cs)
    nrep = 0
    for vid, (r, cs) in sorted(first.items()):
        for c in cs:
            if c.split("/")[0] not in HARD and c not in second.get(vid, []):
                ck.notes.append("%s vector %d (%s): clause %s failed once and not when executed again; not reported" % (
                    part, vid, r["vec"]["cls"], c))
                continue
            nrep += 1
            if c == "crash":
                ck.report("X03:%s.crash:%s" % (part, r["vec"].get("grp", r["vec"]["cls"])), describe(r, c), {"part": part, "vector": r["vec"]})
            else:
                ck.report(keyf(c, r) if part == "auth" else keyf(c), describe(r, c), {"part": part, "vector": r["vec"], "clause": c})
    return nrep


# ------------------------------------------------------------------------------------------------ canaries
def repaired(rec):
    """canary baseline only: a completion whose leading constructor id is missing is given one, so that a genuine
    signature is available to corrupt even on a tree whose completion layout is wrong"""
    r = copy.deepcopy(rec)
    for s in r["sess"]:
        s["c2s"] = [("a69eadf7" + p) if (i > 0 and p.startswith("c6b41348") and len(p) == 208) else p for i, p in enumerate(s["c2s"])]
    return r


def auth_canaries(ck, recs):
    hon = next((r for r in recs if r["vec"]["grp"] == "honest" and r.get("sess") and len(r["sess"][0]["c2s"]) >= 2
                and not r["res"]["err"] and r["res"]["ret"]), None)
    ref = next((r for r in recs if r["vec"]["grp"] == "refused" and r.get("res", {}).get("err") and r.get("sess")
                and len(r["sess"][0]["c2s"]) == 1), None)
    if hon is None or ref is None:
        raise Infra("no recorded session to build the authentication canaries from")
    base = repaired(hon)

    def idx_complete(r):
        return next(i for i, p in enumerate(r["sess"][0]["c2s"]) if p.startswith("a69eadf7"))
    i = idx_complete(base)
    c1 = copy.deepcopy(base)                       # one signature byte corrupted
    p = bytearray.fromhex(c1["sess"][0]["c2s"][i]); p[45 + ck.seed % 60] ^= 0x04; c1["sess"][0]["c2s"][i] = p.hex()
    c2 = copy.deepcopy(base); del c2["sess"][0]["c2s"][i]              # the completion packet dropped
    c3 = copy.deepcopy(ref); c3["res"]["err"] = False; c3["res"]["st"] = 1   # the outcome flipped: a refused nonce reported as connected
    c4 = copy.deepcopy(base)                       # the client nonce of the first packet altered after the fact
    p = bytearray.fromhex(c4["sess"][0]["c2s"][0]); p[9] ^= 0x80; c4["sess"][0]["c2s"][0] = p.hex()
    c5 = copy.deepcopy(base)                       # the key in the completion replaced by another one
    p = bytearray.fromhex(c5["sess"][0]["c2s"][i]); p[20] ^= 0x01; c5["sess"][0]["c2s"][i] = p.hex()
    j = judge(ck, "LiteAuth_Trace", [base, ref, c1, c2, c3, c4, c5], "canary_auth", count=False)
    cl = [set(cs) for _, cs in j]
    if cl[0] & {"complete-boxed", "complete-signature", "first-packet", "outcome"} or cl[1]:
        raise Infra("canary baselines are not accepted: %s / %s" % (sorted(cl[0]), sorted(cl[1])))
    ck.canary("C->S auth: one byte of a recorded signature corrupted", "complete-signature" in cl[2])
    ck.canary("C->S auth: the completion packet dropped from a connected session", "outcome" in cl[3])
    ck.canary("C->S auth: outcome of a refused-nonce session flipped to connected", "outcome" in cl[4])
    ck.canary("C->S auth: client nonce altered after the signature was made", "complete-signature" in cl[5])
    ck.canary("C->S auth: public key in the completion altered", "complete-boxed" in cl[6])


def init_canaries(ck, recs):
    def ok_of(pred):
        return next((r for r in recs if pred(r)), None)
    alldead = ok_of(lambda r: r["vec"]["sync"] and r["vec"]["servers"] and not r["vec"]["yes"] and not r["vec"]["maybe"]
                    and r["res"]["ret"] and r["res"]["err"] and not any(s["c"] in ("blackhole",) for s in r["vec"]["servers"]))
    mixed = ok_of(lambda r: r["res"]["ret"] and not r["res"]["err"] and len(r["pool"]) >= 1 and len(r["pool"]) < len(r["vec"]["servers"])
                  and r["probe"]["mc"] == "ok")
    if alldead is None or mixed is None:
        raise Infra("no recorded configuration to build the construction canaries from")
    c1 = copy.deepcopy(alldead); c1["res"]["err"] = False; c1["res"]["nilc"] = False     # error turned into success
    outside = next(i for i in range(len(mixed["vec"]["servers"])) if i not in mixed["pool"])
    c2 = copy.deepcopy(mixed); c2["pool"] = sorted(c2["pool"] + [outside]); c2["connected"] = c2["connected"] + [True]   # a server outside the pool reported in it
    c3 = copy.deepcopy(mixed); c3["busy"] = 97                                            # the process reported as spinning
    c4 = copy.deepcopy(mixed); c4["res"]["ms"] = 3 * c4["vec"]["t"] + 1                    # late by one millisecond
    c5 = copy.deepcopy(mixed); c5["pool"] = c5["pool"][:-1]; c5["connected"] = c5["connected"][:-1]  # one pool connection dropped
    j = judge(ck, "LiteInit_Trace", [alldead, mixed, c1, c2, c3, c4, c5], "canary_init", count=False)
    cl = [set(c.split("/")[0] for c in cs) for _, cs in j]
    base_ok = not (cl[0] & {"result", "pool", "elapsed", "idle"}) and not (cl[1] & {"result", "pool", "elapsed", "idle"})
    if not base_ok:
        raise Infra("canary baselines are not accepted: %s / %s" % (sorted(cl[0]), sorted(cl[1])))
    ck.canary("C->S init: error of an all-unusable configuration flipped to success", "result" in cl[2])
    ck.canary("C->S init: a server outside the pool reported as pool connection", "pool" in cl[3])
    ck.canary("C->S init: CPU after settling reported as 97%", "idle" in cl[4])
    ck.canary("C->S init: elapsed time raised to 3 x timeout + 1 ms", "elapsed" in cl[5])
    ck.canary("C->S init: one pool connection dropped from the status", bool(cl[6] & {"pool", "leak", "probe"}))


def guarded(ck, f):
    try:
        f()
    except Infra as e:
        if not ck.violations and not ck.known_hit:
            raise
        ck.notes.append("canary skipped after violations were found: %s" % str(e)[:300])


# ------------------------------------------------------------------------------------------------ vacuity
def check_auth_generated(ck, vecs):
    groups = {v["grp"] for v in vecs}
    need = AUTH_GROUPS_THOROUGH if ck.thorough else AUTH_GROUPS_QUICK
    if not need <= groups:
        raise Infra("LiteAuth_Gen did not produce the script groups %s" % sorted(need - groups))
    lens = set()
    for v in vecs:
        if v["grp"] in ("honest", "honest-short") and len(v["send"]) == 1:
            h = v["send"][0]["hex"]
            lens.add((len(h) // 2))
    if len(lens) < (10 if ck.thorough else 4):
        raise Infra("honest nonce packets of only %d sizes" % len(lens))
    for v in vecs:
        if not v["allowed"]:
            raise Infra("script %d: the machine allows nothing" % v["id"])
        sts = {a["st"] for a in v["allowed"]}
        if v["grp"] in ("honest", "honest-short", "pong-before") and not ("up" in sts and sts <= {"up", "lost"}):
            raise Infra("script %d (%s): an honest script must end up, machine says %s" % (v["id"], v["cls"], sts))
        if v["grp"] in ("refused", "malformed", "silent") and sts != {"failed"}:
            raise Infra("script %d (%s): must fail, machine says %s" % (v["id"], v["cls"], sts))


def check_auth_exercised(ck, recs):
    seen = {r["vec"]["grp"] for r in recs if "crash" in r or r.get("res", {}).get("ret") is not None}
    need = AUTH_GROUPS_THOROUGH if ck.thorough else AUTH_GROUPS_QUICK
    if not need <= seen:
        raise Infra("script groups not executed: %s" % sorted(need - seen))
    if not any(len(s["c2s"]) >= 2 for r in recs for s in r.get("sess", [])):
        raise Infra("no recorded session carries anything after the first client packet: nothing to judge a completion on")
    if not any(len(r.get("sess", [])) >= 2 for r in recs if r["vec"]["drop"]):
        raise Infra("no reconnect script led to a second connection")
    if not any(r.get("res", {}).get("ms", 0) >= 9000 for r in recs if r["vec"]["grp"] == "silent"):
        ck.notes.append("the silent script did not take 9 s: the client gave up early")


def check_init_generated(ck, vecs):
    classes = {s["c"] for v in vecs for s in v["servers"]}
    if classes != INIT_CLASSES:
        raise Infra("LiteInit_Gen used classes %s" % sorted(classes))
    feats = {"empty": any(not v["servers"] for v in vecs), "async": any(not v["sync"] for v in vecs),
             "ctx": any(v["ctx"] > 0 for v in vecs), "surplus": any(len(v["yes"]) > v["maxc"] for v in vecs),
             "room": any(v["servers"] and len(v["yes"]) < v["maxc"] for v in vecs),
             "none-usable": any(v["servers"] and not v["yes"] and not v["maybe"] for v in vecs),
             "four": any(len(v["servers"]) == 4 for v in vecs)}
    missing = [k for k, x in feats.items() if not x]
    if missing:
        raise Infra("LiteInit_Gen: no configuration with %s" % missing)


# ------------------------------------------------------------------------------------------------ run
def run(ck):
    ck.assumptions += ["TLC + CommunityModules Json", "Prim: SHA-256, Ed25519 public key derivation and verification (JDK / BigInteger)",
                       "the scripted server (harness/internal/x03 on harness/internal/adnlsrv) decrypts the client's packets; the ADNL layer itself is C11's subject",
                       "a conforming server closes the connection on a packet that is neither a tcp.Message it expects nor an adnl.message.query (reference server behaviour)",
                       "real-time bounds are generous: construction 'late' only beyond 3 x timeout, NewConnection only beyond 30 s; spinning = >= 12% of a core over 0.5 s after everything settled",
                       "a server class counts as surely usable only with a factor 3 to the deadline, surely unusable only beyond twice the deadline",
                       "connections still open are counted by the scripted servers (a connection the client has closed is seen as end of stream)"]
    ck.build_vh()
    g = vlib.parallel(lambda f: f(ck), [gen_auth, gen_init, mc_init], n=3)
    avecs, ivecs, mc = g
    check_auth_generated(ck, avecs)
    check_init_generated(ck, ivecs)
    ck.extra["auth_scripts"] = len(avecs)
    ck.extra["init_configurations"] = len(ivecs)
    ck.extra["mc_LiteInit"] = {"distinct": mc.distinct, "generated": mc.generated, "wall_s": round(mc.wall, 1)}

    # ---- S->C: the scripts / configurations against the real code (both parts side by side)
    ex = vlib.parallel(lambda x: x[0](ck, x[1], x[2]), [(run_auth, avecs, "auth"), (run_init, ivecs, "init")], n=2)
    arecs = [ex[0][v["id"]] for v in avecs]
    irecs = [ex[1][v["id"]] for v in ivecs]
    check_auth_exercised(ck, arecs)
    ck.extra["auth_connections_recorded"] = sum(len(r.get("sess", [])) for r in arecs)
    ck.extra["auth_client_packets_judged"] = sum(len(s["c2s"]) for r in arecs for s in r.get("sess", []))

    # ---- C->S: TLC judges every record
    jj = vlib.parallel(lambda x: judge(ck, x[0], x[1], x[2]) + [(c, ["crash"]) for c in x[3]],
                       [("LiteAuth_Trace", [r for r in arecs if "crash" not in r], "judge_auth", [r for r in arecs if "crash" in r]),
                        ("LiteInit_Trace", [r for r in irecs if "crash" not in r], "judge_init", [r for r in irecs if "crash" in r])], n=2)
    na = settle(ck, "auth", jj[0], run_auth, "LiteAuth_Trace", auth_effective, auth_key, describe_auth)
    ni = settle(ck, "init", jj[1], run_init, "LiteInit_Trace", init_effective, init_key, describe_init)
    ck.extra["auth_records_rejected"] = sum(1 for _, cs in jj[0] if cs)
    ck.extra["init_records_rejected"] = sum(1 for _, cs in jj[1] if cs)

    a0 = next((r for r in arecs if r["vec"]["grp"] == "honest" and "sess" in r), arecs[0])
    ck.sample({"part": "auth", "script": a0["vec"]["cls"], "server_sent": short([s["hex"] for s in a0["vec"]["send"]], 48),
               "client_packets": [[p[:48] for p in s["c2s"]] for s in a0.get("sess", [])], "result": a0.get("res"), "query": a0.get("q"),
               "verdict": next(cs for r, cs in jj[0] if r is a0) or "ok"})
    i0 = next((r for r in irecs if len(r["vec"]["servers"]) >= 3 and "res" in r), irecs[0])
    ck.sample({"part": "init", "configuration": i0["vec"]["cls"], "result": i0.get("res"), "pool": i0.get("pool"), "servers_saw": i0.get("srv"),
               "probe": i0.get("probe"), "busy_pct": i0.get("busy"), "verdict": next(cs for r, cs in jj[1] if r is i0) or "ok"})

    guarded(ck, lambda: auth_canaries(ck, [r for r in arecs if "crash" not in r]))
    guarded(ck, lambda: init_canaries(ck, [r for r in irecs if "crash" not in r]))
    return ck.finish(rule=RULE, distinct=len(avecs) + len(ivecs))


def replay(ck, path):
    """Re-execute a stored script / configuration against the current tree and let TLC judge the new record."""
    ck.build_vh()
    st = json.load(open(path))
    rp = st["replay"]
    part, vec = rp["part"], rp["vector"]
    if part == "auth":
        recs = run_auth(ck, [vec], "replay")
        module, eff = "LiteAuth_Trace", auth_effective
    else:
        recs = run_init(ck, [vec], "replay")
        module, eff = "LiteInit_Trace", init_effective
    r = recs[vec["id"]]
    if "crash" in r:
        print("the process crashed: %s" % r["crash"][-800:])
        cs = ["crash"]
    else:
        cs = eff(judge(ck, module, [r], "replay_judge")[0][1])
        print(json.dumps(short({k: v for k, v in r.items() if k != "vec"}, 300)))
    print("violated clauses: %s" % (cs or "none"))
    want = rp.get("clause")
    bad = (want in cs) if want else bool(cs)
    if bad:
        print("VIOLATION property=X03 replay=%s" % path)
    return 1 if bad else 0
