# C01: bag-of-cells serialisation round-trips, is canonical, stores shared sub-trees once; foreign bags parse (spec/Boc.tla).
import json, os, copy
import vlib, cellcommon
from vlib import Infra

RULE = ("S->C: bags written by the specification's reference writer (Boc!Write: 3 magics x idx x crc x cache x ref width 1/2/4 x "
        "offset width min/min+1 x stored hashes) for TLC-enumerated DAGs over all cell types must be accepted by the real parser and "
        "unfold to the intended tree and root hash. C->S: the library's own serialisations (8 option combinations, every entry "
        "point) of random DAGs, depth-limit chains, >255-cell DAGs and every cell harvested from the repository are judged by "
        "Cells_Trace: conforming container, same DAG (root hash recomputed by the spec), no duplicate cells, all cells reachable, "
        "equal bytes for separately built equal DAGs, parse-back identical. Non-trivial = DAG with >= 2 cells; distinct = distinct "
        "(root hash, options).")


def run(ck):
    ck.assumptions += ["TLC 1.8.0, CommunityModules", "Prim!Sha256, Prim!Crc32c (JDK), converters", "SHA-256 collision freedom "
                       "(structural equality of DAGs is decided by spec-computed representation hashes)",
                       "cell order and header widths of own output are not constrained; the contents of the optional index table of own output are not part of the property (reported as a note)"]
    ck.build_vh()
    # ---- S->C: foreign bags
    pairs = [(v, r) for v, r in cellcommon.gen_and_replay(ck) if not v["deep"]]       # cells beyond the depth bound: C02's question
    nrt = 0
    for v, r in pairs:
        cls = "%s:hashes=%s" % (v["magic"], str(v["hashes"]).lower())
        if r["panic"]:
            ck.report("C01:foreign:panic:" + cls, "panic on a conforming bag: " + r["panic"], {"kind": "gen", "vector": v, "got": r})
        elif not r["ok"]:
            ck.report("C01:foreign:rejected:" + cls, "a conforming bag (%s) written by the reference writer is rejected" % cls, {"kind": "gen", "vector": v, "got": r})
        elif r["tree"] != v["tree"]:
            ck.report("C01:foreign:tree:" + cls, "parsed cells differ from the DAG the bag denotes", {"kind": "gen", "vector": v, "got": r})
        elif r["hash"] != v["hash"]:
            ck.report("C01:foreign:hash:" + cls, "parsed root has a different hash than intended", {"kind": "gen", "vector": v, "got": r})
        elif r["rt"]:
            # the parsed DAG (exotic cells of every mask) serialised by the library under the 8 option combinations and parsed back
            ck.report("C01:foreign:round-trip:" + v["kind"], "a parsed %s DAG does not survive serialisation + parsing: %s" % (v["kind"], "; ".join(x[:160] for x in r["rt"][:3])),
                      {"kind": "gen", "vector": v, "got": r})
        else:
            nrt += 1
            ck.traces_ok += 1
    ck.evaluations += len(pairs)
    ck.extra["foreign_vectors"] = len(pairs)
    ck.extra["foreign_round_trips"] = nrt * 8
    ck.sample({"direction": "S->C", "vector": {k: (x if k != "boc" else x[:80] + "...") for k, x in pairs[len(pairs) // 3][0].items()}})
    v0, r0 = pairs[0]
    ck.canary("S->C: an expectation with a changed tree is flagged", (v0["tree"] + "x") != r0["tree"])

    # ---- C->S: own output
    traces = cellcommon.drive_shards(ck, "C01")
    def val(tp):
        return ck.validate_events("Cells_Trace", "trace/Cells_Trace.cfg", tp, timeout=3000, name="trace_" + os.path.basename(tp)[6:8], heap_gb=3)
    distinct = set()
    nidx = 0
    kinds = {}
    for tp, (res, rejected) in zip(traces, vlib.parallel(val, traces, n=8)):
        notes = cellcommon.notes_by_line(res)
        nidx += sum(1 for ns in notes.values() for n in ns if n and n[0] == "own-index-nonconforming")
        for rj in rejected:
            e = rj["event"]
            if e["k"] == "Panic":
                ck.report("C01:panic:" + cellcommon.src_class(e), "panic / failure while serialising: " + e["panic"], {"kind": "trace", "event": cellcommon.slim(e)})
            elif e["k"] == "Ser":
                note = [n for n in notes.get(rj["line"], []) if n and n[0] == "ser"]
                what = note[0][1] if note else "?"
                opt = "idx=%d,crc=%d,cache=%d" % (e["idx"], e["crc"], e["cache"])
                ck.report("C01:ser:%s:%s" % (what, cellcommon.src_class(e)), "own serialisation fails the '%s' clause (%s, %d cells)" % (what, opt, len(e["cells"])),
                          {"kind": "trace", "event": cellcommon.slim(e, 30000), "failed": what})
            elif e["k"] == "SerErr":
                ck.report("C01:ser:refused:" + cellcommon.src_class(e), "serialisation refused for a DAG within the limits: " + e.get("err", ""), {"kind": "trace", "event": cellcommon.slim(e)})
            else:
                ck.report("C01:foreign-corpus:" + e["k"], "a real bag from the repository is not parsed to the cells it denotes", {"kind": "trace", "event": cellcommon.slim(e)})
        for l in open(tp):
            e = json.loads(l)
            kinds[e.get("k")] = kinds.get(e.get("k"), 0) + 1
            if e.get("k") == "Ser" and len(e["cells"]) > 1:
                distinct.add((e["hash"], e["idx"], e["crc"], e["cache"]))
    ck.extra["events_by_kind"] = kinds
    ck.extra["note_own_index_nonconforming"] = nidx
    if nidx:
        ck.notes.append("%d own serialisations (has_idx + has_cache_bits) carry index entries that overflow the offset width: outside the property as stated (the library's parser ignores the index), see DESIGN.md" % nidx)
    evs = vlib.read_ndjson(traces[0])
    small = next(e for e in evs if e.get("k") == "Ser" and 2 <= len(e["cells"]) <= 4)
    ck.sample({"direction": "C->S", "event": small})
    # canaries: flip one byte of the cell data; declare boc2 different; drop a cell from the parse-back
    c1 = copy.deepcopy(small); b = c1["boc"]; c1["boc"] = b[:-2] + ("00" if b[-2:] != "00" else "01"); c1["boc2"] = c1["boc"]
    c2 = copy.deepcopy(small); c2["boc2"] = c2["boc2"][:-1] + ("0" if c2["boc2"][-1] != "0" else "1")
    c3 = copy.deepcopy(small); c3["back"]["cells"][-1]["b"] += "1"
    p = os.path.join(ck.work, "canary.ndjson")
    vlib.write_ndjson(p, [c1, c2, c3, small, {"k": "End"}])
    st = (ck.states, ck.transitions, ck.traces_ok, ck.evaluations)
    _, rej = ck.validate_events("Cells_Trace", "trace/Cells_Trace.cfg", p, name="canary")
    ck.states, ck.transitions, ck.traces_ok, ck.evaluations = st
    ck.canary("C->S: corrupted bytes / non-canonical twin / altered parse-back rejected, original accepted", [r["line"] for r in rej] == [1, 2, 3])
    return ck.finish(rule=RULE, distinct=len(distinct) + len(pairs))


def replay(ck, path):
    ck.build_vh()
    rp = json.load(open(path))["replay"]
    if rp["kind"] == "gen":
        vp, out = os.path.join(ck.work, "v.ndjson"), os.path.join(ck.work, "o.ndjson")
        vlib.write_ndjson(vp, [rp["vector"]])
        ck.run_vh(["replay", "CELLGEN", "-in", vp, "-out", out])
        r = vlib.read_ndjson(out)[0]
        print(json.dumps(r))
        v = rp["vector"]
        if r["panic"] or not r["ok"] or r["tree"] != v["tree"] or r["hash"] != v["hash"]:
            print("VIOLATION property=C01 replay=%s" % path)
            return 1
        return 0
    print("recorded event (re-run bin/check C01 to re-record and re-judge):")
    print(json.dumps(rp.get("event"))[:2000])
    return 0
