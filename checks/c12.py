# C12: concurrent lite-client requests each receive their own answer; timeouts; reconnect; no race / deadlock /
# goroutine growth (spec/LiteClient.tla).
import json, os, copy, re, shutil, subprocess, time
import vlib
from vlib import Infra, log

RULE = ("MC: exhaustive TLC runs of LiteClient (one action per critical section of client.go / connection.go / encrypted_conn.go, "
        "per-generation packet goroutine and reader, adversarial server) with OwnAnswer, ChanOwn, ReaderNeverBlocks, "
        "RegisteredWhileWaiting, NoLeakAtEnd, StatusLink, NoLeak, NoLeakAtRest, NoStuck and deadlock freedom as invariants, "
        "EveryCallReturns and DropLeadsToConnected under fairness on a smaller instance. "
        "S->C: TLC -simulate behaviours of LiteClient_Gen projected onto the server's actions (answer order, duplicates, unknown "
        "ids, pongs, other packets, answers held back beyond the deadline, closes mid-request / idle / during the handshake of a "
        "reconnect) are executed by a scripted lite server against one real liteclient.Client used by 1..64 caller goroutines over "
        "1..4 connections, one process per execution, built with -race, with seeded delays at the hook points. "
        "C->S: the hook events (global sequence number taken inside the critical section) merged with the server's log must be a "
        "behaviour of LiteClient (LiteClient_Trace; invariants after every event; deadlines, justified timeouts and the recovery "
        "bound from the code's 3 s ping / 1 s retry constants; quiescence: every call returned, queries = {}, no delivery in "
        "progress, every connection Connected on an open socket, goroutine census equal to the model's). The harness separately "
        "asserts payload equality, return-by-deadline, later calls succeed, census before/after, and fails on any race report. "
        "Fixed scenarios besides the TLC scripts: 16 callers with 48 KiB queries on ONE connection (hooked and hook-free; Connection.mu "
        "must be exclusive between send.try and the result, the server reports a client stream it cannot decrypt), a refusal of every "
        "connection attempt for > 10 s after a close followed by the server being back (a dial may fail only when the server closed that "
        "attempt), authenticated connections on which the server repeats tcp.authentificationNonce and sends other auth constructors, every "
        "answer written in two TCP pieces with a pause (cut inside the size prefix after 1, 2, 3 bytes / nonce / payload / checksum), a soak, "
        "the handshake acknowledgement followed at once (same write / next write) by an unsolicited packet on initial connections and "
        "reconnections, a reconnection whose handshake the server answers only after deadline + slack while calls go on, "
        "callers with their own context deadline / cancellation far below the client timeout, one answer held back for > 10 s on a connection "
        "that meanwhile carries only ping / pong (no reconnect may happen: a reader takes the silence branch only 10 s after its last packet), "
        "and (thorough) the 10 s silence expiry; a call still inside Request after deadline + slack + 1 s is reported, not awaited. "
        "distinct = executions whose trace was accepted + hook-free executions that passed the harness assertions.")

def _slack():
    """scheduling tolerance of every real-time judgement; widened when the machine is oversubscribed"""
    base = int(os.environ.get("C12_SLACK_MS", "600"))
    try:
        load = float(open("/proc/loadavg").read().split()[0]) / (os.cpu_count() or 1)
    except Exception:
        load = 0.0
    return base if load <= 1.5 else int(base * min(4.0, 1.0 + load / 2.0))


SLACK_MS = _slack()
RECOVER_MS = 2 * 3000 + 1500          # two ping periods (connection.go: ping) + slack
RETRY_MS = 1000                        # connection.go: reconnect() sleeps 1 s after a failed dial
ALL_INV = "TypeOK OwnAnswer ChanOwn ReaderNeverBlocks RegisteredWhileWaiting NoLeakAtEnd StatusLink NoLeak NoLeakAtRest NoStuck"


# --------------------------------------------------------------------------------------------- build
def build_race(ck):
    """the harness built with the race detector (needs cgo); falls back to a plain build with a note"""
    shutil.copy(os.path.join(vlib.REPO, "go.sum"), os.path.join(vlib.HARNESS, "go.sum"))
    out = os.path.join(ck.work, "vh_race")
    env = dict(vlib.GOENV, CGO_ENABLED="1")
    modargs = []
    if os.path.realpath(vlib.REPO) != "/repo":
        # runs against another checkout (seeded defects): same mechanism as vlib.build_vh
        alt = os.path.join(ck.work, "go.alt.mod")
        open(alt, "w").write(open(os.path.join(vlib.HARNESS, "go.mod")).read().replace("=> /repo", "=> " + os.path.realpath(vlib.REPO)))
        shutil.copy(os.path.join(vlib.REPO, "go.sum"), os.path.join(ck.work, "go.alt.sum"))
        modargs = ["-modfile", alt]
    for attempt in range(3):
        p = vlib.sh(["go", "build"] + modargs + ["-race", "-tags", "verif", "-o", out, "./cmd/vh"], cwd=vlib.HARNESS, env=env, check=False, timeout=1500)
        if p.returncode == 0:
            return out, True
        if "internal/c12/" in p.stdout or "/repo/" in p.stdout or os.path.realpath(vlib.REPO) in p.stdout or os.environ.get("VERIF_NO_RETRY"):
            break
        if "cgo" in p.stdout.lower() or "gcc" in p.stdout.lower() or "-race" in p.stdout:
            break
        time.sleep(20)
    if "internal/c12/" in p.stdout or "/repo/" in p.stdout or os.path.realpath(vlib.REPO) in p.stdout:
        raise Infra("harness does not build against /repo:\n" + p.stdout[-4000:])
    ck.notes.append("race detector unavailable (go build -race failed: %s); executions ran without it" % p.stdout.strip()[-300:])
    return ck.build_vh(), False


# ------------------------------------------------------------------------------------ model checking
def mc_jobs(ck):
    quick = [("2x2", 3), ("2x2n", 2), ("3x1", 3), ("3x1n", 2), ("live1", 2)]
    thorough = [("2x2dn", 4), ("3x1dn", 4), ("3x2d", 4), ("live", 3), ("sil", 2)]
    jobs = quick + (thorough if ck.thorough else [])
    if os.environ.get("C12_BIG"):
        jobs.append(("3x2dn", 12))      # 14.0 M distinct states, ~8 min with 12 workers
    return jobs


def run_mc(ck, job):
    name, workers = job
    res = ck.tlc_or_infra("LiteClient_MC", "mc/LiteClient_MC_%s.cfg" % name, workers=workers, timeout=3000, name="mc_" + name,
                          heap_gb=10 if name.startswith("3x2dn") else 5)
    if not res.completed or res.left != 0:
        raise Infra("model checking of LiteClient_MC_%s did not complete" % name)
    return name, res


def run_lead(ck):
    """the documented lead: NoStuck does not hold once the silence timer can expire (expected: violated)"""
    res = ck.tlc("LiteClient_MC", "mc/LiteClient_MC_stuck.cfg", workers=2, timeout=600, name="mc_stuck")
    return "NoStuck" in res.invariant_violated


# ------------------------------------------------------------------------------------------ generation
def plans(ck):
    """(name, ncalls, nconns, maxdrops, maxnoise, dropwhen, wtimeout, wnoise, wdrop, wanted scripts)"""
    if not ck.thorough:
        return [("perm", 3, 2, 0, 3, "any", 3, 10, 0, 6),
                ("one", 5, 1, 0, 2, "any", 5, 8, 0, 4),
                ("wide", 6, 3, 0, 3, "any", 3, 8, 0, 4),
                ("solo", 1, 1, 0, 1, "any", 10, 10, 0, 2),
                ("mid", 3, 2, 1, 2, "mid", 2, 6, 12, 3),
                ("idle", 3, 2, 1, 1, "idle", 2, 4, 12, 2),
                ("hs", 4, 2, 2, 1, "hs", 2, 4, 40, 3)]
    ps = []
    for (nc, nk, n) in [(1, 1, 10), (2, 1, 15), (2, 2, 20), (3, 2, 40), (3, 3, 20), (5, 2, 30), (5, 4, 20), (8, 3, 40), (8, 1, 15),
                        (16, 2, 30), (16, 4, 30), (32, 3, 30), (64, 4, 30), (64, 1, 10), (48, 2, 10)]:
        ps.append(("n%dx%d" % (nc, nk), nc, nk, 0, min(6, nc + 1), "any", 3, 8, 0, n))
    for (nc, nk, n, when, md) in [(2, 1, 20, "mid", 1), (3, 2, 40, "mid", 1), (3, 2, 30, "idle", 1), (4, 2, 40, "hs", 2), (5, 3, 30, "hs", 3),
                                  (8, 4, 30, "mid", 2), (16, 2, 20, "any", 2), (32, 4, 20, "mid", 2), (64, 3, 10, "any", 2)]:
        ps.append(("d%dx%d%s" % (nc, nk, when), nc, nk, md, min(3, nc), when, 2, 4, 14 if md == 1 else 30, n))
    return ps


def gen_scripts(ck, plan, idx):
    name, nc, nk, md, mn, when, wt, wn, wd, want = plan
    cfg = open(os.path.join(vlib.SPEC, "gen/LiteClient_Gen.cfg")).read()
    subs = {"Calls = {1, 2, 3}": "Calls = {%s}" % ", ".join(str(i) for i in range(1, nc + 1)), "NConns = 2": "NConns = %d" % nk,
            "MaxDrops = 1": "MaxDrops = %d" % md, "MaxNoise = 2": "MaxNoise = %d" % mn, 'DropWhen = "any"': 'DropWhen = "%s"' % when,
            "WTimeout = 4": "WTimeout = %d" % wt, "WNoise = 8": "WNoise = %d" % wn, "WDrop = 5": "WDrop = %d" % wd,
            "Depth = 60": "Depth = %d" % (40 + 12 * nc)}
    for a, b in subs.items():
        if a not in cfg:
            raise Infra("gen/LiteClient_Gen.cfg: expected '%s'" % a)
        cfg = cfg.replace(a, b)
    p = os.path.join(ck.work, "LiteClient_Gen_%s.cfg" % name)
    open(p, "w").write(cfg)
    num = max(want * 3, want + 6) if md < 2 else max(want * 6, 24)
    res = ck.tlc_or_infra("LiteClient_Gen", os.path.relpath(p, vlib.SPEC), workers=1, timeout=1200, name="gen_" + name, heap_gb=3,
                          args=["-simulate", "num=%d" % num, "-depth", str(200 + 60 * nc), "-seed", str(ck.seed * 1000 + idx)])
    seen, out = set(), []
    for v in res.vecs():
        key = json.dumps(v["steps"], sort_keys=True)
        if key in seen or not v["steps"]:
            continue
        seen.add(key)
        out.append(v)
    return plan, out


def tags_of(steps):
    t = set()
    recv_order = [s["i"] for s in steps if s["a"] == "recv"]
    ans_order = [s["i"] for s in steps if s["a"] == "ans"]
    if [i for i in recv_order if i in ans_order] != ans_order:
        t.add("perm")
    for s in steps:
        if s["a"] in ("dup", "unk", "pong", "other", "late", "hsdrop"):
            t.add(s["a"])
        if s["a"] == "drop":
            t.add("drop-mid" if s["of"] else "drop-idle")
    return t


def finalize(ck, plan, vecs, next_id):
    """pick the wanted number of scripts of a plan (preferring those that realise the plan's fault), and attach the
    execution parameters; hsdrop must be armed before the close that triggers the reconnect"""
    name, nc, nk, md, mn, when, wt, wn, wd, want = plan
    def score(v):
        t = tags_of(v["steps"])
        s = len(t)
        if md and not (t & {"drop-mid", "drop-idle", "hsdrop"}):
            s -= 10
        if name.startswith("hs") or md == 2:
            s += 5 * ("hsdrop" in t)
        if when == "mid":
            s += 3 * ("drop-mid" in t)
        return -s
    vecs = sorted(vecs, key=score)[:want]
    scripts = []
    for v in vecs:
        steps = [dict(s) for s in v["steps"]]
        out = []
        for s in steps:
            if s["a"] == "hsdrop":
                j = max([i for i, x in enumerate(out) if x["a"] == "drop"] or [len(out)])
                out.insert(j, s)
            else:
                out.append(s)
        t = tags_of(out)
        sid = next_id + len(scripts)
        rnd = ck.rng.random()
        # two thirds of the executions use a timeout well above the slack (otherwise "the answer was there in time" cannot be
        # told from scheduling noise); the rest use short ones
        long_to = 2 * SLACK_MS + 300
        sc = {"id": sid, "plan": name, "ncalls": nc, "nconns": nk, "timeout_ms": long_to if sid % 3 and nc <= 8 else ck.rng.choice([250, 400]),
              "steps": out, "bg_callers": 0 if rnd < 0.6 else ck.rng.choice([1, 2, 4]), "bg_calls": ck.rng.choice([1, 2, 3]),
              "followup": 1, "mode": "traced", "jitter": ck.rng.random() < 0.7, "cls": "+".join(sorted(t)) or "plain"}
        if sid % 4 == 1:
            # transport-level refinement of "delays": frames written in two pieces, the cut cycling through size prefix / nonce / payload / checksum
            sc["split_every"], sc["split_ms"] = ck.rng.choice([1, 2]), ck.rng.choice([20, 50, 120])
            sc["timeout_ms"] = long_to      # the pauses are server-side delay: they must not eat a short client timeout
            sc["cls"] += "+split"
        if sid % 6 == 3:
            # every handshake acknowledgement (initial and after reconnects) is followed at once by an unsolicited packet
            sc["eager"] = 1 + (sid // 6) % 2
            sc["cls"] += "+eager"
        if sid % 7 == 4 and sc["timeout_ms"] == long_to:
            # the callers bring their own contexts: deadline / cancellation earlier than the client's timeout (by call number)
            sc["ctx_mode"], sc["ctx_ms"] = 3, 250
            sc["cls"] += "+ctx"
        if sid % 5 == 2:
            # authenticated connections; unsolicited packets become repeated tcp.authentificationNonce / other auth constructors
            sc["auth"] = True
            for st in sc["steps"]:
                if st["a"] in ("pong", "other") and ck.rng.random() < 0.6:
                    st["a"] = "authnonce"
                elif st["a"] == "other":
                    st["m"] = ck.rng.choice([0, 1, 2])
            sc["cls"] += "+auth"
        if "late" in t and sid % 2 == 0:
            # hold the callers between their timeout and unregisterCallback: the held-back answer finds the entry still there
            sc["hold_timeout_us"] = 60000
            sc["cls"] += "+hold"
        scripts.append(sc)
    return scripts


# ------------------------------------------------------------------------------------------- execution
class Exec:
    def __init__(self, script, res, stderr, rc, trace, wall):
        self.script, self.res, self.stderr, self.rc, self.trace, self.wall = script, res, stderr, rc, trace, wall


def execute(ck, binary, script, tag, timeout=300):
    d = os.path.join(ck.work, "ex")
    os.makedirs(d, exist_ok=True)
    sp = os.path.join(d, "%s_%d.script.ndjson" % (tag, script["id"]))
    rp = os.path.join(d, "%s_%d.res.ndjson" % (tag, script["id"]))
    tp = os.path.join(d, "%s_%d.trace.ndjson" % (tag, script["id"]))
    vlib.write_ndjson(sp, [script])
    env = dict(vlib.GOENV, C12_SLACK_MS=str(SLACK_MS), GORACE="halt_on_error=0 exitcode=66")
    t = time.time()
    try:
        p = subprocess.run([binary, "drive", "C12", "-in", sp, "-shard", "0", "-out", rp, "-seed", str(ck.seed), tp], cwd=d, env=env,
                           stdout=subprocess.PIPE, stderr=subprocess.PIPE, text=True, timeout=timeout)
        rc, err = p.returncode, p.stderr + p.stdout
    except subprocess.TimeoutExpired as e:
        rc, err = -9, "execution timed out after %ds: %s" % (timeout, (e.stderr or b"")[-2000:])
    res = None
    if os.path.exists(rp):
        rs = vlib.read_ndjson(rp)
        if rs and rs[-1].get("k") == "End" and rs[0].get("k") == "Result":
            res = rs[0]
    return Exec(script, res, err, rc, tp if os.path.exists(tp) else None, time.time() - t)


def has_outage(script):
    return any(st["a"] == "outage" for st in script["steps"])


def race_key(stderr):
    """stable name of a race report: of the two conflicting accesses of the first report take the client's function on top of each
    stack and name the race after the alphabetically first one (which access is 'previous' differs from run to run)"""
    blk = stderr[stderr.index("WARNING: DATA RACE"):]
    blk = blk[:blk.index("==================", 10)] if "==================" in blk[10:] else blk[:8000]
    tops = []
    for sec in re.split(r"\n\s*\n", blk):
        if re.match(r"\s*(WARNING: DATA RACE\n)?\s*(Read|Write|Previous read|Previous write|Atomic|Previous atomic)", sec):
            m = re.search(r"tongo/(liteclient\.[^\s(]*(?:\([^)]*\))?[^\s(]*)\(", sec)
            if m:
                tops.append(m.group(1))
    if tops:
        return "C12:data-race:" + sorted(tops)[0]
    m = re.search(r"tongo/(liteclient\.[^\s(]*(?:\([^)]*\))?[^\s(]*)\(", blk)
    if m:
        return "C12:data-race:" + m.group(1)
    m = re.search(r"\n\s+(\S+)\(\)", blk)
    return "C12:data-race:" + ((m.group(1) if m else "?").split("/")[-1])


def harness_findings(x):
    """violation candidates from the harness's own assertions: list of (key, what)"""
    out = []
    if "WARNING: DATA RACE" in x.stderr:
        out.append((race_key(x.stderr), "the race detector reports a data race: " + x.stderr[x.stderr.index("WARNING: DATA RACE"):][:1800]))
    if x.rc not in (0, 66) and re.search(r"^(panic:|fatal error:)", x.stderr, re.M):
        m = re.search(r"^(panic:|fatal error:).*$", x.stderr, re.M)
        out.append(("C12:crash", "the client crashes the process: " + x.stderr[m.start():][:1500]))
    r = x.res
    if r is None:
        return out
    if r.get("setup_failed"):
        out.append(("C12:connection-setup-fails", "the client could not establish its initial connections to a conforming server: " + r["setup_failed"][:300]))
        return out
    if r.get("auth_bad"):
        out.append(("C12:auth-signature-invalid", "%d tcp.authentificationComplete packet(s) whose signature does not verify" % r["auth_bad"]))
    if r.get("stream_corrupt"):
        out.append(("C12:client-stream-corrupt", "the server could not decrypt / verify %d frame(s) of the client's byte stream (not a sequence of valid frames)" % r["stream_corrupt"]))
    if r.get("hang"):
        # everything after this point of the execution was skipped
        out.append(("C12:call-outlives-deadline", "calls %s were still inside Request more than %d ms + 1 s after their %d ms deadline: %s" % (
            r.get("hung_calls", [])[:8], SLACK_MS, r["timeout_ms"], r.get("hang_stacks", "")[:1200])))
        return out
    if r.get("unanswered"):
        out.append(("C12:answer-lost-on-live-connection", "calls %s did not get the answer the server sent on a connection it never closed" % r["unanswered"][:8]))
    if r["payload_mismatch"]:
        out.append(("C12:payload-mismatch", "calls %s returned bytes that are not the server's answer for their query id" % r["payload_mismatch"][:8]))
    if r["late"]:
        out.append(("C12:return-after-deadline", "calls %s returned more than %d ms after their %d ms deadline" % (r["late"][:8], SLACK_MS, r["timeout_ms"])))
    if not r["recovered"]:
        if has_outage(x.script):
            out.append(("C12:no-reconnect-after-long-outage", "the server refused every connection attempt for %d ms and then accepted again on the same address and key; "
                        "the client was not back on %d open connections within 1 s retry + 2 s + slack after that" % (
                            max(st.get("ms", 0) for st in x.script["steps"]), r["nconns"])))
        else:
            out.append(("C12:no-reconnect-within-bound", "after %d close(s) by the server the client was not back on %d open connections within the bound "
                        "(2 ping periods + 1 s per failed dial + slack)" % (r["drops"], r["nconns"])))
    elif r["followup_failed"] and r["timeout_ms"] > SLACK_MS:
        # with a client timeout below the scheduling slack a later call may time out for lack of CPU alone; those executions are judged by TLC only
        out.append(("C12:later-call-fails-after-recovery", "calls %s issued after every connection had recovered did not succeed" % r["followup_failed"][:8]))
    if r["recovered"] and not r["census_ok"]:
        if r["pkt_extra"] > 0 and all(r["census1"][k] == r["census0"][k] for k in ("ping", "cl", "cr", "rc", "other")):
            if not x.script.get("silence_ms"):
                out.append(("C12:goroutine-leak:packet-goroutine", "%d packet goroutine(s) left behind: %s" % (r["pkt_extra"], r["stuck"][:300])))
        else:
            out.append(("C12:goroutine-census", "goroutines of the client before %s / after %s" % (r["census0"], r["census1"])))
    return out


def trace_key(rj, res, script=None):
    e = rj["event"]
    k = e.get("k", "?")
    if k == "Hang":
        return "C12:call-outlives-deadline"
    if k == "srv.corrupt":
        return "C12:client-stream-corrupt"
    # whatever event comes first after a call has outlived deadline + slack is rejected (InTime): name the cause, not the event
    seg = rj.get("segment") or []
    if seg and "t" in e:
        tmo, t0 = seg[0].get("timeout", 0), {}
        for ev in seg[1:rj["accepted"]]:
            if ev["k"] == "call":
                t0[ev["i"]] = ev["t"] + ev.get("dl", tmo) - tmo
            elif ev["k"] == "return":
                t0.pop(ev["i"], None)
        if any(e["t"] > t + tmo + SLACK_MS for t in t0.values()):
            return "C12:call-outlives-deadline"
    if k == "cr.silence":
        return "C12:reconnect-of-a-live-connection"       # the silence branch although a packet (a pong is one) arrived less than 10 s ago
    if k == "pkt.exit":
        return "C12:reader-exits-on-open-connection"     # the packet goroutine gave up although nobody closed the socket
    if k == "conn.up.again":
        return "C12:auth-repeated-after-connected"
    if k == "send.try":
        return "C12:send-not-exclusive"          # a second sender entered Send's critical section of Connection.mu
    if k == "rc.dialfail":
        return "C12:no-reconnect-after-long-outage" if script and has_outage(script) else "C12:dial-fails-without-server-refusal"
    if k == "ret.timeout":
        return "C12:timeout-although-answer-was-available"
    if k in ("return", "ret.answer") and e.get("res", "answer") == "answer":
        return "C12:trace:%s" % k
    if k == "Quiesce":
        if res and res.get("hang"):
            return "C12:call-outlives-deadline"
        if res and not res["recovered"]:
            return "C12:no-reconnect-after-long-outage" if script and has_outage(script) else "C12:no-reconnect-within-bound"
        return "C12:not-quiescent"
    if k == "dlv.pre":
        return "C12:reader-blocks-or-wrong-delivery"
    return "C12:trace:%s" % k


def trace_cfg(ck, nconns, maxcalls):
    cfg = open(os.path.join(vlib.SPEC, "trace/LiteClient_Trace.cfg")).read()
    for a, b in (("Slack = 400", "Slack = %d" % SLACK_MS), ("RecoverMs = 7500", "RecoverMs = %d" % RECOVER_MS), ("RetryMs = 1000", "RetryMs = %d" % RETRY_MS),
                 ("NConns = 2", "NConns = %d" % nconns), ("MaxCalls = 80", "MaxCalls = %d" % maxcalls)):
        if a not in cfg:
            raise Infra("trace/LiteClient_Trace.cfg: expected '%s'" % a)
        cfg = cfg.replace(a, b)
    p = os.path.join(ck.work, "LiteClient_Trace_k%d_n%d.cfg" % (nconns, maxcalls))
    open(p, "w").write(cfg)
    return os.path.relpath(p, vlib.SPEC)


def segments_of(path):
    evs = [e for e in vlib.read_ndjson(path) if e.get("k") != "End"]
    return evs


def validate(ck, execs, name):
    """validate the traces of `execs` (all with the same number of connections) in one TLC run.
    returns {script id: rejection or None}"""
    evs, starts = [], {}
    for x in execs:
        starts[len(evs) + 1] = x.script["id"]
        evs += segments_of(x.trace)
    cfg = trace_cfg(ck, execs[0].script["nconns"], max(e["ncalls"] for e in evs if e["k"] == "Reset"))
    tp = os.path.join(ck.work, "trace_%s.ndjson" % name)
    vlib.write_ndjson(tp, evs + [{"k": "End", "events": len(evs)}])
    _, rej = ck.validate_segments("LiteClient_Trace", cfg, tp, timeout=2400, name="trace_" + name, heap_gb=4)
    out = {x.script["id"]: None for x in execs}
    for rj in rej:
        out[starts[rj["seg"]]] = rj
    return out


def shard_by_conns(execs, per):
    groups = {}
    for x in execs:
        groups.setdefault(x.script["nconns"], []).append(x)
    shards = []
    for nk, xs in sorted(groups.items()):
        # keep the event count per TLC process moderate
        cur, n = [], 0
        for x in xs:
            cur.append(x)
            n += (x.res or {}).get("trace_events", 1000)
            if n >= per:
                shards.append((nk, cur)); cur, n = [], 0
        if cur:
            shards.append((nk, cur))
    return shards


def short(e, n=200):
    return {k: (v if len(str(v)) <= n else str(v)[:n] + "...") for k, v in e.items()}


# ------------------------------------------------------------------------------------------------ run
def run(ck):
    ck.assumptions += ["TLC 1.8.0 + CommunityModules Json", "the scripted lite server (harness/internal/adnlsrv + the adnl.message / tcp.ping framing of "
                       "harness/internal/c12; adnlsrv is itself judged by Adnl_Trace under C11)",
                       "no-authentication path of connection.go; loopback TCP: after the peer's close at most one write is accepted before writes fail "
                       "(StrictRst, model checking only; not required of recorded executions)",
                       "time-dependent judgements (deadline, justified timeout, recovery bound = 2 x 3 s ping + 1.5 s, +1 s + slack per failed dial) use a "
                       "slack of %d ms and are re-run before being reported" % SLACK_MS,
                       "hook calls synchronise through the recorder's atomic counter, which can hide races from the detector: a share of the executions "
                       "runs without any hook installed (mode bare)",
                       "goroutines are counted by entry function from runtime.Stack; a reconnect goroutine spawned by a failed Send counts as transient "
                       "until it has taken Connection.mu"]
    binary, raced = build_race(ck)
    ck.extra["race_detector"] = raced
    ck.extra["slack_ms"] = SLACK_MS

    # ---- model checking and script generation side by side
    ps = plans(ck)
    items = [("mc", j) for j in mc_jobs(ck)] + [("lead", None)] + [("gen", (p, i)) for i, p in enumerate(ps)]

    def job(it):
        if it[0] == "mc":
            return run_mc(ck, it[1])
        if it[0] == "lead":
            return run_lead(ck)
        return gen_scripts(ck, it[1][0], it[1][1])
    t_mc = time.time()
    results = vlib.parallel(job, items, n=6 if not ck.thorough else 8)
    nmc = len(mc_jobs(ck))
    for name, res in results[:nmc]:
        ck.extra["mc_" + name] = {"distinct": res.distinct, "generated": res.generated, "wall_s": round(res.wall, 1)}
    if not results[nmc]:
        raise Infra("the lead instance LiteClient_MC_stuck no longer violates NoStuck: model and documentation disagree")
    ck.extra["mc_stuck_lead"] = "NoStuck violated as documented (a silence reconnect can strand the old packet goroutine)"
    ck.extra["mc_wall_s"] = round(time.time() - t_mc, 1)
    scripts = []
    for plan, vecs in results[nmc + 1:]:
        got = finalize(ck, plan, vecs, len(scripts) + 1)
        if len(got) < max(1, plan[-1] // 2):
            raise Infra("generator plan %s produced %d of %d scripts" % (plan[0], len(got), plan[-1]))
        scripts += got
    alltags = set()
    for s in scripts:
        alltags |= tags_of(s["steps"])
    need = {"perm", "dup", "unk", "pong", "other", "late", "drop-mid", "drop-idle", "hsdrop"}
    if not need <= alltags:
        raise Infra("generated scripts do not cover %s" % sorted(need - alltags))
    ndrop = sum(1 for s in scripts if any(st["a"] in ("drop", "hsdrop", "stall", "outage") for st in s["steps"]))
    ck.extra["scripts"] = len(scripts)
    ck.extra["scripts_with_drops"] = ndrop
    ck.extra["callers_max"] = max(s["ncalls"] + s["bg_callers"] for s in scripts)
    # hook-free executions: the same kind of scripts, no hook installed, race detector and harness assertions only
    bare = []
    for s in scripts[::max(1, len(scripts) // (6 if not ck.thorough else 60))]:
        b = copy.deepcopy(s); b["id"] = 100000 + s["id"]; b["mode"] = "bare"; b["jitter"] = False
        bare.append(b)
    soak = {"id": 200000, "plan": "soak", "ncalls": 0, "nconns": 3, "timeout_ms": 2000, "steps": [], "bg_callers": 16,
            "bg_calls": 640 if ck.thorough else 130, "followup": 1, "mode": "bare", "jitter": False, "cls": "soak"}
    bare.append(soak)
    # many callers on ONE connection with large query bodies: the writes of concurrent senders overlap unless Send serialises them
    nb = 12 if not ck.thorough else 40
    for j, mode in enumerate(["traced", "bare"] + (["traced", "bare"] if ck.thorough else [])):
        bare.append({"id": 210000 + j, "plan": "burst", "ncalls": 0, "nconns": 1, "timeout_ms": 2 * SLACK_MS + 300, "steps": [], "bg_callers": 16,
                     "bg_calls": nb, "followup": 1, "mode": mode, "jitter": mode == "traced" and j >= 2, "cls": "burst", "q_bytes": 48 << 10})
    # long outage: the server closes the link and refuses every attempt for > 10 s (counted from the client's first attempt), then is back
    for j in range(1 if not ck.thorough else 2):
        bare.append({"id": 220000 + j, "plan": "outage", "ncalls": 0, "nconns": 1 + j, "timeout_ms": 300, "steps": [{"a": "outage", "i": 0, "k": 1, "of": 0, "ms": 12500 + 1500 * j}],
                     "bg_callers": 1, "bg_calls": 4, "followup": 2, "mode": "traced", "jitter": False, "cls": "outage"})
    # authenticated connections: the server repeats tcp.authentificationNonce (and sends other auth constructors) after the connection is up,
    # before and after a reconnect; ordinary calls go on around it
    for j in range(1 if not ck.thorough else 3):
        st = [{"a": "recv", "i": 1}, {"a": "recv", "i": 2}, {"a": "authnonce", "of": 1}, {"a": "ans", "i": 1, "cut": 1 + j, "ms": 60},
              {"a": "other", "of": 2, "m": 1}, {"a": "authnonce", "of": 2}, {"a": "ans", "i": 2}, {"a": "other", "k": 1, "m": 2}, {"a": "recv", "i": 3}, {"a": "ans", "i": 3},
              {"a": "recv", "i": 4}, {"a": "drop", "of": 4}, {"a": "pause", "ms": 300}] + [{"a": "authnonce", "k": k} for k in range(1, 3 + j)]
        for x in st:
            for f in ("i", "k", "of"):
                x.setdefault(f, 0)
        bare.append({"id": 230000 + j, "plan": "auth", "ncalls": 4, "nconns": 2 + j, "timeout_ms": 2 * SLACK_MS + 300, "steps": st, "auth": True,
                     "bg_callers": 2, "bg_calls": 3, "followup": 2, "mode": "traced", "jitter": j > 0, "cls": "auth"})
    # every answer written in two pieces with a pause (cut cycling through the regions of a frame): every call still gets its answer in time
    for j, mode in enumerate(["traced", "bare"] + (["traced"] if ck.thorough else [])):
        bare.append({"id": 240000 + j, "plan": "split", "ncalls": 0, "nconns": 1 + j % 2, "timeout_ms": 2 * SLACK_MS + 300, "steps": [], "bg_callers": 6, "bg_calls": 4,
                     "followup": 1, "mode": mode, "jitter": False, "cls": "split", "split_every": 1, "split_ms": [50, 150, 20][j]})
    # the handshake acknowledgement and an unsolicited packet (pong / unknown id / other, in turn) leave in ONE write (eager 1) or in two
    # writes without a pause (eager 2), on the initial connections and on the reconnection after a drop; calls before, between and after
    for j, (eg, mode, auth) in enumerate([(1, "traced", False), (2, "traced", False), (1, "bare", False)] + ([(2, "traced", True), (1, "traced", False)] if ck.thorough else [])):
        st = [{"a": "recv", "i": 1}, {"a": "ans", "i": 1}, {"a": "recv", "i": 2}, {"a": "drop", "of": 2}, {"a": "recv", "i": 3}, {"a": "ans", "i": 3}]
        for x in st:
            for f in ("i", "k", "of"):
                x.setdefault(f, 0)
        bare.append({"id": 250000 + j, "plan": "eager", "ncalls": 3, "nconns": 1 + (j + 1) % 3, "timeout_ms": 2 * SLACK_MS + 300, "steps": st, "eager": eg, "auth": auth,
                     "bg_callers": 2, "bg_calls": 4, "bg_gap_ms": 100, "followup": 2, "mode": mode, "jitter": j % 2 == 1, "cls": "eager"})
    # stalled handshake: the server closes the link, accepts the reconnection and reads its handshake but holds the acknowledgement back for
    # longer than deadline + slack; calls issued in that window must still return by their deadline; afterwards the client is back
    for j in range(1 if not ck.thorough else 2):
        to = 300
        stall = to + SLACK_MS + 1000 + 1500
        bare.append({"id": 260000 + j, "plan": "stall", "ncalls": 0, "nconns": 1 + j, "timeout_ms": to, "bg_callers": 2 + j, "bg_calls": stall // 200 + 8, "bg_gap_ms": 200,
                     "steps": [{"a": "pause", "i": 0, "k": 0, "of": 0, "ms": 150}, {"a": "stall", "i": 0, "k": 1, "of": 0, "ms": stall}],
                     "followup": 2, "mode": "traced", "jitter": False, "cls": "stall"})
    # caller contexts: deadline (calls n%3=1) or cancellation (n%3=2) 300 ms after the start, far below the client's timeout; most answers
    # never arrive: each call must return by its own limit
    for j in range(1 if not ck.thorough else 3):
        cto = 300 + 2 * SLACK_MS + 1500
        st = [{"a": "recv", "i": i} for i in range(1, 8)] + [{"a": "ans", "i": 3}, {"a": "ans", "i": 4}, {"a": "ans", "i": 5}]
        for x in st:
            for f in ("i", "k", "of"):
                x.setdefault(f, 0)
        bare.append({"id": 270000 + j, "plan": "ctx", "ncalls": 7, "nconns": 1 + j, "timeout_ms": cto, "steps": st, "ctx_mode": [3, 1, 2][j], "ctx_ms": 300,
                     "bg_callers": 0, "bg_calls": 0, "followup": 1, "mode": "traced" if j != 1 else "bare", "jitter": j == 2, "cls": "ctx"})
    # a connection that carries only ping / pong for more than the 10 s of the silence timer: one call whose answer the server holds back
    # for 11.5 s (12.5 s) while it answers the pings; the connection must not be re-dialled and the answer must arrive
    for j in range(1 if not ck.thorough else 3):
        st = [{"a": "recv", "i": 1}, {"a": "pause", "ms": 11500 + 500 * j}, {"a": "ans", "i": 1}]
        for x in st:
            for f in ("i", "k", "of"):
                x.setdefault(f, 0)
        bare.append({"id": 280000 + j, "plan": "hold", "ncalls": 1, "nconns": 1 + j % 2, "timeout_ms": 15000, "steps": st, "must_answer": [1],
                     "bg_callers": 0, "bg_calls": 0, "followup": 1, "mode": "traced" if j < 2 else "bare", "jitter": False, "cls": "hold"})
    silence = []
    if ck.thorough:
        for j in range(2):
            silence.append({"id": 300000 + j, "plan": "silence", "ncalls": 0, "nconns": 1 + j, "timeout_ms": 400, "steps": [], "bg_callers": 0, "bg_calls": 0,
                            "followup": 2, "mode": "traced", "jitter": False, "cls": "silence", "silence_ms": 600, "hold_us": 300000, "hit_us": 100000})

    # ---- S->C: execute
    par = 12 if not ck.thorough else 16
    todo = sorted(scripts + bare + silence, key=lambda sc: 0 if sc["plan"] in ("outage", "silence", "hold") else 1 if sc["plan"] in ("ctx", "stall", "burst", "soak", "auth", "split", "eager") else 2)
    t_ex = time.time()
    execs = vlib.parallel(lambda s: execute(ck, binary, s, "x"), todo, n=par)
    ck.extra["exec_wall_s"] = round(time.time() - t_ex, 1)
    by_id = {x.script["id"]: x for x in execs}
    for x in execs:
        if x.res is None and not harness_findings(x):
            raise Infra("execution of script %d (%s) failed (rc=%s):\n%s" % (x.script["id"], x.script["cls"], x.rc, x.stderr[-3000:]))

    # ---- C->S: TLC judges every traced execution
    traced = [x for x in execs if x.script["mode"] == "traced" and x.trace]
    shards = shard_by_conns(traced, 40000)
    verdicts = {}
    for d in vlib.parallel(lambda a: validate(ck, a[1][1], "%02d_k%d" % (a[0], a[1][0])), list(enumerate(shards)), n=8 if not ck.thorough else 12):
        verdicts.update(d)

    # ---- findings: harness assertions and rejected traces; everything is re-executed before it is reported
    def judge(x, tag):
        fs = harness_findings(x)
        rj = None
        if x.script["mode"] == "traced" and x.trace and x.res is not None:
            rj = validate(ck, [x], "%s_%d" % (tag, x.script["id"]))[x.script["id"]]
            if rj:
                fs.append((trace_key(rj, x.res, x.script), "not a behaviour of LiteClient: accepted %d of %d events; rejected event %s" % (
                    rj["accepted"], rj["length"], json.dumps(short(rj["event"])))))
        return fs, rj
    suspects = []
    for x in execs:
        fs = harness_findings(x)
        rj = verdicts.get(x.script["id"])
        if rj:
            fs.append((trace_key(rj, x.res, x.script), "not a behaviour of LiteClient: accepted %d of %d events; rejected event %s" % (
                rj["accepted"], rj["length"], json.dumps(short(rj["event"])))))
        if fs:
            suspects.append((x, fs, rj))
    naccepted = sum(1 for x in traced if not verdicts.get(x.script["id"]))
    nbare_ok = sum(1 for x in execs if x.script["mode"] == "bare" and x.res is not None and not harness_findings(x))
    unreproduced = []
    # one suspect per distinct key first (the cheapest execution that shows it), at most 8 in all; re-executed twice each, in parallel
    chosen, seen_keys = [], set()
    for x, fs, rj in sorted(suspects, key=lambda t: t[0].wall):
        ks = {k for k, _ in fs}
        if ks - seen_keys and len(chosen) < 8:
            chosen.append((x, fs, rj)); seen_keys |= ks
    reruns = vlib.parallel(lambda a: execute(ck, binary, a[0].script, "again%d" % a[1]), [(c[0], n) for c in chosen for n in (1, 2)], n=par)
    for ci, (x, fs, rj) in enumerate(chosen):
        again = reruns[2 * ci:2 * ci + 2]
        hits = {}
        for n, y in enumerate(again):
            fs2, rj2 = judge(y, "again%d" % n)
            for k, w in fs2:
                hits.setdefault(k, []).append((w, rj2, y))
        for k, w in fs:
            if k in hits:
                w2, rj2, y = hits[k][0]
                seg = (rj2 or rj or {}).get("segment")
                ck.report(k, "script %d (%s, %d callers x %d connections): %s [reproduced in %d of 2 re-executions]" % (
                    x.script["id"], x.script["cls"], x.script["ncalls"] + x.script["bg_callers"], x.script["nconns"], w, len(hits[k])),
                    {"kind": "execution", "script": x.script, "segment": seg, "rejected_index": (rj2 or rj or {}).get("accepted"),
                     "result": y.res, "stderr": y.stderr[-3000:]})
            else:
                unreproduced.append((x.script["id"], k, w))
    # a key that did not reproduce on its own execution but is an established violation of this run is not an open question
    unreproduced = [u for u in unreproduced if u[1] not in {v["key"] for v in ck.violations} and u[1] not in {k["key"] for k in ck.known_hit}]
    if len(suspects) > len(chosen):
        ck.notes.append("%d suspect executions in all, %d re-executed (one per distinct key first)" % (len(suspects), len(chosen)))
    ck.extra["executions"] = len(execs)
    ck.extra["traces_accepted"] = naccepted
    ck.extra["bare_ok"] = nbare_ok
    ck.extra["calls_total"] = sum((x.res or {}).get("ncalls", 0) for x in execs)
    ck.extra["answers_total"] = sum((x.res or {}).get("answers", 0) for x in execs)
    ck.extra["errors_total"] = sum((x.res or {}).get("errors", 0) for x in execs)
    rec = [x.res["recover_ms"] for x in execs if x.res and x.res.get("drops") and x.res.get("recovered")]
    if rec:
        ck.extra["recover_ms_max"] = max(rec)
        ck.extra["recover_ms_median"] = sorted(rec)[len(rec) // 2]
    sk = by_id.get(200000)
    if sk and sk.res and "census0" in sk.res:
        ck.extra["soak"] = {"calls": sk.res["ncalls"], "answers": sk.res["answers"], "census_before": sk.res["census0"], "census_after": sk.res["census1"]}
    for x in execs:
        if x.script.get("silence_ms") and x.res and "pkt_extra" in x.res:
            ck.notes.append("silence scenario %d: 10 s without a packet, reader held %d ms at its silence hook, one packet sent %d ms after expiry: "
                            "packet goroutines left behind = %d (%s); trace %s" % (x.script["id"], x.script["hold_us"] // 1000, x.script["hit_us"] // 1000,
                            x.res["pkt_extra"], x.res["stuck"][:120], "accepted" if not verdicts.get(x.script["id"]) else "rejected"))
    x0 = next((x for x in traced if "drop-mid" in x.script["cls"]), traced[0])
    ck.sample({"direction": "S->C", "script": {k: v for k, v in x0.script.items() if k in ("id", "cls", "ncalls", "nconns", "steps")}, "result":
               {k: v for k, v in (x0.res or {}).items() if k in ("answers", "errors", "recover_ms", "census0", "census1", "trace_events")}})
    ck.sample({"direction": "C->S", "events": [short(e, 60) for e in segments_of(x0.trace)[:12]]})

    # ---- canaries on one accepted execution
    def canaries():
        good = [x for x in traced if not verdicts.get(x.script["id"]) and x.res and x.res.get("answers", 0) >= 2 and not x.script.get("silence_ms")]
        if not good:
            raise Infra("no accepted execution with two answered calls to build canaries from")
        x = sorted(good, key=lambda x: x.res["trace_events"])[0]
        seg = segments_of(x.trace)
        ia = [i for i, e in enumerate(seg) if e["k"] == "ret.answer"]
        a, b = next((p, q) for p in ia for q in ia if seg[p]["h"] != seg[q]["h"])
        cans = []
        s = copy.deepcopy(seg); s[a]["h"], s[b]["h"] = s[b]["h"], s[a]["h"]
        cans.append(("C->S: the payloads of two answers swapped in the recorded trace", s, min(a, b)))
        for nm, kind in (("C->S: one hook event dropped (reg)", "reg"), ("C->S: one hook event dropped (lookup)", "lookup"),
                         ("C->S: one hook event dropped (unreg)", "unreg"), ("C->S: one server log entry dropped (srv.ans)", "srv.ans")):
            i = next(i for i, e in enumerate(seg) if e["k"] == kind and e.get("i", 1) > 0)
            s = copy.deepcopy(seg); del s[i]
            cans.append((nm, s, i))
        i = next(i for i, e in enumerate(seg) if e["k"] == "lookup" and e["found"] == 1)
        s = copy.deepcopy(seg); s[i]["found"] = 0
        cans.append(("C->S: logged lookup result flipped", s, i))
        s = copy.deepcopy(seg); s[-1]["gor"] = dict(s[-1]["gor"], pkt=s[-1]["gor"]["pkt"] + 1)
        cans.append(("C->S: one more packet goroutine in the census", s, len(s) - 1))
        # new clauses, on their own files (other connection counts / call counts)
        def own_canary(nm, segs, nconns, ncalls, want):
            cp2 = os.path.join(ck.work, "canary_%s.ndjson" % re.sub(r"\W+", "_", nm)[:40])
            vlib.write_ndjson(cp2, [e for sg in segs for e in sg] + [{"k": "End"}])
            st_, trn_, ok_, evn_ = ck.states, ck.transitions, ck.traces_ok, ck.evaluations
            _, rej2 = ck.validate_segments("LiteClient_Trace", trace_cfg(ck, nconns, ncalls), cp2, name="canary_" + re.sub(r"\W+", "_", nm)[:20], heap_gb=4)
            ck.states, ck.transitions, ck.traces_ok, ck.evaluations = st_, trn_, ok_, evn_
            acc = {}
            base2 = 1
            for sg in segs:
                mine2 = [r for r in rej2 if r["seg"] == base2]
                acc[base2] = mine2[0]["accepted"] if mine2 else len(sg)
                base2 += len(sg)
            ck.canary(nm, list(acc.values()) == want)
        # (a) silence: a reader that took a pong at t = 100 ms may not take the silence branch at 5 s; at 10.15 s it may
        def sil(tm):
            return [{"k": "Reset", "id": 0, "cls": "canary", "nconns": 1, "ncalls": 0, "timeout": 300, "scripted": 0, "drops": 0},
                    {"k": "srv.pong", "c": 1, "g": 1, "seq": 1, "t": 100}, {"k": "cr.pong", "c": 1, "g": 1, "ok": 0, "seq": 2, "t": 100},
                    {"k": "cr.silence", "c": 1, "g": 1, "seq": 3, "t": tm}]
        own_canary("C->S: silence branch 4.9 s after a pong (rejected) / 10.05 s after it (accepted)", [sil(5000), sil(10150)], 1, 1, [3, 4])
        # (b) the caller's own deadline: a call that returned a timeout at its 300 ms context deadline is not justified if its limit were later
        cx = next((y for y in traced if y.script["plan"] == "ctx" and not verdicts.get(y.script["id"]) and y.trace), None)
        if cx is None:
            raise Infra("no accepted execution with caller contexts to build the deadline canary from")
        sg = segments_of(cx.trace)
        tcall = next(e["i"] for e in sg if e["k"] == "ret.timeout" and any(c["k"] == "call" and c["i"] == e["i"] and "dl" in c for c in sg))
        s1 = copy.deepcopy(sg)
        for e in s1:
            if e["k"] == "call" and e["i"] == tcall:
                e["dl"] = e["dl"] + 1500
        s2 = copy.deepcopy(sg)
        vic = next(e["i"] for e in s2 if e["k"] == "call" and "dl" not in e and e["i"] <= cx.script["ncalls"] and
                   not any(a["k"] == "ret.answer" and a["i"] == e["i"] for a in s2))
        for e in s2:
            if e["k"] == "call" and e["i"] == vic:
                e["dl"] = 300          # had it had a 300 ms deadline, returning at the client timeout would be too late
        i1 = next(i for i, e in enumerate(s1) if e["k"] == "ret.timeout" and e["i"] == tcall)
        cp3 = os.path.join(ck.work, "canary_ctx.ndjson")
        vlib.write_ndjson(cp3, s1 + s2 + [{"k": "End"}])
        st_, trn_, ok_, evn_ = ck.states, ck.transitions, ck.traces_ok, ck.evaluations
        _, rej3 = ck.validate_segments("LiteClient_Trace", trace_cfg(ck, cx.script["nconns"], sg[0]["ncalls"]), cp3, name="canary_ctx", heap_gb=4)
        ck.states, ck.transitions, ck.traces_ok, ck.evaluations = st_, trn_, ok_, evn_
        m1 = [r for r in rej3 if r["seg"] == 1]
        m2 = [r for r in rej3 if r["seg"] == 1 + len(s1)]
        ck.canary("C->S: a timeout returned 1.5 s before the call's (raised) limit", len(m1) == 1 and m1[0]["accepted"] == i1)
        ck.canary("C->S: a call given a 300 ms limit that returns at the client timeout", len(m2) == 1 and m2[0]["accepted"] < len(s2) - 1)
        cp = os.path.join(ck.work, "canary_trace.ndjson")
        vlib.write_ndjson(cp, [e for _, s, _ in cans for e in s] + [{"k": "End"}])
        st, trn, ok, evn = ck.states, ck.transitions, ck.traces_ok, ck.evaluations
        _, rej = ck.validate_segments("LiteClient_Trace", trace_cfg(ck, x.script["nconns"], seg[0]["ncalls"]), cp, name="canary", heap_gb=4)
        ck.states, ck.transitions, ck.traces_ok, ck.evaluations = st, trn, ok, evn
        base = 1
        for nm, s, first in cans:
            mine = [r for r in rej if r["seg"] == base]
            ck.canary(nm, len(mine) == 1 and mine[0]["accepted"] >= first)
            base += len(s)
        # harness-side canary: a server that answers call 1 with call 2's bytes must be flagged by the payload assertion and by TLC
    try:
        canaries()
    except Infra as e:
        if not ck.violations:
            raise
        ck.notes.append("canaries skipped after violations were found: %s" % str(e)[:200])
    if unreproduced and not ck.violations:
        raise Infra("observed once and not when re-executed twice (not a verdict): " + "; ".join("script %d %s: %s" % (i, k, w[:200]) for i, k, w in unreproduced[:4]))
    for i, k, w in unreproduced:
        ck.notes.append("not reproduced: script %d %s: %s" % (i, k, w[:200]))
    return ck.finish(rule=RULE, distinct=naccepted + nbare_ok)


# --------------------------------------------------------------------------------------------- replay
def replay(ck, path):
    """Re-judge the stored segment with TLC and re-execute the stored script against the current tree."""
    rp = json.load(open(path))["replay"]
    binary, _ = build_race(ck)
    rc = 0
    if rp.get("segment"):
        tp = os.path.join(ck.work, "stored.ndjson")
        vlib.write_ndjson(tp, rp["segment"] + [{"k": "End"}])
        _, rej = ck.validate_segments("LiteClient_Trace", trace_cfg(ck, rp["segment"][0]["nconns"], rp["segment"][0]["ncalls"]), tp, name="stored")
        for rj in rej:
            print("LiteClient_Trace rejects the stored execution at event %d of %d: %s" % (rj["accepted"], rj["length"], json.dumps(short(rj["event"]))))
    if rp.get("script"):
        for n in range(2):
            x = execute(ck, binary, rp["script"], "replay%d" % n)
            fs = harness_findings(x)
            if x.res is None and not fs:
                raise Infra("re-execution failed (rc=%s):\n%s" % (x.rc, x.stderr[-2000:]))
            if x.script["mode"] == "traced" and x.trace and x.res is not None:
                rj = validate(ck, [x], "replay%d" % n)[x.script["id"]]
                if rj:
                    fs.append((trace_key(rj, x.res, x.script), "accepted %d of %d events; rejected event %s" % (rj["accepted"], rj["length"], json.dumps(short(rj["event"])))))
            print("re-execution %d: %s" % (n + 1, json.dumps({k: v for k, v in (x.res or {}).items() if k not in ("notes",)})))
            for k, w in fs:
                print("  %s: %s" % (k, w[:600]))
                rc = 1
    if rc:
        print("VIOLATION property=C12 replay=%s" % path)
    return rc
